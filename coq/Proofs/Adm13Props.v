(* C13: the clauses of the property, proved about adm_spec and transferred to generate_adms. *)
From Coq Require Import List NArith Bool Lia.
From FIM Require Import Gen.Adm13Gen Model.Adm13 Proofs.Adm13Gen Proofs.Adm13Spec.
Import ListNotations.
Open Scope N_scope.

(* ------------------------------------------------------------------ delegation maps *)
Lemma for_id_entries d o : NoDup (dkeys (entries o)) ->
  forall d' x, In (d', x) (entries (for_id_opt d o)) <-> d' = d /\ In (d, x) (entries o).
Proof.
  intros Hn d' x. destruct o as [m|]; simpl in *; [|tauto].
  unfold for_id, dget. destruct (assoc d m) as [y|] eqn:E; simpl.
  - split.
    + intros [H|[]]. inversion H; subst. split; [reflexivity|]. apply assoc_In. exact E.
    + intros [-> H]. left. apply (In_assoc _ _ _ Hn) in H. rewrite H in E. inversion E. reflexivity.
  - split; [intros []|]. intros [_ H]. apply assoc_None in E. apply E. apply (in_map fst) in H. exact H.
Qed.

Lemma for_id_only d o d' x : In (d', x) (entries (for_id_opt d o)) -> d' = d.
Proof.
  destruct o as [m|]; simpl; [|intros []]. unfold for_id. destruct (dget d m); simpl; [|intros []].
  intros [H|[]]. inversion H. reflexivity.
Qed.

Lemma restrict_restricted d n :
  NoDup (dkeys (entries (ldel n))) -> NoDup (dkeys (entries (cdel n))) -> restricted d n (restrict d n).
Proof.
  intros Hl Hc. unfold restricted, restrict. simpl.
  split; [reflexivity|]. split; [reflexivity|]. split; [reflexivity|]. split; [reflexivity|].
  split; intros d' x; apply for_id_entries; assumption.
Qed.

(* ------------------------------------------------------------------ membership in a partition *)
Lemma adm_node_ids A d : node_ids (adm_spec A d) = filter (fun i => memb i (keepset A d)) (node_ids A).
Proof.
  unfold adm_spec, node_ids. simpl. rewrite map_map. rewrite filter_map_comm.
  apply map_ext. intros n. reflexivity.
Qed.

Lemma adm_ids A d x : In x (node_ids (adm_spec A d)) <-> In x (node_ids A) /\ In x (keepset A d).
Proof. rewrite adm_node_ids, filter_In, memb_In. tauto. Qed.

Lemma adm_nodes A d n' : In n' (gnodes (adm_spec A d)) <->
  exists n, In n (gnodes A) /\ In (nid n) (keepset A d) /\ n' = restrict d n.
Proof.
  unfold adm_spec. simpl. rewrite in_map_iff. split.
  - intros [n [E H]]. apply filter_In in H. destruct H as [H1 H2]. apply memb_In in H2. exists n. auto.
  - intros [n [H1 [H2 E]]]. exists n. split; [auto|]. apply filter_In. split; [exact H1 | apply memb_In; exact H2].
Qed.

Lemma adm_edges A d e : In e (gedges (adm_spec A d)) <->
  In e (gedges A) /\ In (ea e) (keepset A d) /\ In (eb e) (keepset A d).
Proof. unfold adm_spec. simpl. rewrite filter_In, andb_true_iff, !memb_In. tauto. Qed.

Lemma NoDup_filter {A} (p : A -> bool) l : NoDup l -> NoDup (filter p l).
Proof.
  induction l as [|x l IH]; simpl; intros H; [constructor|]. inversion H; subst.
  destruct (p x); [constructor|]; auto. intros Hi. apply filter_In in Hi. tauto.
Qed.

(* ------------------------------------------------------------------ keep set *)
Lemma pair_ids_In x ps : In x (pair_ids ps) <-> exists p, In p ps /\ (x = fst p \/ x = snd p).
Proof.
  unfold pair_ids. rewrite in_flat_map. split.
  - intros [p [H1 H2]]. exists p. simpl in H2. intuition.
  - intros [p [H1 H2]]. exists p. simpl. intuition.
Qed.

Lemma keepset_from_In arm k0 x : In x (keepset_from arm k0) <->
  In x k0 \/
  (exists cp p, In cp (keep_cps0 arm k0) /\ In p (fsn4 arm cp trace_link) /\ (x = fst p \/ x = snd p)) \/
  (exists cp t p, In cp (keep_cps0 arm k0 ++ map snd (link_pairs arm (keep_cps0 arm k0))) /\ In t trace_owner /\
                  In p (fsn4 arm cp t) /\ (x = fst p \/ x = snd p)).
Proof.
  unfold keepset_from. rewrite !in_app_iff, !pair_ids_In. unfold link_pairs, owner_pairs.
  split.
  - intros [[H|[p [H1 H2]]]|[p [H1 H2]]].
    + left. exact H.
    + right. left. apply in_flat_map in H1. destruct H1 as [cp [Hc Hp]]. exists cp, p. auto.
    + right. right. apply in_flat_map in H1. destruct H1 as [cp [Hc Hp]]. apply in_flat_map in Hp.
      destruct Hp as [t [Ht Hp]]. exists cp, t, p. auto.
  - intros [H|[[cp [p [Hc [Hp Hx]]]]|[cp [t [p [Hc [Ht [Hp Hx]]]]]]]].
    + left. left. exact H.
    + left. right. exists p. split; [|exact Hx]. apply in_flat_map. exists cp. auto.
    + right. exists p. split; [|exact Hx]. apply in_flat_map. exists cp. split; [exact Hc|].
      apply in_flat_map. exists t. auto.
Qed.

Lemma keep0_In A d x : In x (keep0 A (catalog_delegations A) (stitch_nodes A) d) <->
  exists n, In n (gnodes A) /\ nid n = x /\ (delegated d n \/ is_stitch n = true).
Proof.
  unfold keep0. rewrite in_app_iff, keep_of_In. unfold stitch_nodes. rewrite in_map_iff. split.
  - intros [[n [H1 [H2 H3]]]|[n [H1 H2]]].
    + exists n. auto.
    + apply filter_In in H2. exists n. tauto.
  - intros [n [H1 [H2 [H3|H3]]]].
    + left. exists n. auto.
    + right. exists n. split; [exact H2|]. apply filter_In. auto.
Qed.

Lemma nodes_by_class_In g l x : In x (nodes_by_class g l) <-> exists n, In n (gnodes g) /\ nid n = x /\ ncls n = l.
Proof.
  unfold nodes_by_class. rewrite in_map_iff. split.
  - intros [n [E H]]. apply filter_In in H. destruct H as [H1 H2]. apply N.eqb_eq in H2. exists n. auto.
  - intros [n [H1 [H2 H3]]]. exists n. split; [exact H2|]. apply filter_In. split; [exact H1|]. apply N.eqb_eq. exact H3.
Qed.

Lemma keep_cps0_In arm k0 x : In x (keep_cps0 arm k0) <->
  In x k0 /\ exists n, In n (gnodes arm) /\ nid n = x /\ ncls n = cp_label.
Proof. unfold keep_cps0. rewrite filter_In, memb_In, nodes_by_class_In. tauto. Qed.

(* ------------------------------------------------------------------ get_first_and_second_neighbor *)
Lemma nbrs_In g e x y : In e (gedges g) -> joins e x y -> In (y, ecls e) (nbrs g x).
Proof.
  intros Hi Hj. unfold nbrs. apply in_flat_map. exists e. split; [exact Hi|].
  destruct Hj as [[Ha Hb]|[Ha Hb]].
  - rewrite Ha, N.eqb_refl, Hb. left. reflexivity.
  - destruct (ea e =? x) eqn:E.
    + apply N.eqb_eq in E. left. congruence.
    + rewrite Hb, N.eqb_refl, Ha. left. reflexivity.
Qed.

Lemma filter_label_In g l ids i : In i (filter_label g l ids) <-> In i ids /\ cls_of g i = Some l.
Proof.
  unfold filter_label. rewrite filter_In. destruct (cls_of g i) as [c|]; split; intros [H1 H2]; split; auto; try discriminate.
  - apply N.eqb_eq in H2. congruence.
  - inversion H2. apply N.eqb_refl.
Qed.

Lemma removeN_In x y l : In y (removeN x l) <-> In y l /\ y <> x.
Proof. unfold removeN. rewrite filter_In, negb_true_iff, N.eqb_neq. tauto. Qed.

Lemma second_of_In g rel2 n k e : In e (gedges g) -> joins e n k -> ecls e = rel2 -> k <> n ->
  In k (second_of g rel2 n).
Proof.
  intros Hi Hj Hc Hne. pose proof (nbrs_In g e n k Hi Hj) as Hn. unfold second_of.
  destruct fsn_rel2_effective.
  - apply in_map_iff. exists (k, ecls e). split; [reflexivity|]. apply filter_In. split; [exact Hn|].
    simpl. apply N.eqb_eq. exact Hc.
  - assert (Hk : In k (map fst (nbrs g n))) by (apply in_map_iff; exists (k, ecls e); auto).
    destruct (existsb _ _); [apply removeN_In; auto | exact Hk].
Qed.

Lemma fsn_complete g x rel1 l1 rel2 l2 n k e1 e2 :
  In e1 (gedges g) -> joins e1 x n -> ecls e1 = rel1 -> cls_of g n = Some l1 ->
  In e2 (gedges g) -> joins e2 n k -> ecls e2 = rel2 -> cls_of g k = Some l2 -> k <> x -> k <> n ->
  In (n, k) (fsn g x rel1 l1 rel2 l2).
Proof.
  intros Hi1 Hj1 Hc1 Hl1 Hi2 Hj2 Hc2 Hl2 Hx Hn. unfold fsn. apply in_flat_map. exists n. split.
  - apply filter_label_In. split; [|exact Hl1]. apply in_map_iff. exists (n, ecls e1). split; [reflexivity|].
    apply filter_In. split; [apply nbrs_In; assumption|]. simpl. apply N.eqb_eq. exact Hc1.
  - apply in_map_iff. exists k. split; [reflexivity|]. apply removeN_In. split; [|exact Hx].
    apply filter_label_In. split; [|exact Hl2]. apply (second_of_In g rel2 n k e2); assumption.
Qed.

Lemma fsn_classes g x rel1 l1 rel2 l2 p : In p (fsn g x rel1 l1 rel2 l2) ->
  cls_of g (fst p) = Some l1 /\ cls_of g (snd p) = Some l2.
Proof.
  unfold fsn. intros H. apply in_flat_map in H. destruct H as [n [Hn Hp]].
  apply filter_label_In in Hn. apply in_map_iff in Hp. destruct Hp as [k [E Hk]]. subst p. simpl.
  apply removeN_In in Hk. destruct Hk as [Hk _]. apply filter_label_In in Hk. tauto.
Qed.

(* ------------------------------------------------------------------ the clauses, on adm_spec *)
Section Clauses.
  Variable A : graph.
  Hypothesis Hw : wfb A = true.
  Variable d : N.
  Let P := adm_spec A d.

  Let Hnd : NoDup (node_ids A) := wfb_NoDup A Hw.

  Lemma k0_kept x : In x (keep0 A (catalog_delegations A) (stitch_nodes A) d) -> In x (keepset A d).
  Proof. intros H. unfold keepset. apply keepset_from_In. left. exact H. Qed.

  (* present, with exactly its own entries *)
  Lemma spec_present n : In n (gnodes A) -> delegated d n ->
    exists n', In n' (gnodes P) /\ restricted d n n'.
  Proof.
    intros Hi Hd. exists (restrict d n). split.
    - apply adm_nodes. exists n. split; [exact Hi|]. split; [|reflexivity].
      apply k0_kept. apply keep0_In. exists n. auto.
    - destruct (wfb_dmaps A n Hw Hi). apply restrict_restricted; assumption.
  Qed.

  (* every node of the partition comes from a node of A, same id and other properties, only d-entries *)
  Lemma spec_nodes n' : In n' (gnodes P) -> exists n, In n (gnodes A) /\ restricted d n n'.
  Proof.
    intros H. apply adm_nodes in H. destruct H as [n [Hi [_ ->]]]. exists n. split; [exact Hi|].
    destruct (wfb_dmaps A n Hw Hi). apply restrict_restricted; assumption.
  Qed.

  Lemma spec_no_leak n' d' x : In n' (gnodes P) ->
    In (d', x) (entries (ldel n')) \/ In (d', x) (entries (cdel n')) -> d' = d.
  Proof.
    intros H. apply adm_nodes in H. destruct H as [n [_ [_ ->]]]. unfold restrict. simpl.
    intros [H|H]; apply for_id_only in H; exact H.
  Qed.

  Lemma spec_edges e : In e (gedges P) <->
    In e (gedges A) /\ In (ea e) (node_ids P) /\ In (eb e) (node_ids P).
  Proof.
    unfold P. rewrite adm_edges, !adm_ids. split; [|tauto].
    intros [H1 [H2 H3]]. destruct (wfb_edges_in A Hw e H1). tauto.
  Qed.

  Lemma spec_ids_sub x : In x (node_ids P) -> In x (node_ids A).
  Proof. unfold P. rewrite adm_ids. tauto. Qed.

  Lemma spec_ids_NoDup : NoDup (node_ids P).
  Proof. unfold P. rewrite adm_node_ids. apply NoDup_filter. exact Hnd. Qed.

  Lemma spec_stitch n : In n (gnodes A) -> is_stitch n = true -> In (nid n) (node_ids P).
  Proof.
    intros Hi Hs. apply adm_ids. split; [apply in_map; exact Hi|].
    apply k0_kept. apply keep0_In. exists n. auto.
  Qed.

  (* closure, from an interface delegated to d (or a stitch interface): link and peers *)
  Lemma spec_closure_seed c l p e1 e2 :
    In c (gnodes A) -> ncls c = CLS_ConnectionPoint -> (delegated d c \/ is_stitch c = true) ->
    In l (gnodes A) -> ncls l = CLS_Link -> In e1 (gedges A) -> joins e1 (nid c) (nid l) -> ecls e1 = REL_connects ->
    In p (gnodes A) -> ncls p = CLS_ConnectionPoint -> In e2 (gedges A) -> joins e2 (nid l) (nid p) -> ecls e2 = REL_connects ->
    nid p <> nid c ->
    In (nid c) (node_ids P) /\ In (nid l) (node_ids P) /\ In (nid p) (node_ids P) /\ In e1 (gedges P) /\ In e2 (gedges P).
  Proof.
    intros Hc Hcc Hseed Hl Hlc He1 Hj1 Hr1 Hp Hpc He2 Hj2 Hr2 Hne.
    assert (K0 : In (nid c) (keep0 A (catalog_delegations A) (stitch_nodes A) d)) by (apply keep0_In; exists c; auto).
    assert (Kc : In (nid c) (keepset A d)) by (apply k0_kept; exact K0).
    assert (Hpair : In (nid l, nid p) (fsn4 A (nid c) trace_link)).
    { destruct gen_shape as [_ [-> _]]. unfold fsn4.
      apply (fsn_complete A (nid c) REL_connects CLS_Link REL_connects CLS_ConnectionPoint (nid l) (nid p) e1 e2); auto.
      - rewrite cls_of_unique by auto. congruence.
      - rewrite cls_of_unique by auto. congruence.
      - intros E. assert (p = l) by (apply (nodes_unique (gnodes A)); auto). subst p.
        rewrite Hlc in Hpc. discriminate. }
    assert (Kl : In (nid l) (keepset A d) /\ In (nid p) (keepset A d)).
    { unfold keepset. split; apply keepset_from_In; right; left; exists (nid c), (nid l, nid p);
        (split; [apply keep_cps0_In; split; [exact K0|]; exists c; destruct gen_shape as [-> _]; auto|]);
        split; auto. }
    destruct Kl as [Kl Kp].
    assert (Ic : In (nid c) (node_ids P)) by (apply adm_ids; split; [apply in_map|]; auto).
    assert (Il : In (nid l) (node_ids P)) by (apply adm_ids; split; [apply in_map|]; auto).
    assert (Ip : In (nid p) (node_ids P)) by (apply adm_ids; split; [apply in_map|]; auto).
    repeat split; auto; apply spec_edges; (split; [assumption|]).
    - destruct Hj1 as [[-> ->]|[-> ->]]; auto.
    - destruct Hj2 as [[-> ->]|[-> ->]]; auto.
  Qed.

  (* every connection point of the partition is among the traced connection points *)
  Lemma kept_cp_traced c : In c (gnodes A) -> ncls c = CLS_ConnectionPoint -> In (nid c) (keepset A d) ->
    let k0 := keep0 A (catalog_delegations A) (stitch_nodes A) d in
    In (nid c) (keep_cps0 A k0 ++ map snd (link_pairs A (keep_cps0 A k0))).
  Proof.
    intros Hc Hcc HK k0. unfold keepset in HK. fold k0 in HK. apply keepset_from_In in HK.
    assert (Hcls : cls_of A (nid c) = Some CLS_ConnectionPoint) by (rewrite cls_of_unique by auto; congruence).
    apply in_app_iff.
    destruct HK as [H|[[cp [p [Hcp [Hp Hx]]]]|[cp [t [p [Hcp [Ht [Hp Hx]]]]]]]].
    - left. apply keep_cps0_In. split; [exact H|]. exists c. destruct gen_shape as [-> _]. auto.
    - destruct gen_shape as [_ [E _]]. rewrite E in Hp. simpl in Hp. pose proof (fsn_classes _ _ _ _ _ _ _ Hp) as [F1 F2].
      destruct Hx as [Hx|Hx].
      + rewrite Hx in Hcls. rewrite F1 in Hcls. discriminate.
      + right. apply in_map_iff. exists p. split; [auto|]. unfold link_pairs. apply in_flat_map. exists cp.
        split; [exact Hcp|]. rewrite E. exact Hp.
    - exfalso. destruct gen_shape as [_ [_ [E _]]]. rewrite E in Ht.
      destruct Ht as [<-|[<-|[]]]; simpl in Hp; pose proof (fsn_classes _ _ _ _ _ _ _ Hp) as [F1 F2];
        destruct Hx as [Hx|Hx]; rewrite Hx in Hcls; (rewrite F1 in Hcls || rewrite F2 in Hcls); discriminate.
  Qed.

  (* closure, from ANY interface of the partition: owning service and that service's owner *)
  Lemma spec_closure_service c s o e1 e2 :
    In c (gnodes A) -> ncls c = CLS_ConnectionPoint -> In (nid c) (node_ids P) ->
    In s (gnodes A) -> ncls s = CLS_NetworkService -> In e1 (gedges A) -> joins e1 (nid c) (nid s) -> ecls e1 = REL_connects ->
    In o (gnodes A) -> (ncls o = CLS_NetworkNode \/ ncls o = CLS_Component) ->
    In e2 (gedges A) -> joins e2 (nid s) (nid o) -> ecls e2 = REL_has ->
    In (nid s) (node_ids P) /\ In (nid o) (node_ids P) /\ In e1 (gedges P) /\ In e2 (gedges P).
  Proof.
    intros Hc Hcc Hin Hs Hsc He1 Hj1 Hr1 Ho Hoc He2 Hj2 Hr2.
    apply adm_ids in Hin. destruct Hin as [_ HK].
    pose proof (kept_cp_traced c Hc Hcc HK) as Htr. cbv zeta in Htr.
    set (t := (REL_connects, CLS_NetworkService, REL_has, ncls o)).
    assert (Ht : In t trace_owner).
    { destruct gen_shape as [_ [_ [-> _]]]. unfold t. destruct Hoc as [->| ->]; simpl; auto. }
    assert (Hpair : In (nid s, nid o) (fsn4 A (nid c) t)).
    { unfold t, fsn4.
      apply (fsn_complete A (nid c) REL_connects CLS_NetworkService REL_has (ncls o) (nid s) (nid o) e1 e2); auto.
      - rewrite cls_of_unique by auto. congruence.
      - rewrite cls_of_unique by auto. reflexivity.
      - intros E. assert (o = c) by (apply (nodes_unique (gnodes A)); auto). subst o.
        rewrite Hcc in Hoc. destruct Hoc; discriminate.
      - intros E. assert (o = s) by (apply (nodes_unique (gnodes A)); auto). subst o.
        rewrite Hsc in Hoc. destruct Hoc; discriminate. }
    assert (Ks : In (nid s) (keepset A d) /\ In (nid o) (keepset A d)).
    { unfold keepset. split; apply keepset_from_In; right; right; exists (nid c), t, (nid s, nid o); auto. }
    destruct Ks as [Ks Ko].
    assert (Ic : In (nid c) (node_ids P)) by (apply adm_ids; split; [apply in_map|]; auto).
    assert (Is : In (nid s) (node_ids P)) by (apply adm_ids; split; [apply in_map|]; auto).
    assert (Io : In (nid o) (node_ids P)) by (apply adm_ids; split; [apply in_map|]; auto).
    repeat split; auto; apply spec_edges; (split; [assumption|]).
    - destruct Hj1 as [[-> ->]|[-> ->]]; auto.
    - destruct Hj2 as [[-> ->]|[-> ->]]; auto.
  Qed.
End Clauses.

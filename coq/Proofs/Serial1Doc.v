(* C01 proofs, GraphML document layer: write -> (text journeys) -> networkx_to_neo4j -> read. *)
From Coq Require Import String.
From Coq Require Import List NArith ZArith Bool Lia.
From Coq Require Import DecimalString.
From FIM Require Import Base.Str Model.Serial1Text Model.Serial1Graph Proofs.Serial1Text.
Import ListNotations.

(* ---------- small list facts ---------- *)
Lemma opt_list_ext {A B} (f g : A -> option B) l :
  (forall x, In x l -> f x = g x) -> opt_list f l = opt_list g l.
Proof.
  induction l as [|x l IH]; intro H; [reflexivity|]. simpl.
  rewrite (H x (or_introl eq_refl)), IH; [reflexivity|]. intros y Hy. apply H. right. exact Hy.
Qed.

Lemma opt_list_Forall2 {A B} (f : A -> option B) (R : A -> B -> Prop) l :
  forall l', Forall2 (fun x y => f x = Some y) l l' -> opt_list f l = Some l'.
Proof.
  induction l as [|x l IH]; intros l' H; inversion H; subst; [reflexivity|].
  simpl. rewrite H2. rewrite (IH _ H4). reflexivity.
Qed.

Lemma opt_list_id {A} (f : A -> option A) l : (forall x, In x l -> f x = Some x) -> opt_list f l = Some l.
Proof.
  induction l as [|x l IH]; intro H; [reflexivity|]. simpl.
  rewrite (H x (or_introl eq_refl)), IH; [reflexivity|]. intros y Hy. apply H. right. exact Hy.
Qed.

(* ---------- decidable equalities ---------- *)
Lemma vty_eqb_eq a b : vty_eqb a b = true <-> a = b.
Proof. destruct a, b; simpl; split; intro H; congruence. Qed.
Lemma scope_eqb_eq a b : scope_eqb a b = true <-> a = b.
Proof. destruct a, b; simpl; split; intro H; congruence. Qed.
Lemma kent_eqb_eq a b : kent_eqb a b = true <-> a = b.
Proof.
  destruct a as [[n1 t1] s1], b as [[n2 t2] s2]. simpl. rewrite !andb_true_iff, N.eqb_eq, vty_eqb_eq, scope_eqb_eq.
  split; [intros [[-> ->] ->]; reflexivity | intro H; inversion H; auto].
Qed.
Lemma kent_eqb_refl a : kent_eqb a a = true.
Proof. apply kent_eqb_eq. reflexivity. Qed.

(* ---------- values ---------- *)
Lemma str_of_Z_nonnil z : str_of_Z z <> [].
Proof. intro H. pose proof (Z_of_str_of_Z z) as R. rewrite H in R. vm_compute in R. discriminate. Qed.

Lemma read_value_text v : read_value (ty_of v) (text_of v) = Some v.
Proof.
  destruct v as [s|z|b]; cbn [ty_of text_of].
  - destruct s; reflexivity.
  - unfold read_value. destruct (str_of_Z z) eqn:E; [exfalso; exact (str_of_Z_nonnil z E)|].
    rewrite <- E, Z_of_str_of_Z. reflexivity.
  - destruct b; reflexivity.
Qed.

Definition dec_char (c : N) : bool := ((48 <=? c) && (c <=? 57) || (c =? 45))%N.

Lemma dec_char_legal c : dec_char c = true -> xml_legal_char c = true /\ negb (c =? 13)%N = true.
Proof. unfold dec_char, xml_legal_char. intro H. split; lia. Qed.

Lemma nilempty_uint_chars u : forallb dec_char (of_string (NilEmpty.string_of_uint u)) = true.
Proof. induction u; simpl; try exact IHu; reflexivity. Qed.

Lemma nilzero_uint_chars u : forallb dec_char (of_string (NilZero.string_of_uint u)) = true.
Proof. destruct u; try apply nilempty_uint_chars. reflexivity. Qed.

Lemma str_of_Z_chars z : forallb dec_char (str_of_Z z) = true.
Proof.
  unfold str_of_Z. destruct (Z.to_int z) as [d|d]; simpl NilZero.string_of_int.
  - apply nilzero_uint_chars.
  - pose proof (nilzero_uint_chars d) as H. unfold of_string in *.
    cbn [list_ascii_of_string map forallb]. rewrite H. reflexivity.
Qed.

Lemma str_of_Z_legal z : xml_legal (str_of_Z z) = true.
Proof.
  pose proof (str_of_Z_chars z) as H. revert H. apply forallb_impl. intros x Hx. apply dec_char_legal, Hx.
Qed.

Lemma text_of_legal v : val_legal v = true -> xml_legal (text_of v) = true.
Proof.
  destruct v as [s|z|b]; simpl; intro H; [exact H| apply str_of_Z_legal | destruct b; reflexivity].
Qed.

(* the journey of a value's text from the writer to the reader *)
Theorem value_roundtrip v : val_legal v = true ->
  match text_trip (text_of v) with Some t => read_value (ty_of v) t | None => None end = Some v.
Proof.
  intro L. rewrite text_trip_legal by (apply text_of_legal, L). apply read_value_text.
Qed.

(* ---------- the key table ---------- *)
Lemma index_of_nth k tbl : forall i, index_of k tbl = Some i -> nth_error tbl i = Some k.
Proof.
  induction tbl as [|k' r IH]; intros i H; [discriminate|]. simpl in H.
  destruct (kent_eqb k' k) eqn:E.
  - injection H as <-. apply kent_eqb_eq in E. subst. reflexivity.
  - destruct (index_of k r) eqn:E2; [|discriminate]. injection H as <-. simpl. apply IH. reflexivity.
Qed.

Lemma index_of_none k tbl : index_of k tbl = None -> ~ In k tbl.
Proof.
  induction tbl as [|k' r IH]; intros H; [intros []|]. simpl in H.
  destruct (kent_eqb k' k) eqn:E; [discriminate|].
  destruct (index_of k r) eqn:E2; [discriminate|].
  intros [->|Hin]; [rewrite kent_eqb_refl in E; discriminate | exact (IH eq_refl Hin)].
Qed.

Definition extends (t t' : list kent) : Prop := exists ext, t' = t ++ ext.
Lemma extends_refl t : extends t t. Proof. exists []. rewrite app_nil_r. reflexivity. Qed.
Lemma extends_trans a b c : extends a b -> extends b c -> extends a c.
Proof. intros [x ->] [y ->]. exists (x ++ y). rewrite app_assoc. reflexivity. Qed.
Lemma extends_nth t t' i k : extends t t' -> nth_error t i = Some k -> nth_error t' i = Some k.
Proof.
  intros [x ->] H. rewrite nth_error_app1; [exact H|]. apply nth_error_Some. congruence.
Qed.

(* table invariant: no duplicate declarations, and Class is only ever declared as a string *)
Definition tbl_ok (t : list kent) : Prop :=
  NoDup t /\ forall ty sc, In (P_Class, ty, sc) t -> ty = TString.

Lemma NoDup_snoc {A} (l : list A) x : NoDup l -> ~ In x l -> NoDup (l ++ [x]).
Proof.
  induction l as [|y l IH]; intros ND NI; simpl.
  - constructor; [intros []|constructor].
  - inversion ND; subst. constructor.
    + intro H. apply in_app_or in H as [H|[<-|[]]]; [contradiction|]. apply NI. left. reflexivity.
    + apply IH; [assumption|]. intro H. apply NI. right. exact H.
Qed.

Lemma get_key_spec tbl k tbl' i : get_key tbl k = (tbl', i) ->
  extends tbl tbl' /\ nth_error tbl' i = Some k /\ (forall x, In x tbl' -> In x tbl \/ x = k) /\ (NoDup tbl -> NoDup tbl').
Proof.
  unfold get_key. destruct (index_of k tbl) eqn:E; intro H; inversion H; subst.
  - split; [apply extends_refl|]. split; [apply index_of_nth, E|]. split; auto.
  - split; [exists [k]; reflexivity|]. split.
    + rewrite nth_error_app2 by lia. rewrite Nat.sub_diag. reflexivity.
    + split.
      * intros x Hx. apply in_app_or in Hx as [Hx|[<-|[]]]; auto.
      * intro ND. apply NoDup_snoc; [exact ND | apply index_of_none, E].
Qed.

(* ---------- what the writer produces ---------- *)
Definition dspec (T : list kent) (sc : scope) (d : delem) (kv : pname * pval) : Prop :=
  nth_error T (d_key d) = Some (fst kv, ty_of (snd kv), sc) /\ d_text d = text_of (snd kv).
Definition nspec (T : list kent) (lab : props -> option str) (n : dnode) (gn : gnode) : Prop :=
  n_id n = fst gn /\ n_labels n = lab (snd gn) /\ Forall2 (dspec T ForNode) (n_data n) (snd gn).
Definition espec (T : list kent) (lab : props -> option str) (e : dedge) (ge : gedge) : Prop :=
  e_src e = fst (fst ge) /\ e_tgt e = snd (fst ge) /\ e_label e = lab (snd ge)
  /\ Forall2 (dspec T ForEdge) (e_data e) (snd ge).
Definition doc_spec (labn labe : props -> option str) (d : doc) (g : nxg) : Prop :=
  Forall2 (nspec (d_keys d) labn) (d_nodes d) (g_nodes g)
  /\ Forall2 (espec (d_keys d) labe) (d_edges d) (g_edges g).

Definition no_lab (ps : props) : option str := None.
Definition node_lab (ps : props) : option str :=
  match pget P_Class ps with Some v => Some (graphnode_prefix ++ text_of v) | None => None end.
Definition edge_lab (ps : props) : option str :=
  match pget P_Class ps with Some v => Some (text_of v) | None => None end.

Definition class_tbl_ok (t : list kent) : Prop := forall ty sc, In (P_Class, ty, sc) t -> ty = TString.

Lemma write_data_spec sc ps : forall tbl tbl' ds, write_data sc tbl ps = (tbl', ds) ->
  extends tbl tbl'
  /\ (forall T, extends tbl' T -> Forall2 (dspec T sc) ds ps)
  /\ (forall x, In x tbl' -> In x tbl \/ exists kv, In kv ps /\ x = (fst kv, ty_of (snd kv), sc))
  /\ (NoDup tbl -> NoDup tbl').
Proof.
  induction ps as [|[n v] r IH]; intros tbl tbl' ds H; simpl in H.
  - inversion H; subst. split; [apply extends_refl|]. split; [constructor|]. split; auto.
  - destruct (get_key tbl (n, ty_of v, sc)) as [tbl1 i] eqn:G.
    destruct (write_data sc tbl1 r) as [tbl2 ds2] eqn:W. inversion H; subst. clear H.
    destruct (get_key_spec _ _ _ _ G) as (E1 & N1 & I1 & D1).
    destruct (IH _ _ _ W) as (E2 & F2 & I2 & D2).
    split; [apply (extends_trans _ tbl1); assumption|]. split; [|split].
    + intros T ET. constructor; [|apply F2, ET].
      split; [|reflexivity]. simpl. apply (extends_nth tbl1 T); [apply (extends_trans _ tbl'); assumption|exact N1].
    + intros x Hx. destruct (I2 x Hx) as [Hx1|(kv & Hkv & ->)].
      * destruct (I1 x Hx1) as [Hx0| ->]; [left; exact Hx0|]. right. exists (n, v). split; [left; reflexivity|reflexivity].
      * right. exists kv. split; [right; exact Hkv|reflexivity].
    + intro ND. apply D2, D1, ND.
Qed.

Lemma class_str_In ps kv : class_str ps = true -> In kv ps -> fst kv = P_Class -> ty_of (snd kv) = TString.
Proof.
  unfold class_str. rewrite forallb_forall. intros H Hin E. specialize (H kv Hin).
  destruct kv as [k v]. simpl in *. subst k. change (P_Class =? P_Class)%N with true in H. simpl in H.
  destruct v; [reflexivity|discriminate|discriminate].
Qed.

Lemma write_data_class sc ps tbl tbl' ds : write_data sc tbl ps = (tbl', ds) ->
  class_str ps = true -> class_tbl_ok tbl -> class_tbl_ok tbl'.
Proof.
  intros W CS OK ty sc' Hin. destruct (write_data_spec _ _ _ _ _ W) as (_ & _ & I & _).
  destruct (I _ Hin) as [H|(kv & Hkv & E)]; [eapply OK; exact H|].
  inversion E; subst. apply (class_str_In ps kv CS Hkv). congruence.
Qed.

Lemma write_nodes_spec ns : forall tbl tbl' out, write_nodes tbl ns = (tbl', out) ->
  extends tbl tbl'
  /\ (forall T, extends tbl' T -> Forall2 (nspec T no_lab) out ns)
  /\ (NoDup tbl -> NoDup tbl')
  /\ (Forall (fun n => class_str (snd n) = true) ns -> class_tbl_ok tbl -> class_tbl_ok tbl').
Proof.
  induction ns as [|[k ps] r IH]; intros tbl tbl' out H; simpl in H.
  - inversion H; subst. split; [apply extends_refl|]. split; [constructor|]. split; auto.
  - destruct (write_data ForNode tbl ps) as [tbl1 ds] eqn:W.
    destruct (write_nodes tbl1 r) as [tbl2 out2] eqn:W2. inversion H; subst. clear H.
    destruct (write_data_spec _ _ _ _ _ W) as (E1 & F1 & _ & D1).
    destruct (IH _ _ _ W2) as (E2 & F2 & D2 & C2).
    split; [apply (extends_trans _ tbl1); assumption|]. split; [|split].
    + intros T ET. constructor; [|apply F2, ET].
      split; [reflexivity|]. split; [reflexivity|]. simpl. apply F1. apply (extends_trans _ tbl'); assumption.
    + intro ND. apply D2, D1, ND.
    + intros FA OK. inversion FA; subst. apply C2; [assumption|].
      eapply write_data_class; eassumption.
Qed.

Lemma write_edges_spec es : forall tbl tbl' out, write_edges tbl es = (tbl', out) ->
  extends tbl tbl'
  /\ (forall T, extends tbl' T -> Forall2 (espec T no_lab) out es)
  /\ (NoDup tbl -> NoDup tbl')
  /\ (Forall (fun e => class_str (snd e) = true) es -> class_tbl_ok tbl -> class_tbl_ok tbl').
Proof.
  induction es as [|[[u v] ps] r IH]; intros tbl tbl' out H; simpl in H.
  - inversion H; subst. split; [apply extends_refl|]. split; [constructor|]. split; auto.
  - destruct (write_data ForEdge tbl ps) as [tbl1 ds] eqn:W.
    destruct (write_edges tbl1 r) as [tbl2 out2] eqn:W2. inversion H; subst. clear H.
    destruct (write_data_spec _ _ _ _ _ W) as (E1 & F1 & _ & D1).
    destruct (IH _ _ _ W2) as (E2 & F2 & D2 & C2).
    split; [apply (extends_trans _ tbl1); assumption|]. split; [|split].
    + intros T ET. constructor; [|apply F2, ET].
      split; [reflexivity|]. split; [reflexivity|]. split; [reflexivity|]. simpl. apply F1. apply (extends_trans _ tbl'); assumption.
    + intro ND. apply D2, D1, ND.
    + intros FA OK. inversion FA; subst. apply C2; [assumption|].
      eapply write_data_class; eassumption.
Qed.

Definition all_class_str (g : nxg) : Prop :=
  Forall (fun n => class_str (snd n) = true) (g_nodes g) /\ Forall (fun e => class_str (snd e) = true) (g_edges g).

Lemma write_spec g : all_class_str g ->
  doc_spec no_lab no_lab (write g) g /\ NoDup (d_keys (write g)) /\ class_tbl_ok (d_keys (write g)).
Proof.
  intros [CN CE]. unfold write.
  destruct (write_nodes [] (g_nodes g)) as [t1 ns] eqn:WN.
  destruct (write_edges t1 (g_edges g)) as [t2 es] eqn:WE.
  destruct (write_nodes_spec _ _ _ _ WN) as (E1 & F1 & D1 & C1).
  destruct (write_edges_spec _ _ _ _ WE) as (E2 & F2 & D2 & C2).
  split; [split; simpl|split; simpl].
  - apply F1, E2.
  - apply F2, extends_refl.
  - apply D2, D1. constructor.
  - apply C2; [exact CE|]. apply C1; [exact CN|]. intros ty sc [].
Qed.

(* ---------- text journeys over a whole document ---------- *)
Definition props_legal (ps : props) : Prop := forall kv, In kv ps -> val_legal (snd kv) = true.
Definition graph_legal (g : nxg) : Prop :=
  (forall n, In n (g_nodes g) -> props_legal (snd n)) /\ (forall e, In e (g_edges g) -> props_legal (snd e)).

Lemma delem_eta d : {| d_key := d_key d; d_text := d_text d |} = d.
Proof. destruct d; reflexivity. Qed.
Lemma dnode_eta n : {| n_id := n_id n; n_labels := n_labels n; n_data := n_data n |} = n.
Proof. destruct n; reflexivity. Qed.
Lemma dedge_eta e : {| e_src := e_src e; e_tgt := e_tgt e; e_label := e_label e; e_data := e_data e |} = e.
Proof. destruct e; reflexivity. Qed.
Lemma doc_eta d : {| d_keys := d_keys d; d_nodes := d_nodes d; d_edges := d_edges d |} = d.
Proof. destruct d; reflexivity. Qed.

Lemma Forall2_In_l {A B} (R : A -> B -> Prop) l l2 x : Forall2 R l l2 -> In x l -> exists y, In y l2 /\ R x y.
Proof.
  intro F. induction F as [|a b l l2 Hab _ IH]; intros [].
  - subst. exists b. split; [left; reflexivity|exact Hab].
  - destruct (IH H) as (y & Hy & Ry). exists y. split; [right; exact Hy|exact Ry].
Qed.

(* a journey that returns every legal text unchanged leaves the data elements of legal values alone *)
Lemma tr_data_id (f : str -> option str) T sc ds ps :
  (forall t, xml_legal t = true -> f t = Some t) -> props_legal ps -> Forall2 (dspec T sc) ds ps ->
  opt_list (tr_delem f) ds = Some ds.
Proof.
  intros Hf L F. apply opt_list_id. intros d Hd.
  destruct (Forall2_In_l _ _ _ _ F Hd) as (kv & Hkv & (_ & X)).
  unfold tr_delem. rewrite X, Hf by (apply text_of_legal, L, Hkv). rewrite <- X. rewrite delem_eta. reflexivity.
Qed.

Lemma transport_in_id d g : doc_spec no_lab no_lab d g -> graph_legal g ->
  transport text_in no_attr d = Some d.
Proof.
  intros [FN FE] [LN LE]. unfold transport.
  rewrite (opt_list_id (tr_node text_in no_attr) (d_nodes d)).
  - rewrite (opt_list_id (tr_edge text_in no_attr) (d_edges d)); [rewrite doc_eta; reflexivity|].
    intros e He. destruct (Forall2_In_l _ _ _ _ FE He) as (ge & Hge & (_ & _ & L & D)).
    unfold tr_edge. rewrite L. unfold no_lab at 1. simpl.
    rewrite (tr_data_id text_in _ _ _ _ text_in_legal (LE _ Hge) D).
    replace None with (e_label e) by exact L. rewrite dedge_eta. reflexivity.
  - intros n Hn. destruct (Forall2_In_l _ _ _ _ FN Hn) as (gn & Hgn & (_ & L & D)).
    unfold tr_node. rewrite L. unfold no_lab at 1. simpl.
    rewrite (tr_data_id text_in _ _ _ _ text_in_legal (LN _ Hgn) D).
    replace None with (n_labels n) by exact L. rewrite dnode_eta. reflexivity.
Qed.

(* ---------- networkx_to_neo4j ---------- *)
Lemma find_class_key_spec sc T : forall j ty0, nth_error T j = Some (P_Class, ty0, sc) ->
  exists i ty, find_class_key sc T = Some i /\ nth_error T i = Some (P_Class, ty, sc).
Proof.
  induction T as [|[[n t] s] r IH]; intros j ty0 H; [destruct j; discriminate|]. simpl.
  destruct (N.eqb n P_Class && scope_eqb s sc) eqn:E.
  - apply andb_true_iff in E as [E1 E2]. apply N.eqb_eq in E1. apply scope_eqb_eq in E2. subst.
    exists O, t. split; reflexivity.
  - destruct j as [|j].
    + simpl in H. inversion H; subst. rewrite N.eqb_refl in E. simpl in E.
      assert (scope_eqb sc sc = true) by (apply scope_eqb_eq; reflexivity). congruence.
    + simpl in H. destruct (IH _ _ H) as (i & ty & F & Nt). rewrite F. exists (Datatypes.S i), ty. split; [reflexivity|exact Nt].
Qed.

Lemma dspec_pget T sc ds : forall ps k v, Forall2 (dspec T sc) ds ps -> pget k ps = Some v ->
  exists j, nth_error T j = Some (k, ty_of v, sc).
Proof.
  induction ds as [|d ds IH]; intros ps k v F H; inversion F; subst; [discriminate|].
  destruct y as [k' v']. simpl in H. destruct (N.eqb_spec k' k) as [->|NE].
  - inversion H; subst. destruct H2 as [K _]. exists (d_key d). exact K.
  - eapply IH; eassumption.
Qed.

Lemma NoDup_nth_eq {A} (l : list A) i j x : NoDup l -> nth_error l i = Some x -> nth_error l j = Some x -> i = j.
Proof.
  intros ND Hi Hj. apply (proj1 (NoDup_nth_error l) ND).
  - apply nth_error_Some. congruence.
  - congruence.
Qed.

(* the first data element carrying key i is the one of the first Class entry *)
Lemma find_class_data T sc i : nth_error T i = Some (P_Class, TString, sc) -> NoDup T ->
  forall ds ps c, Forall2 (dspec T sc) ds ps -> pget P_Class ps = Some (PStr c) ->
  exists d, find (fun d => Nat.eqb (d_key d) i) ds = Some d /\ d_text d = c.
Proof.
  intros Hi ND. induction ds as [|d ds IH]; intros ps c F H; inversion F; subst; [discriminate|].
  destruct y as [k v]. destruct H2 as [K X]. cbn [fst snd] in K, X. cbn [pget] in H. cbn [find].
  destruct (N.eqb_spec k P_Class) as [->|NE].
  - inversion H; subst. simpl in K.
    assert (EQ : d_key d = i) by (eapply NoDup_nth_eq; eassumption).
    destruct (Nat.eqb_spec (d_key d) i) as [_|NI]; [|contradiction]. exists d. split; [reflexivity|exact X].
  - destruct (Nat.eqb_spec (d_key d) i) as [EQ|NI]; [rewrite EQ in K; pose proof (eq_trans (eq_sym K) Hi) as E2; inversion E2; congruence|].
    eapply IH; eassumption.
Qed.

Lemma class_ok_inv ps : class_ok ps = true -> exists c0 c, pget P_Class ps = Some (PStr (c0 :: c)).
Proof.
  unfold class_ok. destruct (pget P_Class ps) as [[[|c0 c]| |]|]; try discriminate. intros _. exists c0, c. reflexivity.
Qed.

Lemma mark_node_spec T n gn : NoDup T -> class_tbl_ok T -> nspec T no_lab n gn -> class_ok (snd gn) = true ->
  exists n', mark_node (find_class_key ForNode T) n = Some n' /\ nspec T node_lab n' gn.
Proof.
  intros ND CT (I & L & D) CO. destruct (class_ok_inv _ CO) as (c0 & c & PC).
  destruct (dspec_pget _ _ _ _ _ _ D PC) as (j & Hj).
  destruct (find_class_key_spec _ _ _ _ Hj) as (i & ty & FK & Hi).
  assert (ty = TString) by (eapply CT; eapply nth_error_In; exact Hi). subst ty.
  destruct (find_class_data T ForNode i Hi ND _ _ _ D PC) as (d & FD & TX).
  unfold mark_node. rewrite L. unfold no_lab. simpl. rewrite FK. simpl. rewrite FD, TX.
  eexists. split; [reflexivity|]. split; [exact I|]. split; [|exact D].
  simpl. unfold node_lab. rewrite PC. reflexivity.
Qed.

Lemma mark_edge_spec T e ge : NoDup T -> class_tbl_ok T -> espec T no_lab e ge -> class_ok (snd ge) = true ->
  exists e', mark_edge (find_class_key ForEdge T) e = Some e' /\ espec T edge_lab e' ge.
Proof.
  intros ND CT (I1 & I2 & L & D) CO. destruct (class_ok_inv _ CO) as (c0 & c & PC).
  destruct (dspec_pget _ _ _ _ _ _ D PC) as (j & Hj).
  destruct (find_class_key_spec _ _ _ _ Hj) as (i & ty & FK & Hi).
  assert (ty = TString) by (eapply CT; eapply nth_error_In; exact Hi). subst ty.
  destruct (find_class_data T ForEdge i Hi ND _ _ _ D PC) as (d & FD & TX).
  unfold mark_edge. rewrite L. unfold no_lab. simpl. rewrite FK. simpl. rewrite FD, TX.
  eexists. split; [reflexivity|]. split; [exact I1|]. split; [exact I2|]. split; [|exact D].
  simpl. unfold edge_lab. rewrite PC. reflexivity.
Qed.

Definition all_class_ok (g : nxg) : Prop :=
  (forall n, In n (g_nodes g) -> class_ok (snd n) = true) /\ (forall e, In e (g_edges g) -> class_ok (snd e) = true).

Lemma Forall2_opt_list {A B} (f : A -> option A) (R R' : A -> B -> Prop) (P : B -> Prop) l l2 :
  (forall x y, R x y -> P y -> exists x', f x = Some x' /\ R' x' y) ->
  Forall2 R l l2 -> (forall y, In y l2 -> P y) ->
  exists l', opt_list f l = Some l' /\ Forall2 R' l' l2.
Proof.
  intros H F. induction F as [|x y l l2 Hxy _ IH]; intro HP.
  - exists []. split; [reflexivity|constructor].
  - destruct IH as (l' & E & F'); [intros z Hz; apply HP; right; exact Hz|].
    destruct (H x y Hxy (HP y (or_introl eq_refl))) as (x' & Ex & Rx).
    exists (x' :: l'). split; [simpl; rewrite Ex, E; reflexivity|constructor; assumption].
Qed.

Lemma to_neo4j_spec d g : NoDup (d_keys d) -> class_tbl_ok (d_keys d) ->
  doc_spec no_lab no_lab d g -> all_class_ok g ->
  exists d', to_neo4j d = Some d' /\ d_keys d' = d_keys d /\ doc_spec node_lab edge_lab d' g.
Proof.
  intros ND CT [FN FE] [CN CE]. unfold to_neo4j.
  destruct (Forall2_opt_list (mark_edge (find_class_key ForEdge (d_keys d))) _ (espec (d_keys d) edge_lab)
              (fun ge => class_ok (snd ge) = true) _ _
              (fun x y Hxy Py => mark_edge_spec _ x y ND CT Hxy Py) FE CE) as (es' & EE & FE').
  destruct (Forall2_opt_list (mark_node (find_class_key ForNode (d_keys d))) _ (nspec (d_keys d) node_lab)
              (fun gn => class_ok (snd gn) = true) _ _
              (fun x y Hxy Py => mark_node_spec _ x y ND CT Hxy Py) FN CN) as (ns' & EN & FN').
  rewrite EE, EN. eexists. split; [reflexivity|]. split; [reflexivity|]. split; simpl; assumption.
Qed.

(* ---------- the way out: lxml writes, the file is read, expat parses: nothing changes ---------- *)
Lemma tr_data_out T sc ds ps : props_legal ps -> Forall2 (dspec T sc) ds ps ->
  opt_list (tr_delem text_out) ds = Some ds.
Proof. apply tr_data_id, text_out_legal. Qed.

Lemma node_lab_legal ps : props_legal ps -> match node_lab ps with Some l => xml_legal l = true | None => True end.
Proof.
  intro L. unfold node_lab. destruct (pget P_Class ps) as [v|] eqn:E; [|exact I].
  unfold xml_legal. rewrite forallb_app. apply andb_true_iff. split; [reflexivity|].
  apply text_of_legal. revert E. induction ps as [|[k w] r IH]; [discriminate|]. simpl.
  destruct (N.eqb k P_Class).
  - intro H. inversion H; subst. apply (L (k, v)). left. reflexivity.
  - apply IH. intros kv Hkv. apply L. right. exact Hkv.
Qed.

Lemma pget_In k ps v : pget k ps = Some v -> In (k, v) ps.
Proof.
  induction ps as [|[k' w] r IH]; [discriminate|]. simpl. destruct (N.eqb_spec k' k) as [->|NE].
  - intro H. inversion H; subst. left. reflexivity.
  - intro H. right. apply IH, H.
Qed.

Lemma edge_lab_legal ps : props_legal ps -> match edge_lab ps with Some l => xml_legal l = true | None => True end.
Proof.
  intro L. unfold edge_lab. destruct (pget P_Class ps) as [v|] eqn:E; [|exact I].
  apply text_of_legal. apply (L (P_Class, v)). apply pget_In, E.
Qed.

Lemma tr_attr_out (a : option str) : match a with Some l => xml_legal l = true | None => True end ->
  tr_attr attr_out a = Some a.
Proof. destruct a as [l|]; simpl; intro H; [rewrite attr_out_legal by exact H|]; reflexivity. Qed.

Lemma transport_out_id d g : doc_spec node_lab edge_lab d g -> graph_legal g ->
  transport text_out attr_out d = Some d.
Proof.
  intros [FN FE] [LN LE]. unfold transport.
  rewrite (opt_list_id (tr_node text_out attr_out) (d_nodes d)).
  - rewrite (opt_list_id (tr_edge text_out attr_out) (d_edges d)); [rewrite doc_eta; reflexivity|].
    intros e He. destruct (Forall2_In_l _ _ _ _ FE He) as (ge & Hge & (_ & _ & L & D)).
    unfold tr_edge. rewrite L, tr_attr_out by (apply edge_lab_legal, LE, Hge).
    rewrite (tr_data_out _ _ _ _ (LE _ Hge) D). rewrite <- L. rewrite dedge_eta. reflexivity.
  - intros n Hn. destruct (Forall2_In_l _ _ _ _ FN Hn) as (gn & Hgn & (_ & L & D)).
    unfold tr_node. rewrite L, tr_attr_out by (apply node_lab_legal, LN, Hgn).
    rewrite (tr_data_out _ _ _ _ (LN _ Hgn) D). rewrite <- L. rewrite dnode_eta. reflexivity.
Qed.

(* ---------- the reader ---------- *)
Lemma decode_data_spec T sc ds ps : Forall2 (dspec T sc) ds ps -> decode_data T ds = Some ps.
Proof.
  intro F. unfold decode_data. apply (opt_list_Forall2 _ (fun _ _ => True)).
  induction F as [|d kv ds ps [K X] _ IH]; constructor; [|exact IH].
  unfold decode_delem. rewrite K, X, read_value_text. destruct kv; reflexivity.
Qed.

Lemma read_graphml_spec labn labe d g : doc_spec labn labe d g -> read_graphml d = Some g.
Proof.
  intros [FN FE]. unfold read_graphml.
  rewrite (opt_list_Forall2 _ (fun _ _ => True) (d_nodes d) (g_nodes g)).
  - rewrite (opt_list_Forall2 _ (fun _ _ => True) (d_edges d) (g_edges g)); [destruct g; reflexivity|].
    clear FN. induction FE as [|e ge es ges (I1 & I2 & _ & D) _ IH]; constructor; [|exact IH].
    rewrite (decode_data_spec _ _ _ _ D), I1, I2. destruct ge as [[u v] ps]; reflexivity.
  - clear FE. induction FN as [|n gn ns gns (I & _ & D) _ IH]; constructor; [|exact IH].
    rewrite (decode_data_spec _ _ _ _ D), I. destruct gn; reflexivity.
Qed.

(* ---------- the label markup, read off the document ---------- *)
Lemma class_text_spec T sc ds : forall ps, Forall2 (dspec T sc) ds ps ->
  class_text T ds = match pget P_Class ps with Some v => Some (text_of v) | None => None end.
Proof.
  unfold class_text. induction ds as [|d ds IH]; intros ps F; inversion F; subst; [reflexivity|].
  destruct y as [k v]. destruct H1 as [K X]. cbn [fst snd] in K, X. cbn [find pget].
  rewrite K. destruct (N.eqb k P_Class); [rewrite X; reflexivity|]. apply IH. assumption.
Qed.

Lemma labels_ok_spec d g : doc_spec node_lab edge_lab d g -> all_class_ok g -> labels_ok d = true.
Proof.
  intros [FN FE] [CN CE]. unfold labels_ok. apply andb_true_iff. split; apply forallb_forall.
  - intros n Hn. destruct (Forall2_In_l _ _ _ _ FN Hn) as (gn & Hgn & (_ & L & D)).
    rewrite L, (class_text_spec _ _ _ _ D). unfold node_lab.
    destruct (class_ok_inv _ (CN _ Hgn)) as (c0 & c & ->). apply str_eqb_refl.
  - intros e He. destruct (Forall2_In_l _ _ _ _ FE He) as (ge & Hge & (_ & _ & L & D)).
    rewrite L, (class_text_spec _ _ _ _ D). unfold edge_lab.
    destruct (class_ok_inv _ (CE _ Hge)) as (c0 & c & ->). apply str_eqb_refl.
Qed.

(* ---------- from the boolean well-formedness predicate ---------- *)
Lemma graph_wf_parts g : graph_wf g = true ->
  nodupN (map fst (g_nodes g)) = true
  /\ (forall e, In e (g_edges g) -> memN (fst (fst e)) (map fst (g_nodes g)) = true
                                    /\ memN (snd (fst e)) (map fst (g_nodes g)) = true)
  /\ (forall n, In n (g_nodes g) -> props_ok (snd n) = true /\ class_ok (snd n) = true /\ class_str (snd n) = true)
  /\ (forall e, In e (g_edges g) -> props_ok (snd e) = true /\ class_ok (snd e) = true /\ class_str (snd e) = true).
Proof.
  unfold graph_wf. rewrite !andb_true_iff, !forallb_forall. intros [[[H1 H2] H3] H4].
  split; [exact H1|]. split; [|split].
  - intros [[u v] ps] He. specialize (H2 _ He). simpl in H2. apply andb_true_iff in H2. exact H2.
  - intros n Hn. specialize (H3 _ Hn). rewrite !andb_true_iff in H3. tauto.
  - intros e He. specialize (H4 _ He). rewrite !andb_true_iff in H4. tauto.
Qed.

Lemma props_ok_legal ps : props_ok ps = true -> props_legal ps.
Proof.
  unfold props_ok. rewrite andb_true_iff, forallb_forall. intros [_ H] kv Hkv. apply H, Hkv.
Qed.

Lemma graph_wf_legal g : graph_wf g = true -> graph_legal g.
Proof.
  intro W. destruct (graph_wf_parts g W) as (_ & _ & HN & HE). split.
  - intros n Hn. apply props_ok_legal. apply (HN n Hn).
  - intros e He. apply props_ok_legal. apply (HE e He).
Qed.
Lemma graph_wf_class_ok g : graph_wf g = true -> all_class_ok g.
Proof.
  intro W. destruct (graph_wf_parts g W) as (_ & _ & HN & HE). split; intros x Hx; [apply (HN x Hx)|apply (HE x Hx)].
Qed.
Lemma graph_wf_class_str g : graph_wf g = true -> all_class_str g.
Proof.
  intro W. destruct (graph_wf_parts g W) as (_ & _ & HN & HE).
  split; apply Forall_forall; intros x Hx; [apply (HN x Hx)|apply (HE x Hx)].
Qed.

(* ---------- serialize_graph(GRAPHML) followed by read_graphml ---------- *)
Theorem serialize_graphml_spec g : graph_wf g = true ->
  exists d, serialize_graphml g = Some d
            /\ doc_spec node_lab edge_lab d g
            /\ read_graphml d = Some g
            /\ labels_ok d = true.
Proof.
  intro W.
  destruct (write_spec g (graph_wf_class_str g W)) as (S0 & ND & CT).
  pose proof (transport_in_id _ _ S0 (graph_wf_legal g W)) as E1.
  destruct (to_neo4j_spec (write g) _ ND CT S0 (graph_wf_class_ok _ W)) as (d2 & E2 & K2 & S2).
  pose proof (transport_out_id _ _ S2 (graph_wf_legal _ W)) as E3.
  exists d2. unfold serialize_graphml. rewrite E1, E2, E3.
  split; [reflexivity|]. split; [exact S2|]. split.
  - eapply read_graphml_spec. exact S2.
  - eapply labels_ok_spec; [exact S2|apply graph_wf_class_ok, W].
Qed.

Theorem graphml_roundtrip g : graph_wf g = true ->
  exists d, serialize_graphml g = Some d /\ read_graphml d = Some g.
Proof. intro W. destruct (serialize_graphml_spec g W) as (d & A & _ & B & _). exists d. split; assumption. Qed.

Theorem graphml_label_markup g d : graph_wf g = true -> serialize_graphml g = Some d -> labels_ok d = true.
Proof.
  intros W E. destruct (serialize_graphml_spec g W) as (d' & A & _ & _ & L). rewrite E in A. inversion A; subst. exact L.
Qed.

(* the graph that used to lose its carriage return (before fix 10c1448) *)
Definition cr_witness : nxg :=
  {| g_nodes := [(1%N, [(P_GraphID, PStr (S"g")); (P_NodeID, PStr (S"n")); (P_Class, PStr (S"NetworkNode"));
                        (10%N, PStr [97; 13; 98]%N)])];
     g_edges := [] |}.

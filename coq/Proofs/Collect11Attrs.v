(* C11: the attribute mapping produced by the collection folds, key by key, in closed form. *)
From Coq Require Import List ZArith NArith Bool String Permutation Lia.
From FIM Require Import Base.Str Gen.CollectGen Model.Collect11 Model.Collect11Spec Proofs.Collect11Tables.
Import ListNotations.

(* ------------------------------------------------------------------ equality tests *)
Lemma aval_eqb_eq a b : aval_eqb a b = true <-> a = b.
Proof.
  destruct a as [x|x], b as [y|y]; simpl; split; intro H; try discriminate; try congruence.
  - apply Z.eqb_eq in H. congruence.
  - inversion H. apply Z.eqb_refl.
  - apply str_eqb_eq in H. congruence.
  - inversion H. apply str_eqb_refl.
Qed.

Lemma amem_In v l : amem v l = true <-> In v l.
Proof.
  unfold amem. rewrite existsb_exists. split.
  - intros [y [Hy He]]. apply aval_eqb_eq in He. subst. exact Hy.
  - intro H. exists v. split; [exact H | apply aval_eqb_eq; reflexivity].
Qed.

Lemma amem_false v l : amem v l = false <-> ~ In v l.
Proof. rewrite <- amem_In. destruct (amem v l); split; intro H; try congruence; exfalso; apply H; reflexivity. Qed.

Lemma opt_str_eqb_eq a b : opt_str_eqb a b = true <-> a = b.
Proof.
  destruct a as [x|], b as [y|]; simpl; split; intro H; try discriminate; try congruence.
  - apply str_eqb_eq in H. congruence.
  - inversion H. apply str_eqb_refl.
Qed.

Lemma mem_port_In p ports : mem_port p ports = true <-> In p ports.
Proof.
  unfold mem_port. rewrite existsb_exists. split.
  - intros [y [Hy He]]. apply opt_str_eqb_eq in He. subst. exact Hy.
  - intro H. exists p. split; [exact H | apply opt_str_eqb_eq; reflexivity].
Qed.

Lemma mem_port_same p ports ports' : same_ports ports ports' -> mem_port p ports = mem_port p ports'.
Proof.
  intro H. destruct (mem_port p ports) eqn:E1, (mem_port p ports') eqn:E2; try reflexivity.
  - apply mem_port_In in E1. apply H in E1. apply mem_port_In in E1. congruence.
  - apply mem_port_In in E2. apply H in E2. apply mem_port_In in E2. congruence.
Qed.

(* ------------------------------------------------------------------ the dictionary *)
Definition on (k k' : N) (f : list aval -> list aval) (l : list aval) : list aval :=
  if N.eqb k k' then f l else l.

Lemma getk_upd k k' f m : getk k (upd k' f m) = on k k' f (getk k m).
Proof.
  unfold on. induction m as [|[k0 l] r IH]; simpl.
  - destruct (N.eqb k k'); reflexivity.
  - destruct (N.eqb k' k0) eqn:E; simpl.
    + apply N.eqb_eq in E. subst k0. destruct (N.eqb k k'); reflexivity.
    + destruct (N.eqb k k0) eqn:E0.
      * apply N.eqb_eq in E0. subst k0. rewrite N.eqb_sym in E. rewrite E. reflexivity.
      * exact IH.
Qed.

Lemma keys_upd k k' f m : In k (keys (upd k' f m)) <-> k = k' \/ In k (keys m).
Proof.
  unfold keys. induction m as [|[k0 l] r IH]; simpl.
  - intuition.
  - destruct (N.eqb k' k0) eqn:E; simpl.
    + apply N.eqb_eq in E. subst. intuition.
    + rewrite IH. intuition.
Qed.

Lemma getk_nonempty_key k m : getk k m <> [] -> In k (keys m).
Proof.
  unfold keys. induction m as [|[k0 l] r IH]; simpl; [congruence|].
  destruct (N.eqb k k0) eqn:E.
  - apply N.eqb_eq in E. intros _. left. congruence.
  - intro H. right. exact (IH H).
Qed.

(* no key maps to the empty list *)
Definition NE (m : attrs) : Prop := forall k, In k (keys m) -> getk k m <> [].

Lemma NE_upd k f m : NE m -> (forall l, f l <> []) -> NE (upd k f m).
Proof.
  intros H Hf k0 Hk. rewrite getk_upd. unfold on. destruct (N.eqb k0 k) eqn:E.
  - apply Hf.
  - apply keys_upd in Hk as [Hk|Hk]; [subst; rewrite N.eqb_refl in E; discriminate | exact (H k0 Hk)].
Qed.

Lemma app_one_ne {A} (l : list A) v : l ++ [v] <> [].
Proof. destruct l; discriminate. Qed.

Lemma add_unique_ne v l : add_unique v l <> [].
Proof.
  unfold add_unique. destruct (amem v l) eqn:E; [|apply app_one_ne].
  apply amem_In in E. destruct l; [destruct E | discriminate].
Qed.

(* ------------------------------------------------------------------ add_unique folds *)
Definition addus (vals l : list aval) : list aval := fold_left (fun l v => add_unique v l) vals l.

Lemma add_unique_In v l x : In x (add_unique v l) <-> In x l \/ x = v.
Proof.
  unfold add_unique. destruct (amem v l) eqn:E.
  - apply amem_In in E. split; [tauto | intros [H|H]; subst; assumption].
  - rewrite in_app_iff. simpl. intuition.
Qed.


Lemma NoDup_snoc {A} (l : list A) v : NoDup l -> ~ In v l -> NoDup (l ++ [v]).
Proof.
  induction l as [|x r IH]; simpl; intros H Hn.
  - constructor; [tauto | constructor].
  - inversion H; subst. constructor.
    + rewrite in_app_iff. simpl. intuition.
    + apply IH; tauto.
Qed.

Lemma add_unique_NoDup v l : NoDup l -> NoDup (add_unique v l).
Proof.
  unfold add_unique. intro H. destruct (amem v l) eqn:E; [exact H|].
  apply amem_false in E. apply NoDup_snoc; assumption.
Qed.

Lemma addus_In vals l x : In x (addus vals l) <-> In x l \/ In x vals.
Proof.
  unfold addus. revert l. induction vals as [|v r IH]; simpl; intro l; [tauto|].
  rewrite IH, add_unique_In. intuition.
Qed.

Lemma addus_NoDup vals l : NoDup l -> NoDup (addus vals l).
Proof.
  unfold addus. revert l. induction vals as [|v r IH]; simpl; intros l H; [exact H|].
  apply IH. apply add_unique_NoDup. exact H.
Qed.

Lemma addus_app a b l : addus (a ++ b) l = addus b (addus a l).
Proof. unfold addus. apply fold_left_app. Qed.

Lemma addus_ne vals l : l <> [] \/ vals <> [] -> addus vals l <> [].
Proof.
  unfold addus. revert l. induction vals as [|v r IH]; simpl; intros l H.
  - destruct H; congruence.
  - apply IH. left. apply add_unique_ne.
Qed.

(* folding a step that appends / add_uniques a per-element contribution *)
Lemma fold_app_closed {A} (tf : A -> list aval -> list aval) (g : A -> list aval) :
  (forall x l, tf x l = l ++ g x) ->
  forall xs l, fold_left (fun l x => tf x l) xs l = l ++ flat_map g xs.
Proof.
  intros H xs. induction xs as [|x r IH]; simpl; intro l; [rewrite app_nil_r; reflexivity|].
  rewrite IH, H, <- app_assoc. reflexivity.
Qed.

Lemma fold_addus_closed {A} (tf : A -> list aval -> list aval) (g : A -> list aval) :
  (forall x l, tf x l = addus (g x) l) ->
  forall xs l, fold_left (fun l x => tf x l) xs l = addus (flat_map g xs) l.
Proof.
  intros H xs. induction xs as [|x r IH]; simpl; intro l; [reflexivity|].
  rewrite IH, H, addus_app. reflexivity.
Qed.

Lemma fold_id_closed {A} (tf : A -> list aval -> list aval) :
  (forall x l, tf x l = l) -> forall xs l, fold_left (fun l x => tf x l) xs l = l.
Proof. intros H xs. induction xs as [|x r IH]; simpl; intro l; [reflexivity|]. rewrite IH, H. reflexivity. Qed.

(* ------------------------------------------------------------------ per-key transfer functions *)
Definition sw_val : list aval := [AS (S"switch-p4")].

Definition node_tf (k : N) (n : node) (l : list aval) : list aval :=
  let l := if N.eqb (n_kind n) NT_Switch then on k A_RESOURCE_TYPE (fun _ => sw_val) l else l in
  let l := match n_caps n with
           | Some (c, r, d) => on k A_RESOURCE_DISK (fun l => l ++ [AI d]) (on k A_RESOURCE_RAM (fun l => l ++ [AI r])
                                 (on k A_RESOURCE_CPU (fun l => l ++ [AI c]) l))
           | None => l end in
  let l := match n_site n with Some x => on k A_RESOURCE_SITE (add_unique (AS x)) l | None => l end in
  on k A_RESOURCE_COMPONENT (fun l => l ++ map AS (n_comps n)) l.

Lemma comps_fold_getk k cs m :
  getk k (fold_left (fun m c => dd_append A_RESOURCE_COMPONENT (AS c) m) cs m)
  = on k A_RESOURCE_COMPONENT (fun l => l ++ map AS cs) (getk k m).
Proof.
  revert m. induction cs as [|c r IH]; simpl; intro m.
  - unfold on. destruct (N.eqb k A_RESOURCE_COMPONENT); [rewrite app_nil_r|]; reflexivity.
  - rewrite IH. unfold dd_append. rewrite getk_upd. unfold on.
    destruct (N.eqb k A_RESOURCE_COMPONENT); [rewrite <- app_assoc|]; reflexivity.
Qed.

Lemma collect_node_getk k m n : getk k (collect_node m n) = node_tf k n (getk k m).
Proof.
  unfold collect_node, node_tf. rewrite comps_fold_getk. f_equal.
  destruct (n_site n) as [x|]; destruct (n_caps n) as [[[c r] d]|]; destruct (N.eqb (n_kind n) NT_Switch);
    unfold dd_append_unique, dd_append, dd_set; repeat rewrite getk_upd; reflexivity.
Qed.

Lemma collect_nodes_getk k ns m :
  getk k (fold_left collect_node ns m) = fold_left (fun l n => node_tf k n l) ns (getk k m).
Proof.
  revert m. induction ns as [|n r IH]; simpl; intro m; [reflexivity|].
  rewrite IH, collect_node_getk. reflexivity.
Qed.

Lemma comps_fold_keys k cs m :
  In k (keys (fold_left (fun m c => dd_append A_RESOURCE_COMPONENT (AS c) m) cs m)) ->
  In k (keys m) \/ k = A_RESOURCE_COMPONENT.
Proof.
  revert m. induction cs as [|c r IH]; simpl; intros m H; [tauto|].
  apply IH in H as [H|H]; [|tauto]. apply keys_upd in H. tauto.
Qed.

Lemma comps_fold_NE cs m : NE m -> NE (fold_left (fun m c => dd_append A_RESOURCE_COMPONENT (AS c) m) cs m).
Proof.
  revert m. induction cs as [|c r IH]; simpl; intros m H; [exact H|].
  apply IH. apply NE_upd; [exact H | intro l; apply app_one_ne].
Qed.

Lemma collect_node_NE m n : NE m -> NE (collect_node m n).
Proof.
  intro H. unfold collect_node. apply comps_fold_NE.
  assert (H1 : NE (if N.eqb (n_kind n) NT_Switch then dd_set A_RESOURCE_TYPE [AS (S"switch-p4")] m else m)).
  { destruct (N.eqb (n_kind n) NT_Switch); [|exact H]. apply NE_upd; [exact H | intros l; discriminate]. }
  set (m1 := if N.eqb (n_kind n) NT_Switch then _ else _) in *.
  assert (H2 : NE (match n_caps n with
                   | Some (c, r, d) => dd_append A_RESOURCE_DISK (AI d) (dd_append A_RESOURCE_RAM (AI r) (dd_append A_RESOURCE_CPU (AI c) m1))
                   | None => m1 end)).
  { destruct (n_caps n) as [[[c r] d]|]; [|exact H1].
    repeat (apply NE_upd; [|intro l; apply app_one_ne]). exact H1. }
  destruct (n_site n) as [x|]; [|exact H2].
  apply NE_upd; [exact H2 | intro l; apply add_unique_ne].
Qed.

Lemma collect_nodes_NE ns m : NE m -> NE (fold_left collect_node ns m).
Proof. revert m. induction ns as [|n r IH]; simpl; intros m H; [exact H|]. apply IH. apply collect_node_NE. exact H. Qed.

(* ---- services ---- *)
Definition collect_svc_pure (ports : list (option str)) (m : attrs) (v : svc) : attrs :=
  let m := collect_svc_base m v in
  if is_special v then
    match lookupN (s_type v) nstype_lut with
    | None => m
    | Some rn => if in_slice_mirror ports v then m else dd_append_unique rn (AS (site_or_unknown v)) m
    end
  else m.

Lemma collect_svc_ok ports m v : collect_svc ports m v = Ok (collect_svc_pure ports m v).
Proof.
  unfold collect_svc, collect_svc_pure. destruct (is_special v) eqn:E; [|reflexivity].
  unfold is_special in E. destruct (lut_total _ E) as [rn Hrn]. rewrite Hrn.
  destruct (in_slice_mirror ports v); reflexivity.
Qed.

Lemma collect_svcs_ok ports vs m : collect_svcs ports m vs = Ok (fold_left (collect_svc_pure ports) vs m).
Proof.
  unfold collect_svcs. revert m. induction vs as [|v r IH]; simpl; intro m; [reflexivity|].
  rewrite collect_svc_ok. apply IH.
Qed.

Definition svc_tf (k : N) (ports : list (option str)) (v : svc) (l : list aval) : list aval :=
  let l := match s_bw v with Some b => on k A_RESOURCE_BW (fun l => l ++ [AI b]) l | None => l end in
  let l := match s_site v with Some x => on k A_RESOURCE_SITE (add_unique (AS x)) l | None => l end in
  if is_special v then
    match lookupN (s_type v) nstype_lut with
    | None => l
    | Some rn => if in_slice_mirror ports v then l else on k rn (add_unique (AS (site_or_unknown v))) l
    end
  else l.

Lemma collect_svc_getk k ports m v : getk k (collect_svc_pure ports m v) = svc_tf k ports v (getk k m).
Proof.
  unfold collect_svc_pure, svc_tf, collect_svc_base.
  assert (H : getk k (match s_site v with Some x => dd_append_unique A_RESOURCE_SITE (AS x)
                        (match s_bw v with Some b => dd_append A_RESOURCE_BW (AI b) m | None => m end)
                      | None => match s_bw v with Some b => dd_append A_RESOURCE_BW (AI b) m | None => m end end)
              = match s_site v with Some x => on k A_RESOURCE_SITE (add_unique (AS x))
                        (match s_bw v with Some b => on k A_RESOURCE_BW (fun l => l ++ [AI b]) (getk k m) | None => getk k m end)
                | None => match s_bw v with Some b => on k A_RESOURCE_BW (fun l => l ++ [AI b]) (getk k m) | None => getk k m end end).
  { destruct (s_site v), (s_bw v); unfold dd_append_unique, dd_append; repeat rewrite getk_upd; reflexivity. }
  destruct (is_special v); [|exact H].
  destruct (lookupN (s_type v) nstype_lut) as [rn|]; [|exact H].
  destruct (in_slice_mirror ports v); [exact H|].
  unfold dd_append_unique at 1. rewrite getk_upd. f_equal. exact H.
Qed.

Lemma collect_svcs_getk k ports vs m :
  getk k (fold_left (collect_svc_pure ports) vs m) = fold_left (fun l v => svc_tf k ports v l) vs (getk k m).
Proof.
  revert m. induction vs as [|v r IH]; simpl; intro m; [reflexivity|].
  rewrite IH, collect_svc_getk. reflexivity.
Qed.

Lemma collect_svc_NE ports m v : NE m -> NE (collect_svc_pure ports m v).
Proof.
  intro H. unfold collect_svc_pure.
  assert (H1 : NE (collect_svc_base m v)).
  { unfold collect_svc_base.
    assert (H0 : NE (match s_bw v with Some b => dd_append A_RESOURCE_BW (AI b) m | None => m end)).
    { destruct (s_bw v); [|exact H]. apply NE_upd; [exact H | intro l; apply app_one_ne]. }
    destruct (s_site v); [|exact H0]. apply NE_upd; [exact H0 | intro l; apply add_unique_ne]. }
  destruct (is_special v); [|exact H1].
  destruct (lookupN (s_type v) nstype_lut); [|exact H1].
  destruct (in_slice_mirror ports v); [exact H1|].
  apply NE_upd; [exact H1 | intro l; apply add_unique_ne].
Qed.

Lemma collect_svcs_NE ports vs m : NE m -> NE (fold_left (collect_svc_pure ports) vs m).
Proof. revert m. induction vs as [|v r IH]; simpl; intros m H; [exact H|]. apply IH. apply collect_svc_NE. exact H. Qed.

(* ---- facilities ---- *)
Lemma facs_fold_getk k fs m :
  getk k (fold_left (fun m f => dd_append A_RESOURCE_FACILITY_PORT (AS f) m) fs m)
  = on k A_RESOURCE_FACILITY_PORT (fun l => l ++ map AS fs) (getk k m).
Proof.
  revert m. induction fs as [|c r IH]; simpl; intro m.
  - unfold on. destruct (N.eqb k A_RESOURCE_FACILITY_PORT); [rewrite app_nil_r|]; reflexivity.
  - rewrite IH. unfold dd_append. rewrite getk_upd. unfold on.
    destruct (N.eqb k A_RESOURCE_FACILITY_PORT); [rewrite <- app_assoc|]; reflexivity.
Qed.

Lemma facs_fold_NE fs m : NE m -> NE (fold_left (fun m f => dd_append A_RESOURCE_FACILITY_PORT (AS f) m) fs m).
Proof.
  revert m. induction fs as [|c r IH]; simpl; intros m H; [exact H|].
  apply IH. apply NE_upd; [exact H | intro l; apply app_one_ne].
Qed.

(* ---- the whole topology ---- *)
Definition topo_pure (m : attrs) (s : slice) : attrs :=
  fold_left (fun m f => dd_append A_RESOURCE_FACILITY_PORT (AS f) m) (sl_facs s)
    (fold_left (collect_svc_pure (sl_ports s)) (sl_svcs s) (fold_left collect_node (sl_nodes s) m)).

Lemma collect_topo_ok m s : collect_topo m s = Ok (topo_pure m s).
Proof. unfold collect_topo, topo_pure. rewrite collect_svcs_ok. reflexivity. Qed.

Definition final (k : N) (s : slice) (l : list aval) : list aval :=
  on k A_RESOURCE_FACILITY_PORT (fun l => l ++ map AS (sl_facs s))
    (fold_left (fun l v => svc_tf k (sl_ports s) v l) (sl_svcs s)
       (fold_left (fun l n => node_tf k n l) (sl_nodes s) l)).

Lemma topo_getk k m s : getk k (topo_pure m s) = final k s (getk k m).
Proof. unfold topo_pure, final. rewrite facs_fold_getk, collect_svcs_getk, collect_nodes_getk. reflexivity. Qed.

Lemma topo_NE m s : NE m -> NE (topo_pure m s).
Proof. intro H. unfold topo_pure. apply facs_fold_NE, collect_svcs_NE, collect_nodes_NE. exact H. Qed.

Lemma init_NE : NE init_attrs.
Proof. intros k Hk. simpl in Hk. destruct Hk as [Hk|[]]. subst. simpl. discriminate. Qed.

(* ------------------------------------------------------------------ closed forms, key by key *)
Ltac keq := repeat match goal with
  | |- context [N.eqb ?a ?b] =>
      let v := eval vm_compute in (N.eqb a b) in
      match v with
      | true => change (N.eqb a b) with true
      | false => change (N.eqb a b) with false
      end
  end.

(* a LUT target differs from every base key *)
Lemma fresh_neq rn : memN rn base_keys = false ->
  N.eqb A_RESOURCE_TYPE rn = false /\ N.eqb A_RESOURCE_CPU rn = false /\ N.eqb A_RESOURCE_RAM rn = false /\
  N.eqb A_RESOURCE_DISK rn = false /\ N.eqb A_RESOURCE_BW rn = false /\ N.eqb A_RESOURCE_SITE rn = false /\
  N.eqb A_RESOURCE_COMPONENT rn = false /\ N.eqb A_RESOURCE_FACILITY_PORT rn = false.
Proof.
  intro H. apply memN_false in H. unfold base_keys in H. simpl in H.
  repeat split; apply N.eqb_neq; intro E; apply H; rewrite E; tauto.
Qed.

(* the service fold leaves a base key other than BW / SITE untouched *)
Lemma svc_tf_other k ports v l :
  In k base_keys -> k <> A_RESOURCE_BW -> k <> A_RESOURCE_SITE -> svc_tf k ports v l = l.
Proof.
  intros Hk H1 H2. unfold svc_tf, on.
  apply N.eqb_neq in H1. apply N.eqb_neq in H2. rewrite H1, H2.
  assert (E0 : match s_site v with Some _ => match s_bw v with Some _ => l | None => l end
                                 | None => match s_bw v with Some _ => l | None => l end end = l)
    by (destruct (s_site v), (s_bw v); reflexivity).
  destruct (is_special v); [|destruct (s_site v), (s_bw v); reflexivity].
  destruct (lookupN (s_type v) nstype_lut) as [rn|] eqn:E; [|destruct (s_site v), (s_bw v); reflexivity].
  destruct (in_slice_mirror ports v); [destruct (s_site v), (s_bw v); reflexivity|].
  assert (En : N.eqb k rn = false).
  { apply N.eqb_neq. intro; subst rn. apply lut_fresh in E. apply memN_false in E. exact (E Hk). }
  rewrite En. destruct (s_site v), (s_bw v); reflexivity.
Qed.

Lemma in_base k : memN k base_keys = true -> In k base_keys.
Proof. apply memN_In. Qed.

(* CPU / RAM / DISK / COMPONENT *)
Lemma node_tf_cpu n l : node_tf A_RESOURCE_CPU n l = l ++ node_cpu n.
Proof.
  unfold node_tf, node_cpu, on. keq.
  destruct (n_caps n) as [[[c r] d]|], (n_site n), (N.eqb (n_kind n) NT_Switch); simpl; try rewrite app_nil_r; reflexivity.
Qed.
Lemma node_tf_ram n l : node_tf A_RESOURCE_RAM n l = l ++ node_ram n.
Proof.
  unfold node_tf, node_ram, on. keq.
  destruct (n_caps n) as [[[c r] d]|], (n_site n), (N.eqb (n_kind n) NT_Switch); simpl; try rewrite app_nil_r; reflexivity.
Qed.
Lemma node_tf_disk n l : node_tf A_RESOURCE_DISK n l = l ++ node_disk n.
Proof.
  unfold node_tf, node_disk, on. keq.
  destruct (n_caps n) as [[[c r] d]|], (n_site n), (N.eqb (n_kind n) NT_Switch); simpl; try rewrite app_nil_r; reflexivity.
Qed.
Lemma node_tf_comp n l : node_tf A_RESOURCE_COMPONENT n l = l ++ node_comps n.
Proof.
  unfold node_tf, node_comps, on. keq.
  destruct (n_caps n) as [[[c r] d]|], (n_site n), (N.eqb (n_kind n) NT_Switch); reflexivity.
Qed.

Ltac base_mem := apply in_base; vm_compute; reflexivity.
Ltac neq_keys := let E := fresh in intro E; vm_compute in E; discriminate.

Lemma final_cpu s l : final A_RESOURCE_CPU s l = l ++ flat_map node_cpu (sl_nodes s).
Proof.
  unfold final, on. keq.
  rewrite (fold_id_closed (fun v l => svc_tf A_RESOURCE_CPU (sl_ports s) v l)).
  - apply fold_app_closed. apply node_tf_cpu.
  - intros v l0. apply svc_tf_other; [base_mem | neq_keys | neq_keys].
Qed.
Lemma final_ram s l : final A_RESOURCE_RAM s l = l ++ flat_map node_ram (sl_nodes s).
Proof.
  unfold final, on. keq.
  rewrite (fold_id_closed (fun v l => svc_tf A_RESOURCE_RAM (sl_ports s) v l)).
  - apply fold_app_closed. apply node_tf_ram.
  - intros v l0. apply svc_tf_other; [base_mem | neq_keys | neq_keys].
Qed.
Lemma final_disk s l : final A_RESOURCE_DISK s l = l ++ flat_map node_disk (sl_nodes s).
Proof.
  unfold final, on. keq.
  rewrite (fold_id_closed (fun v l => svc_tf A_RESOURCE_DISK (sl_ports s) v l)).
  - apply fold_app_closed. apply node_tf_disk.
  - intros v l0. apply svc_tf_other; [base_mem | neq_keys | neq_keys].
Qed.
Lemma final_comp s l : final A_RESOURCE_COMPONENT s l = l ++ flat_map node_comps (sl_nodes s).
Proof.
  unfold final, on. keq.
  rewrite (fold_id_closed (fun v l => svc_tf A_RESOURCE_COMPONENT (sl_ports s) v l)).
  - apply fold_app_closed. apply node_tf_comp.
  - intros v l0. apply svc_tf_other; [base_mem | neq_keys | neq_keys].
Qed.

(* FACILITY *)
Lemma node_tf_fac n l : node_tf A_RESOURCE_FACILITY_PORT n l = l.
Proof.
  unfold node_tf, on. keq.
  destruct (n_caps n) as [[[c r] d]|], (n_site n), (N.eqb (n_kind n) NT_Switch); reflexivity.
Qed.
Lemma final_fac s l : final A_RESOURCE_FACILITY_PORT s l = l ++ map AS (sl_facs s).
Proof.
  unfold final, on. keq.
  rewrite (fold_id_closed (fun v l => svc_tf A_RESOURCE_FACILITY_PORT (sl_ports s) v l)).
  - rewrite (fold_id_closed (fun n l => node_tf A_RESOURCE_FACILITY_PORT n l)); [reflexivity | apply node_tf_fac].
  - intros v l0. apply svc_tf_other; [base_mem | neq_keys | neq_keys].
Qed.

(* BW *)
Lemma node_tf_bw n l : node_tf A_RESOURCE_BW n l = l.
Proof.
  unfold node_tf, on. keq.
  destruct (n_caps n) as [[[c r] d]|], (n_site n), (N.eqb (n_kind n) NT_Switch); reflexivity.
Qed.
Lemma svc_tf_bw ports v l : svc_tf A_RESOURCE_BW ports v l = l ++ svc_bw v.
Proof.
  unfold svc_tf, svc_bw, on. keq.
  assert (E0 : match s_site v with Some _ => match s_bw v with Some b => l ++ [AI b] | None => l end
                                 | None => match s_bw v with Some b => l ++ [AI b] | None => l end end
               = l ++ match s_bw v with Some b => [AI b] | None => [] end)
    by (destruct (s_site v), (s_bw v); try rewrite app_nil_r; reflexivity).
  destruct (is_special v); [|exact E0].
  destruct (lookupN (s_type v) nstype_lut) as [rn|] eqn:E; [|exact E0].
  destruct (in_slice_mirror ports v); [exact E0|].
  apply lut_fresh, fresh_neq in E. destruct E as (_ & _ & _ & _ & E & _). rewrite E. exact E0.
Qed.
Lemma final_bw s l : final A_RESOURCE_BW s l = l ++ flat_map svc_bw (sl_svcs s).
Proof.
  unfold final, on. keq.
  rewrite (fold_id_closed (fun n l => node_tf A_RESOURCE_BW n l)); [|apply node_tf_bw].
  apply fold_app_closed. intros v l0. apply svc_tf_bw.
Qed.

(* SITE *)
Lemma node_tf_site n l : node_tf A_RESOURCE_SITE n l = addus (node_site n) l.
Proof.
  unfold node_tf, node_site, on, addus. keq.
  destruct (n_caps n) as [[[c r] d]|], (n_site n), (N.eqb (n_kind n) NT_Switch); reflexivity.
Qed.
Lemma svc_tf_site ports v l : svc_tf A_RESOURCE_SITE ports v l = addus (svc_site v) l.
Proof.
  unfold svc_tf, svc_site, on, addus. keq.
  assert (E0 : match s_site v with Some x => add_unique (AS x) (match s_bw v with Some _ => l | None => l end)
                                 | None => match s_bw v with Some _ => l | None => l end end
               = fold_left (fun l0 v0 => add_unique v0 l0) (match s_site v with Some x => [AS x] | None => [] end) l)
    by (destruct (s_site v), (s_bw v); reflexivity).
  destruct (is_special v); [|exact E0].
  destruct (lookupN (s_type v) nstype_lut) as [rn|] eqn:E; [|exact E0].
  destruct (in_slice_mirror ports v); [exact E0|].
  apply lut_fresh, fresh_neq in E. destruct E as (_ & _ & _ & _ & _ & E & _). rewrite E. exact E0.
Qed.
Lemma final_site s l :
  final A_RESOURCE_SITE s l = addus (flat_map node_site (sl_nodes s) ++ flat_map svc_site (sl_svcs s)) l.
Proof.
  unfold final, on. keq. rewrite addus_app.
  rewrite (fold_addus_closed (fun n l => node_tf A_RESOURCE_SITE n l) node_site); [|apply node_tf_site].
  apply fold_addus_closed. intros v l0. apply svc_tf_site.
Qed.

(* TYPE *)
Lemma node_tf_type n l : node_tf A_RESOURCE_TYPE n l = if N.eqb (n_kind n) NT_Switch then sw_val else l.
Proof.
  unfold node_tf, on. keq.
  destruct (n_caps n) as [[[c r] d]|], (n_site n), (N.eqb (n_kind n) NT_Switch); reflexivity.
Qed.
Lemma fold_type ns l :
  fold_left (fun l n => node_tf A_RESOURCE_TYPE n l) ns l
  = if existsb (fun n => N.eqb (n_kind n) NT_Switch) ns then sw_val else l.
Proof.
  revert l. induction ns as [|n r IH]; simpl; intro l; [reflexivity|].
  rewrite IH, node_tf_type. destruct (N.eqb (n_kind n) NT_Switch); simpl; [|reflexivity].
  destruct (existsb _ r); reflexivity.
Qed.
Lemma final_type s l : final A_RESOURCE_TYPE s l = if has_switch s then sw_val else l.
Proof.
  unfold final, on, has_switch. keq.
  rewrite (fold_id_closed (fun v l => svc_tf A_RESOURCE_TYPE (sl_ports s) v l)).
  - apply fold_type.
  - intros v l0. apply svc_tf_other; [base_mem | neq_keys | neq_keys].
Qed.

(* a key outside the base keys: only the per-type site append can touch it *)
Definition typed_contrib (k : N) (ports : list (option str)) (v : svc) : list aval :=
  if is_special v then
    match lookupN (s_type v) nstype_lut with
    | Some rn => if in_slice_mirror ports v then [] else if N.eqb k rn then [AS (site_or_unknown v)] else []
    | None => []
    end
  else [].

Lemma nonbase_neq k : memN k base_keys = false ->
  N.eqb k A_RESOURCE_TYPE = false /\ N.eqb k A_RESOURCE_CPU = false /\ N.eqb k A_RESOURCE_RAM = false /\
  N.eqb k A_RESOURCE_DISK = false /\ N.eqb k A_RESOURCE_BW = false /\ N.eqb k A_RESOURCE_SITE = false /\
  N.eqb k A_RESOURCE_COMPONENT = false /\ N.eqb k A_RESOURCE_FACILITY_PORT = false.
Proof.
  intro H. destruct (fresh_neq k H) as (H1 & H2 & H3 & H4 & H5 & H6 & H7 & H8).
  rewrite N.eqb_sym in H1, H2, H3, H4, H5, H6, H7, H8. tauto.
Qed.

Lemma node_tf_nonbase k n l : memN k base_keys = false -> node_tf k n l = l.
Proof.
  intro H. destruct (nonbase_neq k H) as (H1 & H2 & H3 & H4 & H5 & H6 & H7 & H8).
  unfold node_tf, on. rewrite H1, H2, H3, H4, H6, H7.
  destruct (n_caps n) as [[[c r] d]|], (n_site n), (N.eqb (n_kind n) NT_Switch); reflexivity.
Qed.

Lemma svc_tf_nonbase k ports v l : memN k base_keys = false -> svc_tf k ports v l = addus (typed_contrib k ports v) l.
Proof.
  intro H. destruct (nonbase_neq k H) as (H1 & H2 & H3 & H4 & H5 & H6 & H7 & H8).
  unfold svc_tf, typed_contrib, on, addus. rewrite H5, H6.
  assert (E0 : match s_site v with Some _ => match s_bw v with Some _ => l | None => l end
                                 | None => match s_bw v with Some _ => l | None => l end end = l)
    by (destruct (s_site v), (s_bw v); reflexivity).
  destruct (is_special v); [|exact E0].
  destruct (lookupN (s_type v) nstype_lut) as [rn|]; [|exact E0].
  destruct (in_slice_mirror ports v); [exact E0|].
  destruct (N.eqb k rn); simpl; rewrite E0; reflexivity.
Qed.

Lemma final_nonbase k s l : memN k base_keys = false ->
  final k s l = addus (flat_map (typed_contrib k (sl_ports s)) (sl_svcs s)) l.
Proof.
  intro H. destruct (nonbase_neq k H) as (H1 & H2 & H3 & H4 & H5 & H6 & H7 & H8).
  unfold final, on. rewrite H8.
  rewrite (fold_id_closed (fun n l => node_tf k n l)); [|intros; apply node_tf_nonbase; exact H].
  apply fold_addus_closed. intros v l0. apply svc_tf_nonbase. exact H.
Qed.

(* the three named per-type attributes: contribution in terms of the specification *)
Definition typed_of (k : N) (ports : list (option str)) (v : svc) : list aval :=
  map snd (filter (fun p => N.eqb (fst p) k) (svc_typed_site ports v)).

Lemma typed_contrib_spec k ports v :
  In k [A_RESOURCE_FABNETV4_EXT; A_RESOURCE_FABNETV6_EXT; A_RESOURCE_MIRROR_SITE] ->
  typed_contrib k ports v = typed_of k ports v.
Proof.
  intro Hk. unfold typed_contrib, typed_of, svc_typed_site, is_special, in_slice_mirror, mirror_outside.
  rewrite mirror_type_is.
  destruct lut_v4 as [L4 M4], lut_v6 as [L6 M6], lut_pm as [Lp Mp].
  destruct (N.eqb (s_type v) ST_FABNetv4Ext) eqn:E4.
  { apply N.eqb_eq in E4. rewrite E4, M4, L4.
    replace (N.eqb ST_FABNetv4Ext ST_PortMirror) with false by (vm_compute; reflexivity). simpl.
    destruct Hk as [Hk|[Hk|[Hk|[]]]]; subst k; keq; reflexivity. }
  destruct (N.eqb (s_type v) ST_FABNetv6Ext) eqn:E6.
  { apply N.eqb_eq in E6. rewrite E6, M6, L6.
    replace (N.eqb ST_FABNetv6Ext ST_PortMirror) with false by (vm_compute; reflexivity). simpl.
    destruct Hk as [Hk|[Hk|[Hk|[]]]]; subst k; keq; reflexivity. }
  destruct (N.eqb (s_type v) ST_PortMirror) eqn:Ep.
  { apply N.eqb_eq in Ep. rewrite Ep, Mp, Lp. simpl.
    destruct (mem_port (s_mirror v) ports); simpl; [reflexivity|].
    destruct Hk as [Hk|[Hk|[Hk|[]]]]; subst k; keq; reflexivity. }
  destruct (memN (s_type v) special_types) eqn:Es; [|reflexivity].
  apply special_only in Es. apply N.eqb_neq in E4, E6, Ep. tauto.
Qed.

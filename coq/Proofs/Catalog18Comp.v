(* C18, components: generate_component against the regenerated component catalogue.
   Generic lemmas about the interface loop (position j of the result is the loop body at index j), then the
   finite facts about the catalogue (every entry and every alias is found by the look-up loop, every Type is
   a ComponentType member, the combined enumeration lists exactly the entries) by vm_compute. *)
From Coq Require Import List ZArith NArith Bool Lia String.
From FIM Require Import Base.Str Base.PySort Gen.Catalog Model.Catalog18.
Import ListNotations.
Open Scope Z_scope.

(* ---------- boolean equality of catalogue entries ---------- *)
Lemma list_eqb_eq {A} (eqb : A -> A -> bool) (H : forall x y, eqb x y = true -> x = y) :
  forall a b, list_eqb eqb a b = true -> a = b.
Proof.
  induction a as [|x a IH]; destruct b as [|y b]; simpl; intro E; try discriminate; [reflexivity|].
  apply andb_true_iff in E. destruct E as [E1 E2]. rewrite (H _ _ E1), (IH _ E2). reflexivity.
Qed.
Lemma opt_eqb_eq {A} (eqb : A -> A -> bool) (H : forall x y, eqb x y = true -> x = y) :
  forall a b, opt_eqb eqb a b = true -> a = b.
Proof. intros [x|] [y|]; simpl; intro E; try discriminate; [rewrite (H _ _ E)|]; reflexivity. Qed.
Lemma str_eqb_true a b : str_eqb a b = true -> a = b.
Proof. apply str_eqb_eq. Qed.

Definition port_eqb (a b : str * Z) : bool := str_eqb (fst a) (fst b) && (snd a =? snd b).
Lemma port_eqb_true a b : port_eqb a b = true -> a = b.
Proof.
  destruct a, b. unfold port_eqb. cbn [fst snd]. intro E. apply andb_true_iff in E. destruct E as [E1 E2].
  apply str_eqb_eq in E1. apply Z.eqb_eq in E2. congruence.
Qed.

Definition centry_eqb (a b : comp_entry) : bool :=
  str_eqb (e_model a) (e_model b) && list_eqb str_eqb (e_also a) (e_also b) && str_eqb (e_type a) (e_type b)
  && str_eqb (e_details a) (e_details b) && opt_eqb (list_eqb port_eqb) (e_ifs a) (e_ifs b).
Lemma centry_eqb_true a b : centry_eqb a b = true -> a = b.
Proof.
  destruct a as [[[[m a] t] d] i], b as [[[[m' a'] t'] d'] i']. unfold centry_eqb.
  cbn [e_model e_also e_type e_details e_ifs]. intro E.
  repeat (apply andb_true_iff in E; let E' := fresh "E" in destruct E as [E E']).
  apply str_eqb_eq in E. apply str_eqb_eq in E1. apply str_eqb_eq in E2.
  apply (list_eqb_eq str_eqb str_eqb_true) in E3.
  apply (opt_eqb_eq _ (list_eqb_eq port_eqb port_eqb_true)) in E0.
  congruence.
Qed.

(* ---------- the interface loop ---------- *)
Lemma gen_ifaces_ok name ct ports : forall idx ids labs ifs,
  gen_ifaces name ct ports idx ids labs = Ok ifs ->
  List.length ifs = List.length ports /\
  forall j p, nth_error ports j = Some p ->
    exists i, nth_error ifs j = Some i /\ gen_iface name ct p (idx + j) ids labs = Ok i.
Proof.
  induction ports as [|p0 ports IH]; intros idx ids labs ifs H; simpl in H.
  - inversion H; subst. split; [reflexivity|]. intros [|j] p Hj; discriminate.
  - destruct (gen_iface name ct p0 idx ids labs) as [i0|c] eqn:E0; [|discriminate].
    destruct (gen_ifaces name ct ports (Datatypes.S idx) ids labs) as [r|c] eqn:Er; [|discriminate].
    inversion H; subst. destruct (IH _ _ _ _ Er) as [IHl IHn]. split; [simpl; congruence|].
    intros [|j] p Hj; simpl in Hj.
    + inversion Hj; subst. exists i0. split; [reflexivity|]. rewrite Nat.add_0_r. exact E0.
    + destruct (IHn j p Hj) as [i [Hi Hg]]. exists i. split; [exact Hi|].
      rewrite <- Nat.add_succ_comm. exact Hg.
Qed.

Lemma gen_ifaces_total name ct ports : forall idx ids labs,
  (forall j p, nth_error ports j = Some p -> exists i, gen_iface name ct p (idx + j) ids labs = Ok i) ->
  exists ifs, gen_ifaces name ct ports idx ids labs = Ok ifs.
Proof.
  induction ports as [|p0 ports IH]; intros idx ids labs H; simpl; [eexists; reflexivity|].
  destruct (H O p0 eq_refl) as [i0 E0]. rewrite Nat.add_0_r in E0. rewrite E0.
  destruct (IH (Datatypes.S idx) ids labs) as [r Er].
  - intros j p Hj. destruct (H (Datatypes.S j) p Hj) as [i Hi]. exists i. rewrite Nat.add_succ_comm. exact Hi.
  - rewrite Er. eexists; reflexivity.
Qed.

(* well-formed id / label arguments for a component with these ports: exactly the calls the code accepts *)
Definition args_wf (ports : list (str * Z)) (ids : option (list str)) (labs : option (list lab)) : bool :=
  match ids, labs with
  | None, None => true
  | None, Some l => (List.length ports <=? List.length l)%nat
  | Some li, Some l => Nat.eqb (List.length li) (List.length ports) && Nat.eqb (List.length l) (List.length ports)
  | Some _, None => false
  end.

(* what position j of the result must be *)
Definition iface_spec (name ct : str) (p : str * Z) (j : nat) (ids : option (list str)) (labs : option (list lab))
           (i : iface) : Prop :=
  if_name i = name ++ S"-" ++ fst p /\
  if_kind i = kind_of (Some ct) /\
  if_bw i = (if str_eqb ct (S"SharedNIC") then 0 else snd p) /\
  match ids with
  | Some l => exists s, nth_error l j = Some s /\ if_id i = IdGiven s
  | None => if_id i = IdFresh
  end /\
  match labs with
  | Some l => exists lb, nth_error l j = Some lb /\ if_tag i = Some (lab_tag lb) /\ if_bdf i = lab_bdf lb /\
                         if_local i = local_of (lab_bdf lb) (fst p) /\ if_unit i = units_of (lab_bdf lb)
  | None => if_tag i = None /\ if_bdf i = BNone /\ if_local i = LStr (fst p) /\ if_unit i = 1
  end.

Lemma gen_iface_spec name ct p j ids labs :
  match ids with Some l => (j < List.length l)%nat | None => True end ->
  match labs with Some l => (j < List.length l)%nat | None => True end ->
  exists i, gen_iface name (Some ct) p j ids labs = Ok i /\ iface_spec name ct p j ids labs i.
Proof.
  intros Hi Hl. unfold gen_iface.
  assert (Eid : exists id, match ids with
                           | Some l => match nth_error l j with Some i => Ok (IdGiven i) | None => Err (S"IndexError") end
                           | None => Ok IdFresh end = Ok id /\
                           match ids with Some l => exists s, nth_error l j = Some s /\ id = IdGiven s | None => id = IdFresh end).
  { destruct ids as [l|]; [|eexists; split; reflexivity].
    destruct (nth_error l j) as [s|] eqn:E; [|apply nth_error_None in E; lia].
    eexists; split; [reflexivity|]. exists s; split; reflexivity. }
  destruct Eid as [id [-> Hid]].
  destruct labs as [l|].
  - destruct (nth_error l j) as [lb|] eqn:E; [|apply nth_error_None in E; lia].
    eexists; split; [reflexivity|]. unfold iface_spec; cbn [if_name if_kind if_bw if_id if_tag if_bdf if_local if_unit is_type].
    repeat split; try reflexivity; try exact Hid. exists lb. split; [exact E|repeat split; reflexivity].
  - eexists; split; [reflexivity|]. unfold iface_spec; cbn [if_name if_kind if_bw if_id if_tag if_bdf if_local if_unit is_type units_of local_of].
    repeat split; try reflexivity; exact Hid.
Qed.

(* ---------- a whole component, for any catalogue in which the entry is found and its Type is a member ---------- *)
Definition ns_spec (e : comp_entry) (name : str) (nsid parent : option str) (ns : nsv) : Prop :=
  ns_id ns = match nsid with Some i => IdGiven i | None => IdFresh end /\
  ns_name ns = match parent with
               | Some p => p ++ S"-" ++ name ++ (if str_eqb (e_type e) (S"FPGA") then S"-l2p4" else S"-l2ovs")
               | None => name ++ (if str_eqb (e_type e) (S"FPGA") then S"-l2p4" else S"-l2ovs")
               end /\
  ns_type ns = (if str_eqb (e_type e) (S"FPGA") then S"P4" else S"OVS") /\
  ns_layer ns = S"L2".

Definition comp_spec (e : comp_entry) (name : str) (nsid : option str) (ids : option (list str))
           (labs : option (list lab)) (parent : option str) (c : comp) : Prop :=
  c_name c = name /\ c_model c = e_model e /\ c_type c = Some (e_type e) /\ c_details c = e_details e /\
  match e_ifs e with
  | None => c_ns c = None
  | Some ports =>
      exists ns, c_ns c = Some ns /\ ns_spec e name nsid parent ns /\
        List.length (ns_ifs ns) = List.length ports /\
        forall j p, nth_error ports j = Some p ->
          exists i, nth_error (ns_ifs ns) j = Some i /\ iface_spec name (e_type e) p j ids labs i
  end.

Definition entry_args_wf (e : comp_entry) (ids : option (list str)) (labs : option (list lab)) : bool :=
  match e_ifs e with Some ports => args_wf ports ids labs | None => true end.

Lemma gen_from_entry_spec e name nsid ids labs parent :
  type_from_str (e_type e) = Some (e_type e) ->
  entry_args_wf e ids labs = true ->
  exists c, gen_from_entry e name nsid ids labs parent = Ok c /\ comp_spec e name nsid ids labs parent c.
Proof.
  intros Ht Hwf. unfold gen_from_entry, comp_spec, entry_args_wf in *. rewrite Ht.
  destruct (e_ifs e) as [ports|].
  - assert (Hlen : match ids with
                   | None => Ok tt
                   | Some l => if negb (Nat.eqb (List.length l) (List.length ports)) then Err (S"RuntimeError")
                               else match labs with
                                    | None => Err (S"TypeError")
                                    | Some ll => if negb (Nat.eqb (List.length ll) (List.length ports)) then Err (S"RuntimeError") else Ok tt
                                    end
                   end = Ok tt).
    { unfold args_wf in Hwf. destruct ids as [li|]; [|reflexivity]. destruct labs as [l|]; [|discriminate].
      apply andb_true_iff in Hwf. destruct Hwf as [H1 H2]. rewrite H1, H2. reflexivity. }
    rewrite Hlen.
    assert (Hidx : forall j p, nth_error ports j = Some p ->
                    exists i, gen_iface name (Some (e_type e)) p (0 + j) ids labs = Ok i /\
                              iface_spec name (e_type e) p j ids labs i).
    { intros j p Hj. assert (Hlt : (j < List.length ports)%nat) by (apply nth_error_Some; congruence).
      simpl. apply gen_iface_spec.
      - unfold args_wf in Hwf. destruct ids as [li|]; [|exact I]. destruct labs as [l|]; [|discriminate].
        apply andb_true_iff in Hwf. destruct Hwf as [H1 _]. apply Nat.eqb_eq in H1. lia.
      - unfold args_wf in Hwf. destruct labs as [l|]; [|exact I]. destruct ids as [li|].
        + apply andb_true_iff in Hwf. destruct Hwf as [_ H2]. apply Nat.eqb_eq in H2. lia.
        + apply Nat.leb_le in Hwf. lia. }
    destruct (gen_ifaces_total name (Some (e_type e)) ports 0 ids labs) as [ifs Eifs].
    { intros j p Hj. destruct (Hidx j p Hj) as [i [Hi _]]. exists i. exact Hi. }
    rewrite Eifs. eexists. split; [reflexivity|]. cbn [c_name c_model c_type c_details c_ns].
    repeat split. eexists. split; [reflexivity|].
    destruct (gen_ifaces_ok _ _ _ _ _ _ _ Eifs) as [Hl Hn].
    split; [unfold ns_spec, is_type; cbn [ns_id ns_name ns_type ns_layer]; repeat split|].
    split; [cbn [ns_ifs]; exact Hl|]. cbn [ns_ifs].
    intros j p Hj. destruct (Hn j p Hj) as [i [Hi Hg]]. exists i. split; [exact Hi|].
    destruct (Hidx j p Hj) as [i' [Hi' Hs]]. rewrite Hg in Hi'. inversion Hi'; subst. exact Hs.
  - eexists. split; [reflexivity|]. cbn [c_name c_model c_type c_details c_ns]. repeat split.
Qed.

Theorem gen_component_spec cat e name nsid ids labs parent :
  find_entry cat (e_model e) (e_type e) = Some e ->
  type_from_str (e_type e) = Some (e_type e) ->
  entry_args_wf e ids labs = true ->
  exists c, gen_component cat name (ByTypeModel (Some (e_type e)) (Some (e_model e))) nsid ids labs parent = Ok c /\
            comp_spec e name nsid ids labs parent c.
Proof.
  intros Hf Ht Hwf. unfold gen_component. rewrite Hf. apply gen_from_entry_spec; assumption.
Qed.

(* an alias names the same component *)
Theorem gen_component_alias cat e a name nsid ids labs parent :
  find_entry cat a (e_type e) = Some e ->
  gen_component cat name (ByTypeModel (Some (e_type e)) (Some a)) nsid ids labs parent
  = gen_from_entry e name nsid ids labs parent.
Proof. intro Hf. unfold gen_component. rewrite Hf. reflexivity. Qed.

(* the combined model_type argument selects the entry's own (Model, Type) *)
Theorem gen_component_model_type cat e v name nsid ids labs parent :
  (0 < v)%N -> nth_error cat (N.to_nat (v - 1)) = Some e ->
  gen_component cat name (ByModelType v) nsid ids labs parent
  = gen_component cat name (ByTypeModel (Some (e_type e)) (Some (e_model e))) nsid ids labs parent.
Proof.
  intros Hv Hn. unfold gen_component. apply N.ltb_lt in Hv. rewrite Hv, Hn. reflexivity.
Qed.

(* ---------- finite facts about the regenerated catalogue ---------- *)
Definition entry_found (cat : list comp_entry) (e : comp_entry) : bool :=
  opt_eqb centry_eqb (find_entry cat (e_model e) (e_type e)) (Some e)
  && forallb (fun a => opt_eqb centry_eqb (find_entry cat a (e_type e)) (Some e)) (e_also e)
  && mem_str (e_type e) comp_types.

Lemma comp_catalog_found_b : forallb (entry_found comp_catalog) comp_catalog = true.
Proof. vm_cast_no_check (eq_refl true). Qed.

Theorem comp_catalog_found : forall e, In e comp_catalog ->
  find_entry comp_catalog (e_model e) (e_type e) = Some e /\
  (forall a, In a (e_also e) -> find_entry comp_catalog a (e_type e) = Some e) /\
  type_from_str (e_type e) = Some (e_type e).
Proof.
  intros e He. pose proof comp_catalog_found_b as H. rewrite forallb_forall in H. specialize (H e He).
  unfold entry_found in H. apply andb_true_iff in H. destruct H as [H H3]. apply andb_true_iff in H. destruct H as [H1 H2].
  split; [|split].
  - apply (opt_eqb_eq _ centry_eqb_true). exact H1.
  - intros a Ha. rewrite forallb_forall in H2. apply (opt_eqb_eq _ centry_eqb_true). apply H2. exact Ha.
  - unfold type_from_str. rewrite H3. reflexivity.
Qed.

Theorem component_matches_catalogue : forall e, In e comp_catalog ->
  forall name nsid ids labs parent, entry_args_wf e ids labs = true ->
  exists c, gen_component comp_catalog name (ByTypeModel (Some (e_type e)) (Some (e_model e))) nsid ids labs parent = Ok c /\
            comp_spec e name nsid ids labs parent c.
Proof.
  intros e He name nsid ids labs parent Hwf. destruct (comp_catalog_found e He) as [H1 [_ H3]].
  apply gen_component_spec; assumption.
Qed.

Theorem component_alias_matches_catalogue : forall e a, In e comp_catalog -> In a (e_also e) ->
  forall name nsid ids labs parent,
  gen_component comp_catalog name (ByTypeModel (Some (e_type e)) (Some a)) nsid ids labs parent
  = gen_component comp_catalog name (ByTypeModel (Some (e_type e)) (Some (e_model e))) nsid ids labs parent.
Proof.
  intros e a He Ha name nsid ids labs parent. destruct (comp_catalog_found e He) as [H1 [H2 _]].
  rewrite (gen_component_alias _ e a); [|apply H2; exact Ha].
  rewrite (gen_component_alias _ e (e_model e)); [reflexivity|exact H1].
Qed.

Theorem component_model_type_matches_catalogue : forall i e, nth_error comp_catalog i = Some e ->
  forall name nsid ids labs parent,
  gen_component comp_catalog name (ByModelType (N.of_nat (Datatypes.S i))) nsid ids labs parent
  = gen_component comp_catalog name (ByTypeModel (Some (e_type e)) (Some (e_model e))) nsid ids labs parent.
Proof.
  intros i e Hn name nsid ids labs parent. apply gen_component_model_type; [lia|].
  replace (N.to_nat (N.of_nat (Datatypes.S i) - 1)) with i by lia. exact Hn.
Qed.

(* look-ups that must fail *)
Theorem component_unknown_raises : forall cat name m t nsid ids labs parent,
  (forall e, In e cat -> entry_matches m t e = false) ->
  gen_component cat name (ByTypeModel (Some t) (Some m)) nsid ids labs parent = Err (S"CatalogException").
Proof.
  intros cat name m t nsid ids labs parent H. unfold gen_component, find_entry.
  destruct (find (entry_matches m t) cat) as [e|] eqn:E; [|reflexivity].
  apply find_some in E. destruct E as [He Hm]. rewrite (H e He) in Hm. discriminate.
Qed.

(* ---------- unit counts ---------- *)
(* the count the property asks for: the number of devices behind the interface *)
Definition units_spec (b : bdf_t) : Z := match b with BList l => Z.of_nat (List.length l) | _ => 1 end.

Theorem units_all : forall b, units_of b = units_spec b.
Proof. intros [|s|l]; reflexivity. Qed.

(* ---------- the combined type-model enumeration ---------- *)
Fixpoint expected_members_from (i : nat) (cat : list comp_entry) : list (str * N * option comp_entry) :=
  match cat with
  | [] => []
  | e :: r => (type_model_name e, N.of_nat (Datatypes.S i), Some e) :: expected_members_from (Datatypes.S i) r
  end.
Definition expected_members (cat : list comp_entry) := expected_members_from 0 cat.

Definition member_eqb (a b : str * N * option comp_entry) : bool :=
  str_eqb (fst (fst a)) (fst (fst b)) && N.eqb (snd (fst a)) (snd (fst b)) && opt_eqb centry_eqb (snd a) (snd b).
Lemma member_eqb_true a b : member_eqb a b = true -> a = b.
Proof.
  destruct a as [[k v] e], b as [[k' v'] e']. unfold member_eqb. cbn [fst snd]. intro E.
  apply andb_true_iff in E. destruct E as [E E3]. apply andb_true_iff in E. destruct E as [E1 E2].
  apply str_eqb_eq in E1. apply N.eqb_eq in E2. apply (opt_eqb_eq _ centry_eqb_true) in E3. congruence.
Qed.

Lemma expected_members_nth cat : forall i0 i e, nth_error cat i = Some e ->
  nth_error (expected_members_from i0 cat) i = Some (type_model_name e, N.of_nat (Datatypes.S (i0 + i)), Some e).
Proof.
  induction cat as [|x cat IH]; intros i0 [|i] e H; simpl in *; try discriminate.
  - inversion H; subst. rewrite Nat.add_0_r. reflexivity.
  - rewrite (IH (Datatypes.S i0) i e H). rewrite <- Nat.add_succ_comm. reflexivity.
Qed.
Lemma expected_members_length cat : forall i0, List.length (expected_members_from i0 cat) = List.length cat.
Proof. induction cat as [|x cat IH]; intro i0; simpl; [reflexivity|]. rewrite IH. reflexivity. Qed.

Lemma enum_exact_b : list_eqb member_eqb (enum_members comp_catalog) (expected_members comp_catalog) = true.
Proof. vm_cast_no_check (eq_refl true). Qed.

Theorem enum_exact :
  List.length (enum_members comp_catalog) = List.length comp_catalog /\
  forall i e, nth_error comp_catalog i = Some e ->
    nth_error (enum_members comp_catalog) i = Some (type_model_name e, N.of_nat (Datatypes.S i), Some e).
Proof.
  pose proof (list_eqb_eq member_eqb member_eqb_true _ _ enum_exact_b) as H. rewrite H. split.
  - apply expected_members_length.
  - intros i e Hn. apply (expected_members_nth comp_catalog 0 i e Hn).
Qed.

(* C13: ADM.rewrite_delegations on a partition changes only the key of each delegation property. *)
From Coq Require Import List NArith Bool Lia.
From FIM Require Import Gen.Adm13Gen Model.Adm13 Proofs.Adm13Gen Proofs.Adm13Spec Proofs.Adm13Props.
Import ListNotations.
Open Scope N_scope.

(* a delegation property that is absent or holds exactly one entry *)
Definition single_opt (o : option dmap) : Prop := o = None \/ exists k x, o = Some [(k, x)].
Definition single_node (n : node) : Prop := single_opt (ldel n) /\ single_opt (cdel n).

Lemma for_id_single d o : single_opt (for_id_opt d o).
Proof.
  destruct o as [m|]; simpl; [|left; reflexivity]. unfold for_id. destruct (dget d m) as [x|].
  - right. exists d, x. reflexivity.
  - left. reflexivity.
Qed.

Lemma restrict_single d n : single_node (restrict d n).
Proof. split; apply for_id_single. Qed.

Lemma rekey_single gid o : single_opt o -> rekey gid o = Ok (rekey_map gid o).
Proof. intros [->|[k [x ->]]]; reflexivity. Qed.

Lemma rekey_map_single gid o : single_opt o -> single_opt (rekey_map gid o).
Proof. intros [->|[k [x ->]]]; [left | right; exists gid, x]; reflexivity. Qed.

Lemma rekey_node_single gid n : single_node n -> rekey_node gid n = Ok (rekeyed gid n).
Proof.
  intros [Hl Hc]. unfold rekey_node, rekeyed. rewrite (rekey_single _ _ Hl), (rekey_single _ _ Hc). reflexivity.
Qed.

Lemma rekeyed_single gid n : single_node n -> single_node (rekeyed gid n).
Proof. intros [Hl Hc]. split; simpl; apply rekey_map_single; assumption. Qed.

Lemma rewrite_nodes_ok gid todo : forall g,
  NoDup (node_ids g) -> NoDup todo -> incl todo (node_ids g) -> (forall n, In n (gnodes g) -> single_node n) ->
  rewrite_nodes gid todo g =
  (mkGraph (map (fun n => if memb (nid n) todo then rekeyed gid n else n) (gnodes g)) (gedges g), None).
Proof.
  induction todo as [|i todo IH]; intros g Hnd Ht Hincl Hs.
  - simpl. rewrite map_id, graph_eta. reflexivity.
  - cbn [rewrite_nodes]. inversion Ht; subst.
    assert (Hi : In i (node_ids g)) by (apply Hincl; left; reflexivity).
    apply in_map_iff in Hi. destruct Hi as [n [Hid Hin]].
    rewrite <- Hid. rewrite (find_node_unique g n Hnd Hin). rewrite (rekey_node_single gid n (Hs n Hin)).
    assert (Hids : node_ids (upd_node g (nid n) (fun _ => rekeyed gid n)) = node_ids g).
    { unfold node_ids, upd_node. simpl. rewrite map_map. apply map_ext_in. intros m Hm.
      destruct (nid m =? nid n) eqn:E; [|reflexivity]. apply N.eqb_eq in E. simpl. congruence. }
    rewrite IH.
    + unfold upd_node. cbn [gnodes gedges]. f_equal. f_equal. rewrite map_map. apply map_ext_in. intros m Hm.
      rewrite memb_cons. destruct (nid m =? nid n) eqn:E.
      * apply N.eqb_eq in E. assert (m = n) by (apply (nodes_unique (gnodes g)); auto). subst m.
        cbn [orb]. replace (nid (rekeyed gid n)) with (nid n) by reflexivity.
        rewrite Hid. apply memb_false in H1. rewrite H1. reflexivity.
      * cbn [orb]. reflexivity.
    + rewrite Hids. exact Hnd.
    + exact H2.
    + rewrite Hids. intros x Hx. apply Hincl. right. exact Hx.
    + intros m Hm. unfold upd_node in Hm. simpl in Hm. apply in_map_iff in Hm. destruct Hm as [m0 [E Hm0]].
      destruct (nid m0 =? nid n); subst m.
      * apply rekeyed_single. apply Hs. exact Hin.
      * apply Hs. exact Hm0.
Qed.

Lemma rewrite_delegations_ok g gid :
  NoDup (node_ids g) -> gnodes g <> [] -> (forall n, In n (gnodes g) -> single_node n) ->
  rewrite_delegations g gid = (mkGraph (map (rekeyed gid) (gnodes g)) (gedges g), None).
Proof.
  intros Hn Hne Hs. unfold rewrite_delegations.
  assert (R : rewrite_nodes gid (node_ids g) g = (mkGraph (map (rekeyed gid) (gnodes g)) (gedges g), None)).
  2:{ rewrite R. destruct (gnodes g); [contradiction | reflexivity]. }
  rewrite rewrite_nodes_ok.
  2: exact Hn. 2: exact Hn. 3: exact Hs.
  - f_equal. f_equal. apply map_ext_in. intros m Hi.
    assert (H : memb (nid m) (node_ids g) = true) by (apply memb_In; apply in_map; exact Hi). rewrite H. reflexivity.
  - intros x Hx. exact Hx.
Qed.

(* what rekeyed does to a node: only the key of every delegation entry changes *)
Lemma rekeyed_only_key gid n :
  nid (rekeyed gid n) = nid n /\ ncls (rekeyed gid n) = ncls n /\ nstitch (rekeyed gid n) = nstitch n /\
  nprops (rekeyed gid n) = nprops n /\
  is_some (ldel (rekeyed gid n)) = is_some (ldel n) /\ is_some (cdel (rekeyed gid n)) = is_some (cdel n) /\
  entries (ldel (rekeyed gid n)) = map (fun p => (gid, snd p)) (entries (ldel n)) /\
  entries (cdel (rekeyed gid n)) = map (fun p => (gid, snd p)) (entries (cdel n)).
Proof. destruct n as [i c s p [l|] [cd|]]; repeat split; reflexivity. Qed.

Lemma adm_spec_single A d n : In n (gnodes (adm_spec A d)) -> single_node n.
Proof. intros H. apply adm_nodes in H. destruct H as [m [_ [_ ->]]]. apply restrict_single. Qed.

(* ------------------------------------------------------------------ re-keying again *)
Lemma rekeyed_rekeyed g1 g2 n : rekeyed g2 (rekeyed g1 n) = rekeyed g2 n.
Proof.
  destruct n as [i c s p l cd]. unfold rekeyed, set_cdel, set_ldel, rekey_map. simpl.
  f_equal; [destruct l as [m|] | destruct cd as [m|]]; simpl; try reflexivity;
    rewrite map_map; reflexivity.
Qed.

(* only the last key counts; in particular re-keying twice to the same id is re-keying once *)
Lemma rewrite_twice g g1 g2 :
  NoDup (node_ids g) -> gnodes g <> [] -> (forall n, In n (gnodes g) -> single_node n) ->
  rewrite_delegations (fst (rewrite_delegations g g1)) g2 = rewrite_delegations g g2.
Proof.
  intros Hn Hne Hs. rewrite (rewrite_delegations_ok g g1 Hn Hne Hs). simpl.
  rewrite (rewrite_delegations_ok g g2 Hn Hne Hs).
  rewrite rewrite_delegations_ok.
  - simpl. rewrite map_map. f_equal. f_equal. apply map_ext. intros n. apply rekeyed_rekeyed.
  - unfold node_ids. simpl. rewrite map_map. simpl. exact Hn.
  - simpl. destruct (gnodes g); [contradiction | discriminate].
  - simpl. intros n Hi. apply in_map_iff in Hi. destruct Hi as [m [<- Hm]]. apply rekeyed_single. apply Hs. exact Hm.
Qed.

(* a delegation property whose (only) key already is the target key is left as it is *)
Lemma rekeyed_same_key d n :
  (forall d' x, In (d', x) (entries (ldel n)) \/ In (d', x) (entries (cdel n)) -> d' = d) -> rekeyed d n = n.
Proof.
  intros H. destruct n as [i c s p l cd]. unfold rekeyed, set_cdel, set_ldel, rekey_map. simpl in *.
  assert (M : forall m : dmap, (forall d' x, In (d', x) m -> d' = d) -> map (fun p => (d, snd p)) m = m).
  { induction m as [|[k x] m IH]; simpl; intros Hm; [reflexivity|]. rewrite (Hm k x (or_introl eq_refl)).
    f_equal. apply IH. intros d' y Hy. apply (Hm d' y). right. exact Hy. }
  f_equal; [destruct l as [m|] | destruct cd as [m|]]; simpl; try reflexivity; f_equal; apply M; intros d' x Hi;
    apply (H d' x); auto.
Qed.

(* C04 on the shared store: the frame theorem (one step, then all histories). *)
From Coq Require Import List NArith Bool Lia.
From FIM Require Import Base.Assoc Model.Store Proofs.IsolationBase Proofs.IsolationShared.
Import ListNotations.
Open Scope N_scope.

Section Frame.
Variable G : nxg.
Variables g g' : N.
Hypothesis Hnd : NoDup (ids G).
Hypothesis Hne : g <> g'.

Lemma frame_set_node_found n id ps ps' :
  find_node G g n = Some id -> nx_node G id = Some ps ->
  has_val ps' k_graphid g' = has_val ps k_graphid g' ->
  view (nx_set_node G id ps') g' = view G g'.
Proof.
  intros Hf Hn Hsame.
  destruct (find_node_sound G g n id Hnd Hf) as [ps0 [H1 [H2 _]]].
  rewrite Hn in H1. inversion H1; subst ps0.
  pose proof (in_g_other g g' (id, ps) H2 Hne) as H3.
  apply (view_set_node G id ps ps' g' Hn H3). unfold in_g in *. simpl in *. congruence.
Qed.

Lemma frame_update_node n p v :
  N.eqb p k_graphid = false -> view (fst (pg_update_node G g n p v)) g' = view G g'.
Proof.
  intro Hp. unfold pg_update_node.
  destruct (N.eqb p k_class); [reflexivity|].
  destruct (find_node G g n) as [id|] eqn:Ef; [|reflexivity].
  destruct (nx_node G id) as [ps|] eqn:En; [|reflexivity]. simpl.
  eapply frame_set_node_found; eauto. apply has_val_aset_other. now apply N.eqb_neq.
Qed.

Lemma frame_unset_node n p : view (fst (pg_unset_node G g n p)) g' = view G g'.
Proof.
  unfold pg_unset_node.
  destruct (N.eqb p k_class); [reflexivity|].
  destruct (memN p no_unset) eqn:Em; [reflexivity|].
  destruct (find_node G g n) as [id|] eqn:Ef; [|reflexivity].
  destruct (nx_node G id) as [ps|] eqn:En; [|reflexivity]. simpl.
  eapply frame_set_node_found; eauto. apply has_val_aremove_other.
  intro E; subst p. discriminate Em.
Qed.

Lemma frame_update_node_props n upd :
  ahas k_graphid upd = false -> view (fst (pg_update_node_props G g n upd)) g' = view G g'.
Proof.
  intro Hp. unfold pg_update_node_props.
  destruct (ahas k_class upd); [reflexivity|].
  destruct (find_node G g n) as [id|] eqn:Ef; [|reflexivity].
  destruct (nx_node G id) as [ps|] eqn:En; [|reflexivity]. simpl.
  eapply frame_set_node_found; eauto. now apply has_val_aupdate_notin.
Qed.

Lemma ids_in_g_not_in_other i : In i (ids_in G g) -> memN i (ids_in G g') = false.
Proof.
  intro Hi. unfold ids_in in Hi. apply in_map_iff in Hi as [[j ps] [Hj Hf]]. simpl in Hj; subst j.
  apply filter_In in Hf as [Hin Hg].
  eapply not_in_other; eauto. unfold nx_node. now apply NoDup_In_aget.
Qed.

Lemma frame_update_nodes p v :
  N.eqb p k_graphid = false -> view (fst (pg_update_nodes G g p v)) g' = view G g'.
Proof.
  intro Hp. unfold pg_update_nodes, find_all. rewrite search_graphid_ids_in.
  destruct (ids_in G g) as [|i0 r0] eqn:Eids; [reflexivity|].
  destruct (N.eqb p k_class); [reflexivity|]. simpl. rewrite <- Eids.
  assert (E : filter (in_g g') (upd_nodes (ids_in G g) p v (gn G)) = filter (in_g g') (gn G)).
  { unfold upd_nodes. apply filter_map_stable. intros [i ps] Hin. simpl. split.
    - destruct (memN i (ids_in G g)); [|reflexivity]. unfold in_g. simpl.
      apply has_val_aset_other. now apply N.eqb_neq.
    - intro Hg'. destruct (memN i (ids_in G g)) eqn:Em; [|reflexivity]. exfalso.
      apply memN_In in Em. apply ids_in_g_not_in_other in Em. apply memN_false in Em. apply Em.
      unfold ids_in. apply in_map_iff. exists (i, ps). split; [reflexivity|]. apply filter_In. now split. }
  apply view_same_filter; [exact E | reflexivity].
Qed.

Lemma find_link_first a b ia ib ps : find_link G g a b = Some (ia, ib, ps) -> find_node G g a = Some ia.
Proof.
  unfold find_link. destruct (find_node G g a) as [x|]; [|discriminate].
  destruct (find_node G g b) as [y|]; [|discriminate].
  destruct (nx_edge G x y); [|discriminate]. intro H; inversion H; now subst.
Qed.

Lemma frame_with_link a b kind gd f : view (fst (with_link G g a b kind gd f)) g' = view G g'.
Proof.
  unfold with_link. destruct gd; [reflexivity|].
  destruct (find_link G g a b) as [[[ia ib] ps]|] eqn:E; [|reflexivity].
  destruct (has_val ps k_class kind); [|reflexivity]. simpl.
  apply view_set_edge. eapply find_node_not_in_other; eauto. eapply find_link_first; eauto.
Qed.

Lemma frame_add_link a rel b ps : view (fst (pg_add_link G g a rel b ps)) g' = view G g'.
Proof.
  unfold pg_add_link.
  destruct (find_node G g a) as [ia|] eqn:Ea; [|reflexivity].
  destruct (find_node G g b) as [ib|] eqn:Eb; [|reflexivity].
  assert (Hm : memN ia (ids_in G g') = false) by (eapply find_node_not_in_other; eauto).
  destruct ps as [upd|]; simpl.
  - destruct (ahas k_class upd); simpl; [reflexivity | now apply view_add_edge].
  - now apply view_add_edge.
Qed.

Lemma frame_delete_node n : view (fst (pg_delete_node G g n)) g' = view G g'.
Proof.
  unfold pg_delete_node. destruct (find_node G g n) as [id|] eqn:Ef; [|reflexivity]. simpl.
  apply view_remove_node. eapply find_node_not_in_other; eauto.
Qed.

Lemma frame_del_graph_nxg : view (nx_remove_nodes G (search G [(k_graphid, g)])) g' = view G g'.
Proof.
  rewrite search_graphid_ids_in. apply view_remove_nodes. apply ids_in_g_not_in_other.
Qed.

Lemma blank_in_g n c : has_val (blank_attrs g n c) k_graphid g = true.
Proof. unfold blank_attrs, has_val. rewrite aget_aset_same. simpl. apply N.eqb_refl. Qed.

Lemma nx_node_add_fresh id attrs : nx_node G id = None -> nx_node (nx_add_node G id attrs) id = Some attrs.
Proof.
  intro Hn. unfold nx_add_node. rewrite Hn. unfold nx_node in *. simpl.
  induction (gn G) as [|[i q] r IH]; simpl in *.
  - now rewrite N.eqb_refl.
  - destruct (N.eqb id i); [discriminate | now apply IH].
Qed.

Lemma frame_add_node newid n c ps G' :
  nx_node G newid = None ->
  match ps with Some u => ahas k_graphid u = false | None => True end ->
  pg_add_node G g newid n c ps = Some G' -> view G' g' = view G g'.
Proof.
  intros Hfresh Hps Hadd. unfold pg_add_node in Hadd.
  destruct (search G [(k_graphid, g); (k_nodeid, n)]); [|discriminate].
  assert (Hb : in_g g' (newid, blank_attrs g n c) = false).
  { apply (in_g_other g g'); [|exact Hne]. unfold in_g. simpl. apply blank_in_g. }
  pose proof (view_add_node_fresh G newid (blank_attrs g n c) g' Hfresh Hb) as Hv.
  destruct ps as [upd|]; [|inversion Hadd; subst; exact Hv].
  rewrite (nx_node_add_fresh newid _ Hfresh) in Hadd. inversion Hadd; subst G'.
  rewrite <- Hv. apply (view_set_node _ newid (blank_attrs g n c)).
  - now apply nx_node_add_fresh.
  - exact Hb.
  - unfold in_g in *. simpl in *. now rewrite has_val_aupdate_notin.
Qed.

End Frame.

(* ---------- imports ---------- *)
Lemma ahas_In {V} k (l : list (N * V)) : ahas k l = true <-> In k (map fst l).
Proof.
  unfold ahas. destruct (aget k l) eqn:E.
  - split; [intros _|reflexivity]. apply aget_In in E. change k with (fst (k, v)). now apply in_map.
  - split; [discriminate|]. intro H. apply aget_None_notin in E. contradiction.
Qed.

Lemma relabel_edge_ge ns first e :
  (let '(a, b, _) := e in ahas a ns && ahas b ns) = true -> first <= fst (fst (relabel_edge ns first e)).
Proof.
  destruct e as [[a b] ps]. intro H. apply andb_true_iff in H as [Ha _].
  unfold relabel_edge. simpl. destruct (index_of_some a ns first Ha) as [i Hi]. rewrite Hi.
  apply index_of_bounds in Hi. lia.
Qed.

Lemma relabel_nodes_snd l f n : In n (relabel_nodes l f) -> exists k, In (k, snd n) l.
Proof.
  revert f; induction l as [|[k ps] r IH]; intro f; simpl; [intros []|].
  intros [H|H].
  - subst n. exists k. now left.
  - destruct (IH _ H) as [k' Hk]. exists k'. now right.
Qed.

Lemma frame_add_graph s g g' ig :
  SInv s -> g <> g' -> edges_ok ig = true ->
  view (sg (fst (s_add_graph s g ig))) g' = view (sg s) g'.
Proof.
  intros HI Hne Hok. unfold s_add_graph.
  pose proof (SInv_del_graph s g HI) as [H1 H2].
  assert (Hdel : view (sg (s_del_graph s g)) g' = view (sg s) g').
  { unfold s_del_graph. simpl. apply frame_del_graph_nxg; [apply HI | exact Hne]. }
  set (s1 := s_del_graph s g) in *.
  destruct (existsb node_id_missing (inodes (relabel ig (snext s1)))); cbn [fst]; [exact Hdel|].
  cbn [sg]. rewrite <- Hdel.
  apply (view_add_all (sg s1) _ _ g' (snext s1)); [exact H1 | exact H2 | | |].
  - rewrite map_fst_stamp. unfold stamp. rewrite map_length. apply relabel_inodes_fst.
  - intros n Hn. unfold stamp in Hn. apply in_map_iff in Hn as [[i ps] [E _]]. subst n.
    apply (in_g_other g g'); [|exact Hne]. unfold in_g, has_val. simpl. rewrite aget_aset_same. simpl. apply N.eqb_refl.
  - intros e He. unfold relabel in He. simpl in He. apply in_map_iff in He as [e0 [E He0]]. subst e.
    apply relabel_edge_ge. unfold edges_ok in Hok. rewrite forallb_forall in Hok.
    specialize (Hok e0 He0). destruct e0 as [[a b] ps]. exact Hok.
Qed.

Lemma frame_add_graph_direct s g g' ig :
  SInv s -> g <> g' -> edges_ok ig = true ->
  forallb (fun n => has_val (snd n) k_graphid g) (inodes ig) = true ->
  view (sg (fst (s_add_graph_direct s g ig))) g' = view (sg s) g'.
Proof.
  intros HI Hne Hok Hdir. unfold s_add_graph_direct. cbn [fst sg].
  pose proof (SInv_del_graph s g HI) as [H1 H2].
  assert (Hdel : view (sg (s_del_graph s g)) g' = view (sg s) g').
  { unfold s_del_graph. simpl. apply frame_del_graph_nxg; [apply HI | exact Hne]. }
  set (s1 := s_del_graph s g) in *. rewrite <- Hdel.
  apply (view_add_all (sg s1) _ _ g' (snext s1)); [exact H1 | exact H2 | | |].
  - apply relabel_inodes_fst.
  - intros n Hn. unfold relabel in Hn. simpl in Hn. apply relabel_nodes_snd in Hn as [k Hk].
    rewrite forallb_forall in Hdir. specialize (Hdir _ Hk). simpl in Hdir.
    apply (in_g_other g g'); [exact Hdir | exact Hne].
  - intros e He. unfold relabel in He. simpl in He. apply in_map_iff in He as [e0 [E He0]]. subst e.
    apply relabel_edge_ge. unfold edges_ok in Hok. rewrite forallb_forall in Hok.
    specialize (Hok e0 He0). destruct e0 as [[a b] ps]. exact Hok.
Qed.

Lemma extract_edges_ok G g ig : s_extract G g = Some ig -> edges_ok ig = true.
Proof.
  unfold s_extract. destruct (search G [(k_graphid, g)]) as [|x r] eqn:E; [discriminate|].
  intro H; inversion H; subst ig; clear H. unfold edges_ok. cbn [inodes iedges].
  apply forallb_forall. intros [[a b] ps] He. apply filter_In in He as [_ He].
  unfold in_ids in He. apply andb_true_iff in He as [Ha Hb].
  assert (K : forall a, memN a (x :: r) = true -> ahas a (filter (fun n => memN (fst n) (x :: r)) (gn G)) = true).
  { intros c Hc. apply ahas_In. pose proof Hc as Hc'. apply memN_In in Hc. rewrite <- E in Hc.
    unfold search in Hc. apply in_map_iff in Hc as [n [Hn1 Hn2]]. apply filter_In in Hn2 as [Hn2 _].
    apply in_map_iff. exists n. split; [exact Hn1|]. apply filter_In. split; [exact Hn2|]. now rewrite Hn1. }
  apply andb_true_iff. split; apply K; assumption.
Qed.

(* ---------- the frame theorem ---------- *)
Theorem frame_step s o g' :
  SInv s -> frame_scope o = true -> target o <> g' ->
  view (sg (fst (sstep s o))) g' = view (sg s) g'.
Proof.
  intros HI Hsc Hne. pose proof HI as [Hnd Hlt].
  destruct o; simpl in Hsc, Hne; simpl; try reflexivity.
  - now apply frame_add_graph.
  - apply andb_true_iff in Hsc as [H1 H2]. now apply frame_add_graph_direct.
  - now apply frame_del_graph_nxg.
  - unfold s_clone. destruct (s_extract (sg s) g) as [ig|] eqn:E; [|reflexivity].
    apply frame_add_graph; auto. eapply extract_edges_ok; eauto.
  - destruct (pg_add_node (sg s) g (snext s) n c ps) as [G'|] eqn:E; simpl; [|reflexivity].
    eapply (frame_add_node (sg s) g g' Hne); [| |exact E].
    + unfold nx_node. apply aget_None_notin. intro Hin. apply Hlt in Hin. lia.
    + destruct ps; [now apply negb_true_iff in Hsc | exact I].
  - now apply frame_delete_node.
  - now apply frame_add_link.
  - apply frame_update_node; auto. now apply negb_true_iff in Hsc.
  - now apply frame_unset_node.
  - apply frame_update_nodes; auto. now apply negb_true_iff in Hsc.
  - apply frame_update_node_props; auto. now apply negb_true_iff in Hsc.
  - now apply frame_with_link.
  - now apply frame_with_link.
  - now apply frame_with_link.
  - discriminate.
Qed.

Theorem frame_histories ops : forall s g',
  SInv s -> (forall o, In o ops -> frame_scope o = true /\ target o <> g') ->
  view (sg (srun ops s)) g' = view (sg s) g'.
Proof.
  induction ops as [|o r IH]; intros s g' HI H; simpl; [reflexivity|].
  rewrite IH.
  - destruct (H o (or_introl eq_refl)). now apply frame_step.
  - now apply SInv_step.
  - intros o' Ho'. apply H. now right.
Qed.

(* from the empty store: no precondition at all on the prefix of the history *)
Theorem frame_after_any_prefix pre ops g' :
  (forall o, In o ops -> frame_scope o = true /\ target o <> g') ->
  view (sg (srun (pre ++ ops) init_store)) g' = view (sg (srun pre init_store)) g'.
Proof.
  intro H. unfold srun. rewrite fold_left_app. apply frame_histories; [|exact H].
  apply SInv_run. apply SInv_init.
Qed.

(* C07 - remove_cp_and_links as a unit: it keeps the relaxed invariant; the service ports that faced a removed interface
   across a link become exempt from the peer rule (they are "stranded" until somebody removes them too). *)
From Coq Require Import String List NArith ZArith Bool Arith Lia.
From FIM Require Import Base.Str Gen.Rules Model.T7Graph Model.T7Ops Model.T7WF Model.T7Steps Model.T7Rel
     Proofs.T7Tables Proofs.T7WFRefl Proofs.T7Frame Proofs.T7Units Proofs.T7Api Proofs.T7RelUnits Proofs.T7RelRun.
Import ListNotations.

Lemma first_nb_sym g x y r k k' : In y (first_nb g x r k) -> cls_is g x k' = true -> In x (first_nb g y r k').
Proof. intros H Hk. apply In_first_nb in H as [H _]. apply In_first_nb. split; [apply nbrs_sym; exact H | exact Hk]. Qed.

Lemma In_peers g y n l : In l (first_nb g y Connects KLink) -> In n (first_nb g l Connects KCP) -> n <> y -> In n (peers g y).
Proof.
  intros Hl Hn Hne. unfold peers. apply in_flat_map. exists l. split; [exact Hl|]. apply filter_In. split; [exact Hn|].
  apply negb_true_iff. apply str_eqb_neq. exact Hne.
Qed.
Lemma In_peers_inv g y n : In n (peers g y) -> exists l, In l (first_nb g y Connects KLink) /\ In n (first_nb g l Connects KCP) /\ n <> y.
Proof.
  unfold peers. intro H. apply in_flat_map in H as [l [Hl H]]. apply filter_In in H as [H1 H2].
  exists l. split; [exact Hl|]. split; [exact H1|]. apply negb_true_iff in H2. apply str_eqb_neq. exact H2.
Qed.

Lemma filter_sub_length {A} (P Q : A -> bool) l : (forall a, In a l -> P a = true -> Q a = true) -> length (filter P l) <= length (filter Q l).
Proof.
  induction l as [|a l IH]; simpl; intro H; [lia|].
  assert (IH' : length (filter P l) <= length (filter Q l)) by (apply IH; intros; apply H; auto).
  destruct (P a) eqn:Pa; [rewrite (H a (or_introl eq_refl) Pa); simpl; lia | destruct (Q a); simpl; lia].
Qed.

(* a sub-interface that obeys the structure rule has exactly its parent as interface neighbour *)
Lemma sub_cp_nbrs_le ep g n : struct_Pr ep g n -> ncls n = KCP -> typ_is g (nid n) sSubInterface = true ->
  length (first_nb g (nid n) Connects KCP) <= 1.
Proof.
  intros [_ [Sq _]] Hc Ht. destruct (Sq Hc) as [L [Sh _]]. rewrite <- L. unfold first_nb, cp_owners, nb_where.
  rewrite !map_length. apply filter_sub_length. intros [j r] Hin P. simpl in *.
  apply andb_true_iff in P as [P1 P2]. rewrite P1. simpl. rewrite Ht, P2. simpl.
  assert (Hj : In j (first_nb g (nid n) Connects KCP)).
  { apply In_first_nb. apply rel_eqb_eq in P1. subst r. auto. }
  specialize (Sh j Hj). rewrite Ht in Sh. destruct (typ_is g j sSubInterface); [congruence|]. apply orb_true_r.
Qed.

Lemma len1_same {A} (l : list A) a b : length l <= 1 -> In a l -> In b l -> a = b.
Proof. destruct l as [|x [|y l]]; simpl; intros L Ha Hb; try lia; try contradiction. destruct Ha as [<-|[]]. destruct Hb as [<-|[]]. reflexivity. Qed.

Section RemoveCp.
Variables (g : graph) (eo ep : str -> bool) (x : str) (dp : bool).
Let D := D_cp g x dp.
Let del := fun y => mem_str y D.
Let ep' := fun z => ep z || cp_stranded g x dp z.
Hypothesis W : WFr eo ep g.
Hypothesis Hx : cls_is g x KCP = true.
Hypothesis Hdp : dp = true \/ typ_is g x sSubInterface = true.

Lemma rc_ifs_cls i : In i (cp_ifs g x dp) -> cls_is g i KCP = true.
Proof.
  unfold cp_ifs. intro H. apply (proj1 (In_dedup _ _)) in H. destruct H as [<-|H]; [exact Hx|].
  unfold cp_extra in H. apply filter_In in H as [H _]. apply In_first_nb in H. tauto.
Qed.
Lemma rc_links_cls l : In l (cp_links g x dp) -> cls_is g l KLink = true.
Proof.
  unfold cp_links. intro H. apply in_flat_map in H as [i [_ H]]. apply filter_In in H as [H _]. apply In_first_nb in H. tauto.
Qed.
Lemma rc_del_inv y : del y = true -> (In y (cp_ifs g x dp) /\ cls_is g y KCP = true) \/ (In y (cp_links g x dp) /\ cls_is g y KLink = true).
Proof.
  unfold del, D, D_cp. intro H. apply mem_str_In in H. apply (proj1 (In_dedup _ _)) in H. apply in_app_or in H as [H|H].
  - left. split; [exact H | apply rc_ifs_cls; exact H].
  - right. split; [exact H | apply rc_links_cls; exact H].
Qed.
Lemma rc_del_ifs y : In y (cp_ifs g x dp) -> del y = true.
Proof. intro H. unfold del, D, D_cp. apply mem_str_In. apply In_dedup. apply in_or_app. left. exact H. Qed.

Lemma rc_class_safe o k : cls_is g o k = true -> k <> KCP -> k <> KLink -> del o = false.
Proof.
  intros Ho H1 H2. destruct (del o) eqn:E; [|reflexivity]. exfalso.
  destruct (rc_del_inv o E) as [[_ C]|[_ C]]; rewrite (cls_is_unique _ _ _ _ Ho) in C; congruence.
Qed.

Lemma rc_closed : closedR g del eo ep eo ep'.
Proof.
  intros n Hn Hd He. split; [exact He|].
  pose proof (r_ids _ _ _ W) as ND.
  destruct (ncls n) eqn:Hc; try exact I.
  - intros o Ho. unfold comp_owners in Ho. apply In_nb_where in Ho as [r [_ Ho]]. apply andb_true_iff in Ho as [_ Ho].
    apply orb_true_iff in Ho as [Ho|Ho]; eapply rc_class_safe; eauto; discriminate.
  - intros o Ho. unfold ns_owners in Ho. apply In_nb_where in Ho as [r [_ Ho]]. apply andb_true_iff in Ho as [_ Ho].
    apply orb_true_iff in Ho as [Ho|Ho]; [apply orb_true_iff in Ho as [Ho|Ho]|]; eapply rc_class_safe; eauto; discriminate.
  - assert (Cn : cls_is g (nid n) KCP = true) by (rewrite (cls_is_node g n _ ND Hn), Hc; reflexivity).
    pose proof (r_struct _ _ _ W n Hn He) as St.
    split.
    + intros o Ho. unfold cp_owners in Ho. apply In_nb_where in Ho as [r [Hadj Ho]]. apply andb_true_iff in Ho as [Hr Ho].
      apply rel_eqb_eq in Hr. subst r.
      apply orb_true_iff in Ho as [Ho|Ho]; [eapply rc_class_safe; eauto; discriminate|].
      apply andb_true_iff in Ho as [Ho Hns]. apply andb_true_iff in Ho as [Hsub Hoc]. apply negb_true_iff in Hns.
      destruct (del o) eqn:Edo; [|reflexivity]. exfalso.
      destruct (rc_del_inv o Edo) as [[Hoi _]|[_ C]]; [|rewrite (cls_is_unique _ _ _ _ Hoc) in C; [discriminate C | discriminate]].
      assert (Hno : In o (first_nb g (nid n) Connects KCP)) by (apply In_first_nb; auto).
      assert (Hon : In (nid n) (first_nb g o Connects KCP)) by (eapply first_nb_sym; eauto).
      pose proof (sub_cp_nbrs_le _ _ _ St Hc Hsub) as Ln.
      unfold cp_ifs in Hoi. apply (proj1 (In_dedup _ _)) in Hoi. destruct Hoi as [Eo|Hoe].
      * subst o. destruct Hdp as [Hd1|Hd2]; [|congruence].
        assert (Hex : In (nid n) (cp_extra g x dp)).
        { unfold cp_extra. apply filter_In. split; [exact Hon|]. rewrite Hd1, andb_true_r. apply len_is_eq.
          destruct (first_nb g (nid n) Connects KCP) as [|a [|b l]]; simpl in *; [contradiction | reflexivity | lia]. }
        assert (del (nid n) = true) by (apply rc_del_ifs; unfold cp_ifs; apply In_dedup; right; exact Hex). congruence.
      * unfold cp_extra in Hoe. apply filter_In in Hoe as [Hox Hlen]. apply andb_true_iff in Hlen as [Hlen _]. apply len_is_eq in Hlen.
        assert (Hxo : In x (first_nb g o Connects KCP)) by (eapply first_nb_sym; eauto).
        assert (E : nid n = x) by (eapply len1_same; [| exact Hon | exact Hxo]; lia).
        assert (del x = true) by (apply rc_del_ifs; unfold cp_ifs; apply In_dedup; left; reflexivity). congruence.
    + intros Ht Hp. unfold ep' in Hp. apply orb_false_iff in Hp as [Hp1 Hp2]. split; [exact Hp1|].
      assert (NS : forall i, In i (cp_ifs g x dp) -> ~ In (nid n) (peers g i)).
      { intros i Hi Hin. unfold cp_stranded in Hp2.
        assert (X : existsb (fun i => mem_str (nid n) (peers g i)) (cp_ifs g x dp) = true)
          by (apply existsb_exists; exists i; split; [exact Hi | apply mem_str_In; exact Hin]). congruence. }
      intros l Hl. assert (Cl : cls_is g l KLink = true) by (apply In_first_nb in Hl; tauto).
      assert (Hnl : In (nid n) (first_nb g l Connects KCP)) by (eapply first_nb_sym; eauto).
      split.
      * destruct (del l) eqn:Edl; [|reflexivity]. exfalso.
        destruct (rc_del_inv l Edl) as [[_ C]|[Hll _]]; [rewrite (cls_is_unique _ _ _ _ Cl) in C; [discriminate C | discriminate]|].
        unfold cp_links in Hll. apply in_flat_map in Hll as [i [Hi Hll]]. apply filter_In in Hll as [Hil _].
        pose proof (rc_ifs_cls i Hi) as Ci.
        assert (Hii : In i (first_nb g l Connects KCP)) by (eapply first_nb_sym; eauto).
        destruct (str_eq_dec (nid n) i) as [E|Hne].
        -- subst i. assert (del (nid n) = true) by (apply rc_del_ifs; exact Hi). congruence.
        -- apply (NS i Hi). eapply In_peers; eauto.
      * intros y Hy. destruct (del y) eqn:Edy; [|reflexivity]. exfalso.
        assert (Cy : cls_is g y KCP = true) by (apply In_first_nb in Hy; tauto).
        destruct (rc_del_inv y Edy) as [[Hyi _]|[_ C]]; [|rewrite (cls_is_unique _ _ _ _ Cy) in C; [discriminate C | discriminate]].
        destruct (str_eq_dec (nid n) y) as [E|Hne]; [subst y; congruence|].
        apply (NS y Hyi). eapply In_peers; [eapply first_nb_sym; eauto | exact Hnl | exact Hne].
Qed.

Theorem WFr_remove_cp_sec : WFr eo ep' (remove_set g del).
Proof. apply (WFr_remove_set g del eo ep eo ep' W rc_closed). Qed.
End RemoveCp.

Theorem WFr_remove_cp g eo ep x dp :
  WFr eo ep g -> cls_is g x KCP = true -> (dp = true \/ typ_is g x sSubInterface = true) ->
  WFr eo (fun z => ep z || cp_stranded g x dp z) (remove_set g (fun y => mem_str y (D_cp g x dp))).
Proof. intros W Hx Hdp. exact (WFr_remove_cp_sec g eo ep x dp W Hx Hdp). Qed.

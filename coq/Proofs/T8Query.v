(* C08 proofs, part 2: the queries on an induced subgraph (restrict g d) in terms of the queries on g. *)
From Coq Require Import List NArith Bool Lia.
From FIM Require Import Model.T8Graph Model.T8Ops Proofs.T8Frame.
Import ListNotations.

Lemma dedup_In x l : In x (dedup l) <-> In x l.
Proof.
  induction l as [|y l IH]; simpl; [tauto|].
  destruct (memN y l) eqn:E.
  - rewrite IH. split; [tauto|]. intros [->|H]; [apply memN_In; exact E | exact H].
  - simpl. rewrite IH. tauto.
Qed.

Lemma dedup_NoDup l : NoDup (dedup l).
Proof.
  induction l as [|y l IH]; simpl; [constructor|].
  destruct (memN y l) eqn:E; [exact IH|].
  constructor; [|exact IH]. rewrite dedup_In. apply memN_false. exact E.
Qed.

Lemma removeN_In x y l : In x (removeN y l) <-> In x l /\ x <> y.
Proof.
  unfold removeN. rewrite filter_In, negb_true_iff, N.eqb_neq. split; intros [A B]; split; auto.
Qed.

Lemma find_node_restrict g d y :
  find_node (restrict g d) y = if memN y d then None else find_node g y.
Proof.
  unfold find_node, restrict. simpl. induction (gnodes g) as [|x l IH]; simpl.
  - destruct (memN y d); reflexivity.
  - destruct (memN (nid x) d) eqn:Ex; simpl.
    + destruct (N.eqb (nid x) y) eqn:Exy.
      * apply N.eqb_eq in Exy. subst y. rewrite Ex in *. exact IH.
      * exact IH.
    + destruct (N.eqb (nid x) y) eqn:Exy.
      * apply N.eqb_eq in Exy. subst y. rewrite Ex. reflexivity.
      * exact IH.
Qed.

Lemma has_node_restrict g d y : has_node (restrict g d) y = negb (memN y d) && has_node g y.
Proof. unfold has_node. rewrite find_node_restrict. destruct (memN y d); reflexivity. Qed.

Lemma class_of_restrict g d y : memN y d = false -> class_of (restrict g d) y = class_of g y.
Proof. intros H. unfold class_of. rewrite find_node_restrict, H. reflexivity. Qed.

Lemma class_of_restrict_in g d y : memN y d = true -> class_of (restrict g d) y = COther.
Proof. intros H. unfold class_of. rewrite find_node_restrict, H. reflexivity. Qed.

Lemma type_of_restrict g d y : memN y d = false -> type_of (restrict g d) y = type_of g y.
Proof. intros H. unfold type_of. rewrite find_node_restrict, H. reflexivity. Qed.

Lemma name_of_restrict g d y : memN y d = false -> name_of (restrict g d) y = name_of g y.
Proof. intros H. unfold name_of. rewrite find_node_restrict, H. reflexivity. Qed.

Lemma nbrs_In g x y r :
  In (y, r) (nbrs g x) <->
  exists e, In e (gedges g) /\ erel e = r /\ ((ea e = x /\ eb e = y) \/ (ea e <> x /\ eb e = x /\ ea e = y)).
Proof.
  unfold nbrs. rewrite in_flat_map. split.
  - intros [e [He Hin]]. exists e. split; [exact He|].
    destruct (N.eqb (ea e) x) eqn:E1.
    + apply N.eqb_eq in E1. destruct Hin as [Hin|[]]. inversion Hin; subst. auto.
    + apply N.eqb_neq in E1. destruct (N.eqb (eb e) x) eqn:E2.
      * apply N.eqb_eq in E2. destruct Hin as [Hin|[]]. inversion Hin; subst. auto.
      * destruct Hin.
  - intros [e [He [Hr H]]]. exists e. split; [exact He|].
    destruct H as [[A B]|[A [B C]]].
    + subst. rewrite N.eqb_refl. left. reflexivity.
    + apply N.eqb_neq in A. rewrite A. subst. rewrite N.eqb_refl. left. reflexivity.
Qed.

(* the graph is undirected *)
Lemma nbrs_sym g x y r : In (y, r) (nbrs g x) -> In (x, r) (nbrs g y).
Proof.
  rewrite !nbrs_In. intros [e [He [Hr H]]]. exists e. split; [exact He|]. split; [exact Hr|].
  destruct H as [[A B]|[A [B C]]].
  - destruct (N.eq_dec x y) as [->|Hne].
    + left. auto.
    + right. subst. repeat split; auto.
  - left. auto.
Qed.

Lemma nbrs_restrict g d x y r :
  In (y, r) (nbrs (restrict g d) x) <-> In (y, r) (nbrs g x) /\ ~ In x d /\ ~ In y d.
Proof.
  rewrite !nbrs_In. split.
  - intros [e [He [Hr H]]]. apply restrict_edges in He. destruct He as [He [Ha Hb]].
    split; [exists e; auto|]. destruct H as [[A B]|[A [B C]]]; subst; auto.
  - intros [[e [He [Hr H]]] [Hx Hy]]. exists e. split; [|auto].
    apply restrict_edges. split; [exact He|]. destruct H as [[A B]|[A [B C]]]; subst; auto.
Qed.

Lemma first_neighbor_In g x r c y :
  In y (first_neighbor g x r c) <-> In (y, r) (nbrs g x) /\ class_of g y = c.
Proof.
  unfold first_neighbor. rewrite dedup_In, in_map_iff. split.
  - intros [[y' r'] [Hy Hin]]. simpl in Hy. subst y'. apply filter_In in Hin. destruct Hin as [Hin Hf].
    simpl in Hf. apply andb_true_iff in Hf. destruct Hf as [Hr Hc].
    destruct r, r'; simpl in Hr; try discriminate;
      (split; [exact Hin|]); destruct (class_of g y), c; simpl in Hc; try discriminate; reflexivity.
  - intros [Hin Hc]. exists (y, r). split; [reflexivity|]. apply filter_In. split; [exact Hin|].
    simpl. rewrite Hc. destruct r, c; reflexivity.
Qed.

Lemma nbrs_cls_In g x c y :
  In y (nbrs_cls g x c) <-> (exists r, In (y, r) (nbrs g x)) /\ class_of g y = c.
Proof.
  unfold nbrs_cls. rewrite dedup_In, in_map_iff. split.
  - intros [[y' r'] [Hy Hin]]. simpl in Hy. subst y'. apply filter_In in Hin. destruct Hin as [Hin Hc].
    simpl in Hc. split; [exists r'; exact Hin|]. destruct (class_of g y), c; simpl in Hc; try discriminate; reflexivity.
  - intros [[r Hin] Hc]. exists (y, r). split; [reflexivity|]. apply filter_In. split; [exact Hin|].
    simpl. rewrite Hc. destruct c; reflexivity.
Qed.

Lemma first_neighbor_NoDup g x r c : NoDup (first_neighbor g x r c).
Proof. apply dedup_NoDup. Qed.

(* the central fact: a neighbour query on the induced subgraph is the query on g, filtered *)
Lemma first_neighbor_restrict g d x r c y : c <> COther ->
  (In y (first_neighbor (restrict g d) x r c) <-> In y (first_neighbor g x r c) /\ ~ In x d /\ ~ In y d).
Proof.
  intros Hc. rewrite !first_neighbor_In, nbrs_restrict. split.
  - intros [[A [B C]] D]. assert (C' : memN y d = false) by (apply memN_false; exact C).
    rewrite (class_of_restrict _ _ _ C') in D. tauto.
  - intros [[A D] [B C]]. assert (C' : memN y d = false) by (apply memN_false; exact C).
    rewrite (class_of_restrict _ _ _ C'). tauto.
Qed.

Lemma nbrs_cls_restrict g d x c y : c <> COther ->
  (In y (nbrs_cls (restrict g d) x c) <-> In y (nbrs_cls g x c) /\ ~ In x d /\ ~ In y d).
Proof.
  intros Hc. rewrite !nbrs_cls_In. split.
  - intros [[r A] D]. apply nbrs_restrict in A. destruct A as [A [B C]].
    assert (C' : memN y d = false) by (apply memN_false; exact C).
    rewrite (class_of_restrict _ _ _ C') in D.
    split; [split; [exists r; exact A | exact D] | tauto].
  - intros [[[r A] D] [B C]]. split.
    + exists r. apply nbrs_restrict. tauto.
    + assert (C' : memN y d = false) by (apply memN_false; exact C).
      rewrite (class_of_restrict _ _ _ C'). exact D.
Qed.

Lemma first_neighbor_sym g x y r c c' :
  In y (first_neighbor g x r c) -> class_of g x = c' -> In x (first_neighbor g y r c').
Proof.
  rewrite !first_neighbor_In. intros [A B] C. split; [apply nbrs_sym; exact A | exact C].
Qed.

Lemma by_name_restrict g d c nm y :
  In y (by_name (restrict g d) c nm) <-> In y (by_name g c nm) /\ ~ In y d.
Proof.
  unfold by_name. rewrite !in_map_iff. split.
  - intros [x [Hx Hin]]. apply filter_In in Hin. destruct Hin as [Hin Hf].
    apply restrict_nodes in Hin. destruct Hin as [Hin Hd]. subst y. split; [|exact Hd].
    exists x. split; [reflexivity|]. apply filter_In. auto.
  - intros [[x [Hx Hin]] Hd]. apply filter_In in Hin. destruct Hin as [Hin Hf]. subst y.
    exists x. split; [reflexivity|]. apply filter_In. split; [|exact Hf]. apply restrict_nodes. auto.
Qed.

Lemma all_of_class_restrict g d c y :
  In y (all_of_class (restrict g d) c) <-> In y (all_of_class g c) /\ ~ In y d.
Proof.
  unfold all_of_class. rewrite !in_map_iff. split.
  - intros [x [Hx Hin]]. apply filter_In in Hin. destruct Hin as [Hin Hf].
    apply restrict_nodes in Hin. destruct Hin as [Hin Hd]. subst y. split; [|exact Hd].
    exists x. split; [reflexivity|]. apply filter_In. auto.
  - intros [[x [Hx Hin]] Hd]. apply filter_In in Hin. destruct Hin as [Hin Hf]. subst y.
    exists x. split; [reflexivity|]. apply filter_In. split; [|exact Hf]. apply restrict_nodes. auto.
Qed.

(* a duplicate-free list whose members are exactly one / exactly two given values *)
Lemma NoDup_len1 (l : list N) a : NoDup l -> (forall y, In y l <-> y = a) -> length l = 1%nat.
Proof.
  intros Hn H. destruct l as [|x [|y r]].
  - exfalso. apply (proj2 (H a) eq_refl).
  - reflexivity.
  - exfalso. assert (x = a) by (apply H; simpl; auto). assert (y = a) by (apply H; simpl; auto).
    subst. inversion Hn; subst. apply H2. simpl. auto.
Qed.

Lemma NoDup_len2 (l : list N) a b : a <> b -> NoDup l -> (forall y, In y l <-> y = a \/ y = b) -> length l = 2%nat.
Proof.
  intros Hab Hn H. destruct l as [|x [|y [|z r]]].
  - exfalso. apply (proj2 (H a)). auto.
  - exfalso. assert (A : a = x) by (destruct (proj2 (H a) (or_introl eq_refl)) as [E|[]]; auto).
    assert (B : b = x) by (destruct (proj2 (H b) (or_intror eq_refl)) as [E|[]]; auto). congruence.
  - reflexivity.
  - exfalso. inversion Hn as [|? ? Hx Hn']; subst. inversion Hn' as [|? ? Hy Hn'']; subst.
    inversion Hn'' as [|? ? Hz _]; subst.
    assert (Px : x = a \/ x = b) by (apply H; simpl; auto).
    assert (Py : y = a \/ y = b) by (apply H; simpl; auto).
    assert (Pz : z = a \/ z = b) by (apply H; simpl; auto).
    simpl in Hx, Hy. destruct Px, Py, Pz; subst; tauto.
Qed.

Lemma len1_inv (l : list N) : length l = 1%nat -> exists a, l = [a].
Proof. destruct l as [|a [|b r]]; simpl; intros H; try discriminate. exists a. reflexivity. Qed.

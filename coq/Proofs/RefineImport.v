(* C05: import (add_graph / add_graph_direct) and clone inside the refinement: both storage models
   refine the reference model's `import g G` / `clone g g2` (the graph's nodes and links replace what
   the id held); the one-graph-per-id store does so exactly where [in_disjoint_scope] holds, and
   deviates in a precisely stated way elsewhere. *)
From Coq Require Import List NArith Bool Lia.
From FIM Require Import Base.Assoc Model.Store Model.StoreDisjoint Model.PGSpec.
From FIM Require Import Proofs.IsolationBase Proofs.IsolationShared Proofs.IsolationFrame Proofs.IsolationDisjoint.
From FIM Require Import Proofs.RefineUnique Proofs.RefineSim Proofs.RefineStores Proofs.IsolationClone.
Import ListNotations.
Open Scope N_scope.

(* ---------- what g sees after fresh nodes of g and links among them were added to a store in which g
   held nothing ---------- *)
Lemma add_all_view G g NS ES first :
  NoDup (ids G) -> (forall i, In i (ids G) -> i < first) -> EClosed G -> EDist G ->
  filter (in_g g) (gn G) = [] ->
  map fst NS = seqN first (length NS) ->
  (forall nd, In nd NS -> in_g g nd = true) ->
  (forall a b ps, In (a, b, ps) ES -> In a (map fst NS) /\ In b (map fst NS)) ->
  pdist (map fst ES) ->
  view (nx_add_all G NS ES) g = (NS, ES).
Proof.
  intros Hnd Hlt Hcl Hd Hold HNS Hg HES HpES.
  assert (Hfresh : forall i, In i (map fst NS) -> ~ In i (ids G)).
  { intros i Hi Hin. rewrite HNS in Hi. apply seqN_In in Hi. apply Hlt in Hin. lia. }
  assert (Hpd : pdist (map fst (ge G) ++ map fst ES)).
  { assert (Hcross : forall p q, In p (map fst (ge G)) -> In q (map fst ES) -> same_pair p q = false).
    { intros [x y] [a b] Hp Hq. apply in_map_iff in Hp as [[[x' y'] d] [Ep Hp]]. cbn in Ep. inversion Ep; subst x' y'.
      apply in_map_iff in Hq as [[[a' b'] d'] [Eq Hq]]. cbn in Eq. inversion Eq; subst a' b'.
      destruct (Hcl x y d Hp) as [Hx Hy]. apply Hlt in Hx. apply Hlt in Hy.
      destruct (HES a b d' Hq) as [Ha Hb]. rewrite HNS in Ha, Hb. apply seqN_In in Ha, Hb.
      unfold same_pair. cbn [fst snd].
      assert (N.eqb x a = false) by (apply N.eqb_neq; lia). assert (N.eqb x b = false) by (apply N.eqb_neq; lia).
      now rewrite H, H0. }
    unfold EDist in Hd. clear -Hd HpES Hcross.
    induction (map fst (ge G)) as [|p l IH]; cbn [app pdist] in *; [exact HpES|].
    destruct Hd as [A B]. split.
    - intros q Hq. apply in_app_or in Hq as [Hq|Hq]; [now apply A | apply Hcross; [now left | exact Hq]].
    - apply IH; [exact B | intros; apply Hcross; [now right | assumption]]. }
  unfold nx_add_all. rewrite add_nodes_fresh; [| rewrite HNS; apply seqN_NoDup | exact Hfresh].
  rewrite add_edges_fresh by exact Hpd. cbn [gn ge].
  unfold view, ids_in. cbn [gn ge]. rewrite filter_app, Hold. cbn [app].
  rewrite (filter_id_all (in_g g) NS Hg). f_equal. rewrite filter_app.
  assert (E1 : filter (in_ids (map fst NS)) (ge G) = []).
  { apply filter_nil_all. intros [[x y] d] Hin. destruct (Hcl x y d Hin) as [Hx _]. apply Hlt in Hx.
    apply in_ids_false_l. apply memN_false. rewrite HNS. rewrite seqN_In. lia. }
  assert (E2 : filter (in_ids (map fst NS)) ES = ES).
  { apply filter_id_all. intros [[a b] ps] Hin. destruct (HES a b ps Hin) as [Ha Hb]. unfold in_ids.
    apply memN_In in Ha, Hb. now rewrite Ha, Hb. }
  now rewrite E1, E2.
Qed.

Lemma del_graph_no_nodes G g : filter (in_g g) (gn (nx_remove_nodes G (search G [(k_graphid, g)]))) = [].
Proof.
  unfold nx_remove_nodes. cbn [gn]. rewrite search_graphid_ids_in.
  apply filter_filter_nil. intros [i ps] Hin Hg. apply negb_false_iff. apply memN_In. unfold ids_in.
  apply in_map_iff. exists (i, ps). split; [reflexivity|]. apply filter_In. now split.
Qed.

Lemma relabel_edges_in_nodes ns es first a b ps :
  edges_ok (mkI ns es) = true -> In (a, b, ps) (map (relabel_edge ns first) es) ->
  In a (seqN first (length ns)) /\ In b (seqN first (length ns)).
Proof.
  intros Hok Hin. pose proof (relabel_edges_in (mkI ns es) first a b ps Hok) as K.
  rewrite relabel_inodes_fst in K. unfold relabel in K. cbn [inodes iedges] in K.
  rewrite relabel_nodes_length in K. now apply K.
Qed.

Lemma keys_of_edges ns es : edges_ok (mkI ns es) = true ->
  forall a b ps, In (a, b, ps) es -> ahas a ns = true /\ ahas b ns = true.
Proof.
  intros Hok a b ps Hin. unfold edges_ok in Hok. cbn [inodes iedges] in Hok. rewrite forallb_forall in Hok.
  specialize (Hok _ Hin). cbn in Hok. now apply andb_true_iff in Hok.
Qed.

(* ---------- the imported content as the reference model sees it ---------- *)
Lemma aget_relabel ns : forall f a i, index_of a ns f = Some i -> aget i (relabel_nodes ns f) = aget a ns.
Proof.
  induction ns as [|[k ps] r IH]; intros f a i; cbn [index_of relabel_nodes aget]; [discriminate|].
  destruct (N.eqb a k) eqn:E.
  - intro H. inversion H; subst i. now rewrite N.eqb_refl.
  - intro H. pose proof (index_of_bounds _ _ _ _ H) as B.
    assert (N.eqb i f = false) by (apply N.eqb_neq; lia). rewrite H0. now apply IH.
Qed.

Lemma aget_map_node (U : props -> props) (l : list node) i :
  aget i (map (fun n => (fst n, U (snd n))) l) = option_map U (aget i l).
Proof. induction l as [|[k q] r IH]; cbn; [reflexivity|]. destruct (N.eqb i k); [reflexivity | exact IH]. Qed.

Lemma nid_key_stamp g ps : nid_key (aset k_graphid (PV g) ps) = nid_key ps.
Proof. unfold nid_key. now rewrite aget_aset_other by discriminate. Qed.

Lemma key_nid_relabel_stamp g ns f a :
  ahas a ns = true -> key_nid (stamp g (relabel_nodes ns f)) (relab ns f a) = key_nid ns a.
Proof.
  intro Ha. unfold relab, key_nid, stamp. destruct (index_of_some a ns f Ha) as [i Hi]. rewrite Hi.
  rewrite aget_map_node, (aget_relabel ns f a i Hi). destruct (aget a ns); [apply nid_key_stamp | reflexivity].
Qed.

Lemma key_nid_relabel ns f a : ahas a ns = true -> key_nid (relabel_nodes ns f) (relab ns f a) = key_nid ns a.
Proof.
  intro Ha. unfold relab, key_nid. destruct (index_of_some a ns f Ha) as [i Hi]. rewrite Hi.
  now rewrite (aget_relabel ns f a i Hi).
Qed.

Lemma map_snd_relabel ns f : map snd (relabel_nodes ns f) = map snd ns.
Proof. revert f; induction ns as [|[k ps] r IH]; intro f; cbn; [reflexivity|]. now rewrite IH. Qed.

Lemma abs_imported g ns es f :
  edges_ok (mkI ns es) = true ->
  abs_of_view (stamp g (relabel_nodes ns f), map (relabel_edge ns f) es) =
  mkSG (map (fun ps => aset k_graphid (PV g) ps) (map snd ns))
       (map (fun e => let '(a, b, ps) := e in (key_nid ns a, key_nid ns b, ps)) es).
Proof.
  intro Hok. unfold abs_of_view. cbn [fst snd]. f_equal.
  - unfold stamp. rewrite map_map. cbn [snd]. rewrite <- map_snd_relabel with (f := f). now rewrite map_map.
  - rewrite map_map. apply map_ext_in. intros [[a b] ps] Hin.
    destruct (keys_of_edges ns es Hok a b ps Hin) as [Ha Hb].
    unfold relabel_edge, abs_edge. fold (relab ns f a) (relab ns f b).
    now rewrite !key_nid_relabel_stamp.
Qed.

Lemma abs_imported_direct ns es f :
  edges_ok (mkI ns es) = true ->
  abs_of_view (relabel_nodes ns f, map (relabel_edge ns f) es) =
  mkSG (map snd ns) (map (fun e => let '(a, b, ps) := e in (key_nid ns a, key_nid ns b, ps)) es).
Proof.
  intro Hok. unfold abs_of_view. cbn [fst snd]. f_equal.
  - apply map_snd_relabel.
  - rewrite map_map. apply map_ext_in. intros [[a b] ps] Hin.
    destruct (keys_of_edges ns es Hok a b ps Hin) as [Ha Hb].
    unfold relabel_edge, abs_edge. fold (relab ns f a) (relab ns f b).
    now rewrite !key_nid_relabel.
Qed.

(* ---------- add_graph on the shared store ---------- *)
Definition import_ok (ig : igraph) : Prop := edges_ok ig = true /\ pdist (map fst (iedges ig)).

Lemma keys_ok_import_ok ig : keys_ok ig = true -> import_ok ig.
Proof.
  unfold keys_ok, links_distinct. intro H. apply andb_true_iff in H as [H H2]. apply andb_true_iff in H as [_ H1].
  split; [exact H1 | now apply pdistb_pdist].
Qed.

Lemma add_graph_view s g ig :
  SInv s -> EClosed (sg s) -> EDist (sg s) -> import_ok ig ->
  existsb node_id_missing (inodes ig) = false ->
  snd (s_add_graph s g ig) = Ok RUnit /\
  view (sg (fst (s_add_graph s g ig))) g =
    (stamp g (relabel_nodes (inodes ig) (snext s)), map (relabel_edge (inodes ig) (snext s)) (iedges ig)).
Proof.
  intros HI Hcl Hd [Hok Hpd] Hmiss. unfold s_add_graph, relabel. cbn [inodes iedges].
  rewrite missing_relabel, Hmiss. cbn [fst snd sg]. split; [reflexivity|].
  pose proof (SInv_del_graph s g HI) as [H1 H2].
  destruct ig as [ns es]. cbn [inodes iedges] in *.
  apply (add_all_view _ g _ _ (snext s)); auto.
  - unfold s_del_graph. cbn [sg]. now apply closed_remove_nodes.
  - unfold s_del_graph, nx_remove_nodes. cbn [sg]. now apply EDist_filter_edges.
  - apply del_graph_no_nodes.
  - rewrite map_fst_stamp, relabel_nodes_fst. unfold stamp. now rewrite map_length, relabel_nodes_length.
  - intros nd Hin. apply (stamp_in_g g _ nd Hin).
  - intros a b ps Hin. rewrite map_fst_stamp, relabel_nodes_fst. now apply (relabel_edges_in_nodes ns es (snext s) a b ps).
  - apply pdist_relabel; [now apply keys_of_edges | exact Hpd].
Qed.

Lemma relabel_in_g g ns f :
  forallb (fun n => has_val (snd n) k_graphid g) ns = true -> forall nd, In nd (relabel_nodes ns f) -> in_g g nd = true.
Proof.
  revert f; induction ns as [|[k ps] r IH]; intros f H nd Hin; cbn in *; [contradiction|].
  apply andb_true_iff in H as [H1 H2]. destruct Hin as [Hin|Hin]; [subst nd; exact H1 | now apply (IH (N.succ f))].
Qed.

Lemma add_graph_direct_view s g ig :
  SInv s -> EClosed (sg s) -> EDist (sg s) -> import_ok ig -> direct_ok g ig = true ->
  view (sg (fst (s_add_graph_direct s g ig))) g =
    (relabel_nodes (inodes ig) (snext s), map (relabel_edge (inodes ig) (snext s)) (iedges ig)).
Proof.
  intros HI Hcl Hd [Hok Hpd] Hdir. unfold s_add_graph_direct, relabel. cbn [inodes iedges fst sg].
  pose proof (SInv_del_graph s g HI) as [H1 H2].
  destruct ig as [ns es]. cbn [inodes iedges] in *.
  apply (add_all_view _ g _ _ (snext s)); auto.
  - unfold s_del_graph. cbn [sg]. now apply closed_remove_nodes.
  - unfold s_del_graph, nx_remove_nodes. cbn [sg]. now apply EDist_filter_edges.
  - apply del_graph_no_nodes.
  - now rewrite relabel_nodes_fst, relabel_nodes_length.
  - now apply relabel_in_g.
  - intros a b ps Hin. rewrite relabel_nodes_fst. now apply (relabel_edges_in_nodes ns es (snext s) a b ps).
  - apply pdist_relabel; [now apply keys_of_edges | exact Hpd].
Qed.

(* the reference graph of an imported networkx graph *)
Lemma sp_of_igraph_unfold stampg ig :
  sp_of_igraph stampg ig =
  mkSG (map (fun n => match stampg with Some g => aset k_graphid (PV g) (snd n) | None => snd n end) (inodes ig))
       (map (fun e => let '(a, b, ps) := e in (key_nid (inodes ig) a, key_nid (inodes ig) b, ps)) (iedges ig)).
Proof. reflexivity. Qed.

Lemma RS_set s' sp' s sp g X :
  RS s sp -> (forall g', g' <> g -> view (sg s') g' = view (sg s) g') ->
  abs_nxg (sg s') g = X -> sp' = sput sp g X -> RS s' sp'.
Proof.
  intros HR Hfr Hab Esp g'. subst sp'. rewrite sget_sput. unfold abs_shared.
  destruct (N.eqb g' g) eqn:E.
  - apply N.eqb_eq in E; subst g'. exact Hab.
  - apply N.eqb_neq in E. unfold abs_nxg. rewrite (Hfr g' E). apply HR.
Qed.

Lemma existsb_missing_snd (l : list node) : existsb node_id_missing l = existsb sp_missing (map snd l).
Proof. induction l as [|[i ps] r IH]; cbn; [reflexivity|]. now rewrite IH. Qed.

Theorem shared_step_refines_import s sp o :
  SInv s -> EClosed (sg s) -> EDist (sg s) -> refine_scope o = true -> RS s sp ->
  RS (fst (sstep s o)) (fst (spec_step sp o)) /\ snd (sstep s o) = snd (spec_step sp o).
Proof.
  intros HI Hcl Hd Hsc HR. pose proof HI as [Hnd Hlt].
  destruct o; try (apply shared_step_refines; auto; fail); cbn in Hsc; try discriminate; cbn [sstep spec_step].
  - (* import *)
    pose proof (keys_ok_import_ok ig Hsc) as Hio.
    assert (Hfr : forall g', g' <> g -> view (sg (fst (s_add_graph s g ig))) g' = view (sg s) g').
    { intros g' Hg'. apply frame_add_graph; auto. apply Hio. }
    unfold sp_import. destruct (existsb node_id_missing (inodes ig)) eqn:Em.
    + unfold s_add_graph in *. unfold relabel in *. cbn [inodes] in *. rewrite missing_relabel, Em in *. cbn [fst snd] in *.
      split; [|reflexivity]. apply (RS_set _ _ s sp g empty_sg); auto. unfold s_del_graph. cbn [sg]. now apply sim_del_graph.
    + destruct (add_graph_view s g ig HI Hcl Hd Hio Em) as [Hr Hv]. split; [|exact Hr].
      apply (RS_set _ _ s sp g (sp_of_igraph (Some g) ig)); auto. unfold abs_nxg. rewrite Hv. destruct ig as [ns es]. cbn [inodes iedges] in *.
      rewrite abs_imported by apply Hio. rewrite sp_of_igraph_unfold. cbn [inodes iedges]. f_equal. now rewrite map_map.
  - (* direct import *)
    apply andb_true_iff in Hsc as [Hk Hdir]. pose proof (keys_ok_import_ok ig Hk) as Hio.
    split; [|reflexivity]. unfold sp_import_direct. cbn [fst].
    apply (RS_set _ _ s sp g (sp_of_igraph None ig)); auto.
    + intros g' Hg'. apply frame_add_graph_direct; auto. apply Hio.
    + unfold abs_nxg. rewrite (add_graph_direct_view s g ig HI Hcl Hd Hio Hdir). destruct ig as [ns es]. cbn [inodes iedges] in *.
      rewrite abs_imported_direct by apply Hio. rewrite sp_of_igraph_unfold. reflexivity.
  - (* clone *)
    unfold s_clone, sp_clone. rewrite (extract_is_view (sg s) g Hnd). rewrite <- (HR g). unfold abs_shared, abs_nxg, abs_of_view. cbn [sn se].
    destruct (view (sg s) g) as [ns es] eqn:Ev. cbn [fst snd].
    destruct ns as [|nd0 r0] eqn:Ens; [split; [exact HR | reflexivity]|]. rewrite <- Ens in *. cbn [map].
    destruct (map snd ns) as [|p l0] eqn:Eml; [rewrite Ens in Eml; discriminate|].
    change (aset k_graphid (PV g2) p :: map (aset k_graphid (PV g2)) l0) with (map (aset k_graphid (PV g2)) (p :: l0)).
    rewrite <- Eml.
    assert (Hext : s_extract (sg s) g = Some (mkI ns es)).
    { rewrite (extract_is_view (sg s) g Hnd), Ev. cbn [fst snd]. rewrite Ens. reflexivity. }
    assert (Hio : import_ok (mkI ns es)).
    { split; [eapply extract_edges_ok; eauto|]. cbn [iedges].
      assert (E : es = filter (in_ids (ids_in (sg s) g)) (ge (sg s))) by (unfold view in Ev; now inversion Ev).
      rewrite E. unfold EDist in Hd. clear -Hd. induction (ge (sg s)) as [|[p d] r IH]; cbn [filter map pdist fst] in *; [exact I|].
      destruct Hd as [A B]. destruct (in_ids _ (p, d)); cbn [map pdist fst]; [split|]; auto.
      intros q Hq. apply in_map_iff in Hq as [e [Ee He]]. apply filter_In in He as [He _]. apply A. rewrite <- Ee. now apply in_map. }
    assert (Hfr : forall g', g' <> g2 -> view (sg (fst (s_add_graph s g2 (mkI ns es)))) g' = view (sg s) g').
    { intros g' Hg'. apply frame_add_graph; auto. apply Hio. }
    rewrite <- existsb_missing_snd.
    destruct (existsb node_id_missing ns) eqn:Em.
    + unfold s_add_graph in *. unfold relabel in *. cbn [inodes] in *. rewrite missing_relabel, Em in *. cbn [fst snd] in *.
      split; [|reflexivity]. apply (RS_set _ _ s sp g2 empty_sg); auto. unfold s_del_graph. cbn [sg]. now apply sim_del_graph.
    + destruct (add_graph_view s g2 (mkI ns es) HI Hcl Hd Hio Em) as [Hr Hv]. split; [|exact Hr].
      apply (RS_set _ _ s sp g2 (mkSG (map (aset k_graphid (PV g2)) (map snd ns)) (map (abs_edge ns) es))); auto.
      unfold abs_nxg. rewrite Hv. cbn [inodes iedges].
      rewrite abs_imported by apply Hio. reflexivity.
Qed.

(* ---------- histories, shared store ---------- *)
Lemma refine_wf_op o : refine_scope o = true -> wf_op o = true.
Proof.
  destruct o; cbn; auto; intro H.
  - now apply keys_ok_import_ok in H as [H _].
  - apply andb_true_iff in H as [H _]. now apply keys_ok_import_ok in H as [H _].
Qed.

Theorem shared_refines_run_import ops : forall s sp,
  SInv s -> EClosed (sg s) -> EDist (sg s) -> RS s sp -> (forall o, In o ops -> refine_scope o = true) ->
  sresults s ops = spec_results sp ops /\ RS (srun ops s) (spec_run ops sp).
Proof.
  induction ops as [|o r IH]; intros s sp HI Hcl Hd HR Hsc; cbn [sresults spec_results srun spec_run fold_left]; [auto|].
  assert (Ho : refine_scope o = true) by (apply Hsc; now left).
  destruct (shared_step_refines_import s sp o HI Hcl Hd Ho HR) as [HR' Hres].
  destruct (IH (fst (sstep s o)) (fst (spec_step sp o))) as [A B]; auto.
  - now apply SInv_step.
  - apply closed_step_all; auto. now apply refine_wf_op.
  - now apply EDist_step.
  - intros; apply Hsc; now right.
  - split; [now rewrite Hres, A | exact B].
Qed.

Theorem shared_refines_spec_import ops :
  (forall o, In o ops -> refine_scope o = true) ->
  sresults init_store ops = spec_results [] ops /\
  forall g, abs_shared (srun ops init_store) g = sget (spec_run ops []) g.
Proof.
  intro H. apply shared_refines_run_import; auto; [apply SInv_init | apply EClosed_init | apply EDist_init | apply RS_init].
Qed.

(* ---------- the one-graph-per-id store ---------- *)
Lemma view_whole G g : homed g G -> EClosed G -> view G g = (gn G, ge G).
Proof.
  intros Hh Hcl. unfold view, ids_in. rewrite (filter_all_true _ _ Hh). f_equal.
  apply filter_id_all. intros [[a b] ps] Hin. destruct (Hcl a b ps Hin) as [Ha Hb]. unfold in_ids.
  apply memN_In in Ha, Hb. unfold ids in Ha, Hb. now rewrite Ha, Hb.
Qed.

Lemma abs_no_nodes G g : gn G = [] -> abs_nxg G g = empty_sg.
Proof.
  intro H. unfold abs_nxg, view, ids_in. rewrite H. cbn [filter map]. rewrite filter_in_ids_nil. reflexivity.
Qed.

Lemma fresh_graph_view g NS ES :
  map fst NS = seqN 1 (length NS) -> (forall nd, In nd NS -> in_g g nd = true) ->
  (forall a b ps, In (a, b, ps) ES -> In a (map fst NS) /\ In b (map fst NS)) -> pdist (map fst ES) ->
  view (nx_add_all empty_nxg NS ES) g = (NS, ES).
Proof.
  intros. apply (add_all_view empty_nxg g NS ES 1); auto.
  - constructor.
  - intros i [].
  - intros a b ps [].
  - exact I.
Qed.

Lemma RD_set d' sp' d sp g X :
  RD d sp -> (forall g', g' <> g -> dget d' g' = dget d g') ->
  abs_nxg (dget d' g) g = X -> sp' = sput sp g X -> RD d' sp'.
Proof.
  intros HR Hfr Hab Esp g'. subst sp'. rewrite sget_sput. unfold abs_disjoint.
  destruct (N.eqb g' g) eqn:E.
  - apply N.eqb_eq in E; subst g'. exact Hab.
  - apply N.eqb_neq in E. rewrite (Hfr g' E). apply HR.
Qed.

Lemma d_add_graph_refines d sp g ig X :
  RD d sp -> gn (dget d g) = [] -> import_ok ig ->
  (existsb node_id_missing (inodes ig) = false ->
   abs_of_view (stamp g (relabel_nodes (inodes ig) 1), map (relabel_edge (inodes ig) 1) (iedges ig)) = X) ->
  RD (fst (d_add_graph d g ig))
     (if existsb node_id_missing (inodes ig) then sput sp g empty_sg else sput sp g X) /\
  snd (d_add_graph d g ig) = if existsb node_id_missing (inodes ig) then Err EImport else Ok RUnit.
Proof.
  intros HR Hempty [Hok Hpd] HX. unfold d_add_graph. rewrite Hempty. unfold relabel. cbn [inodes iedges].
  rewrite missing_relabel. destruct (existsb node_id_missing (inodes ig)) eqn:Em; cbn [fst snd]; (split; [|reflexivity]).
  - apply (RD_set _ _ d sp g empty_sg); auto. now apply abs_no_nodes.
  - apply (RD_set _ _ d sp g X); auto.
    + intros g' Hg'. rewrite dget_dput_ctr. apply dget_put_other; congruence.
    + rewrite dget_dput_ctr, dget_dput, N.eqb_refl. unfold abs_nxg. destruct ig as [ns es]. cbn [inodes iedges] in *.
      rewrite fresh_graph_view; [now apply HX | | | |].
      * rewrite map_fst_stamp, relabel_nodes_fst. unfold stamp. now rewrite map_length, relabel_nodes_length.
      * intros nd Hin. apply (stamp_in_g g _ nd Hin).
      * intros a b ps Hin. rewrite map_fst_stamp, relabel_nodes_fst. now apply (relabel_edges_in_nodes ns es 1 a b ps).
      * apply pdist_relabel; [now apply keys_of_edges | exact Hpd].
Qed.

Theorem disjoint_step_refines_import d sp o :
  DInv d -> DWf d -> DHome d -> refine_scope o = true -> in_disjoint_scope sp o = true -> RD d sp ->
  RD (fst (dstep d o)) (fst (spec_step sp o)) /\ snd (dstep d o) = snd (spec_step sp o).
Proof.
  intros HI Hwf Hhome Hsc Hds HR.
  assert (Hcl : DClosed d) by (intro g; apply Hwf).
  destruct o; try (apply disjoint_step_refines; auto; fail); cbn in Hsc, Hds; try discriminate; cbn [dstep spec_step].
  - (* import onto an id that holds no nodes *)
    pose proof (keys_ok_import_ok ig Hsc) as Hio.
    assert (Hempty : gn (dget d g) = []).
    { apply negb_true_iff in Hds. unfold sp_exists in Hds. rewrite <- (HR g) in Hds. unfold abs_disjoint, abs_nxg in Hds.
      rewrite (view_whole _ g (Hhome g) (Hcl g)) in Hds. unfold abs_of_view in Hds. cbn [sn fst] in Hds.
      destruct (gn (dget d g)); [reflexivity | discriminate]. }
    destruct (d_add_graph_refines d sp g ig (sp_of_igraph (Some g) ig) HR Hempty Hio) as [A B].
    { intros _. destruct ig as [ns es]. cbn [inodes iedges]. rewrite abs_imported by apply Hio.
      rewrite sp_of_igraph_unfold. cbn [inodes iedges]. f_equal. now rewrite map_map. }
    unfold sp_import. destruct (existsb node_id_missing (inodes ig)); cbn [fst snd]; now split.
  - (* direct import: always replaces *)
    apply andb_true_iff in Hsc as [Hk Hdir]. pose proof (keys_ok_import_ok ig Hk) as [Hok Hpd].
    split; [|reflexivity]. unfold sp_import_direct, d_add_graph_direct. cbn [fst].
    apply (RD_set _ _ d sp g (sp_of_igraph None ig)); auto.
    + intros g' Hg'. rewrite dget_dput_ctr. apply dget_put_other; congruence.
    + rewrite dget_dput_ctr, dget_dput, N.eqb_refl. unfold abs_nxg, relabel. destruct ig as [ns es]. cbn [inodes iedges] in *.
      rewrite fresh_graph_view.
      * rewrite abs_imported_direct by exact Hok. now rewrite sp_of_igraph_unfold.
      * now rewrite relabel_nodes_fst, relabel_nodes_length.
      * now apply relabel_in_g.
      * intros a b ps Hin. rewrite relabel_nodes_fst. now apply (relabel_edges_in_nodes ns es 1 a b ps).
      * apply pdist_relabel; [now apply keys_of_edges | exact Hpd].
  - (* clone: from a graph without nodes (refused by both), or onto an id that holds none *)
    assert (Hview : forall x, abs_disjoint d x = abs_of_view (gn (dget d x), ge (dget d x))).
    { intro x. unfold abs_disjoint, abs_nxg. now rewrite (view_whole _ x (Hhome x) (Hcl x)). }
    assert (Hex : forall x, sp_exists (sget sp x) = match gn (dget d x) with [] => false | _ => true end).
    { intro x. unfold sp_exists. rewrite <- (HR x), Hview. unfold abs_of_view. cbn [sn fst]. now destruct (gn (dget d x)). }
    destruct (d_clone_cases d g g2) as [[Esrc E]|[Esrc E]]; rewrite E.
    + unfold sp_clone. rewrite <- (HR g), Hview. unfold abs_of_view. cbn [sn fst]. rewrite Esrc. cbn [map fst snd].
      split; [exact HR | reflexivity].
    + assert (Hempty : gn (dget d g2) = []).
      { rewrite !Hex in Hds. destruct (gn (dget d g)); [congruence|]. destruct (gn (dget d g2)); [reflexivity | discriminate]. }
      set (ns := gn (dget d g)) in *. set (es := ge (dget d g)) in *.
      assert (Hio : import_ok (d_extract d g)).
      { split; [apply extract_edges_ok_disjoint; apply Hwf | apply (Hwf g)]. }
      unfold sp_clone. rewrite <- (HR g), Hview. fold ns es. unfold abs_of_view. cbn [sn se fst snd].
      destruct (d_add_graph_refines d sp g2 (d_extract d g)
                  (mkSG (map (aset k_graphid (PV g2)) (map snd ns)) (map (abs_edge ns) es)) HR Hempty Hio) as [A B].
      { intros _. unfold d_extract. cbn [inodes iedges]. fold ns es. now rewrite abs_imported by apply Hio. }
      unfold d_extract in A, B. cbn [inodes] in A, B. fold ns in A, B. rewrite existsb_missing_snd in A, B.
      destruct (map snd ns) as [|p l0] eqn:Eml; [destruct ns; [congruence | discriminate]|].
      destruct (existsb sp_missing (p :: l0)); cbn [fst snd]; now split.
Qed.

Lemma refine_home_scope o : refine_scope o = true -> home_scope o = true.
Proof.
  destruct o; cbn; auto; intro H.
  all: try (now apply andb_true_iff in H as [_ H]).
  all: try (apply scope_ident_key in H; now rewrite H).
  all: try (now apply scope_ident_free).
  destruct ps; [now apply scope_ident_free | reflexivity].
Qed.

Theorem disjoint_refines_run_import ops : forall d sp,
  DInv d -> DWf d -> DHome d -> RD d sp -> (forall o, In o ops -> refine_scope o = true) ->
  disjoint_scope_run sp ops = true ->
  dresults d ops = spec_results sp ops /\ RD (drun ops d) (spec_run ops sp).
Proof.
  induction ops as [|o r IH]; intros d sp HI Hwf Hh HR Hsc Hds;
    cbn [dresults spec_results drun spec_run fold_left disjoint_scope_run] in *; [auto|].
  assert (Ho : refine_scope o = true) by (apply Hsc; now left).
  apply andb_true_iff in Hds as [Hd1 Hd2].
  destruct (disjoint_step_refines_import d sp o HI Hwf Hh Ho Hd1 HR) as [HR' Hres].
  destruct (IH (fst (dstep d o)) (fst (spec_step sp o))) as [A B]; auto.
  - now apply DInv_step.
  - apply DWf_step; auto. now apply refine_wf_op.
  - apply DHome_step; auto. now apply refine_home_scope.
  - intros; apply Hsc; now right.
  - split; [now rewrite Hres, A | exact B].
Qed.

Theorem disjoint_refines_spec_import ops :
  (forall o, In o ops -> refine_scope o = true) -> disjoint_scope_run [] ops = true ->
  dresults init_dstore ops = spec_results [] ops /\
  forall g, abs_disjoint (drun ops init_dstore) g = sget (spec_run ops []) g.
Proof.
  intros H Hds. apply disjoint_refines_run_import; auto.
  - apply DInv_init.
  - apply DWf_init.
  - intro g. reflexivity.
  - intro g. reflexivity.
Qed.

Theorem backends_agree_import ops :
  (forall o, In o ops -> refine_scope o = true) -> disjoint_scope_run [] ops = true ->
  sresults init_store ops = dresults init_dstore ops /\
  forall g, abs_shared (srun ops init_store) g = abs_disjoint (drun ops init_dstore) g.
Proof.
  intros H Hd. destruct (shared_refines_spec_import ops H) as [A1 A2]. destruct (disjoint_refines_spec_import ops H Hd) as [B1 B2].
  split; [congruence | intro g; now rewrite A2, B2].
Qed.

(* histories of the operations C05 quantifies over contain no import / clone: there the domain condition is void *)
Lemma scope0_disjoint_run ops : forall sp, (forall o, In o ops -> refine_scope0 o = true) -> disjoint_scope_run sp ops = true.
Proof.
  induction ops as [|o r IH]; intros sp H; cbn [disjoint_scope_run]; [reflexivity|].
  rewrite IH by (intros; apply H; now right). rewrite andb_true_r.
  specialize (H o (or_introl eq_refl)). destruct o; cbn in *; auto; discriminate.
Qed.

(* ---------- where the one-graph-per-id store deviates from the reference model, precisely ---------- *)
(* import onto an id that holds nodes: nothing happens (the reference replaces the graph) *)
Theorem disjoint_reimport_live_skips d g ig :
  gn (dget d g) <> [] -> dstep d (OImport g ig) = (d, Ok RUnit).
Proof. intro H. cbn [dstep]. unfold d_add_graph. destruct (gn (dget d g)); [congruence | reflexivity]. Qed.

(* clone of a graph that holds nodes onto an id that holds nodes: nothing happens, the call returns normally *)
Theorem disjoint_clone_live_skips d g g2 :
  gn (dget d g) <> [] -> gn (dget d g2) <> [] -> dstep d (OClone g g2) = (d, Ok RUnit).
Proof.
  intros H0 H. cbn [dstep]. destruct (d_clone_cases d g g2) as [[E0 _]|[_ E]]; [contradiction|]. rewrite E.
  unfold d_add_graph. destruct (gn (dget d g2)); [congruence | reflexivity].
Qed.

(* clone of a graph without nodes is refused by both stores (and by the reference), nothing changes (fix fdc67eb) *)
Theorem clone_absent_source_agrees s d g g2 :
  fst (view (sg s) g) = [] -> NoDup (ids (sg s)) -> gn (dget d g) = [] ->
  sstep s (OClone g g2) = (s, Err EQuery) /\ dstep d (OClone g g2) = (d, Err EQuery).
Proof.
  intros Hs Hnd Hd. cbn [sstep dstep]. split.
  - unfold s_clone. rewrite (extract_is_view (sg s) g Hnd), Hs. reflexivity.
  - destruct (d_clone_cases d g g2) as [[_ E]|[E0 _]]; [exact E | contradiction].
Qed.

(* ---------- the extended reference model (cross-graph links) is the reference model on merge-free histories ---------- *)
Fixpoint xspec_results (X : xspec) (ops : list op) : list res :=
  match ops with [] => [] | o :: r => snd (xspec_step X o) :: xspec_results (fst (xspec_step X o)) r end.
Definition xspec_run (ops : list op) (X : xspec) : xspec := fold_left (fun X o => fst (xspec_step X o)) ops X.

Lemma x_maintain_nil o r : x_maintain [] o r = [].
Proof. destruct o; cbn; try reflexivity; [destruct r as [x|e]; [|destruct e]; reflexivity | destruct (is_ok r); reflexivity]. Qed.

Lemma xspec_step_merge_free sp o :
  (match o with OMerge _ _ _ _ => false | _ => true end) = true ->
  xspec_step (mkX sp []) o = (mkX (fst (spec_step sp o)) [], snd (spec_step sp o)).
Proof.
  intro H. destruct o; try discriminate; unfold xspec_step; cbn [xs xl];
    destruct (spec_step sp _) as [sp' rr]; cbn [fst snd]; now rewrite x_maintain_nil.
Qed.

Theorem xspec_merge_free ops : forall sp,
  (forall o, In o ops -> (match o with OMerge _ _ _ _ => false | _ => true end) = true) ->
  xspec_results (mkX sp []) ops = spec_results sp ops /\ xspec_run ops (mkX sp []) = mkX (spec_run ops sp) [].
Proof.
  induction ops as [|o r IH]; intros sp H; cbn [xspec_results spec_results xspec_run spec_run fold_left]; [auto|].
  rewrite (xspec_step_merge_free sp o) by (apply H; now left). cbn [fst snd].
  destruct (IH (fst (spec_step sp o))) as [A B]; [intros; apply H; now right|].
  split; [now rewrite A | exact B].
Qed.

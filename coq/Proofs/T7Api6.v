(* C07 - peer: two new service ports and their link, all or nothing (the rollback of a half-made peering gives back
   the graph before the call); unpeer: the peerings between two services are taken away as units. *)
From Coq Require Import String List NArith ZArith Bool Arith Lia.
From FIM Require Import Base.Str Gen.Rules Model.T7Graph Model.T7Ops Model.T7WF Model.T7Steps Model.T7Rel
     Proofs.T7Tables Proofs.T7WFRefl Proofs.T7Frame Proofs.T7Units Proofs.T7Api Proofs.T7Api2 Proofs.T7Api3
     Proofs.T7RelUnits Proofs.T7RelRun Proofs.T7RelCp Proofs.T7Api4 Proofs.T7RelAdd Proofs.T7Api5.
Import ListNotations.

Lemma name_prop_val n s s' nm : name_prop n s = (s', Ok nm) -> s' = s /\ nname n = Some nm.
Proof.
  unfold name_prop. destruct (nname n); intro H; [apply ret_inv in H as [-> H]; inversion H; auto | apply raise_inv in H as [_ H]; discriminate].
Qed.
Lemma fresh_ns_cache_val x s s' c :
  fresh_ns_cache x s = (s', Ok c) -> s' = s /\ c = map (name_of (sg s)) (first_nb (sg s) x Connects KCP).
Proof.
  unfold fresh_ns_cache. intro H. apply bind_inv in H as [[s1 [l [H1 H2]]]|[e [_ H]]]; [|discriminate].
  apply cps_of_ns_or_link_val in H1 as [-> ->]. apply names_mapM_val in H2. exact H2.
Qed.
Lemma reads_fresh_ns_cache x : reads (fresh_ns_cache x).
Proof. unfold fresh_ns_cache. auto 10 with reads. Qed.
#[export] Hint Resolve reads_fresh_ns_cache : reads.

Ltac peelw H W :=
  apply bind_reads in H; [| solve [auto 8 with reads]];
  let s1 := fresh "s" in let a := fresh "a" in let Hm := fresh "Hm" in let Hg := fresh "Hg" in
  let e := fresh "e" in let Hr := fresh "Hr" in
  destruct H as [[s1 [a [Hm [Hg H]]]] | [e [Hr Hg]]]; [| rewrite Hg; exact W];
  first [ apply find1_val in Hm; destruct Hm as [-> Hm]; clear Hg
        | apply name_prop_val in Hm; destruct Hm as [-> Hm]; clear Hg
        | apply fresh_ns_cache_val in Hm; destruct Hm as [-> ->]; clear Hg ].

Lemma ns_add_sp_run sub s cache name st st' r :
  NoDup (map nid (gnodes (sg st))) -> has_id (sg st) s = true ->
  ns_add_interface sub s cache name None sServicePort false st = (st', r) ->
  (exists id, r = Ok id /\ sub = false /\ has_id (sg st) id = false /\
              negb (existsb (fun o => ostr_eqb o (Some name)) cache) = true /\
              sg st' = add_owned (sg st) (mk id KCP (Some sServicePort) name false) s Connects) \/
  (exists e, r = Err e /\ sg st' = sg st).
Proof.
  intros ND Hs H. unfold ns_add_interface in H.
  apply bind_inv in H as [[s1 [[] [H1 H2]]]|[e [H1 Hr]]].
  - apply guard_ok_val in H1 as [-> G]. apply new_sp_run in H2; [|assumption|assumption].
    destruct H2 as [[id [A [B [C D]]]]|X]; [left; exists id; auto | right; exact X].
  - right. exists e. split; [exact Hr | eapply reads_guard; eauto].
Qed.

Theorem api_peer fl sub a b st st' r :
  WF (sg st) -> cls_is (sg st) a KNS = true -> cls_is (sg st) b KNS = true ->
  (fl_peer_checks fl = false ->
   a <> b /\ forall an bn, name_of (sg st) a = Some an -> name_of (sg st) b = Some bn ->
               name_free (sg st) KLink (Some (an ++ dash ++ bn ++ S "-link")) = true) ->
  ns_peer fl sub a b st = (st', r) -> WF (sg st').
Proof.
  intros W Ca Cb Pre H. unfold ns_peer in H.
  peelw H W. rename Hm into Fa. peelw H W. rename Hm into Na.
  peelw H W. rename Hm into Fb. peelw H W. rename Hm into Nb.
  match type of Na with nname ?n = Some ?x => rename x into an; rename n into na end.
  match type of Nb with nname ?n = Some ?x => rename x into bn; rename n into nb end.
  apply bind_reads in H; [| destruct (fl_peer_checks fl); solve [auto 8 with reads]].
  destruct H as [[sq [[] [Hq [Gq H]]]] | [e [Hr Hg]]]; [| rewrite Hg; exact W].
  assert (Both : a <> b /\ name_free (sg st) KLink (Some (an ++ dash ++ bn ++ S "-link")) = true).
  { destruct (fl_peer_checks fl) eqn:FP.
    - apply bind_inv in Hq as [[s1 [[] [G1 Hq]]]|[e [_ Q]]]; [|discriminate Q]. apply guard_ok_val in G1 as [-> G1].
      apply bind_inv in Hq as [[s1 [u [G2 Hq]]]|[e [_ Q]]]; [|discriminate Q]. apply check_node_unique_val in G2 as [-> G2].
      apply guard_ok_val in Hq as [_ ->]. split; [apply negb_true_iff in G1; apply str_eqb_neq; exact G1 | auto].
    - destruct (Pre eq_refl) as [P1 P2]. split; [exact P1|]. apply P2; unfold name_of; [rewrite Fa | rewrite Fb]; assumption. }
  destruct Both as [Nab NF']. clear Pre Hq. rewrite <- Gq in *. clear Gq.
  peelw H W. peelw H W.
  match type of W with WF (sg ?sc) => rename st into st0; rename sc into st end.
  pose proof (wf_ids _ W) as ND.
  set (g := sg st) in *.
  pose proof (cls_is_has_id _ _ _ Ca) as Ha. pose proof (cls_is_has_id _ _ _ Cb) as Hb.
  (* the first port *)
  apply bind_inv in H as [[sA [ia [H1 H]]]|[e [H1 Hr]]].
  2:{ apply ns_add_sp_run in H1; [| exact ND | exact Ha].
      destruct H1 as [[id [X _]]|[e' [_ Hq]]]; [discriminate | rewrite Hq; exact W]. }
  apply ns_add_sp_run in H1; [| exact ND | exact Ha].
  destruct H1 as [[id [X [Hsub [Hfa [Gna Hq1]]]]]|[e' [X _]]]; [|discriminate]. inversion X; subst id; clear X.
  fold g in Hfa, Hq1.
  set (pa := mk ia KCP (Some sServicePort) (an ++ dash ++ bn) false) in *.
  assert (SFa : sibling_free g a Connects KCP (Some (an ++ dash ++ bn)) = true)
    by (eapply existsb_map_sibling; [reflexivity | exact Gna]).
  assert (OK1 : owned_okR g pa a Connects = true) by (apply sp_owned_ok; assumption).
  set (ep := fun _ : str => true).
  assert (W0 : WFr no_exempt ep g) by (apply pt_W0; exact W).
  assert (Undo1 : forall sX e sY (r' : res unit), sg sX = add_owned g pa a Connects ->
            (remove_cp_and_links ia true ;;; raise e) sX = (sY, r') -> sg sY = g).
  { intros sX e sY r' Hx Hrun. exact (proj1 (undo_owned_port ep g pa a sX e sY r' W0 OK1 eq_refl Ca Hx Hrun)). }
  set (g1 := add_owned g pa a Connects) in *.
  assert (ND1 : NoDup (map nid (gnodes g1))) by (apply (r_ids _ _ _ (WFr_add_owned _ _ _ _ _ W0 OK1 (fun _ _ => eq_refl)))).
  assert (Hb1 : has_id g1 b = true) by (unfold g1; rewrite has_id_add_owned, Hb; reflexivity).
  assert (Claim : forall sX (rr : res unit),
     (ib <- ns_add_interface sub b (map (name_of g) (first_nb g b Connects KCP)) (bn ++ dash ++ an) None sServicePort false ;;
      try_any (new_link sub (an ++ dash ++ bn ++ S "-link") None sL2Path [ia; ib] ;;; ret tt)
              (fun e => remove_cp_and_links ib true ;;; raise e)) sA = (sX, rr) ->
     (exists v, rr = Ok v /\ WF (sg sX)) \/ (exists e, rr = Err e /\ sg sX = g1)).
  { intros sX rr E.
    apply bind_inv in E as [[sB [ib [H1 H2]]]|[e [H1 Hr]]].
    2:{ right. exists e. split; [exact Hr|]. apply ns_add_sp_run in H1; [| rewrite Hq1; exact ND1 | rewrite Hq1; exact Hb1].
        destruct H1 as [[id [X _]]|[e' [_ Hq]]]; [discriminate | congruence]. }
    apply ns_add_sp_run in H1; [| rewrite Hq1; exact ND1 | rewrite Hq1; exact Hb1].
    destruct H1 as [[id [X [_ [Hfb [Gnb Hq2]]]]]|[e' [X _]]]; [|discriminate]. inversion X; subst id; clear X.
    rewrite Hq1 in Hfb, Hq2.
    set (pb := mk ib KCP (Some sServicePort) (bn ++ dash ++ an) false) in *.
    unfold g1 in Hfb. rewrite has_id_add_owned in Hfb. apply orb_false_iff in Hfb as [Hfb Nab']. change (nid pa) with ia in Nab'.
    assert (SFb : sibling_free g b Connects KCP (Some (bn ++ dash ++ an)) = true)
      by (eapply existsb_map_sibling; [reflexivity | exact Gnb]).
    assert (Eab : str_eqb a b = false) by (apply str_eqb_neq; exact Nab).
    assert (P2 : ports2_ok g a b pa pb = true).
    { unfold ports2_ok, fresh.
      repeat (apply andb_true_iff; split); try reflexivity; try assumption; try (apply negb_true_iff; assumption).
      rewrite Eab. reflexivity. }
    pose proof (pt_ok2 ep g a b pa pb W P2) as OK2. fold g1 in OK2.
    assert (W1 : WFr no_exempt ep g1) by (apply (WFr_add_owned _ _ _ _ _ W0 OK1 (fun _ _ => eq_refl))).
    assert (W2 : WFr no_exempt ep (add_owned g1 pb b Connects)) by (apply (WFr_add_owned _ _ _ _ _ W1 OK2 (fun _ _ => eq_refl))).
    assert (Cb1 : cls_is g1 b KNS = true).
    { unfold g1. rewrite ao_cls_old; [exact Cb|]. intro Eb. change (nid pa) with ia in Eb. rewrite <- Eb in Hfa. congruence. }
    assert (Hia2 : has_id (sg sB) ia = true).
    { rewrite Hq2, has_id_add_owned. unfold g1. rewrite has_id_add_owned. change (nid pa) with ia. rewrite str_eqb_refl, orb_true_r. reflexivity. }
    assert (Hib2 : has_id (sg sB) ib = true).
    { rewrite Hq2, has_id_add_owned. change (nid pb) with ib. rewrite str_eqb_refl. apply orb_true_r. }
    assert (ND2 : NoDup (map nid (gnodes (sg sB)))) by (rewrite Hq2; apply (r_ids _ _ _ W2)).
    unfold try_any in H2.
    match type of H2 with (match ?m with _ => _ end) = _ => destruct m as [sC [v2|e2]] eqn:E2 end.
    - inversion H2; subst sC rr. clear H2. left. exists v2. split; [reflexivity|].
      apply bind_inv in E2 as [[sC [lid [H1 H3]]]|[e [_ Hr]]]; [|discriminate]. apply ret_inv in H3 as [-> _].
      apply new_link_pair_run in H1; [| exact ND2 | exact Hia2 | exact Hib2].
      destruct H1 as [[id [X [Hfl Hq3]]]|[_ [[X|[X|X]]|[X _]]]]; try discriminate X. inversion X; subst id; clear X.
      rewrite Hq3, Hq2.
      set (l := mk lid KLink (Some sL2Path) (an ++ dash ++ bn ++ S "-link") false).
      change (WF (add_peering2 g a b pa pb l)). apply WF_add_peering2; [exact W|].
      rewrite Hq2 in Hfl. unfold g1 in Hfl. rewrite !has_id_add_owned in Hfl.
      apply orb_false_iff in Hfl as [Hfl Nbl]. apply orb_false_iff in Hfl as [Hfl Nal].
      unfold peering2_ok, fresh.
      repeat (apply andb_true_iff; split); try reflexivity; try assumption;
        try (apply negb_true_iff; assumption).
      rewrite Eab. reflexivity.
    - right. assert (Hc : sg sC = sg sB).
      { apply bind_inv in E2 as [[sD [lid [H1 H3]]]|[e [H1 Hr]]]; [apply ret_inv in H3 as [_ H3]; discriminate|].
        apply new_link_pair_run in H1; [| exact ND2 | exact Hia2 | exact Hib2].
        destruct H1 as [[id [X _]]|[Hc _]]; [discriminate | exact Hc]. }
      rewrite Hq2 in Hc.
      destruct (undo_owned_port ep g1 pb b sC e2 sX rr W1 OK2 eq_refl Cb1 Hc H2) as [U1 U2].
      exists e2. auto. }
  unfold try_any in H.
  match type of H with (match ?m with _ => _ end) = _ => destruct m as [sX [v|e]] eqn:E end.
  - inversion H; subst st' r. apply Claim in E as [[v' [_ Wx]]|[e [X _]]]; [exact Wx | discriminate].
  - apply Claim in E as [[v' [X _]]|[e' [_ Hx]]]; [discriminate|].
    rewrite (Undo1 _ _ _ _ Hx H). exact W.
Qed.

(* ---- unpeer ------------------------------------------------------------------------------------------------- *)
Lemma x1_remove_set g d : subs_under_dedicated g = true -> subs_under_dedicated (remove_set g d) = true.
Proof.
  unfold subs_under_dedicated. intro X. rewrite forallb_forall in *. intros e He.
  unfold remove_set in He. simpl in He. apply filter_In in He as [He Hd]. apply andb_true_iff in Hd as [D1 D2].
  apply negb_true_iff in D1. apply negb_true_iff in D2. specialize (X e He).
  rewrite !(rs_cls g d _ _ D1), !(rs_cls g d _ _ D2), (rs_typ g d _ _ D1), (rs_typ g d _ _ D2). exact X.
Qed.

Lemma has_id_remove_inv g d z : has_id (remove_set g d) z = true -> has_id g z = true /\ d z = false.
Proof.
  intro H. apply has_id_In in H as [n [Hn E]]. apply In_remove_set_nodes in Hn as [Hn Hd]. split.
  - apply has_id_In. exists n. auto.
  - rewrite <- E. exact Hd.
Qed.

Lemma find_nodes_absent g x : has_id g x = false -> find_nodes g x = [].
Proof.
  unfold has_id, find_nodes. induction (gnodes g) as [|n l IH]; simpl; [reflexivity|].
  destruct (str_eqb (nid n) x); simpl; [discriminate | exact IH].
Qed.

Lemma cp_exists_run x s : NoDup (map nid (gnodes (sg s))) -> cp_exists x s = (s, Ok (cls_is (sg s) x KCP)).
Proof.
  intro ND. unfold cp_exists, bind, getg. unfold cls_is, cls_of.
  destruct (has_id (sg s) x) eqn:Hx.
  - destruct (find_nodes_single _ _ ND Hx) as [n E]. rewrite E. simpl. destruct (cls_eqb (ncls n) KCP); reflexivity.
  - rewrite (find_nodes_absent _ _ Hx). reflexivity.
Qed.

Lemma peers_absent g y : sane g -> has_id g y = false -> peers g y = [].
Proof.
  intros [_ HE] H. unfold peers, first_nb. rewrite (nbrs_fresh_nil _ _ HE H). reflexivity.
Qed.

Lemma peers_cls g y z : In z (peers g y) -> cls_is g z KCP = true.
Proof. intro H. apply In_peers_inv in H as [l [_ [H _]]]. apply In_first_nb in H. tauto. Qed.

Lemma x_in_D_cp g x dp : mem_str x (D_cp g x dp) = true.
Proof.
  apply mem_str_In. unfold D_cp. apply (proj2 (In_dedup _ _)). apply in_or_app. left.
  unfold cp_ifs. apply (proj2 (In_dedup _ _)). left. reflexivity.
Qed.

(* a list of service ports is taken away one by one (ports already gone are skipped); ports that lose their peer
   on the way are all scheduled *)
Lemma remove_cps_loop : forall L s s' r ep,
  WFr no_exempt ep (sg s) -> subs_under_dedicated (sg s) = true ->
  (forall z, ep z = true -> cls_is (sg s) z KCP = true -> In z L) ->
  (forall x, In x L -> cls_is (sg s) x KCP = true -> typ_is (sg s) x sServicePort = true) ->
  (forall x z, In x L -> In z (peers (sg s) x) -> In z L) ->
  for_each L (fun cp => ex <- cp_exists cp ;; if ex then remove_cp_and_links cp true else ret tt) s = (s', r) ->
  WF (sg s').
Proof.
  induction L as [|x L IH]; intros s s' r ep I1 I2 I3 I4 I5 H; simpl in H.
  - apply ret_inv in H as [-> _]. apply WF_WFr. apply (WFr_discharge_ep _ _ _ I1). intros n Hn _ He Hc _. exfalso.
    apply (I3 (nid n) He). rewrite (cls_is_node _ _ _ (r_ids _ _ _ I1) Hn), Hc. reflexivity.
  - unfold bind at 1 2 in H. rewrite (cp_exists_run x s (r_ids _ _ _ I1)) in H.
    destruct (cls_is (sg s) x KCP) eqn:Cx.
    + rewrite (cp_unit_run x true s (WFr_sane _ _ _ I1) (cls_is_has_id _ _ _ Cx)) in H.
      set (d := fun y => mem_str y (D_cp (sg s) x true)) in *.
      pose proof (WFr_remove_cp _ _ _ x true I1 Cx (or_introl eq_refl)) as W1. fold d in W1.
      (* x is a service port: no interface hangs off it *)
      pose proof (cls_is_has_id _ _ _ Cx) as Hh. apply has_id_In in Hh as [nx [Hnx Enx]].
      assert (Kx : ncls nx = KCP) by (rewrite <- Enx in Cx; rewrite (cls_is_node _ _ _ (r_ids _ _ _ I1) Hnx) in Cx; apply cls_eqb_eq; exact Cx).
      assert (NC : first_nb (sg s) x Connects KCP = [])
        by (eapply x1_serviceport_no_children; eauto; apply I4; [left; reflexivity | exact Cx]).
      assert (Hst : forall z, cp_stranded (sg s) x true z = true -> In z (peers (sg s) x)).
      { intros z Hz. unfold cp_stranded, cp_ifs, cp_extra in Hz. rewrite NC in Hz. simpl in Hz. rewrite orb_false_r in Hz.
        apply mem_str_In. exact Hz. }
      assert (Dx : d x = true) by apply x_in_D_cp.
      eapply (IH (mkSt (remove_set (sg s) d) (sdr s)) s' r _ W1); [| | | | exact H]; simpl.
      * apply x1_remove_set. exact I2.
      * intros z Hz Cz. pose proof (cls_is_has_id _ _ _ Cz) as Hz'. apply has_id_remove_inv in Hz' as [_ Dz].
        rewrite (rs_cls _ _ _ _ Dz) in Cz.
        assert (In z (x :: L)) as [E|Hin].
        { apply orb_true_iff in Hz as [Hz|Hz]; [apply I3; assumption | apply (I5 x z); [left; reflexivity | apply Hst; exact Hz]]. }
        -- subst z. congruence.
        -- exact Hin.
      * intros y Hy Cy. pose proof (cls_is_has_id _ _ _ Cy) as Hy'. apply has_id_remove_inv in Hy' as [_ Dy].
        rewrite (rs_cls _ _ _ _ Dy) in Cy. rewrite (rs_typ _ _ _ _ Dy). apply I4; [right; exact Hy | exact Cy].
      * intros y z Hy Hz. destruct (d y) eqn:Dy.
        -- rewrite peers_absent in Hz; [destruct Hz | apply sane_remove_set; apply (WFr_sane _ _ _ I1) |].
           destruct (has_id (remove_set (sg s) d) y) eqn:Hq; [|reflexivity]. apply has_id_remove_inv in Hq as [_ Hq]. congruence.
        -- apply peers_remove_sub in Hz as [Hz Dz]; [|exact Dy].
           destruct (I5 y z (or_intror Hy) Hz) as [E|Hin]; [subst z; congruence | exact Hin].
    + unfold ret at 1 in H. eapply (IH s s' r ep I1 I2); [| | | exact H].
      * intros z Hz Cz. destruct (I3 z Hz Cz) as [E|Hin]; [subst z; congruence | exact Hin].
      * intros y Hy Cy. apply I4; [right; exact Hy | exact Cy].
      * intros y z Hy Hz. destruct (I5 y z (or_intror Hy) Hz) as [E|Hin]; [|exact Hin].
        subst z. rewrite (peers_cls _ _ _ Hz) in Cx. discriminate.
Qed.

(* what a reading concatM returned: every item comes from the run of f on some member, in a state with the same graph *)
Lemma mapM_In {A B} (f : A -> M B) : (forall a, reads (f a)) -> forall l s s' r,
  mapM f l s = (s', Ok r) ->
  sg s' = sg s /\ forall y, In y r -> exists a s1 s2, In a l /\ sg s1 = sg s /\ f a s1 = (s2, Ok y).
Proof.
  intros R. induction l as [|a l IH]; simpl; intros s s' r H.
  - apply ret_inv in H as [-> H]. inversion H. split; [reflexivity | intros y []].
  - apply bind_inv in H as [[s1 [y [H1 H2]]]|[e [_ H]]]; [|discriminate].
    apply bind_inv in H2 as [[s2 [ys [H2 H3]]]|[e [_ H]]]; [|discriminate].
    apply ret_inv in H3 as [-> H3]. inversion H3; subst r. clear H3.
    pose proof (R a _ _ _ H1) as G1. destruct (IH _ _ _ H2) as [G2 IH']. split; [congruence|].
    intros z [<-|Hz].
    + exists a, s, s1. auto.
    + destruct (IH' z Hz) as [a' [sa [sb [Ha [Hg Hf]]]]]. exists a', sa, sb. split; [right; exact Ha|]. split; [congruence | exact Hf].
Qed.
Lemma concatM_In {A B} (f : A -> M (list B)) : (forall a, reads (f a)) -> forall l s s' r,
  concatM f l s = (s', Ok r) ->
  sg s' = sg s /\ forall x, In x r -> exists a s1 s2 la, In a l /\ sg s1 = sg s /\ f a s1 = (s2, Ok la) /\ In x la.
Proof.
  intros R l s s' r H. unfold concatM in H. apply bind_inv in H as [[s1 [ls [H1 H2]]]|[e [_ H]]]; [|discriminate].
  apply ret_inv in H2 as [-> H2]. inversion H2; subst r. clear H2.
  destruct (mapM_In f R _ _ _ _ H1) as [G IH]. split; [exact G|].
  intros x Hx. apply in_concat in Hx as [la [Hla Hx]]. destruct (IH la Hla) as [a [sa [sb [Ha [Hg Hf]]]]].
  exists a, sa, sb, la. auto.
Qed.

Lemma find_peers_val i s s' o :
  find_peers i s = (s', Ok o) -> s' = s /\ o = match raw_peers (sg s) i with [] => None | l => Some l end.
Proof.
  unfold find_peers. intro H. apply bind_inv in H as [[s1 [c [Hc H1]]]|[e [_ H]]]; [|discriminate].
  unfold q_second_nb in Hc. apply bind_inv in Hc as [[s3 [n [Hn Hc]]]|[e [_ H]]]; [|discriminate].
  apply find1_val in Hn as [-> _]. apply bind_inv in Hc as [[s4 [g0 [Hg Hc]]]|[e [_ H]]]; [|discriminate].
  apply getg_val in Hg as [-> ->]. apply ret_inv in Hc as [-> Hc]. inversion Hc; subst c. clear Hc.
  apply ret_inv in H1 as [-> H1]. inversion H1. split; [reflexivity|]. unfold raw_peers.
  destruct (second_nb (sg s) i Connects KLink KCP); reflexivity.
Qed.

Definition peer_inner (b cp p : str) : M (list (str * str)) :=
  tp <- type_is p sServicePort ;;
  if negb tp then ret [] else
  o <- get_parent p Connects KNS ;;
  ret (match o with Some (_, id) => if str_eqb id b then [(cp, p)] else [] | None => [] end).
Definition peer_outer (b cp : str) : M (list (str * str)) :=
  t <- type_is cp sServicePort ;;
  if negb t then ret [] else
  ps <- find_peers cp ;;
  concatM (peer_inner b cp) (match ps with Some l => l | None => [] end).

Lemma reads_peer_inner b cp p : reads (peer_inner b cp p).
Proof.
  unfold peer_inner. apply reads_bind; [auto with reads|]. intros [|]; simpl; [|apply reads_ret].
  apply reads_bind; [auto with reads | intro; apply reads_ret].
Qed.
Lemma reads_concatM {A B} (f : A -> M (list B)) l : (forall a, reads (f a)) -> reads (concatM f l).
Proof. intro R. unfold concatM. apply reads_bind; [apply reads_mapM; exact R | intro; apply reads_ret]. Qed.
Lemma reads_peer_outer b cp : reads (peer_outer b cp).
Proof.
  unfold peer_outer. apply reads_bind; [auto with reads|]. intros [|]; simpl; [|apply reads_ret].
  apply reads_bind; [auto with reads|]. intro. apply reads_concatM. intro. apply reads_peer_inner.
Qed.
Lemma reads_peerings a b : reads (peerings a b).
Proof.
  unfold peerings. apply reads_bind; [auto with reads|]. intro cps. apply (reads_concatM (peer_outer b)). intro. apply reads_peer_outer.
Qed.

Lemma peerings_val a b s s' pairs :
  peerings a b s = (s', Ok pairs) ->
  sg s' = sg s /\ forall cp p, In (cp, p) pairs ->
    In cp (first_nb (sg s) a Connects KCP) /\ typ_is (sg s) cp sServicePort = true /\
    In p (raw_peers (sg s) cp) /\ typ_is (sg s) p sServicePort = true.
Proof.
  unfold peerings. intro H. apply bind_inv in H as [[s1 [cps [H1 H2]]]|[e [_ H]]]; [|discriminate].
  apply cps_of_ns_or_link_val in H1 as [-> ->].
  change (concatM (peer_outer b) (first_nb (sg s) a Connects KCP) s = (s', Ok pairs)) in H2.
  destruct (concatM_In _ (reads_peer_outer b) _ _ _ _ H2) as [G Hin]. split; [exact G|].
  intros cp p Hp. destruct (Hin _ Hp) as [cp' [s1 [s2 [la [Hcp [G1 [Hf Hla]]]]]]].
  unfold peer_outer in Hf. apply bind_inv in Hf as [[s3 [t [Ht Hf]]]|[e [_ H]]]; [|discriminate].
  apply type_is_val in Ht as [-> ->]. destruct (typ_is (sg s1) cp' sServicePort) eqn:Tcp; simpl in Hf;
    [| apply ret_inv in Hf as [_ Hf]; inversion Hf; subst la; destruct Hla].
  apply bind_inv in Hf as [[s4 [ps [Hps Hf]]]|[e [_ H]]]; [|discriminate].
  apply find_peers_val in Hps as [-> ->].
  destruct (concatM_In _ (reads_peer_inner b cp') _ _ _ _ Hf) as [_ Hin2].
  destruct (Hin2 _ Hla) as [p' [s5 [s6 [lb [Hp' [G5 [Hg Hlb]]]]]]].
  unfold peer_inner in Hg. apply bind_inv in Hg as [[s7 [tp [Htp Hg]]]|[e [_ H]]]; [|discriminate].
  apply type_is_val in Htp as [-> ->]. destruct (typ_is (sg s5) p' sServicePort) eqn:Tp; simpl in Hg;
    [| apply ret_inv in Hg as [_ Hg]; inversion Hg; subst lb; destruct Hlb].
  apply bind_inv in Hg as [[s8 [o [_ Hg]]]|[e [_ H]]]; [|discriminate].
  apply ret_inv in Hg as [_ Hg]. inversion Hg; subst lb. clear Hg.
  assert (E : (cp, p) = (cp', p')).
  { destruct o as [[nm id]|]; [|destruct Hlb]. destruct (str_eqb id b); [|destruct Hlb]. destruct Hlb as [E|[]]. congruence. }
  inversion E; subst cp' p'. rewrite G1 in *. rewrite G5 in Tp.
  repeat split; try assumption.
  destruct (raw_peers (sg s) cp); [destruct Hp' | exact Hp'].
Qed.

Lemma sp_one_peer g x : WF g -> cls_is g x KCP = true -> typ_is g x sServicePort = true -> length (peers g x) = 1.
Proof.
  intros W Cx Tx. apply WF_WFr in W.
  pose proof (cls_is_has_id _ _ _ Cx) as Hh. apply has_id_In in Hh as [n [Hn En]].
  assert (Kn : ncls n = KCP) by (rewrite <- En in Cx; rewrite (cls_is_node g n _ (r_ids _ _ _ W) Hn) in Cx; apply cls_eqb_eq; exact Cx).
  assert (Tn : ntyp n = Some sServicePort).
  { rewrite <- En in Tx. rewrite (typ_is_node g n _ (r_ids _ _ _ W) Hn) in Tx. apply ostr_eqb_eq. exact Tx. }
  destruct (r_struct _ _ _ W n Hn eq_refl) as [_ [S2 _]]. rewrite En in S2. destruct (S2 Kn) as [_ [_ S3]].
  exact (S3 Tn eq_refl).
Qed.

Theorem api_unpeer a b st st' r :
  WF (sg st) -> subs_under_dedicated (sg st) = true -> ns_unpeer a b st = (st', r) -> WF (sg st').
Proof.
  intros W X H. unfold ns_unpeer in H.
  apply bind_reads in H; [| apply reads_peerings].
  destruct H as [[s1 [pairs [Hm [Hg H]]]] | [e [Hr Hg]]]; [| rewrite Hg; exact W].
  apply peerings_val in Hm as [_ Hp].
  apply bind_reads in H; [| auto with reads].
  destruct H as [[s2 [[] [_ [Hg2 H]]]] | [e [Hr Hg2]]]; [| rewrite Hg2, Hg; exact W].
  assert (G : sg s2 = sg st) by congruence. clear Hg Hg2.
  assert (Facts : forall x, In x (dedup (map fst pairs ++ map snd pairs)) ->
            cls_is (sg st) x KCP = true /\ typ_is (sg st) x sServicePort = true /\
            forall z, In z (peers (sg st) x) -> In z (dedup (map fst pairs ++ map snd pairs))).
  { intros x Hx. apply (proj1 (In_dedup _ _)) in Hx. apply in_app_or in Hx as [Hx|Hx];
      apply in_map_iff in Hx as [[cp p] [E Hin]]; simpl in E; subst x; destruct (Hp _ _ Hin) as [Hcp [Tcp [Hraw Tp]]].
    - assert (Ccp : cls_is (sg st) cp KCP = true) by (apply In_first_nb in Hcp; tauto).
      split; [exact Ccp|]. split; [exact Tcp|]. intros z Hz.
      assert (Hpp : In p (peers (sg st) cp)).
      { apply WF_WFr in W. eapply raw_in_peers; [exact W | reflexivity | eapply raw_peers_cls; eauto | exact Hraw]. }
      assert (z = p) by (eapply len1_same; [| exact Hz | exact Hpp]; rewrite (sp_one_peer _ _ W Ccp Tcp); lia).
      subst z. apply (proj2 (In_dedup _ _)). apply in_or_app. right. apply in_map_iff. exists (cp, p). auto.
    - assert (Ccp : cls_is (sg st) cp KCP = true) by (apply In_first_nb in Hcp; tauto).
      pose proof (raw_peers_cls _ _ _ Hraw) as Cp.
      split; [exact Cp|]. split; [exact Tp|]. intros z Hz.
      assert (Hpp : In p (peers (sg st) cp)).
      { apply WF_WFr in W. eapply raw_in_peers; [exact W | reflexivity | exact Cp | exact Hraw]. }
      assert (Hcc : In cp (peers (sg st) p)) by (apply peers_sym; assumption).
      assert (z = cp) by (eapply len1_same; [| exact Hz | exact Hcc]; rewrite (sp_one_peer _ _ W Cp Tp); lia).
      subst z. apply (proj2 (In_dedup _ _)). apply in_or_app. left. apply in_map_iff. exists (cp, p). auto. }
  eapply (remove_cps_loop _ s2 st' r no_exempt); [| | | | | exact H]; rewrite ?G.
  - apply WF_WFr. exact W.
  - exact X.
  - intros z Hz. discriminate Hz.
  - intros x Hx _. exact (proj1 (proj2 (Facts x Hx))).
  - intros x z Hx Hz. exact (proj2 (proj2 (Facts x Hx)) z Hz).
Qed.

(* C02: after any history of writes and removals a graph is well-formed, so writing a sliver into it
   leaves everything that was in it unchanged (frame); and the store level: with the counter allocators
   of the two in-memory stores the internal id handed to a new node is never in use, also after
   removals, so the store refines the graph view. *)
From Coq Require Import List String NArith Bool Lia.
From FIM Require Import Base.Str Model.Sliver2Kinds Gen.PropMap Model.Sliver2Map Model.Sliver2WF
  Model.Sliver2Deep Model.Sliver2DeepWF Model.Sliver2Graph Model.Sliver2GraphWF Model.Sliver2Store
  Proofs.Sliver2Assoc Proofs.Sliver2GraphW Proofs.Sliver2GraphR Proofs.Sliver2GraphRT Proofs.Sliver2Tables.
Import ListNotations.

(* ---------- removal keeps the graph well-formed ---------- *)
Lemma NoDup_map_filter {A B} (f : A -> B) (p : A -> bool) l : NoDup (map f l) -> NoDup (map f (filter p l)).
Proof.
  induction l as [|x l IH]; simpl; intro H; [constructor|].
  inversion H as [|? ? NI ND]; subst. destruct (p x); simpl; [|apply IH; exact ND].
  constructor; [|apply IH; exact ND]. intro Hc. apply NI.
  apply in_map_iff in Hc as [y [E Hy]]. apply filter_In in Hy as [Hy _]. rewrite <- E. apply in_map. exact Hy.
Qed.

Lemma delete_good g id g' : good g -> delete_node g id = Ok g' -> good g'.
Proof.
  intros [ND EC] H. unfold delete_node in H. destruct (find_node g id); [|discriminate H].
  inversion H; subst g'. clear H. split.
  - unfold gids. cbn [g_nodes]. apply NoDup_map_filter. exact ND.
  - intros a r b Hin. cbn [g_edges] in Hin. apply filter_In in Hin as [Hin Ht].
    destruct (EC a r b Hin) as [Ha Hb]. unfold touches in Ht. apply negb_true_iff in Ht.
    apply orb_false_iff in Ht as [Hta Htb].
    assert (Hkeep : forall x, In x (gids g) -> str_eqb x id = false ->
              In x (gids {| g_nodes := filter (fun n => negb (str_eqb (g_id n) id)) (g_nodes g);
                            g_edges := filter (fun e => negb (touches id e)) (g_edges g) |})).
    { intros x Hx Hne. unfold gids in *. cbn [g_nodes]. apply in_map_iff in Hx as [n [E Hn]]. subst x.
      apply in_map. apply filter_In. split; [exact Hn|]. rewrite Hne. reflexivity. }
    split; apply Hkeep; assumption.
Qed.

(* ---------- every graph reached by a history is well-formed ---------- *)
Theorem history_good : forall h g, good_graph g = true -> good_graph (run_history g h) = true.
Proof.
  induction h as [|o h IH]; intros g Hg; [exact Hg|].
  simpl. destruct (hop_ok g o) eqn:Hok; [|apply IH; exact Hg].
  destruct o as [parent t|id]; simpl.
  - unfold hop_ok in Hok. repeat rewrite andb_true_iff in Hok. destruct Hok as [[Hw Hf] Hp].
    destruct (graph_under g parent t Hg Hw Hf Hp) as [g' [HW [_ [Hg' _]]]]. rewrite HW. apply IH. exact Hg'.
  - destruct (delete_node g id) as [g'|] eqn:Ed; [|apply IH; exact Hg].
    apply IH. apply good_graph_good. apply (delete_good g id g'); [apply good_graph_good; exact Hg | exact Ed].
Qed.

(* FRAME AFTER ANY HISTORY: whatever was written and removed before (starting from the empty graph),
   a sliver with fresh ids written next comes back identical and every node that was in the graph
   keeps its properties (find_node) and - except the parent, which gains the new root - its links
   (get_first_neighbor for every relation and class) *)
Theorem history_frame h parent t :
  let g := run_history empty_graph h in
  graph_wf_sub t = true -> fresh_in g t = true -> parent_ok g parent t = true ->
  exists g', add_under g parent t = Ok g' /\
    build_deep g' (t_kind t) (id_of t) = Ok t /\
    (forall x, In x (gids g) -> find_node g' x = find_node g x) /\
    (forall x rel L, In x (gids g) -> parent <> Some x ->
                     get_first_neighbor g' x rel L = get_first_neighbor g x rel L).
Proof.
  intros g Hw Hf Hp.
  assert (Hg : good_graph g = true) by (apply history_good; reflexivity).
  destruct (graph_under g parent t Hg Hw Hf Hp) as [g' [H1 [H2 [_ [_ [H3 H4]]]]]].
  exists g'. auto.
Qed.

(* ---------- the store level ---------- *)
Lemma store_ok_parts s : store_ok s = true ->
  n_nodup (s_ids s) = true /\ (forall k, In k (s_ids s) -> (k < s_ctr s)%N) /\
  strs_nodup (map (fun kn => g_id (snd kn)) (s_nodes s)) = true.
Proof.
  unfold store_ok. intro H. repeat rewrite andb_true_iff in H. destruct H as [[[H1 H2] H3] _].
  split; [exact H1|]. split; [|exact H3]. intros k Hk. rewrite forallb_forall in H2. apply N.ltb_lt. apply H2. exact Hk.
Qed.

(* the counter allocators never hand out an id in use - whatever was removed before *)
Lemma counter_fresh s : store_ok s = true -> ~ In (alloc_counter s) (s_ids s).
Proof.
  intros H Hin. destruct (store_ok_parts s H) as [_ [Hlt _]]. specialize (Hlt _ Hin). unfold alloc_counter in Hlt. lia.
Qed.

Lemma nx_add_fresh k n l : ~ In k (map fst l) -> nx_add_node k n l = l ++ [(k, n)].
Proof.
  induction l as [|[k' n'] l IH]; simpl; intro H; [reflexivity|].
  destruct (N.eqb k k') eqn:E; [apply N.eqb_eq in E; subst; exfalso; apply H; left; reflexivity|].
  f_equal. apply IH. intro Hc. apply H. right. exact Hc.
Qed.

Lemma s_find_view s id : find_node (view s) id = match s_find s id with
                                                   | Some k => find (fun n => str_eqb (g_id n) id) (map snd (s_nodes s))
                                                   | None => None end.
Proof.
  unfold find_node, view, s_find. cbn [g_nodes].
  induction (s_nodes s) as [|[k n] l IH]; simpl; [reflexivity|].
  destruct (str_eqb (g_id n) id) eqn:E; [reflexivity|]. exact IH.
Qed.

Lemma s_find_none_view s id : s_find s id = None -> find_node (view s) id = None.
Proof. intro H. rewrite s_find_view. rewrite H. reflexivity. Qed.

Lemma nid_of_app s k n0 k0 : In k (s_ids s) ->
  nid_of {| s_nodes := s_nodes s ++ [(k0, n0)]; s_edges := s_edges s; s_ctr := N.succ (N.max (s_ctr s) k0) |} k = nid_of s k.
Proof.
  unfold nid_of, s_ids. cbn [s_nodes]. induction (s_nodes s) as [|[k' n'] l IH]; simpl; intro H; [contradiction|].
  destruct (N.eqb k' k) eqn:E; [reflexivity|]. apply IH.
  destruct H as [H|H]; [subst; rewrite N.eqb_refl in E; discriminate E | exact H].
Qed.

(* adding a node: the store, with a fresh internal id, does what the graph view does *)
Theorem store_add_node_refines s id label p s' :
  store_ok s = true -> s_add_node alloc_counter s id label p = Ok s' ->
  add_node (view s) id label p = Ok (view s').
Proof.
  intros Hok H. unfold s_add_node in H. destruct (s_find s id) as [k|] eqn:Ef; [discriminate H|].
  inversion H; subst s'. clear H.
  unfold add_node. rewrite (s_find_none_view s id Ef).
  rewrite (nx_add_fresh _ _ _ (counter_fresh s Hok)).
  unfold view. cbn [s_nodes s_edges g_nodes g_edges]. rewrite map_app. cbn [map snd]. f_equal. f_equal.
  apply map_ext_in. intros [[x r] y] He.
  unfold store_ok in Hok. repeat rewrite andb_true_iff in Hok. destruct Hok as [_ Hed].
  rewrite forallb_forall in Hed. specialize (Hed _ He). cbn in Hed. apply andb_true_iff in Hed as [Hx Hy].
  assert (In x (s_ids s)) by (apply existsb_exists in Hx as [z [Hz E]]; apply N.eqb_eq in E; subst; exact Hz).
  assert (In y (s_ids s)) by (apply existsb_exists in Hy as [z [Hz E]]; apply N.eqb_eq in E; subst; exact Hz).
  symmetry. f_equal; [f_equal|]; apply (nid_of_app s _ _ (alloc_counter s)); assumption.
Qed.

Lemma n_nodup_NoDup l : n_nodup l = true -> NoDup l.
Proof.
  induction l as [|x l IH]; simpl; intro H; [constructor|]. apply andb_true_iff in H as [H1 H2].
  constructor; [|apply IH; exact H2]. intro Hin. apply negb_true_iff in H1.
  assert (existsb (N.eqb x) l = true) by (apply existsb_exists; exists x; split; [exact Hin | apply N.eqb_refl]). congruence.
Qed.

(* removal keeps the counter above every id still in use (it is not moved back): allocation stays fresh *)
Theorem store_delete_keeps_fresh s id s' :
  store_ok s = true -> s_delete_node s id = Ok s' ->
  (forall k, In k (s_ids s') -> (k < s_ctr s')%N) /\ ~ In (alloc_counter s') (s_ids s').
Proof.
  intros Hok H. destruct (store_ok_parts s Hok) as [_ [Hlt _]].
  unfold s_delete_node in H. destruct (s_find s id) as [k|]; [|discriminate H]. inversion H; subst s'. clear H.
  assert (Hsub : forall k0, In k0 (s_ids {| s_nodes := filter (fun kn => negb (N.eqb (fst kn) k)) (s_nodes s);
                                           s_edges := filter (fun e => match e with (x, _, y) => negb (N.eqb x k || N.eqb y k) end) (s_edges s);
                                           s_ctr := s_ctr s |}) -> In k0 (s_ids s)).
  { intros k0 Hk0. unfold s_ids in *. cbn [s_nodes] in Hk0. apply in_map_iff in Hk0 as [kn [E Hkn]].
    apply filter_In in Hkn as [Hkn _]. subst k0. apply in_map. exact Hkn. }
  split.
  - intros k0 Hk0. cbn [s_ctr]. apply Hlt. apply Hsub. exact Hk0.
  - intro Hin. apply Hsub in Hin. unfold alloc_counter in Hin. cbn [s_ctr] in Hin. specialize (Hlt _ Hin). lia.
Qed.

(* the allocator of seeded change C02-9 (number of nodes + 1) is NOT fresh after a removal: the node
   written next takes over the internal node of another one, and the graph view loses that node *)
Definition sn (id : string) : str := of_string id.
Definition s_after_removal : sgraph :=
  match s_add_node alloc_size empty_sgraph (sn "A") "NetworkNode" [] with
  | Ok s1 => match s_add_node alloc_size s1 (sn "B") "NetworkNode" [] with
             | Ok s2 => match s_add_node alloc_size s2 (sn "C") "Component" [] with
                        | Ok s3 => match s_delete_node s3 (sn "A") with Ok s4 => s4 | Err _ => s3 end
                        | Err _ => s2 end
             | Err _ => s1 end
  | Err _ => empty_sgraph end.

Lemma size_allocator_refuted :
  store_ok s_after_removal = true /\
  In (alloc_size s_after_removal) (s_ids s_after_removal) /\
  exists s', s_add_node alloc_size s_after_removal (sn "D") "NetworkNode" [] = Ok s' /\
             find_node (view s') (sn "C") = None /\
             find_node (view s_after_removal) (sn "C") <> None /\
             add_node (view s_after_removal) (sn "D") "NetworkNode" [] <> Ok (view s').
Proof.
  split; [vm_compute; reflexivity|]. split; [vm_compute; right; left; reflexivity|].
  eexists. split; [vm_compute; reflexivity|]. split; [vm_compute; reflexivity|].
  split; [vm_compute; discriminate|]. vm_compute. intro H. inversion H.
Qed.

(* with the counter allocator the same history keeps node C *)
Definition s_after_removal_ctr : sgraph :=
  match s_add_node alloc_counter empty_sgraph (sn "A") "NetworkNode" [] with
  | Ok s1 => match s_add_node alloc_counter s1 (sn "B") "NetworkNode" [] with
             | Ok s2 => match s_add_node alloc_counter s2 (sn "C") "Component" [] with
                        | Ok s3 => match s_delete_node s3 (sn "A") with Ok s4 => s4 | Err _ => s3 end
                        | Err _ => s2 end
             | Err _ => s1 end
  | Err _ => empty_sgraph end.

Lemma counter_allocator_example :
  store_ok s_after_removal_ctr = true /\
  exists s', s_add_node alloc_counter s_after_removal_ctr (sn "D") "NetworkNode" [] = Ok s' /\
             find_node (view s') (sn "C") = find_node (view s_after_removal_ctr) (sn "C") /\
             find_node (view s') (sn "C") <> None.
Proof.
  split; [vm_compute; reflexivity|]. eexists. split; [vm_compute; reflexivity|].
  split; [vm_compute; reflexivity | vm_compute; discriminate].
Qed.

(* non-vacuity: a 5-sliver tree is written, one of its nodes (not the newest) is removed, then a
   component with a service and a port is written under the node: the hypotheses of history_frame hold *)
Definition w_history : list hop := [HAdd None w_tree; HDel (S"i2")].

Lemma history_example :
  let g := run_history empty_graph w_history in
  List.length (g_nodes g) = 4%nat /\ graph_wf_sub w_comp2 = true /\ fresh_in g w_comp2 = true /\
  parent_ok g (Some (S"n1")) w_comp2 = true.
Proof. vm_compute. repeat split; reflexivity. Qed.

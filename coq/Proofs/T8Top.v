(* C08 proofs, part 8: the addressed element is deleted; two-ended links for the two remaining
   operations; handle caches. *)
From Coq Require Import List NArith Bool Lia Arith PeanoNat.
From FIM Require Import Model.T8Graph Model.T8Ops Proofs.T8Frame Proofs.T8Query Proofs.T8Hoare Proofs.T8Sound
     Proofs.T8Complete Proofs.T8Closed.
Import ListNotations.

Definition targets (g : graph) (o : op) (x : N) : Prop :=
  match o with
  | ORemoveNode nm | ORemoveFacility nm | ORemoveSwitch nm => In x (by_name g CNode nm)
  | ORemoveLink nm => In x (by_name g CLink nm)
  | ORemoveNsTopo nm => In x (by_name g CNS nm)
  | ORemoveComponent n c => In x (first_neighbor g n RHas CComp) /\ name_of g x = c
  | ONodeRemoveNs n s => In x (first_neighbor g n RHas CNS) /\ name_of g x = s
  | ODisconnect _ i => get_peers_typed g i T_ServicePort = Some [x]
  | OUnpeer a b => exists xy, unpeer_ends g a b = Some [xy] /\ (x = fst xy \/ x = snd xy)
  | OUnpeer6 a b => exists xy, In xy (unpeer_pairs g a b) /\ (x = fst xy \/ x = snd xy)
  | ORemoveInterface s nm => In x (cpn g s) /\ name_of g x = nm
  | ORemoveChild p nm => In x (cpn g p) /\ name_of g x = nm
  | OPrune | OPrune7 | OPrune8 | OPrune9 => False
  end.

Section Top.
Variable g0 : graph.

Lemma ext_to {A} (m : M A) s r s' x : Inv m -> cons g0 s -> m s = (r, s') -> In x (snd s) -> In x (snd s').
Proof. intros Im C E Hx. destruct (Inv_cons_eq g0 m s r s' Im C E) as [_ Hext]. apply (ext_In s s' x Hext Hx). Qed.

Lemma cons_to {A} (m : M A) s r s' : Inv m -> cons g0 s -> m s = (r, s') -> cons g0 s'.
Proof. intros Im C E. destruct (Inv_cons_eq g0 m s r s' Im C E) as [H _]. exact H. Qed.

Lemma cons_init : cons g0 (g0, []).
Proof. unfold cons. simpl. symmetry. apply restrict_nil. Qed.

(* each removal procedure that returns has deleted its argument *)
Lemma del_remove_cp n dp s s' : cons g0 s -> remove_cp_and_links n dp s = (inl tt, s') -> In n (snd s').
Proof.
  intros C E. destruct (remove_cp_ok g0 n dp s s' C E) as [_ [_ H]]. apply H. left.
  apply cp_del_list_In. left. apply in_family_cur.
Qed.

Lemma del_remove_ns n s s' : cons g0 s -> remove_ns n s = (inl tt, s') -> In n (snd s').
Proof.
  intros C E. unfold remove_ns in E.
  apply bind_ok in E. destruct E as [[] [s1 [E1 E]]]. apply need_class_ok in E1. destruct E1 as [_ [_ ->]].
  apply bind_ok in E. destruct E as [ifs [s1 [E1 E]]]. apply get_ok in E1. destruct E1 as [-> ->].
  apply bind_ok in E. destruct E as [[] [s2 [E1 E]]].
  pose proof (cons_to _ _ _ _ (Inv_delete n) C E1) as C2.
  apply delete_ok in E1. destruct E1 as [_ ->].
  apply (ext_to _ _ _ _ n (Inv_for_each_set _ _ (fun i => Inv_remove_cp i true)) C2 E). left. reflexivity.
Qed.

Lemma del_remove_ns_disconnecting n s s' :
  cons g0 s -> remove_ns_disconnecting n s = (inl tt, s') -> In n (snd s').
Proof.
  intros C E. unfold remove_ns_disconnecting in E.
  apply bind_ok in E. destruct E as [ifs [s1 [E1 E]]]. apply get_ok in E1. destruct E1 as [-> ->].
  apply bind_ok in E. destruct E as [[] [s1 [E1 E]]].
  pose proof (cons_to _ _ _ _ (Inv_for_each_set _ _ Inv_disconnect_step) C E1) as C1.
  apply (del_remove_ns n s1 s' C1 E).
Qed.

Lemma del_remove_component n s s' : cons g0 s -> remove_component n s = (inl tt, s') -> In n (snd s').
Proof.
  intros C E. unfold remove_component in E.
  apply bind_ok in E. destruct E as [[] [s1 [E1 E]]]. apply need_class_ok in E1. destruct E1 as [_ [_ ->]].
  apply bind_ok in E. destruct E as [ifs [s1 [E1 E]]]. apply get_ok in E1. destruct E1 as [-> ->].
  apply bind_ok in E. destruct E as [[] [s2 [E1 E]]].
  pose proof (cons_to _ _ _ _ (Inv_delete n) C E1) as C2.
  apply delete_ok in E1. destruct E1 as [_ ->].
  apply (ext_to _ _ _ _ n (Inv_for_each_set _ _ Inv_remove_ns) C2 E). left. reflexivity.
Qed.

Lemma del_remove_node_graph n s s' : cons g0 s -> remove_node_graph n s = (inl tt, s') -> In n (snd s').
Proof.
  intros C E. unfold remove_node_graph in E.
  apply bind_ok in E. destruct E as [[] [s1 [E1 E]]]. apply need_class_ok in E1. destruct E1 as [_ [_ ->]].
  apply bind_ok in E. destruct E as [comps [s1 [E1 E]]]. apply get_ok in E1. destruct E1 as [-> ->].
  apply bind_ok in E. destruct E as [[] [s1 [E1 E]]].
  pose proof (cons_to _ _ _ _ (Inv_for_each_set _ _ Inv_remove_component) C E1) as C1.
  apply bind_ok in E. destruct E as [nss [s1' [E2 E]]]. apply get_ok in E2. destruct E2 as [-> ->].
  apply bind_ok in E. destruct E as [[] [s2 [E2 E]]].
  pose proof (cons_to _ _ _ _ (Inv_delete n) C1 E2) as C2.
  apply delete_ok in E2. destruct E2 as [_ ->].
  apply (ext_to _ _ _ _ n (Inv_for_each_set _ _ Inv_remove_ns) C2 E). left. reflexivity.
Qed.

(* "look the name up, the result is unique, remove it": every element of that name in g0 ends up deleted *)
Lemma del_by_name_tail c nm (rm : N -> M unit) s s' x :
  (forall n, Inv (rm n)) ->
  (forall n t t', cons g0 t -> rm n t = (inl tt, t') -> In n (snd t')) ->
  cons g0 s ->
  bind (m_get (fun g => by_name g c nm)) (fun all => bind (uniq all EQuery EQuery) rm) s = (inl tt, s') ->
  In x (by_name g0 c nm) -> In x (snd s').
Proof.
  intros Irm Hrm C E Hx.
  apply bind_ok in E. destruct E as [all [s1 [E1 E]]]. apply get_ok in E1. destruct E1 as [-> ->].
  apply bind_ok in E. destruct E as [n [s1 [E1 E]]]. apply uniq_ok in E1. destruct E1 as [Hall ->].
  destruct (in_dec N.eq_dec x (snd s)) as [Hd|Hd]; [apply (ext_to _ _ _ _ x (Irm n) C E Hd)|].
  assert (Hxn : In x (by_name (fst s) c nm)) by (rewrite C; apply by_name_restrict; auto).
  rewrite Hall in Hxn. destruct Hxn as [<-|[]]. apply (Hrm n s s' C E).
Qed.

Lemma Inv_node_tail nm n :
  Inv (bind (m_get (fun g => disc_list g (node_interface_list g n))) (fun ifs =>
       bind (for_each_set disconnect_step ifs) (fun _ =>
       bind (m_get (fun g => by_name g CNode nm)) (fun all =>
       bind (uniq all EQuery EQuery) (fun n' => remove_node_graph n'))))).
Proof.
  repeat first [apply Inv_disconnect_step | apply Inv_remove_node_graph | inv_step].
Qed.

Lemma del_node_tail nm n s s' x :
  cons g0 s ->
  bind (m_get (fun g => disc_list g (node_interface_list g n))) (fun ifs =>
  bind (for_each_set disconnect_step ifs) (fun _ =>
  bind (m_get (fun g => by_name g CNode nm)) (fun all =>
  bind (uniq all EQuery EQuery) (fun n' => remove_node_graph n')))) s = (inl tt, s') ->
  In x (by_name g0 CNode nm) -> In x (snd s').
Proof.
  intros C E Hx.
  apply bind_ok in E. destruct E as [ifs [s1 [E1 E]]]. apply get_ok in E1. destruct E1 as [-> ->].
  apply bind_ok in E. destruct E as [[] [s1 [E1 E]]].
  pose proof (cons_to _ _ _ _ (Inv_for_each_set _ _ Inv_disconnect_step) C E1) as C1.
  apply (del_by_name_tail CNode nm remove_node_graph s1 s' x Inv_remove_node_graph del_remove_node_graph C1 E Hx).
Qed.

Lemma del_remove_if_there c s s' :
  cons g0 s -> class_of g0 c = CCP -> remove_if_there c s = (inl tt, s') -> In c (snd s').
Proof.
  intros C Hc E. unfold remove_if_there in E.
  apply bind_ok in E. destruct E as [b [s1 [E1 E]]]. apply get_ok in E1. destruct E1 as [-> ->].
  destruct (has_node (fst s) c && cls_eqb (class_of (fst s) c) CCP) eqn:Eb.
  - apply (del_remove_cp c true s s' C E).
  - apply ret_ok in E. destruct E as [_ ->].
    destruct (in_dec N.eq_dec c (snd s)) as [Hd|Hd]; [exact Hd|]. exfalso.
    assert (Hm : memN c (snd s) = false) by (apply memN_false; exact Hd).
    rewrite C, has_node_restrict, Hm, (class_of_restrict _ _ _ Hm), Hc in Eb. simpl in Eb.
    unfold has_node, class_of in *. destruct (find_node g0 c); discriminate.
Qed.

Lemma del_unpeer6_loop l s s' :
  cons g0 s -> (forall c, In c l -> class_of g0 c = CCP) ->
  for_each_set remove_if_there l s = (inl tt, s') -> cons g0 s' /\ forall c, In c l -> In c (snd s').
Proof.
  intros C Hl E. apply for_each_set_ok in E.
  apply (for_each_ok_all remove_if_there (cons g0) (fun c t => In c (snd t)) l) with (s := s); [| |exact C|exact E].
  - intros c t1 t2 Hc C1 Et. split; [apply (cons_to _ _ _ _ (Inv_remove_if_there c) C1 Et)|].
    apply (del_remove_if_there c t1 t2 C1 (Hl c Hc) Et).
  - intros c y t1 t2 _ C1 Hin Et. apply (ext_to _ _ _ _ c (Inv_remove_if_there y) C1 Et Hin).
Qed.

End Top.

Lemma unpeer_pairs_class g a b xy : In xy (unpeer_pairs g a b) -> class_of g (fst xy) = CCP /\ class_of g (snd xy) = CCP.
Proof.
  unfold unpeer_pairs. intros H. apply in_flat_map in H. destruct H as [x [Hx H]].
  destruct (N.eqb (type_of g x) T_ServicePort); [|destruct H].
  apply in_flat_map in H. destruct H as [y [Hy H]].
  destruct (N.eqb (type_of g y) T_ServicePort && list_eqb8 N.eqb (first_neighbor g y RConnects CNS) [b]); [|destruct H].
  destruct H as [<-|[]]. simpl. split.
  - apply first_neighbor_In in Hx. tauto.
  - apply (peer_cps_class g (g, []) x y (cons_init g)). exact Hy.
Qed.


Lemma then_ret_ok {A B} (m : M A) (v : B) s r s' :
  bind m (fun _ => ret v) s = (inl r, s') -> exists x, m s = (inl x, s').
Proof.
  intros E. apply bind_ok in E. destruct E as [x [s1 [E1 E2]]]. apply ret_ok in E2. destruct E2 as [_ E2]. subst s1.
  exists x. exact E1.
Qed.

Theorem target_exec ex o cs g r g' tr :
  run (exec ex o cs) g = (inl r, (g', tr)) -> forall x, targets g o x -> In x tr.
Proof.
  unfold run. pose proof (cons_init g) as C0. destruct o; simpl; intros E x Hx.
  - (* remove_node *)
    apply then_ret_ok in E. destruct E as [[] E]. unfold api_remove_node in E.
    apply bind_ok in E. destruct E as [cands [s1 [E1 E]]]. apply get_ok in E1. destruct E1 as [-> ->].
    apply bind_ok in E. destruct E as [n [s1 [E1 E]]]. apply uniq_ok in E1. destruct E1 as [_ ->].
    apply (del_node_tail g name n _ _ x C0 E Hx).
  - (* remove_facility *)
    apply then_ret_ok in E. destruct E as [[] E]. unfold api_remove_facility in E.
    apply bind_ok in E. destruct E as [all [s1 [E1 E]]]. apply get_ok in E1. destruct E1 as [-> ->].
    apply bind_ok in E. destruct E as [n [s1 [E1 E]]]. apply uniq_ok in E1. destruct E1 as [_ ->].
    apply bind_ok in E. destruct E as [t [s1 [E1 E]]]. apply get_ok in E1. destruct E1 as [-> ->].
    apply bind_ok in E. destruct E as [[] [s1 [E1 E]]]. apply guard_ok in E1. destruct E1 as [_ ->].
    apply (del_node_tail g name n _ _ x C0 E Hx).
  - (* remove_switch *)
    apply then_ret_ok in E. destruct E as [[] E]. unfold api_remove_switch in E.
    apply bind_ok in E. destruct E as [all [s1 [E1 E]]]. apply get_ok in E1. destruct E1 as [-> ->].
    apply bind_ok in E. destruct E as [n [s1 [E1 E]]]. apply uniq_ok in E1. destruct E1 as [_ ->].
    apply bind_ok in E. destruct E as [t [s1 [E1 E]]]. apply get_ok in E1. destruct E1 as [-> ->].
    apply bind_ok in E. destruct E as [[] [s1 [E1 E]]]. apply guard_ok in E1. destruct E1 as [_ ->].
    unfold api_remove_node in E.
    apply bind_ok in E. destruct E as [cands [s1 [E1 E]]]. apply get_ok in E1. destruct E1 as [-> ->].
    apply bind_ok in E. destruct E as [n2 [s1 [E1 E]]]. apply uniq_ok in E1. destruct E1 as [_ ->].
    apply (del_node_tail g name n2 _ _ x C0 E Hx).
  - (* remove_link *)
    apply then_ret_ok in E. destruct E as [[] E]. unfold api_remove_link in E.
    apply bind_ok in E. destruct E as [all [s1 [E1 E]]]. apply get_ok in E1. destruct E1 as [-> ->].
    apply bind_ok in E. destruct E as [n [s1 [E1 E]]]. apply uniq_ok in E1. destruct E1 as [Hall ->].
    apply bind_ok in E. destruct E as [sp [s1 [E1 E]]]. apply get_ok in E1. destruct E1 as [-> ->].
    apply bind_ok in E. destruct E as [[] [s1 [E1 E]]]. apply guard_ok in E1. destruct E1 as [_ ->].
    simpl in Hall. rewrite Hall in Hx. destruct Hx as [<-|[]].
    unfold remove_link_graph in E.
    apply bind_ok in E. destruct E as [[] [t1 [Et1 E]]]. apply need_class_ok in Et1. destruct Et1 as [_ [_ ->]].
    apply delete_ok in E. destruct E as [_ E]. inversion E. left. reflexivity.
  - (* remove_network_service *)
    apply then_ret_ok in E. destruct E as [[] E]. unfold api_remove_ns_topo in E.
    exact (del_by_name_tail g CNS name remove_ns_disconnecting (g, []) (g', tr) x Inv_remove_ns_disconnecting (del_remove_ns_disconnecting g) C0 E Hx).
  - (* remove_component *)
    apply then_ret_ok in E. destruct E as [[] E]. unfold api_remove_component in E.
    apply bind_ok in E. destruct E as [[] [s1 [E1 E]]]. apply need_class_ok in E1. destruct E1 as [_ [_ ->]].
    apply bind_ok in E. destruct E as [cs0 [s1 [E1 E]]]. apply get_ok in E1. destruct E1 as [-> ->].
    apply bind_ok in E. destruct E as [c [s1 [E1 E]]]. apply uniq_ok in E1. destruct E1 as [Hc ->].
    apply bind_ok in E. destruct E as [ifs [s1 [E1 E]]]. apply get_ok in E1. destruct E1 as [-> ->].
    apply bind_ok in E. destruct E as [[] [s1 [E1 E]]].
    pose proof (cons_to g _ _ _ _ (Inv_for_each_set _ _ Inv_disconnect_step) C0 E1) as C1.
    simpl in Hc. destruct Hx as [Hx1 Hx2].
    assert (Hxc : In x (child_by_name g (first_neighbor g n RHas CComp) cname)).
    { unfold child_by_name. apply filter_In. split; [exact Hx1 | apply N.eqb_eq; exact Hx2]. }
    rewrite Hc in Hxc. destruct Hxc as [<-|[]]. apply (del_remove_component g c _ _ C1 E).
  - (* node.remove_network_service *)
    apply then_ret_ok in E. destruct E as [[] E]. unfold api_node_remove_ns in E.
    apply bind_ok in E. destruct E as [x0 [s1 [E1 E]]]. apply need_node_ok in E1. destruct E1 as [_ ->].
    apply bind_ok in E. destruct E as [[] [s1 [E1 E]]]. apply guard_ok in E1. destruct E1 as [_ ->].
    apply bind_ok in E. destruct E as [ss [s1 [E1 E]]]. apply get_ok in E1. destruct E1 as [-> ->].
    apply bind_ok in E. destruct E as [s [s1 [E1 E]]]. apply uniq_ok in E1. destruct E1 as [Hs ->].
    simpl in Hs. destruct Hx as [Hx1 Hx2].
    assert (Hxc : In x (child_by_name g (first_neighbor g n RHas CNS) sname)).
    { unfold child_by_name. apply filter_In. split; [exact Hx1 | apply N.eqb_eq; exact Hx2]. }
    rewrite Hs in Hxc. destruct Hxc as [<-|[]]. apply (del_remove_ns_disconnecting g s _ _ C0 E).
  - (* disconnect_interface *)
    apply bind_ok in E. destruct E as [c [s1 [E E2]]]. apply ret_ok in E2. destruct E2 as [_ E2]. subst s1.
    unfold api_disconnect in E. apply bind_ok in E. destruct E as [rr [s1 [E E2]]].
    assert (Hs1 : s1 = (g', tr)) by (destruct rr; apply ret_ok in E2; destruct E2 as [_ E2]; symmetry; exact E2). subst s1.
    unfold disconnect_interface in E.
    apply bind_ok in E. destruct E as [x0 [s1 [E1 E]]]. apply need_node_ok in E1. destruct E1 as [_ ->].
    apply bind_ok in E. destruct E as [p [s1 [E1 E]]]. apply get_ok in E1. destruct E1 as [-> ->].
    simpl in E. rewrite Hx in E.
    apply bind_ok in E. destruct E as [[] [s1 [E1 E]]]. apply ret_ok in E. destruct E as [_ E]. rewrite <- E in *.
    apply (del_remove_cp g x true _ _ C0 E1).
  - (* unpeer *)
    apply bind_ok in E. destruct E as [cc [s1 [E E2]]]. apply ret_ok in E2. destruct E2 as [_ E2]. subst s1.
    unfold api_unpeer in E.
    apply bind_ok in E. destruct E as [x0 [s1 [E1 E]]]. apply need_node_ok in E1. destruct E1 as [_ ->].
    apply bind_ok in E. destruct E as [x1 [s1 [E1 E]]]. apply need_node_ok in E1. destruct E1 as [_ ->].
    apply bind_ok in E. destruct E as [e [s1 [E1 E]]]. apply get_ok in E1. destruct E1 as [-> ->].
    simpl in E. destruct Hx as [xy [Hu Hx]]. rewrite Hu in E. unfold api_unpeer_checked in E.
    apply bind_ok in E. destruct E as [okb [s1 [E1 E]]]. apply get_ok in E1. destruct E1 as [-> ->].
    apply bind_ok in E. destruct E as [[] [s1 [E1 E]]]. apply guard_ok in E1. destruct E1 as [_ ->].
    unfold api_unpeer_with in E.
    apply bind_ok in E. destruct E as [[] [s1 [E1 E]]].
    pose proof (cons_to g _ _ _ _ (Inv_remove_cp _ _) C0 E1) as C1.
    apply bind_ok in E. destruct E as [[] [s2 [E2 E]]]. apply ret_ok in E. destruct E as [_ E]. rewrite <- E in *.
    destruct Hx as [->| ->].
    + apply (ext_to g _ _ _ _ _ (Inv_remove_cp _ _) C1 E2). apply (del_remove_cp g _ true _ _ C0 E1).
    + apply (del_remove_cp g _ true _ _ C1 E2).
  - (* unpeer, C08-6 *)
    apply bind_ok in E. destruct E as [cc [s1 [E E2]]]. apply ret_ok in E2. destruct E2 as [_ E2]. subst s1.
    unfold api_unpeer6 in E.
    apply bind_ok in E. destruct E as [x0 [s1 [E1 E]]]. apply need_node_ok in E1. destruct E1 as [_ ->].
    apply bind_ok in E. destruct E as [[] [s1 [E1 E]]]. apply guard_ok in E1. destruct E1 as [_ ->].
    apply bind_ok in E. destruct E as [ps [s1 [E1 E]]]. apply get_ok in E1. destruct E1 as [-> ->].
    simpl in E. destruct Hx as [xy [Hxy Hx]].
    destruct (unpeer_pairs g a b) as [|p0 ps'] eqn:U; [destruct Hxy|].
    apply bind_ok in E. destruct E as [[] [s1 [E1 E]]]. apply ret_ok in E. destruct E as [_ E]. rewrite <- E in *.
    assert (Hcls : forall c, In c (unpeer6_ends (p0 :: ps')) -> class_of g c = CCP).
    { intros c Hc. unfold unpeer6_ends in Hc. rewrite dedup_In, in_app_iff, !in_map_iff in Hc.
      destruct Hc as [[q [Eq Hq]]|[q [Eq Hq]]]; subst c;
        (assert (Hq' : In q (unpeer_pairs g a b)) by (rewrite U; exact Hq));
        destruct (unpeer_pairs_class g a b q Hq') as [A B]; assumption. }
    destruct (del_unpeer6_loop g _ _ _ (cons_init g) Hcls E1) as [_ Hall].
    apply Hall. unfold unpeer6_ends. rewrite dedup_In, in_app_iff, !in_map_iff.
    destruct Hx as [->| ->]; [left | right]; exists xy; auto.
  - (* remove_interface *)
    apply bind_ok in E. destruct E as [c [s1 [E E2]]]. apply ret_ok in E2. destruct E2 as [_ E2]. subst s1.
    unfold api_remove_interface in E.
    apply bind_ok in E. destruct E as [[] [s1 [E1 E]]]. apply guard_ok in E1. destruct E1 as [_ ->].
    apply bind_ok in E. destruct E as [x0 [s1 [E1 E]]]. apply need_node_ok in E1. destruct E1 as [_ ->].
    apply bind_ok in E. destruct E as [[] [s1 [E1 E]]]. apply guard_ok in E1. destruct E1 as [_ ->].
    apply bind_ok in E. destruct E as [is_ [s1 [E1 E]]]. apply get_ok in E1. destruct E1 as [-> ->].
    apply bind_ok in E. destruct E as [i [s1 [E1 E]]]. apply uniq_ok in E1. destruct E1 as [Hi ->].
    apply bind_ok in E. destruct E as [[] [s1 [E1 E]]]. apply ret_ok in E. destruct E as [_ E]. rewrite <- E in *.
    simpl in Hi. destruct Hx as [Hx1 Hx2].
    assert (Hxc : In x (child_by_name g (first_neighbor g s RConnects CCP) iname)).
    { unfold child_by_name. apply filter_In. split; [exact Hx1 | apply N.eqb_eq; exact Hx2]. }
    rewrite Hi in Hxc. destruct Hxc as [<-|[]]. apply (del_remove_cp g i true _ _ C0 E1).
  - (* remove_child_interface *)
    apply bind_ok in E. destruct E as [c [s1 [E E2]]]. apply ret_ok in E2. destruct E2 as [_ E2]. subst s1.
    unfold api_remove_child in E.
    apply bind_ok in E. destruct E as [x0 [s1 [E1 E]]]. apply need_node_ok in E1. destruct E1 as [_ ->].
    apply bind_ok in E. destruct E as [[] [s1 [E1 E]]]. apply guard_ok in E1. destruct E1 as [_ ->].
    apply bind_ok in E. destruct E as [[] [s1 [E1 E]]]. apply guard_ok in E1. destruct E1 as [_ ->].
    apply bind_ok in E. destruct E as [is_ [s1 [E1 E]]]. apply get_ok in E1. destruct E1 as [-> ->].
    apply bind_ok in E. destruct E as [i [s1 [E1 E]]]. apply uniq_ok in E1. destruct E1 as [Hi ->].
    apply bind_ok in E. destruct E as [[] [s1 [E0 E]]].
    pose proof (cons_to g _ _ _ _ (Inv_disconnect_peers_of i) C0 E0) as C1.
    apply bind_ok in E. destruct E as [[] [s2 [E1 E]]]. apply ret_ok in E. destruct E as [_ E]. rewrite <- E in *.
    simpl in Hi. destruct Hx as [Hx1 Hx2].
    assert (Hxc : In x (child_by_name g (first_neighbor g p RConnects CCP) iname)).
    { unfold child_by_name. apply filter_In. split; [exact Hx1 | apply N.eqb_eq; exact Hx2]. }
    rewrite Hi in Hxc. destruct Hxc as [<-|[]]. apply (del_remove_cp g i false _ _ C1 E1).
  - destruct Hx.
  - destruct Hx.
  - destruct Hx.
  - destruct Hx.
Qed.

(* C08 proofs, part 16: the service-side ports of a removed element WITHOUT the hypothesis "the element's own interfaces
   are not connected to each other".  Since fix 5286851 the disconnect loop skips an interface that is already gone.
   Under the well-formedness WP (distinct ids; a connection point has at most one link; a ServicePort has no
   neighbouring connection point; the edges at links and between a service and its ports are `connects` edges) the skip
   is harmless: the skipped interface was deleted because it WAS the peering artefact of an earlier iteration, its peer
   across the two-ended link is then that earlier interface - an interface of the element itself - and goes with the
   element. *)
From Coq Require Import List NArith Bool Lia Arith PeanoNat.
From FIM Require Import Model.T8Graph Model.T8Ops Proofs.T8Frame Proofs.T8Query Proofs.T8Hoare Proofs.T8Sound
     Proofs.T8SoundTop Proofs.T8Complete Proofs.T8Closed Proofs.T8Top Proofs.T8Owned Proofs.T8Handles Proofs.T8Fixed
     Proofs.T8Prune.
Import ListNotations.

Record WP (g : graph) : Prop := mkWP {
  wp_ids : ids_distinct g;
  wp_one_link : forall i l l', In l (lks g i) -> In l' (lks g i) -> l = l';
  wp_sp_alone : forall p, type_of g p = T_ServicePort -> cpn g p = [];
  wp_link_edges : forall l y r, class_of g l = CLink -> In (y, r) (nbrs g l) -> r = RConnects;
  wp_port_edges : forall s y r, class_of g s = CNS -> class_of g y = CCP -> In (y, r) (nbrs g s) -> r = RConnects
}.

Section Art.
Variable g0 : graph.
Hypothesis HW : WP g0.

Lemma by_name_class c nm n : In n (by_name g0 c nm) -> class_of g0 n = c.
Proof.
  intros Hn. unfold by_name in Hn. apply in_map_iff in Hn. destruct Hn as [x [<- Hx]].
  apply filter_In in Hx. destruct Hx as [Hx Hc]. apply andb_true_iff in Hc. destruct Hc as [Hc _].
  unfold class_of. rewrite (find_unique g0 x (wp_ids g0 HW) Hx).
  destruct (ncls x), c; simpl in Hc; try discriminate; reflexivity.
Qed.

(* one iteration, without assuming that ii is still there *)
Lemma step_art2 L ii s s' :
  JL g0 s -> DI g0 L (snd s) -> In ii L -> disconnect_step ii s = (inl tt, s') ->
  JL g0 s' /\ DI g0 L (snd s') /\ (forall x, In x (snd s) -> In x (snd s')) /\
  (forall l sp, link2 g0 l ii sp -> type_of g0 sp = T_ServicePort -> In sp (snd s') \/ In ii (snd s')).
Proof.
  intros HJ HD Hii E. unfold disconnect_step in E.
  apply bind_ok in E. destruct E as [b [s1 [E1 E]]]. apply get_ok in E1. destruct E1 as [-> ->].
  destruct (has_node (fst s) ii && cls_eqb (class_of (fst s) ii) CCP) eqn:Eb.
  - destruct (peers_step g0 ii s s' HJ E) as [A [B S']]. pose proof HJ as [C _].
    split; [exact A|]. split; [apply (peers_step_DI g0 L ii s s' C HD Hii E)|]. split; [exact S'|].
    intros l sp Hl Ht. left. exact (B l sp Hl Ht).
  - apply ret_ok in E. destruct E as [_ ->]. split; [exact HJ|]. split; [exact HD|]. split; [auto|].
    intros l sp Hl Ht. right. pose proof HJ as [C _].
    assert (Hc : class_of g0 ii = CCP).
    { destruct Hl as [_ [_ Hm]]. apply (cpn_class g0 l). apply Hm. auto. }
    apply (gone_in_D g0 s ii CCP C Hc ltac:(discriminate) Eb).
Qed.

Lemma disc_loop2 L s s' :
  JL g0 s -> DI g0 L (snd s) -> for_each_set disconnect_step L s = (inl tt, s') ->
  JL g0 s' /\ DI g0 L (snd s') /\ (forall x, In x (snd s) -> In x (snd s')) /\
  (forall ii, In ii L -> forall l sp, link2 g0 l ii sp -> type_of g0 sp = T_ServicePort -> In sp (snd s') \/ In ii (snd s')).
Proof.
  intros HJ HD E. apply for_each_set_ok in E.
  set (Jl := fun t : st => JL g0 t /\ DI g0 L (snd t) /\ forall x, In x (snd s) -> In x (snd t)).
  set (R := fun (ii : N) (t : st) =>
              forall l sp, link2 g0 l ii sp -> type_of g0 sp = T_ServicePort -> In sp (snd t) \/ In ii (snd t)).
  assert (H : Jl s' /\ forall ii, In ii L -> R ii s').
  { apply (for_each_ok_all disconnect_step Jl R L) with (s := s); [| | |exact E].
    - intros ii t1 t2 Hii [A [D B]] Et. destruct (step_art2 L ii t1 t2 A D Hii Et) as [A' [D' [S' R']]].
      split; [split; [exact A' | split; [exact D' | intros x Hx; apply S'; apply B; exact Hx]] | exact R'].
    - intros ii y t1 t2 Hy [A [D _]] HR Et. destruct (step_art2 L y t1 t2 A D Hy Et) as [_ [_ [S' _]]].
      intros l0 sp Hl Ht. destruct (HR l0 sp Hl Ht) as [H|H]; [left | right]; apply S'; exact H.
    - split; [exact HJ | split; [exact HD | auto]]. }
  destruct H as [[A [D B]] HR]. auto.
Qed.

(* WP: an interface deleted by the loop as the ServicePort peer of jj, with a two-ended link to sp: then sp = jj *)
Lemma skipped_is_artefact L ii l sp :
  (forall jj, In jj L -> class_of g0 jj = CCP) ->
  DI g0 L [] -> forall D, DI g0 L D -> In ii D -> link2 g0 l ii sp -> In sp L.
Proof.
  intros HL _ D HD Hii Hl. pose proof Hl as [Hcl [Hne Hm]].
  assert (Hic : class_of g0 ii = CCP) by (apply (cpn_class g0 l); apply Hm; auto).
  destruct (HD ii Hii Hic) as [jj [p [Hjj [Hp [Htp [->|Hn]]]]]].
  - (* ii is the ServicePort peer p of jj *)
    unfold peer_cps in Hp. apply in_flat_map in Hp. destruct Hp as [l2 [Hl2 Hp]].
    apply removeN_In in Hp. destruct Hp as [Hp Hpj].
    assert (Hl2c : class_of g0 l2 = CLink) by (apply first_neighbor_In in Hl2; tauto).
    apply nbrs_cls_In in Hp. destruct Hp as [[r Hr] _].
    assert (Hr' : r = RConnects) by (apply (wp_link_edges g0 HW l2 p r Hl2c Hr)). subst r.
    assert (A1 : In l2 (lks g0 p)).
    { unfold lks. apply first_neighbor_In. split; [apply nbrs_sym; exact Hr | exact Hl2c]. }
    assert (A2 : In l (lks g0 p)).
    { unfold lks. apply (first_neighbor_sym g0 l p RConnects CCP CLink); [apply Hm; auto | exact Hcl]. }
    assert (El : l2 = l) by (apply (wp_one_link g0 HW p l2 l A1 A2)). subst l2.
    assert (Hjl : In jj (cpn g0 l)).
    { unfold cpn. apply (first_neighbor_sym g0 jj l RConnects CLink CCP); [exact Hl2 | apply HL; exact Hjj]. }
    apply Hm in Hjl. destruct Hjl as [->| ->]; [exfalso; apply Hpj; reflexivity | exact Hjj].
  - (* ii next to a ServicePort: impossible *)
    rewrite (wp_sp_alone g0 HW p Htp) in Hn. destruct Hn.
Qed.

(* the loop from the initial state: the ServicePort across a two-ended link from ii is deleted by the loop, or it is
   itself one of the interfaces of the list *)
Lemma loop_art_wf L s' :
  (forall jj, In jj L -> class_of g0 jj = CCP) ->
  for_each_set disconnect_step L (g0, []) = (inl tt, s') ->
  cons g0 s' /\
  forall ii, In ii L -> forall l sp, link2 g0 l ii sp -> type_of g0 sp = T_ServicePort -> In sp (snd s') \/ In sp L.
Proof.
  intros HL E.
  destruct (disc_loop2 L (g0, []) s' (JL_init g0) (DI_init g0 L) E) as [[C _] [HD [_ HR]]].
  split; [exact C|]. intros ii Hii l sp Hl Ht.
  destruct (HR ii Hii l sp Hl Ht) as [H|H]; [left; exact H|]. right.
  apply (skipped_is_artefact L ii l sp HL (DI_init g0 L) (snd s') HD H Hl).
Qed.

(* a ServicePort in a disconnect list is one of the first-level interfaces (it is nobody's sub-interface) *)
Lemma disc_list_sp l0 sp :
  (forall i, In i l0 -> class_of g0 i = CCP) ->
  In sp (disc_list g0 l0) -> type_of g0 sp = T_ServicePort -> In sp l0.
Proof.
  unfold disc_list. intros HL H Ht. apply in_flat_map in H. destruct H as [i [Hi H]].
  unfold with_children in H. destruct H as [<-|H]; [exact Hi|]. exfalso.
  destruct (N.eqb (type_of g0 i) T_DedicatedPort); [|destruct H].
  assert (Hs : In i (cpn g0 sp)).
  { unfold cpn. apply (first_neighbor_sym g0 i sp RConnects CCP CCP); [exact H | apply HL; exact Hi]. }
  rewrite (wp_sp_alone g0 HW sp Ht) in Hs. destruct Hs.
Qed.

Lemma disc_list_class l0 :
  (forall i, In i l0 -> class_of g0 i = CCP) -> forall jj, In jj (disc_list g0 l0) -> class_of g0 jj = CCP.
Proof.
  intros HL jj H. unfold disc_list in H. apply in_flat_map in H. destruct H as [i [Hi H]].
  unfold with_children in H. destruct H as [<-|H]; [apply HL; exact Hi|].
  destruct (N.eqb (type_of g0 i) T_DedicatedPort); [|destruct H]. apply (cpn_class g0 i). exact H.
Qed.

Lemma owner_cps_class p i : In i (owner_cps g0 p) -> class_of g0 i = CCP.
Proof.
  unfold owner_cps. intros H. apply in_flat_map in H. destruct H as [s [_ H]].
  apply removeN_In in H. destruct H as [H _]. apply nbrs_cls_In in H. tauto.
Qed.

(* under WP the interfaces a node / component lists are ports of its services *)
Lemma owner_cps_ports p i : In i (owner_cps g0 p) -> exists s, In s (first_neighbor g0 p RHas CNS) /\ In i (cpn g0 s).
Proof.
  unfold owner_cps. intros H. apply in_flat_map in H. destruct H as [s [Hs H]].
  apply removeN_In in H. destruct H as [H _]. apply nbrs_cls_In in H. destruct H as [[r Hr] Hc].
  exists s. split; [exact Hs|].
  assert (Hsc : class_of g0 s = CNS) by (apply first_neighbor_In in Hs; tauto).
  rewrite (wp_port_edges g0 HW s i r Hsc Hc Hr) in Hr. unfold cpn. apply first_neighbor_In. auto.
Qed.

Lemma node_interface_list_class n i : In i (node_interface_list g0 n) -> class_of g0 i = CCP.
Proof.
  unfold node_interface_list, comp_interface_list. rewrite in_app_iff, in_flat_map.
  intros [H|[c [_ H]]]; apply (owner_cps_class _ i H).
Qed.

Lemma node_interface_list_owned n i : In i (node_interface_list g0 n) -> O_node g0 n i.
Proof.
  unfold node_interface_list, comp_interface_list. rewrite in_app_iff, in_flat_map. intros [H|[c [Hc H]]].
  - destruct (owner_cps_ports n i H) as [s [Hs Hi]]. right. right. exists s. split; [exact Hs|].
    right. exists i. split; [exact Hi | left; reflexivity].
  - destruct (owner_cps_ports c i H) as [s [Hs Hi]]. right. left. exists c. split; [exact Hc|].
    right. exists s. split; [exact Hs|]. right. exists i. split; [exact Hi | left; reflexivity].
Qed.

End Art.

Lemma art_tail_wf g nm n s' ii l sp :
  WP g ->
  bind (m_get (fun g => disc_list g (node_interface_list g n))) (fun ifs =>
  bind (for_each_set disconnect_step ifs) (fun _ =>
  bind (m_get (fun g => by_name g CNode nm)) (fun all =>
  bind (uniq all EQuery EQuery) (fun n' => remove_node_graph n')))) (g, []) = (inl tt, s') ->
  In ii (disc_list g (node_interface_list g n)) -> link2 g l ii sp -> type_of g sp = T_ServicePort ->
  In sp (snd s') \/ O_node g n sp.
Proof.
  intros HW E Hii Hl Ht.
  apply bind_ok in E. destruct E as [ifs [s1 [E1 E]]]. apply get_ok in E1. destruct E1 as [-> ->].
  apply bind_ok in E. destruct E as [[] [s1 [E1 E]]]. simpl in E1.
  assert (HL : forall jj, In jj (disc_list g (node_interface_list g n)) -> class_of g jj = CCP).
  { apply (disc_list_class g). intros i Hi. apply (node_interface_list_class g n i Hi). }
  destruct (loop_art_wf g HW _ s1 HL E1) as [C1 HR].
  destruct (HR ii Hii l sp Hl Ht) as [H|H].
  - left.
    assert (I : Inv (bind (m_get (fun g => by_name g CNode nm)) (fun all =>
                bind (uniq all EQuery EQuery) (fun n' => remove_node_graph n')))).
    { repeat first [apply Inv_remove_node_graph | inv_step]. }
    apply (ext_to g _ _ _ _ sp I C1 E H).
  - right. apply (node_interface_list_owned g HW n sp).
    apply (disc_list_sp g HW _ sp (fun i Hi => node_interface_list_class g n i Hi) H Ht).
Qed.

(* THE ARTEFACT THEOREM under WP, without the self-peering hypothesis *)
Theorem artefact_ports_deleted_wf ex o cs g r g' tr :
  WP g -> run (exec ex o cs) g = (inl r, (g', tr)) ->
  forall ii l sp, disc_ifs g o ii -> link2 g l ii sp -> type_of g sp = T_ServicePort -> In sp tr.
Proof.
  intros HW E ii l sp Hd Hl Ht.
  pose proof (owned_exec ex o cs g r g' tr E) as HO.
  destruct o; simpl in Hd; try (destruct Hd; fail).
  - (* remove_node *)
    destruct Hd as [n [Hn Hii]].
    assert (Hnb : In n (by_name g CNode name)) by (unfold topo_nodes in Hn; apply filter_In in Hn; tauto).
    unfold run in E. simpl in E. apply then_ret_ok in E. destruct E as [[] E]. unfold api_remove_node in E.
    apply bind_ok in E. destruct E as [cands [s1 [E1 E]]]. apply get_ok in E1. destruct E1 as [-> ->].
    apply bind_ok in E. destruct E as [n0 [s1 [E1 E]]]. apply uniq_ok in E1. destruct E1 as [Hc ->].
    simpl in Hc. rewrite Hc in Hn. destruct Hn as [<-|[]].
    destruct (art_tail_wf g name n0 _ ii l sp HW E Hii Hl Ht) as [H|H]; [exact H|].
    apply HO. simpl. exists n0. split; [exact Hnb|]. split; [apply (by_name_class g HW CNode name n0 Hnb) | exact H].
  - (* remove_facility *)
    destruct Hd as [n [Hnb Hii]].
    unfold run in E. simpl in E. apply then_ret_ok in E. destruct E as [[] E]. unfold api_remove_facility in E.
    apply bind_ok in E. destruct E as [all [s1 [E1 E]]]. apply get_ok in E1. destruct E1 as [-> ->].
    apply bind_ok in E. destruct E as [n0 [s1 [E1 E]]]. apply uniq_ok in E1. destruct E1 as [Hc ->].
    apply bind_ok in E. destruct E as [t [s1 [E1 E]]]. apply get_ok in E1. destruct E1 as [-> ->].
    apply bind_ok in E. destruct E as [[] [s1 [E1 E]]]. apply guard_ok in E1. destruct E1 as [_ ->].
    simpl in Hc. pose proof Hnb as Hnb0. rewrite Hc in Hnb. destruct Hnb as [<-|[]].
    destruct (art_tail_wf g name n0 _ ii l sp HW E Hii Hl Ht) as [H|H]; [exact H|].
    apply HO. simpl. exists n0. split; [exact Hnb0|]. split; [apply (by_name_class g HW CNode name n0 Hnb0) | exact H].
  - (* remove_switch *)
    destruct Hd as [n [Hn Hii]].
    assert (Hnb : In n (by_name g CNode name)) by (unfold topo_nodes in Hn; apply filter_In in Hn; tauto).
    unfold run in E. simpl in E. apply then_ret_ok in E. destruct E as [[] E]. unfold api_remove_switch in E.
    apply bind_ok in E. destruct E as [all [s1 [E1 E]]]. apply get_ok in E1. destruct E1 as [-> ->].
    apply bind_ok in E. destruct E as [n1 [s1 [E1 E]]]. apply uniq_ok in E1. destruct E1 as [_ ->].
    apply bind_ok in E. destruct E as [t [s1 [E1 E]]]. apply get_ok in E1. destruct E1 as [-> ->].
    apply bind_ok in E. destruct E as [[] [s1 [E1 E]]]. apply guard_ok in E1. destruct E1 as [_ ->].
    unfold api_remove_node in E.
    apply bind_ok in E. destruct E as [cands [s1 [E1 E]]]. apply get_ok in E1. destruct E1 as [-> ->].
    apply bind_ok in E. destruct E as [n0 [s1 [E1 E]]]. apply uniq_ok in E1. destruct E1 as [Hc ->].
    simpl in Hc. rewrite Hc in Hn. destruct Hn as [<-|[]].
    destruct (art_tail_wf g name n0 _ ii l sp HW E Hii Hl Ht) as [H|H]; [exact H|].
    apply HO. simpl. exists n0. split; [exact Hnb|]. split; [apply (by_name_class g HW CNode name n0 Hnb) | exact H].
  - (* topology.remove_network_service *)
    destruct Hd as [s0 [Hs0 Hii]].
    unfold run in E. simpl in E. apply then_ret_ok in E. destruct E as [[] E]. unfold api_remove_ns_topo in E.
    apply bind_ok in E. destruct E as [all [s1 [E1 E]]]. apply get_ok in E1. destruct E1 as [-> ->].
    apply bind_ok in E. destruct E as [n0 [s1 [E1 E]]]. apply uniq_ok in E1. destruct E1 as [Hc ->].
    simpl in Hc. pose proof Hs0 as Hs00. rewrite Hc in Hs0. destruct Hs0 as [<-|[]].
    unfold remove_ns_disconnecting in E.
    apply bind_ok in E. destruct E as [ifs [s1 [E1 E]]]. apply get_ok in E1. destruct E1 as [-> ->].
    apply bind_ok in E. destruct E as [[] [s1 [E1 E]]]. simpl in E1.
    assert (HL : forall jj, In jj (disc_list g (cpn g n0)) -> class_of g jj = CCP).
    { apply (disc_list_class g). intros i Hi. apply (cpn_class g n0 i Hi). }
    destruct (loop_art_wf g HW _ s1 HL E1) as [C1 HR].
    destruct (HR ii Hii l sp Hl Ht) as [H|H].
    + apply (ext_to g _ _ _ _ sp (Inv_remove_ns n0) C1 E H).
    + apply HO. simpl. exists n0. split; [exact Hs00|]. split; [apply (by_name_class g HW CNS name n0 Hs00)|].
      right. exists sp. split; [|left; reflexivity].
      apply (disc_list_sp g HW _ sp (fun i Hi => cpn_class g n0 i Hi) H Ht).
  - (* remove_component *)
    destruct Hd as [c' [Hc1 [Hc2 Hii]]].
    unfold run in E. simpl in E. apply then_ret_ok in E. destruct E as [[] E]. unfold api_remove_component in E.
    apply bind_ok in E. destruct E as [[] [s1 [E1 E]]]. apply need_class_ok in E1. destruct E1 as [_ [_ ->]].
    apply bind_ok in E. destruct E as [cs0 [s1 [E1 E]]]. apply get_ok in E1. destruct E1 as [-> ->].
    apply bind_ok in E. destruct E as [c [s1 [E1 E]]]. apply uniq_ok in E1. destruct E1 as [Hc ->].
    apply bind_ok in E. destruct E as [ifs [s1 [E1 E]]]. apply get_ok in E1. destruct E1 as [-> ->].
    apply bind_ok in E. destruct E as [[] [s1 [E1 E]]]. simpl in Hc, E1.
    assert (Hxc : In c' (child_by_name g (first_neighbor g n RHas CComp) cname)).
    { unfold child_by_name. apply filter_In. split; [exact Hc1 | apply N.eqb_eq; exact Hc2]. }
    rewrite Hc in Hxc. destruct Hxc as [<-|[]].
    assert (HL : forall jj, In jj (disc_list g (comp_interface_list g c)) -> class_of g jj = CCP).
    { apply (disc_list_class g). intros i Hi. apply (owner_cps_class g c i Hi). }
    destruct (loop_art_wf g HW _ s1 HL E1) as [C1 HR].
    destruct (HR ii Hii l sp Hl Ht) as [H|H].
    + apply (ext_to g _ _ _ _ sp (Inv_remove_component c) C1 E H).
    + apply HO. simpl. exists c. split; [exact Hc1|]. split; [exact Hc2|].
      assert (Hsp : In sp (comp_interface_list g c)).
      { apply (disc_list_sp g HW _ sp (fun i Hi => owner_cps_class g c i Hi) H Ht). }
      destruct (owner_cps_ports g HW c sp Hsp) as [s [Hs Hi]].
      right. exists s. split; [exact Hs|]. right. exists sp. split; [exact Hi | left; reflexivity].
  - (* node.remove_network_service *)
    destruct Hd as [s' [Hs1 [Hs2 Hii]]].
    unfold run in E. simpl in E. apply then_ret_ok in E. destruct E as [[] E]. unfold api_node_remove_ns in E.
    apply bind_ok in E. destruct E as [x0 [s1 [E1 E]]]. apply need_node_ok in E1. destruct E1 as [_ ->].
    apply bind_ok in E. destruct E as [[] [s1 [E1 E]]]. apply guard_ok in E1. destruct E1 as [_ ->].
    apply bind_ok in E. destruct E as [ss [s1 [E1 E]]]. apply get_ok in E1. destruct E1 as [-> ->].
    apply bind_ok in E. destruct E as [s0 [s1 [E1 E]]]. apply uniq_ok in E1. destruct E1 as [Hs ->].
    simpl in Hs.
    assert (Hxc : In s' (child_by_name g (first_neighbor g n RHas CNS) sname)).
    { unfold child_by_name. apply filter_In. split; [exact Hs1 | apply N.eqb_eq; exact Hs2]. }
    rewrite Hs in Hxc. destruct Hxc as [<-|[]].
    unfold remove_ns_disconnecting in E.
    apply bind_ok in E. destruct E as [ifs [s1 [E1 E]]]. apply get_ok in E1. destruct E1 as [-> ->].
    apply bind_ok in E. destruct E as [[] [s1 [E1 E]]]. simpl in E1.
    assert (HL : forall jj, In jj (disc_list g (cpn g s0)) -> class_of g jj = CCP).
    { apply (disc_list_class g). intros i Hi. apply (cpn_class g s0 i Hi). }
    destruct (loop_art_wf g HW _ s1 HL E1) as [C1 HR].
    destruct (HR ii Hii l sp Hl Ht) as [H|H].
    + apply (ext_to g _ _ _ _ sp (Inv_remove_ns s0) C1 E H).
    + apply HO. simpl. exists s0. split; [exact Hs1|]. split; [exact Hs2|].
      right. exists sp. split; [|left; reflexivity].
      apply (disc_list_sp g HW _ sp (fun i Hi => cpn_class g s0 i Hi) H Ht).
  - (* disconnect_interface: a single interface, no skipping *)
    apply (artefact_ports_deleted ex (ODisconnect s i) cs g r g' tr E ii l sp Hd I Hl Ht).
  - (* remove_child_interface *)
    apply (artefact_ports_deleted ex (ORemoveChild p iname) cs g r g' tr E ii l sp Hd I Hl Ht).
Qed.

(* ---- a decidable version of WP, for concrete graphs ---- *)
Fixpoint nodupb (l : list N) : bool :=
  match l with [] => true | x :: r => negb (memN x r) && nodupb r end.
Lemma nodupb_sound l : nodupb l = true -> NoDup l.
Proof.
  induction l as [|x r IH]; simpl; intros H; [constructor|]. apply andb_true_iff in H. destruct H as [A B].
  constructor; [apply memN_false; apply negb_true_iff; exact A | apply IH; exact B].
Qed.

Definition endpoints (g : graph) : list N := map ea (gedges g) ++ map eb (gedges g).
Definition wpb (g : graph) : bool :=
  nodupb (map nid (gnodes g)) &&
  forallb (fun i => Nat.leb (length (lks g i)) 1) (endpoints g) &&
  forallb (fun x => if N.eqb (type_of g (nid x)) T_ServicePort
                    then match cpn g (nid x) with [] => true | _ => false end else true) (gnodes g) &&
  forallb (fun x => if cls_eqb (class_of g (nid x)) CLink
                    then forallb (fun p => rel_eqb (snd p) RConnects) (nbrs g (nid x)) else true) (gnodes g) &&
  forallb (fun x => if cls_eqb (class_of g (nid x)) CNS
                    then forallb (fun p => negb (cls_eqb (class_of g (fst p)) CCP) || rel_eqb (snd p) RConnects)
                                 (nbrs g (nid x)) else true) (gnodes g).

Lemma class_node g l c : class_of g l = c -> c <> COther -> exists x, In x (gnodes g) /\ nid x = l.
Proof.
  unfold class_of. destruct (find_node g l) as [x|] eqn:F; [|intros <- H; exfalso; apply H; reflexivity].
  intros _ _. unfold find_node in F. apply find_some in F. destruct F as [A B]. apply N.eqb_eq in B. exists x. auto.
Qed.

Lemma nbrs_endpoint g i y r : In (y, r) (nbrs g i) -> In i (endpoints g).
Proof.
  intros H. apply nbrs_In in H. destruct H as [e [He [_ [[A _]|[_ [A _]]]]]]; unfold endpoints; apply in_or_app.
  - left. apply in_map_iff. exists e. auto.
  - right. apply in_map_iff. exists e. auto.
Qed.

Lemma wpb_sound g : wpb g = true -> WP g.
Proof.
  unfold wpb. intros H. repeat (apply andb_true_iff in H; destruct H as [H ?]).
  rename H into H1, H3 into H2, H2 into H3, H1 into H4, H0 into H5.
  constructor.
  - unfold ids_distinct. apply nodupb_sound. exact H1.
  - intros i l l' A B. rewrite forallb_forall in H2.
    assert (Hi : In i (endpoints g)).
    { unfold lks in A. apply first_neighbor_In in A. destruct A as [A _]. apply (nbrs_endpoint g i l RConnects A). }
    specialize (H2 i Hi). apply Nat.leb_le in H2.
    destruct (lks g i) as [|a [|b r]]; simpl in *; [destruct A | | lia].
    destruct A as [<-|[]]. destruct B as [<-|[]]. reflexivity.
  - intros p Hp. rewrite forallb_forall in H3.
    assert (Hx : exists x, In x (gnodes g) /\ nid x = p).
    { unfold type_of in Hp. destruct (find_node g p) as [x|] eqn:F; [|discriminate].
      unfold find_node in F. apply find_some in F. destruct F as [A B]. apply N.eqb_eq in B. exists x. auto. }
    destruct Hx as [x [Hx <-]]. specialize (H3 x Hx). rewrite Hp in H3. simpl in H3.
    destruct (cpn g (nid x)); [reflexivity | discriminate].
  - intros l y r Hl Hy. rewrite forallb_forall in H4.
    destruct (class_node g l CLink Hl ltac:(discriminate)) as [x [Hx <-]].
    specialize (H4 x Hx). rewrite Hl in H4. simpl in H4. rewrite forallb_forall in H4. specialize (H4 (y, r) Hy).
    simpl in H4. destruct r; simpl in H4; try discriminate; reflexivity.
  - intros s y r Hs Hyc Hy. rewrite forallb_forall in H5.
    destruct (class_node g s CNS Hs ltac:(discriminate)) as [x [Hx <-]].
    specialize (H5 x Hx). rewrite Hs in H5. simpl in H5. rewrite forallb_forall in H5. specialize (H5 (y, r) Hy).
    simpl in H5. rewrite Hyc in H5. simpl in H5. destruct r; simpl in H5; try discriminate; reflexivity.
Qed.

(* C12 proofs, part 1: details and delegations round trip through the JSON value, rejection rules,
   invariants of the Delegation / Delegations API. *)
From Coq Require Import List ZArith NArith Bool Lia Permutation String.
From FIM Require Import Base.Str Gen.DelegGen Model.Deleg12.
Import ListNotations.

(* ---------------------------------------------------------------------------------------------- *)
(* reflection of the boolean list predicates                                                        *)
(* ---------------------------------------------------------------------------------------------- *)
Lemma str_eqb_false a b : str_eqb a b = false <-> a <> b.
Proof.
  split.
  - intros H E. subst. rewrite str_eqb_refl in H. discriminate.
  - intros H. destruct (str_eqb a b) eqn:E; [|reflexivity]. apply str_eqb_eq in E. contradiction.
Qed.

Lemma str_eqb_sym a b : str_eqb a b = str_eqb b a.
Proof.
  destruct (str_eqb a b) eqn:E.
  - apply str_eqb_eq in E. subst. symmetry. apply str_eqb_refl.
  - symmetry. apply str_eqb_false. apply str_eqb_false in E. congruence.
Qed.

Lemma str_mem_In k l : str_mem k l = true <-> In k l.
Proof.
  induction l as [|x l IH]; simpl.
  - split; [discriminate|tauto].
  - rewrite orb_true_iff, IH, str_eqb_eq. tauto.
Qed.

Lemma str_mem_false k l : str_mem k l = false <-> ~ In k l.
Proof.
  rewrite <- str_mem_In. symmetry. apply not_true_iff_false.
Qed.

Lemma str_nodup_NoDup l : str_nodup l = true <-> NoDup l.
Proof.
  induction l as [|x l IH]; simpl.
  - split; [constructor|reflexivity].
  - rewrite andb_true_iff, negb_true_iff, str_mem_false, IH. split.
    + intros [A B]. constructor; assumption.
    + intros H. inversion H; subst. tauto.
Qed.

Lemma NoDup_snoc {A} (l : list A) x : NoDup l -> ~ In x l -> NoDup (l ++ [x]).
Proof. intros ND NI. eapply Permutation_NoDup; [apply Permutation_cons_append|]. constructor; assumption. Qed.

Lemma str_dec (a b : str) : {a = b} + {a <> b}.
Proof. apply list_eq_dec. apply N.eq_dec. Qed.

Lemma dtype_eqb_eq a b : dtype_eqb a b = true <-> a = b.
Proof. destruct a, b; simpl; split; intro H; congruence || reflexivity. Qed.

Lemma dtype_eqb_refl a : dtype_eqb a a = true.
Proof. destruct a; reflexivity. Qed.

Lemma has_id_In id items : has_id id items = true <-> In id (map d_id items).
Proof.
  unfold has_id. induction items as [|d r IH]; simpl.
  - split; [discriminate|tauto].
  - rewrite orb_true_iff, IH, str_eqb_eq. tauto.
Qed.

Lemma has_id_false id items : has_id id items = false <-> ~ In id (map d_id items).
Proof.
  rewrite <- has_id_In. symmetry. apply not_true_iff_false.
Qed.

(* ---------------------------------------------------------------------------------------------- *)
(* the regenerated tables                                                                           *)
(* ---------------------------------------------------------------------------------------------- *)
Lemma gen_ok_true : deleg_gen_ok = true.
Proof. vm_compute. reflexivity. Qed.

Lemma wire_names_ok : wire_names_distinct = true.
Proof. vm_compute. reflexivity. Qed.

Lemma fields_nodup_b : str_nodup deleg_cap_fields = true /\ str_nodup deleg_lab_fields = true.
Proof. split; vm_compute; reflexivity. Qed.

Lemma fields_NoDup ty : NoDup (fields_of ty).
Proof. destruct ty; simpl; apply str_nodup_NoDup; apply fields_nodup_b. Qed.

Lemma enum_members_ok :
  delegation_type_members = ["CAPACITY"; "LABEL"]%string /\
  delegation_format_members = ["PoolDefinition"; "PoolReference"; "SinglePool"]%string.
Proof. split; vm_compute; reflexivity. Qed.

(* ---------------------------------------------------------------------------------------------- *)
(* details: object -> dictionary -> object                                                          *)
(* ---------------------------------------------------------------------------------------------- *)
Lemma lookup_notin {A} k (l : list (str * A)) : ~ In k (map fst l) -> lookup k l = None.
Proof.
  induction l as [|[k' v] r IH]; simpl; intro H; [reflexivity|].
  destruct (str_eqb k' k) eqn:E.
  - apply str_eqb_eq in E. subst. exfalso. apply H. left. reflexivity.
  - apply IH. tauto.
Qed.

Lemma kept_keys fs vs k : In k (map fst (kept_pairs fs vs)) -> In k fs.
Proof.
  revert vs. induction fs as [|f fs IH]; intros vs H; simpl in *.
  - destruct vs; exact H.
  - destruct vs as [|v vs]; [contradiction|].
    destruct v as [x|].
    + destruct (dropped (Some x)); simpl in H.
      * right. eapply IH. exact H.
      * destruct H as [H|H]; [left; exact H|right; eapply IH; exact H].
    + right. eapply IH. exact H.
Qed.

(* every field reads back its own value when the dropped values are exactly the defaults *)
Lemma lookup_kept_pairs (dflt : option dval) fs : NoDup fs -> forall vs,
  List.length fs = List.length vs ->
  (forall v, In v vs -> dropped v = true -> v = dflt) ->
  map (fun f => match lookup f (kept_pairs fs vs) with Some v => Some v | None => dflt end) fs = vs.
Proof.
  intros ND. induction ND as [|f fs NI ND IH]; intros vs L D.
  - destruct vs; [reflexivity|discriminate].
  - destruct vs as [|v vs]; [discriminate|]. simpl in L. injection L as L.
    assert (Dv : dropped v = true -> v = dflt) by (apply D; left; reflexivity).
    assert (IH' := IH vs L (fun w Hw => D w (or_intror Hw))).
    assert (NK : ~ In f (map fst (kept_pairs fs vs))) by (intro H; apply NI; eapply kept_keys; exact H).
    assert (TL : forall K', (forall g, In g fs -> lookup g K' = lookup g (kept_pairs fs vs)) ->
                 map (fun g => match lookup g K' with Some w => Some w | None => dflt end) fs = vs).
    { intros K' HK. etransitivity; [|exact IH']. apply map_ext_in. intros g Hg. rewrite (HK g Hg). reflexivity. }
    cbn [map kept_pairs].
    destruct v as [x|].
    + destruct (dropped (Some x)) eqn:Ed.
      * rewrite (lookup_notin _ _ NK). f_equal; [symmetry; apply Dv; reflexivity|].
        apply TL. reflexivity.
      * f_equal; [cbn [lookup]; rewrite str_eqb_refl; reflexivity|]. apply TL.
        intros g Hg. cbn [lookup]. assert (f <> g) by (intro; subst; contradiction).
        apply str_eqb_false in H. rewrite H. reflexivity.
    + rewrite (lookup_notin _ _ NK). f_equal; [symmetry; apply Dv; reflexivity|].
      apply TL. reflexivity.
Qed.

Section WithValidators.
Variable lc : str -> dval -> option exn.

Lemma is_field_In ty k : In k (fields_of ty) -> is_field ty k = true.
Proof.
  unfold is_field. intro H. apply existsb_exists. exists k. split; [exact H|apply str_eqb_refl].
Qed.

Lemma vals_ok_length ty fs vs : vals_ok lc ty fs vs = true -> List.length fs = List.length vs.
Proof.
  revert vs. induction fs as [|f fs IH]; destruct vs as [|v vs]; simpl; intro H; try discriminate; [reflexivity|].
  apply andb_true_iff in H as [_ H]. f_equal. apply IH. exact H.
Qed.

Lemma vals_ok_dropped ty fs vs : vals_ok lc ty fs vs = true ->
  forall v, In v vs -> dropped v = true -> v = default_of ty.
Proof.
  revert vs. induction fs as [|f fs IH]; destruct vs as [|v vs]; simpl; intros H w Hw Dw; try discriminate; try contradiction.
  apply andb_true_iff in H as [Hv H]. destruct Hw as [<-|Hw]; [|eapply IH; eassumption].
  destruct ty; simpl in *.
  - destruct v as [[z| |]|]; try discriminate. simpl in Dw. unfold dict_drop_int in Dw.
    apply Z.eqb_eq in Dw. subst. reflexivity.
  - destruct v as [[z| |]|]; try discriminate; reflexivity.
Qed.

Lemma vals_ok_first_error ty fs vs : vals_ok lc ty fs vs = true ->
  (forall f, In f fs -> In f (fields_of ty)) ->
  first_error lc ty (kept_pairs fs vs) = None.
Proof.
  revert vs. induction fs as [|f fs IH]; destruct vs as [|v vs]; simpl; intros H Sub; try discriminate; try reflexivity.
  apply andb_true_iff in H as [Hv H].
  assert (R : first_error lc ty (kept_pairs fs vs) = None) by (apply IH; [exact H|intros; apply Sub; right; assumption]).
  destruct v as [x|]; [|exact R].
  destruct (dropped (Some x)); [exact R|].
  cbn [first_error]. rewrite R.
  assert (F : is_field ty f = true) by (apply is_field_In; apply Sub; left; reflexivity).
  destruct ty; simpl in *.
  - destruct x as [z| |]; try discriminate. unfold check_item. cbn [snd fst].
    apply Z.leb_le in Hv. destruct (z <? 0)%Z eqn:E; [apply Z.ltb_lt in E; lia|]. rewrite F. reflexivity.
  - destruct x as [z| |]; try discriminate; unfold check_item; cbn [snd fst]; rewrite F;
      match goal with |- context [lc ?a ?b] => destruct (lc a b); [discriminate|reflexivity] end.
Qed.

(* the details of a delegation / pool survive to_dict followed by the constructor *)
Lemma details_roundtrip x dd : det_ok lc x = true -> det_to_dict x = Some dd ->
  obj_of_dict lc (det_kind x) dd = Ok x.
Proof.
  destruct x as [k vs]. unfold det_ok, det_to_dict. cbn [det_kind det_vals]. intros OK E.
  assert (dd = kept_pairs (fields_of k) vs) by (destruct (kept_pairs (fields_of k) vs); [discriminate|congruence]).
  subst dd. unfold obj_of_dict.
  rewrite (vals_ok_first_error _ _ _ OK (fun f H => H)).
  f_equal. f_equal.
  apply lookup_kept_pairs.
  - apply fields_NoDup.
  - eapply vals_ok_length; exact OK.
  - eapply vals_ok_dropped; exact OK.
Qed.

(* the constructor only builds objects of the class: one value per field, each acceptable *)
Lemma obj_of_dict_kind ty dd x : obj_of_dict lc ty dd = Ok x -> det_kind x = ty.
Proof.
  unfold obj_of_dict. destruct (first_error lc ty dd); intro H; [discriminate|]. injection H as <-. reflexivity.
Qed.

(* ---------------------------------------------------------------------------------------------- *)
(* rejection rules (for all arguments)                                                              *)
(* ---------------------------------------------------------------------------------------------- *)
Lemma rejects_mixed d x : det_kind x <> d_type d -> set_details d x = Err EDelegation.
Proof.
  intro H. unfold set_details. destruct (d_fmt d); try reflexivity;
    (destruct (dtype_eqb (det_kind x) (d_type d)) eqn:E; [apply dtype_eqb_eq in E; contradiction|reflexivity]).
Qed.

Lemma rejects_details_on_ref d x : d_fmt d = FRef -> set_details d x = Err EDelegation.
Proof. intro H. unfold set_details. rewrite H. reflexivity. Qed.

Lemma set_details_accepts d x : d_fmt d <> FRef -> det_kind x = d_type d ->
  set_details d x = Ok (mkD (d_type d) (d_id d) (d_fmt d) (d_pool d) (Some x)).
Proof.
  intros F K. unfold set_details. rewrite K, dtype_eqb_refl. destruct (d_fmt d); try reflexivity. contradiction.
Qed.

(* exactly these two causes *)
Lemma set_details_ok_iff d x : (exists d', set_details d x = Ok d') <-> (d_fmt d <> FRef /\ det_kind x = d_type d).
Proof.
  split.
  - intros [d' H]. unfold set_details in H. destruct (d_fmt d) eqn:F; try discriminate;
      (destruct (dtype_eqb (det_kind x) (d_type d)) eqn:E; [|discriminate]; apply dtype_eqb_eq in E;
       split; [congruence|exact E]).
  - intros [F K]. eexists. apply set_details_accepts; assumption.
Qed.

Lemma rejects_duplicate ds d : d_type d = ds_type ds -> In (d_id d) (map d_id (ds_items ds)) ->
  add_delegation ds d = Err EDelegation.
Proof.
  intros T H. unfold add_delegation. rewrite T, dtype_eqb_refl. simpl.
  apply has_id_In in H. rewrite H. reflexivity.
Qed.

Lemma rejects_foreign_type ds d : d_type d <> ds_type ds -> add_delegation ds d = Err EAssertion.
Proof.
  intros T. unfold add_delegation.
  destruct (dtype_eqb (d_type d) (ds_type ds)) eqn:E; [apply dtype_eqb_eq in E; contradiction|reflexivity].
Qed.

Lemma add_accepts ds d : d_type d = ds_type ds -> ~ In (d_id d) (map d_id (ds_items ds)) ->
  add_delegation ds d = Ok (mkDs (ds_type ds) (ds_items ds ++ [d])).
Proof.
  intros T H. unfold add_delegation. rewrite T, dtype_eqb_refl. simpl.
  apply has_id_false in H. rewrite H. reflexivity.
Qed.

Lemma add_ok_inv ds d ds' : add_delegation ds d = Ok ds' ->
  d_type d = ds_type ds /\ ~ In (d_id d) (map d_id (ds_items ds)) /\ ds' = mkDs (ds_type ds) (ds_items ds ++ [d]).
Proof.
  unfold add_delegation. destruct (dtype_eqb (d_type d) (ds_type ds)) eqn:E; simpl; [|discriminate].
  destruct (has_id (d_id d) (ds_items ds)) eqn:H; [discriminate|]. intro R. injection R as <-.
  apply dtype_eqb_eq in E. apply has_id_false in H. tauto.
Qed.

(* invariant of the container under any sequence of add attempts: ids unique, all of the container's type *)
Definition ds_inv (ds : delegations) : Prop :=
  NoDup (map d_id (ds_items ds)) /\ Forall (fun d => d_type d = ds_type ds) (ds_items ds).

Definition add_try (ds : delegations) (d : deleg) : delegations :=
  match add_delegation ds d with Ok ds' => ds' | Err _ => ds end.

Lemma add_try_inv ds d : ds_inv ds -> ds_inv (add_try ds d).
Proof.
  intros [ND TY]. unfold add_try. destruct (add_delegation ds d) as [ds'|e] eqn:E; [|split; assumption].
  apply add_ok_inv in E as (T & NI & ->). split; cbn [ds_items ds_type].
  - rewrite map_app. simpl. apply NoDup_snoc; assumption.
  - apply Forall_app. split; [exact TY|constructor; [exact T|constructor]].
Qed.

Lemma container_invariant ty ops : ds_inv (fold_left add_try ops (mkDs ty [])).
Proof.
  assert (G : forall ds, ds_inv ds -> ds_inv (fold_left add_try ops ds)).
  { induction ops as [|d r IH]; intros ds H; simpl; [exact H|]. apply IH. apply add_try_inv. exact H. }
  apply G. split; constructor.
Qed.

(* one add_delegations call with several arguments *)
Lemma batch_accepts args : forall ds, Forall (fun d => d_type d = ds_type ds) args ->
  NoDup (map d_id (ds_items ds ++ args)) ->
  add_delegations ds args = (mkDs (ds_type ds) (ds_items ds ++ args), None).
Proof.
  induction args as [|d r IH]; intros ds T ND.
  - rewrite app_nil_r. destruct ds. reflexivity.
  - apply Forall_cons_iff in T as [Td Tr]. cbn [add_delegations].
    assert (NI : ~ In (d_id d) (map d_id (ds_items ds))).
    { rewrite map_app in ND. apply NoDup_remove_2 in ND. intro H. apply ND. apply in_or_app. left. exact H. }
    rewrite (add_accepts ds d Td NI). rewrite IH; cbn [ds_type ds_items].
    + rewrite <- app_assoc. reflexivity.
    + exact Tr.
    + rewrite <- app_assoc. exact ND.
Qed.

Lemma batch_rejects_duplicate args : forall ds, Forall (fun d => d_type d = ds_type ds) args ->
  NoDup (map d_id (ds_items ds)) -> ~ NoDup (map d_id (ds_items ds ++ args)) ->
  snd (add_delegations ds args) = Some EDelegation.
Proof.
  induction args as [|d r IH]; intros ds T ND NN.
  - exfalso. apply NN. rewrite app_nil_r. exact ND.
  - apply Forall_cons_iff in T as [Td Tr]. cbn [add_delegations].
    destruct (in_dec str_dec (d_id d) (map d_id (ds_items ds))) as [HI|NI].
    + rewrite (rejects_duplicate ds d Td HI). reflexivity.
    + rewrite (add_accepts ds d Td NI). apply IH; cbn [ds_type ds_items].
      * exact Tr.
      * rewrite map_app. simpl. apply NoDup_snoc; assumption.
      * rewrite <- app_assoc. exact NN.
Qed.

(* invariant of a Delegation under any sequence of set_details attempts: a reference never carries
   details, details are always of the delegation's type, and the pool name is the one the constructor leaves
   (none on a single-pool delegation, never the reserved name on a definition) *)
Definition d_inv (d : deleg) : Prop :=
  (d_fmt d = FRef -> d_details d = None) /\ (forall x, d_details d = Some x -> det_kind x = d_type d) /\
  ctor_shape d = true.

Definition set_try (d : deleg) (x : det) : deleg :=
  match set_details d x with Ok d' => d' | Err _ => d end.

Lemma new_deleg_inv ty id fmt pool d0 : new_deleg ty id fmt pool = Ok d0 ->
  d_inv d0 /\ d_type d0 = ty /\ d_id d0 = id /\ d_fmt d0 = fmt /\ d_details d0 = None.
Proof.
  unfold new_deleg. destruct fmt, pool as [p|]; try discriminate.
  - destruct (str_eqb p single_pool_name) eqn:E; [discriminate|]. intro H. injection H as <-.
    unfold d_inv, ctor_shape, str_neqb. cbn. rewrite E. repeat split; congruence.
  - intro H. injection H as <-. unfold d_inv, ctor_shape. cbn. repeat split; congruence.
  - intro H. injection H as <-. unfold d_inv, ctor_shape. cbn. repeat split; congruence.
  - intro H. injection H as <-. unfold d_inv, ctor_shape. cbn. repeat split; congruence.
Qed.

Lemma set_try_inv d x : d_inv d -> d_inv (set_try d x).
Proof.
  intros I. unfold set_try. destruct (set_details d x) as [d'|e] eqn:E; [|exact I].
  destruct I as (I1 & I2 & I3).
  unfold set_details in E. destruct (d_fmt d) eqn:F; try discriminate;
    (destruct (dtype_eqb (det_kind x) (d_type d)) eqn:K; [|discriminate]; injection E as <-;
     apply dtype_eqb_eq in K; unfold d_inv, ctor_shape in *; cbn [d_fmt d_details d_type d_pool]; rewrite F in *;
     repeat split; [congruence|intros y Hy; congruence|exact I3]).
Qed.

Lemma delegation_invariant ty id fmt pool d0 xs : new_deleg ty id fmt pool = Ok d0 ->
  d_inv (fold_left set_try xs d0).
Proof.
  intro N. apply new_deleg_inv in N as [I0 _].
  revert d0 I0. induction xs as [|x r IH]; intros d I; simpl; [exact I|].
  apply IH. apply set_try_inv. exact I.
Qed.

(* ---------------------------------------------------------------------------------------------- *)
(* delegations: encode, decode                                                                      *)
(* ---------------------------------------------------------------------------------------------- *)
Lemma other_none_with_details ty p dd :
  (match ty with TCap => j_labs (with_details ty p dd) | TLab => j_caps (with_details ty p dd) end) = None /\
  (match ty with TCap => j_caps (with_details ty p dd) | TLab => j_labs (with_details ty p dd) end) = Some dd /\
  j_pool_id (with_details ty p dd) = Some p.
Proof. destruct ty; repeat split. Qed.

Lemma entry_roundtrip ty d : deleg_ok lc ty d = true ->
  exists j, entry_to_json ty d = Ok j /\ entry_of_json lc ty (d_id d) j = Ok d.
Proof.
  destruct d as [dt id fmt pool det]. unfold deleg_ok. cbn [d_type d_id d_fmt d_pool d_details].
  intro H. apply andb_true_iff in H as [T H]. apply dtype_eqb_eq in T. subst dt.
  destruct fmt, pool as [p|], det as [x|]; try discriminate.
  - (* definition *)
    repeat (apply andb_true_iff in H as [H ?]).
    rename H into NP, H2 into K, H1 into OK, H0 into NE.
    apply dtype_eqb_eq in K. unfold str_neqb in NP. apply negb_true_iff in NP.
    unfold det_nonempty in NE. destruct (det_to_dict x) as [dd|] eqn:ED; [|discriminate].
    pose proof (details_roundtrip x dd OK ED) as RT. rewrite K in RT.
    exists (with_details ty p dd). unfold entry_to_json, details_as_dict. cbn [d_fmt d_pool d_details]. rewrite ED.
    split; [reflexivity|].
    destruct (other_none_with_details ty p dd) as (A & B & C).
    unfold entry_of_json. rewrite C, A, B, NP, RT. cbn [bind new_deleg]. rewrite NP. cbn [bind].
    unfold set_details; cbn [d_fmt d_type]; rewrite K, dtype_eqb_refl; reflexivity.
  - (* reference *)
    exists (mkJ None (Some p) None None). split; reflexivity.
  - (* single *)
    repeat (apply andb_true_iff in H as [H ?]).
    rename H into K, H1 into OK, H0 into NE.
    apply dtype_eqb_eq in K.
    unfold det_nonempty in NE. destruct (det_to_dict x) as [dd|] eqn:ED; [|discriminate].
    pose proof (details_roundtrip x dd OK ED) as RT. rewrite K in RT.
    exists (with_details ty single_pool_name dd). unfold entry_to_json, details_as_dict. cbn [d_fmt d_pool d_details]. rewrite ED.
    split; [reflexivity|].
    destruct (other_none_with_details ty single_pool_name dd) as (A & B & C).
    unfold entry_of_json. rewrite C, A, B, str_eqb_refl, RT. cbn [bind new_deleg].
    unfold set_details; cbn [d_fmt d_type]; rewrite K, dtype_eqb_refl; reflexivity.
Qed.

Lemma items_roundtrip ty items : forall acc,
  forallb (deleg_ok lc ty) items = true -> NoDup (map d_id (acc ++ items)) ->
  exists doc, to_json_items ty items = Ok doc /\ map fst doc = map d_id items /\
              from_json_items lc ty doc (mkDs ty acc) = Ok (mkDs ty (acc ++ items)).
Proof.
  induction items as [|d r IH]; intros acc OK ND.
  - exists []. rewrite app_nil_r. repeat split.
  - simpl in OK. apply andb_true_iff in OK as [Od Or].
    destruct (entry_roundtrip ty d Od) as (j & EJ & DJ).
    assert (ND' : NoDup (map d_id ((acc ++ [d]) ++ r))) by (rewrite <- app_assoc; exact ND).
    destruct (IH (acc ++ [d]) Or ND') as (doc & TJ & KS & FJ).
    exists ((d_id d, j) :: doc). cbn [to_json_items]. rewrite EJ. cbn [bind]. rewrite TJ. cbn [bind].
    split; [reflexivity|]. split; [simpl; f_equal; exact KS|].
    cbn [from_json_items]. rewrite DJ. cbn [bind].
    assert (T : d_type d = ty).
    { unfold deleg_ok in Od. apply andb_true_iff in Od as [T _]. apply dtype_eqb_eq in T. exact T. }
    assert (NI : ~ In (d_id d) (map d_id acc)).
    { rewrite map_app in ND. apply NoDup_remove_2 in ND. intro H. apply ND. apply in_or_app. left. exact H. }
    rewrite (add_accepts (mkDs ty acc) d T NI). cbn [bind ds_type ds_items].
    rewrite FJ. rewrite <- app_assoc. reflexivity.
Qed.

(* encode then decode is the identity on well-formed Delegations (same ids in the same order, formats,
   pool names, details) *)
Lemma delegations_roundtrip ds : ds_wf lc ds = true ->
  exists doc, to_json ds = Ok doc /\ map fst doc = map d_id (ds_items ds) /\
              from_json lc (ds_type ds) doc = Ok ds.
Proof.
  destruct ds as [ty items]. unfold ds_wf, to_json, from_json. cbn [ds_type ds_items].
  intro H. apply andb_true_iff in H as [OK ND]. apply str_nodup_NoDup in ND.
  exact (items_roundtrip ty items [] OK ND).
Qed.

(* ---------------------------------------------------------------------------------------------- *)
(* what from_json accepts                                                                           *)
(* ---------------------------------------------------------------------------------------------- *)
Lemma entry_no_pool_key ty id j : j_pool_id j = None -> j_pool j = None ->
  entry_of_json lc ty id j = Err EDelegation.
Proof. intros A B. unfold entry_of_json. rewrite A, B. reflexivity. Qed.

(* details on a reference: rejected, whatever they are *)
Lemma entry_details_on_ref ty id j : j_pool_id j = None -> (j_caps j <> None \/ j_labs j <> None) ->
  entry_of_json lc ty id j = Err EDelegation.
Proof.
  intros A B. unfold entry_of_json. rewrite A. destruct (j_pool j); [|reflexivity].
  destruct (j_caps j), (j_labs j); try reflexivity. destruct B as [B|B]; contradiction.
Qed.

(* content of the other type next to a pool_id: rejected, whatever else the entry holds *)
Lemma entry_mixed ty id j p : j_pool_id j = Some p ->
  (match ty with TCap => j_labs j | TLab => j_caps j end) <> None ->
  entry_of_json lc ty id j = Err EDelegation.
Proof.
  intros A B. unfold entry_of_json. rewrite A.
  destruct (match ty with TCap => j_labs j | TLab => j_caps j end); [reflexivity|contradiction].
Qed.

Lemma entry_missing_details ty id j p : j_pool_id j = Some p ->
  (match ty with TCap => j_labs j | TLab => j_caps j end) = None ->
  (match ty with TCap => j_caps j | TLab => j_labs j end) = None ->
  entry_of_json lc ty id j = Err EKey.
Proof. intros A O B. unfold entry_of_json. rewrite A, O, B. reflexivity. Qed.

Lemma entry_bad_details ty id j p dd e : j_pool_id j = Some p ->
  (match ty with TCap => j_labs j | TLab => j_caps j end) = None ->
  (match ty with TCap => j_caps j | TLab => j_labs j end) = Some dd ->
  first_error lc ty dd = Some e ->
  entry_of_json lc ty id j = Err e.
Proof. intros A O B C. unfold entry_of_json, obj_of_dict. rewrite A, O, B, C. reflexivity. Qed.

(* an entry the decoder accepts has one of the three shapes of the format *)
Lemma entry_accepted_clean ty id j d : entry_of_json lc ty id j = Ok d -> entry_clean ty j = true.
Proof.
  unfold entry_of_json, entry_clean. destruct (j_pool_id j) as [pid|].
  - destruct ty; destruct (j_caps j), (j_labs j); try discriminate; reflexivity.
  - destruct (j_pool j); [|discriminate]. destruct (j_caps j), (j_labs j); try discriminate. reflexivity.
Qed.

Lemma from_items_entries ty doc : forall ds ds', from_json_items lc ty doc ds = Ok ds' ->
  forall k j, In (k, j) doc -> exists d, entry_of_json lc ty k j = Ok d.
Proof.
  induction doc as [|[k0 j0] r IH]; intros ds ds' H k j HI; [contradiction|].
  cbn [from_json_items] in H.
  destruct (entry_of_json lc ty k0 j0) as [d|e] eqn:E; [|discriminate]. cbn [bind] in H.
  destruct (add_delegation ds d) as [ds1|e] eqn:A; [|discriminate]. cbn [bind] in H.
  destruct HI as [HI|HI].
  - injection HI as <- <-. exists d. exact E.
  - eapply IH; eassumption.
Qed.

(* an accepted document: every entry is individually acceptable *)
Lemma from_json_entries ty doc ds : from_json lc ty doc = Ok ds ->
  forall k j, In (k, j) doc -> exists d, entry_of_json lc ty k j = Ok d.
Proof. unfold from_json. apply from_items_entries. Qed.

Lemma entry_of_json_inv ty id j d : entry_of_json lc ty id j = Ok d ->
  d_type d = ty /\ d_id d = id /\ d_inv d.
Proof.
  unfold entry_of_json. destruct (j_pool_id j) as [pid|].
  - destruct (match ty with TCap => j_labs j | TLab => j_caps j end); [discriminate|].
    destruct (match ty with TCap => j_caps j | TLab => j_labs j end) as [dd|]; [|discriminate].
    destruct (obj_of_dict lc ty dd) as [x|e] eqn:O; [|discriminate]. cbn [bind].
    destruct (new_deleg ty id (if str_eqb pid single_pool_name then FSingle else FDef)
                        (if str_eqb pid single_pool_name then None else Some pid)) as [d0|e] eqn:N; [|discriminate].
    cbn [bind]. intro SD.
    apply new_deleg_inv in N as (I0 & T0 & ID0 & _ & _).
    pose proof (set_try_inv d0 x I0) as I1. unfold set_try in I1. rewrite SD in I1.
    unfold set_details in SD. destruct (d_fmt d0); try discriminate;
      (destruct (dtype_eqb (det_kind x) (d_type d0)); [|discriminate]; injection SD as <-; cbn; tauto).
  - destruct (j_pool j) as [p|]; [|discriminate]. destruct (j_caps j), (j_labs j); try discriminate.
    intro N. apply new_deleg_inv in N as (I0 & T0 & ID0 & _ & _). tauto.
Qed.

Lemma from_items_inv ty doc : forall ds ds', from_json_items lc ty doc ds = Ok ds' ->
  ds_type ds = ty -> ds_inv ds -> Forall d_inv (ds_items ds) ->
  ds_type ds' = ty /\ ds_inv ds' /\ Forall d_inv (ds_items ds') /\
  map d_id (ds_items ds') = map d_id (ds_items ds) ++ map fst doc.
Proof.
  induction doc as [|[k0 j0] r IH]; intros ds ds' H T I DI.
  - cbn in H. injection H as <-. rewrite app_nil_r. tauto.
  - cbn [from_json_items] in H.
    destruct (entry_of_json lc ty k0 j0) as [d|e] eqn:E; [|discriminate]. cbn [bind] in H.
    destruct (add_delegation ds d) as [ds1|e] eqn:A; [|discriminate]. cbn [bind] in H.
    apply entry_of_json_inv in E as (Td & Id & Dd).
    assert (I1 : ds_inv ds1).
    { pose proof (add_try_inv ds d I) as X. unfold add_try in X. rewrite A in X. exact X. }
    apply add_ok_inv in A as (_ & _ & ->).
    destruct (IH _ _ H T I1) as (T' & I' & D' & M).
    { cbn [ds_items]. apply Forall_app. split; [exact DI|constructor; [exact Dd|constructor]]. }
    repeat split; try assumption; try apply I'.
    rewrite M. cbn [ds_items]. rewrite map_app. simpl. rewrite <- app_assoc. simpl. rewrite Id. reflexivity.
Qed.

(* whatever from_json accepts satisfies the API invariants: the ids are those of the document in order,
   all distinct, every delegation is of the requested type, no reference carries details *)
Lemma from_json_inv ty doc ds : from_json lc ty doc = Ok ds ->
  ds_type ds = ty /\ ds_inv ds /\ Forall d_inv (ds_items ds) /\ map d_id (ds_items ds) = map fst doc.
Proof.
  unfold from_json. intro H. apply from_items_inv in H; try reflexivity.
  - exact H.
  - split; constructor.
  - constructor.
Qed.

(* every entry of an accepted document has one of the three shapes: mixed content and details on a reference
   are ALWAYS rejected *)
Lemma from_json_clean ty doc ds : from_json lc ty doc = Ok ds ->
  forall k j, In (k, j) doc -> entry_clean ty j = true.
Proof.
  intros H k j HI. destruct (from_json_entries ty doc ds H k j HI) as [d E].
  eapply entry_accepted_clean. exact E.
Qed.

Lemma from_json_rejects_unclean ty doc : (exists k j, In (k, j) doc /\ entry_clean ty j = false) ->
  exists e, from_json lc ty doc = Err e.
Proof.
  intros (k & j & HI & HC). destruct (from_json lc ty doc) as [ds|e] eqn:E; [|exists e; reflexivity].
  rewrite (from_json_clean ty doc ds E k j HI) in HC. discriminate.
Qed.

(* the constructor only builds acceptable objects *)
Lemma first_error_In ty d : first_error lc ty d = None -> forall kv, In kv d -> check_item lc ty kv = None.
Proof.
  induction d as [|a r IH]; intros H kv HI; [contradiction|]. cbn [first_error] in H.
  destruct (check_item lc ty a) eqn:C; [discriminate|]. destruct HI as [<-|HI]; [exact C|apply IH; assumption].
Qed.

Lemma lookup_In {A} k (l : list (str * A)) v : lookup k l = Some v -> In (k, v) l.
Proof.
  induction l as [|[k' v'] r IH]; simpl; [discriminate|].
  destruct (str_eqb k' k) eqn:E.
  - apply str_eqb_eq in E. subst. intro H. injection H as <-. left. reflexivity.
  - intro H. right. apply IH. exact H.
Qed.

Lemma vals_ok_map ty d fs : first_error lc ty d = None ->
  vals_ok lc ty fs (map (fun f => match lookup f d with Some v => Some v | None => default_of ty end) fs) = true.
Proof.
  intro FE. induction fs as [|f r IH]; [reflexivity|]. cbn [map vals_ok]. rewrite IH, andb_true_r.
  destruct (lookup f d) as [v|] eqn:L.
  - apply lookup_In in L. pose proof (first_error_In ty d FE _ L) as C. unfold check_item in C. cbn [fst snd] in C.
    destruct ty; cbn [val_ok].
    + destruct v as [z| |]; try discriminate. destruct (z <? 0)%Z eqn:Hz; [discriminate|].
      apply Z.leb_le. apply Z.ltb_ge in Hz. exact Hz.
    + destruct v as [z| |]; try discriminate;
        (destruct (is_field TLab f); [rewrite C; reflexivity|discriminate]).
  - destruct ty; reflexivity.
Qed.

Lemma constructor_builds_ok ty dd x : obj_of_dict lc ty dd = Ok x -> det_ok lc x = true.
Proof.
  unfold obj_of_dict. destruct (first_error lc ty dd) eqn:FE; [discriminate|]. intro H. injection H as <-.
  unfold det_ok. cbn [det_kind det_vals]. apply vals_ok_map. exact FE.
Qed.

(* full strength: whatever the API built (invariants d_inv / ds_inv, proved above for every call sequence),
   with details objects the constructor built: if to_json encodes it, from_json gives it back *)
Lemma encoded_deleg_ok ty d j : d_type d = ty -> d_inv d ->
  (forall x, d_details d = Some x -> det_ok lc x = true) ->
  entry_to_json ty d = Ok j -> deleg_ok lc ty d = true.
Proof.
  intros T (I1 & I2 & I3) DO E. unfold deleg_ok. rewrite T, dtype_eqb_refl. cbn [andb].
  unfold ctor_shape in I3. unfold entry_to_json, details_as_dict in E.
  destruct (d_fmt d) eqn:F, (d_pool d) as [p|] eqn:PL; try discriminate.
  - destruct (d_details d) as [x|] eqn:D; [|discriminate].
    destruct (det_to_dict x) eqn:DD; [|discriminate].
    rewrite I3, (I2 x eq_refl), T, dtype_eqb_refl, (DO x eq_refl). unfold det_nonempty. rewrite DD. reflexivity.
  - rewrite (I1 eq_refl). reflexivity.
  - destruct (d_details d) as [x|] eqn:D; [|discriminate].
    destruct (det_to_dict x) eqn:DD; [|discriminate].
    rewrite (I2 x eq_refl), T, dtype_eqb_refl, (DO x eq_refl). unfold det_nonempty. rewrite DD. reflexivity.
Qed.

Lemma to_json_items_inv ty items doc : to_json_items ty items = Ok doc ->
  forall d, In d items -> exists j, entry_to_json ty d = Ok j.
Proof.
  revert doc. induction items as [|a r IH]; intros doc H d HI; [contradiction|]. cbn [to_json_items] in H.
  destruct (entry_to_json ty a) as [j|] eqn:E; [|discriminate]. cbn [bind] in H.
  destruct (to_json_items ty r) as [doc'|] eqn:R; [|discriminate].
  destruct HI as [<-|HI]; [exists j; exact E|eapply IH; [reflexivity|exact HI]].
Qed.

Lemma api_roundtrip ds doc : ds_inv ds -> Forall d_inv (ds_items ds) ->
  Forall (fun d => forall x, d_details d = Some x -> det_ok lc x = true) (ds_items ds) ->
  to_json ds = Ok doc ->
  map fst doc = map d_id (ds_items ds) /\ from_json lc (ds_type ds) doc = Ok ds.
Proof.
  intros [ND TY] DI DO TJ.
  assert (W : ds_wf lc ds = true).
  { unfold ds_wf. apply andb_true_iff. split; [|apply str_nodup_NoDup; exact ND].
    apply forallb_forall. intros d Hd. unfold to_json in TJ.
    destruct (to_json_items_inv _ _ _ TJ d Hd) as [j E].
    rewrite Forall_forall in TY, DI, DO.
    eapply encoded_deleg_ok; [apply TY; exact Hd|apply DI; exact Hd|apply DO; exact Hd|exact E]. }
  destruct (delegations_roundtrip ds W) as (doc' & TJ' & KS & FJ). rewrite TJ in TJ'. injection TJ' as <-.
  split; assumption.
Qed.

End WithValidators.

(* ---------------------------------------------------------------------------------------------- *)
(* the validator used by the non-vacuity Examples: accepts everything                              *)
(* ---------------------------------------------------------------------------------------------- *)
Definition accept_all : str -> dval -> option exn := fun _ _ => None.

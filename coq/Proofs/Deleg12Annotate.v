(* C12 proofs, part 4: pools + single-pool delegations -> node properties (annotate) -> read back. *)
From Coq Require Import List ZArith NArith Bool Lia Permutation String.
From FIM Require Import Base.Str Gen.DelegGen Model.Deleg12 Model.Pools12
     Proofs.Deleg12Enc Proofs.Deleg12Pools Proofs.Deleg12Regroup.
Import ListNotations.

(* ---------------------------------------------------------------------------------------------- *)
(* every entry generate creates holds at least one delegation                                       *)
(* ---------------------------------------------------------------------------------------------- *)
Definition nonempty_entries (g : gmap) : Prop := Forall (fun nd => ds_items (snd nd) <> []) g.

Lemma replace_at_nonempty n ds g : ds_items ds <> [] -> nonempty_entries g -> nonempty_entries (replace_at n ds g).
Proof.
  intros N. induction g as [|[k x] r IH]; intro F; simpl; [constructor|].
  apply Forall_cons_iff in F as [Fh Ft]. destruct (str_eqb k n); constructor.
  - exact N.
  - exact Ft.
  - exact Fh.
  - apply IH. exact Ft.
Qed.

Lemma gen_add_nonempty ty g n d g' : nonempty_entries g -> gen_add ty g n d = Ok g' -> nonempty_entries g'.
Proof.
  intros NE. unfold gen_add. destruct (lookup n g) as [ds|].
  - destruct (add_delegation ds d) as [ds'|] eqn:A; [|discriminate]. cbn [bind]. intro H. injection H as <-.
    apply add_ok_inv in A as (_ & _ & ->). apply replace_at_nonempty; [|exact NE].
    cbn. intro H. apply app_eq_nil in H as [_ H]. discriminate.
  - destruct (add_delegation (mkDs ty []) d) as [ds'|] eqn:A; [|discriminate]. cbn [bind]. intro H. injection H as <-.
    apply add_ok_inv in A as (_ & _ & ->). apply Forall_app. split; [exact NE|].
    constructor; [cbn; discriminate|constructor].
Qed.

Lemma gen_events_nonempty ty E : forall g g', nonempty_entries g -> gen_events ty g E = Ok g' -> nonempty_entries g'.
Proof.
  induction E as [|[n d] r IH]; intros g g' NE H; simpl in H.
  - injection H as <-. exact NE.
  - destruct (gen_add ty g n d) as [g1|] eqn:A; [|discriminate]. cbn [bind] in H.
    eapply IH; [|exact H]. eapply gen_add_nonempty; eassumption.
Qed.

(* ---------------------------------------------------------------------------------------------- *)
(* merge, encode, read                                                                              *)
(* ---------------------------------------------------------------------------------------------- *)
Lemma merge_singles_ok dels : forall g, NoDup (map fst dels) ->
  (forall n, In n (map fst dels) -> ~ In n (map fst g)) -> merge_singles g dels = Ok (g ++ dels).
Proof.
  induction dels as [|[n ds] r IH]; intros g ND DJ; simpl.
  - rewrite app_nil_r. reflexivity.
  - simpl in ND. apply NoDup_cons_iff in ND as [NI ND].
    assert (L : lookup n g = None) by (apply lookup_None; apply DJ; left; reflexivity).
    rewrite L. rewrite IH; [rewrite <- app_assoc; reflexivity|exact ND|].
    intros m Hm. rewrite map_app, in_app_iff. simpl. intros [H|[H|[]]].
    + apply (DJ m); [right; exact Hm|exact H].
    + subst. contradiction.
Qed.

Lemma lookup_app_r {A} n (g1 g2 : list (str * A)) : ~ In n (map fst g1) -> lookup n (g1 ++ g2) = lookup n g2.
Proof.
  induction g1 as [|[k v] r IH]; intro NI; [reflexivity|]. simpl in *.
  destruct (str_eqb k n) eqn:E; [apply str_eqb_eq in E; tauto|]. apply IH. tauto.
Qed.

Lemma lookup_In_nodup {A} n (v : A) g : NoDup (map fst g) -> In (n, v) g -> lookup n g = Some v.
Proof.
  induction g as [|[k w] r IH]; intros ND HI; [contradiction|]. simpl in *.
  apply NoDup_cons_iff in ND as [NI ND]. destruct HI as [H|H].
  - injection H as -> ->. rewrite str_eqb_refl. reflexivity.
  - destruct (str_eqb k n) eqn:E.
    + apply str_eqb_eq in E. subst. exfalso. apply NI. apply in_map_iff. exists (n, v). split; [reflexivity|exact H].
    + apply IH; assumption.
Qed.

Section WithValidators.
Variable lc : str -> dval -> option exn.

Lemma encode_read ty g : Forall (fun nd => ds_type (snd nd) = ty /\ ds_wf lc (snd nd) = true) g ->
  exists pr, encode_all g = Ok pr /\ read_all lc ty pr = Ok g.
Proof.
  induction g as [|[n ds] r IH]; intro F.
  - exists []. split; reflexivity.
  - apply Forall_cons_iff in F as [[T W] Fr]. simpl in T, W.
    destruct (delegations_roundtrip lc ds W) as (doc & EJ & _ & DJ).
    destruct (IH Fr) as (pr & E & R).
    exists ((n, doc) :: pr). cbn [encode_all read_all]. rewrite EJ. cbn [bind]. rewrite E. cbn [bind].
    split; [reflexivity|]. rewrite <- T, DJ. cbn [bind]. rewrite T, R. reflexivity.
Qed.

Lemma inc_events_singles ty es : forall l, Forall (fun e => d_fmt (snd e) = FSingle) es -> inc_events ty l es = Ok l.
Proof.
  induction es as [|[n d] r IH]; intros l F; [reflexivity|].
  apply Forall_cons_iff in F as [Fh Ft]. simpl in Fh. cbn [inc_events]. unfold inc_one. rewrite Fh. cbn [bind].
  apply IH. exact Ft.
Qed.

(* ---------------------------------------------------------------------------------------------- *)
(* the generated per-node delegations are encodable                                                 *)
(* ---------------------------------------------------------------------------------------------- *)
Lemma pool_evs_deleg_ok ty p : pool_ok ty p = true ->
  match p_details p with Some x => det_ok lc x && det_nonempty x | None => false end = true ->
  Forall (fun e => deleg_ok lc ty (snd e) = true) (pool_evs ty p).
Proof.
  intros OK EN. destruct (pool_ok_inv ty p OK) as (did & on & x & T & Hd & Ho & Hx & K & _ & _ & _ & NR).
  rewrite Hx in EN. apply andb_true_iff in EN as [DO DN].
  unfold pool_evs. rewrite Hd, Ho, Hx. constructor.
  - cbn [snd]. unfold deleg_ok, str_neqb. cbn. rewrite dtype_eqb_refl, NR, K, dtype_eqb_refl, DO, DN. reflexivity.
  - apply Forall_forall. intros e He. apply in_map_iff in He as (n & <- & _). cbn [snd]. unfold deleg_ok. cbn.
    rewrite dtype_eqb_refl. reflexivity.
Qed.

Lemma NoDup_app_l {A} (a b : list A) : NoDup (a ++ b) -> NoDup a.
Proof.
  induction a as [|x r IH]; simpl; intro H; [constructor|].
  apply NoDup_cons_iff in H as [NI ND]. constructor; [|apply IH; exact ND].
  intro HI. apply NI. apply in_or_app. left. exact HI.
Qed.

Lemma NoDup_app_r {A} (a b : list A) : NoDup (a ++ b) -> NoDup b.
Proof.
  induction a as [|x r IH]; simpl; intro H; [exact H|].
  apply NoDup_cons_iff in H as [_ ND]. apply IH. exact ND.
Qed.

Lemma NoDup_flat_segment {A B} (f : A -> list B) l x : NoDup (flat_map f l) -> In x l -> NoDup (f x).
Proof.
  induction l as [|y r IH]; intros ND HI; [contradiction|]. simpl in ND.
  destruct HI as [->|HI].
  - eapply NoDup_app_l. exact ND.
  - apply IH; [|exact HI]. eapply NoDup_app_r. exact ND.
Qed.

Lemma map_flat_map {A B C} (h : B -> C) (f : A -> list B) l : map h (flat_map f l) = flat_map (fun a => map h (f a)) l.
Proof. induction l as [|a r IH]; simpl; [reflexivity|]. rewrite map_app, IH. reflexivity. Qed.

End WithValidators.

Section Annotate.
Variable lc : str -> dval -> option exn.
Variable ty : dtype.
Variable P : list pool.
Variable dels : gmap.
Hypothesis WF : pools_wf ty P = true.
Hypothesis EN : pools_encodable lc P = true.
Hypothesis SO : singles_ok lc ty P dels = true.

Lemma wf_parts : forallb (pool_ok ty) P = true /\ NoDup (map p_id P) /\ no_conflict P = true.
Proof.
  unfold pools_wf in WF. apply andb_true_iff in WF as [H NC]. apply andb_true_iff in H as [OK ID].
  apply str_nodup_NoDup in ID. tauto.
Qed.

Lemma expected_deleg_ok : Forall (fun e => deleg_ok lc ty (snd e) = true) (expected_events ty P).
Proof.
  destruct wf_parts as (OK & _ & _). unfold expected_events, pools_encodable in *.
  rewrite forallb_forall in OK, EN. clear WF SO.
  induction P as [|p r IH]; [constructor|]. simpl. apply Forall_app. split.
  - apply pool_evs_deleg_ok; [apply OK|apply EN]; left; reflexivity.
  - apply IH; intros q Hq; [apply EN|apply OK]; right; exact Hq.
Qed.

Lemma expected_nodes e : In e (expected_events ty P) -> In (fst e) (pool_nodes P).
Proof.
  unfold expected_events, pool_nodes. intro H. apply in_flat_map in H as (p & Hp & He).
  apply in_flat_map. exists p. split; [exact Hp|].
  unfold pool_evs in He. destruct (p_deleg p) as [did|]; [|contradiction]. destruct (p_on p) as [on|]; [|contradiction].
  destruct He as [<-|He]; [left; reflexivity|]. right. apply in_map_iff in He as (n & <- & Hn). exact Hn.
Qed.

Lemma annotate_readback_ok :
  exists g P', annotate_readback lc ty dels P = Ok (g, P') /\ pools_equiv P' P /\
               Permutation (flatten_g g) (expected_events ty P ++ flatten_g dels) /\
               forall n ds, In (n, ds) dels -> lookup n g = Some ds.
Proof.
  destruct wf_parts as (OK & IDS & NC).
  destruct (build_index_ok P (all_valid ty P OK)) as (idx & B & _).
  destruct (generate_ok ty P OK idx B NC) as (G & GE & [NDG TYG] & PE).
  (* every entry of G is non-empty, so its nodes are pool nodes *)
  assert (NEG : nonempty_entries G).
  { destruct (generate_flat ty P OK idx B) as (_ & _ & GF). rewrite GF in GE.
    eapply gen_events_nonempty; [|exact GE]. constructor. }
  assert (NG : forall n, In n (map fst G) -> In n (pool_nodes P)).
  { intros n Hn. apply in_map_iff in Hn as ([n' ds] & <- & Hin). cbn [fst].
    unfold nonempty_entries in NEG. rewrite Forall_forall in NEG. specialize (NEG _ Hin). cbn [snd] in NEG.
    destruct (ds_items ds) as [|d r] eqn:Ed; [contradiction|].
    assert (HF : In (n', d) (flatten_g G)).
    { unfold flatten_g. apply in_flat_map. exists (n', ds). split; [exact Hin|]. cbn [fst snd]. rewrite Ed. left. reflexivity. }
    apply (expected_nodes (n', d)). eapply Permutation_in; [exact PE|exact HF]. }
  (* the singles *)
  unfold singles_ok in SO. apply andb_true_iff in SO as [NDD SD]. apply str_nodup_NoDup in NDD.
  rewrite forallb_forall in SD.
  assert (DJ : forall n, In n (map fst dels) -> ~ In n (map fst G)).
  { intros n Hn HG. apply in_map_iff in Hn as ([n' ds] & <- & Hin). specialize (SD _ Hin).
    repeat (apply andb_true_iff in SD as [SD ?]). apply negb_true_iff in SD. apply str_mem_false in SD.
    apply SD. apply NG. exact HG. }
  assert (MG : merge_singles G dels = Ok (G ++ dels)) by (apply merge_singles_ok; assumption).
  (* everything is encodable and reads back *)
  assert (KEY : NoDup (map ev_key (flatten_g G))).
  { eapply Permutation_NoDup; [apply Permutation_map; apply Permutation_sym; exact PE|].
    rewrite expected_keys. apply pair_nodup_NoDup. exact NC. }
  assert (WG : Forall (fun nd => ds_type (snd nd) = ty /\ ds_wf lc (snd nd) = true) (G ++ dels)).
  { apply Forall_app. split.
    - apply Forall_forall. intros [n ds] Hin. cbn [snd]. rewrite Forall_forall in TYG.
      pose proof (TYG _ Hin) as T. cbn [snd] in T. split; [exact T|].
      unfold ds_wf. rewrite T. apply andb_true_iff. split.
      + apply forallb_forall. intros d Hd.
        assert (HF : In (n, d) (flatten_g G)).
        { unfold flatten_g. apply in_flat_map. exists (n, ds). split; [exact Hin|]. cbn [fst snd]. apply in_map. exact Hd. }
        pose proof expected_deleg_ok as ED. rewrite Forall_forall in ED.
        apply (ED (n, d)). eapply Permutation_in; [exact PE|exact HF].
      + apply str_nodup_NoDup.
        unfold flatten_g in KEY. rewrite map_flat_map in KEY.
        pose proof (NoDup_flat_segment _ _ (n, ds) KEY Hin) as S1. cbn [fst snd] in S1.
        rewrite map_map in S1. unfold ev_key in S1. cbn [fst snd] in S1.
        rewrite <- (map_map d_id (pair n)) in S1. eapply NoDup_map_inv. exact S1.
    - apply Forall_forall. intros [n ds] Hin. specialize (SD _ Hin). cbn [fst snd] in *.
      repeat (apply andb_true_iff in SD as [SD ?]). split; [apply dtype_eqb_eq; assumption|assumption]. }
  destruct (encode_read lc ty (G ++ dels) WG) as (pr & EA & RA).
  (* incorporate: the pools' part rebuilds P, the singles are ignored *)
  assert (TYA : Forall (fun nd => ds_type (snd nd) = ty) (G ++ dels)).
  { eapply Forall_impl; [|exact WG]. intros a [H _]. exact H. }
  assert (SG : Forall (fun e => d_fmt (snd e) = FSingle) (flatten_g dels)).
  { apply Forall_forall. intros [n d] He. unfold flatten_g in He. apply in_flat_map in He as ([n' ds] & Hin & Hd).
    cbn [fst snd] in Hd. apply in_map_iff in Hd as (d' & Heq & Hd'). injection Heq as -> ->.
    specialize (SD _ Hin). repeat (apply andb_true_iff in SD as [SD ?]).
    unfold single_only in H. cbn [snd] in H. rewrite forallb_forall in H. specialize (H _ Hd').
    cbn [snd]. destruct (d_fmt d); try discriminate. reflexivity. }
  destruct (incorporate_expected ty P OK IDS (flatten_g G) PE) as (P' & IE & EQ).
  assert (IA : incorporate_all ty (G ++ dels) [] = Ok P').
  { rewrite (incorporate_all_flat ty _ [] TYA), flatten_app, inc_events_app, IE. cbn [bind].
    apply inc_events_singles. exact SG. }
  exists (G ++ dels), P'. split.
  - unfold annotate_readback, annotate. rewrite B. cbn [bind]. rewrite GE. cbn [bind]. rewrite MG. cbn [bind].
    rewrite EA. cbn [bind]. rewrite RA. cbn [bind]. rewrite IA. reflexivity.
  - split; [exact EQ|]. split.
    + rewrite flatten_app. apply Permutation_app_tail. exact PE.
    + intros n ds Hin. rewrite lookup_app_r.
      * apply lookup_In_nodup; assumption.
      * apply DJ. apply in_map_iff. exists (n, ds). split; [reflexivity|exact Hin].
Qed.

End Annotate.

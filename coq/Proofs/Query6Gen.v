(* C06: the regenerated facts about the helper queries (Gen/Query6Gen.v, translator/gen_query6.py) agree with
   what Model/Query6.v transcribes: which relation/class constants the helpers pass to the two-hop query,
   which classes get_all_node_or_component_connection_points accepts, the result shapes, and that
   _drop_edges_not_of_type iterates over a snapshot of the edge list (fix eb346ad). *)
From Coq Require Import List NArith String Bool.
From FIM Require Import Gen.Query6Gen Model.Query6.
Import ListNotations.
Open Scope N_scope.

Definition helpers_agree : Prop :=
  Query6Gen.gen_ok = true /\
  gen_peer_args = (v_connects std_vocab, v_Link std_vocab, v_connects std_vocab, v_ConnectionPoint std_vocab) /\
  gen_peer_none_when_empty = true /\
  gen_nodecps_args = (v_has std_vocab, v_NetworkService std_vocab, v_connects std_vocab, v_ConnectionPoint std_vocab) /\
  gen_nodecps_classes = [v_NetworkNode std_vocab; v_Component std_vocab; v_CompositeNode std_vocab] /\
  gen_parent_requires_exactly_one = true /\
  gen_drop_iterates_snapshot = true.

Lemma helpers_translated : helpers_agree.
Proof. unfold helpers_agree. repeat split; reflexivity. Qed.

(* JSON values, a printer equal to Python's json.dumps with default arguments, and a fuelled parser
   modelling json.loads (CPython 3.12 C scanner), over Python strings = lists of code points (Base/Str.v).
   Definitions only; the round-trip proofs are in Base/JsonRT.v.

   Conventions
   - JInt z        : Python int (bool is separate: JBool)
   - JFloat tok    : a Python float, represented by the TEXT json.dumps prints for it (float.__repr__,
                     or NaN / Infinity / -Infinity).  The model never does float arithmetic; the printer
                     prints the token verbatim and the parser returns the literal it consumed.  That
                     float(repr(f)) == f is CPython's guarantee (trusted, exercised by the harness).
   - JObj m        : dict, insertion ordered association list; the parser implements dict semantics
                     for duplicate keys (position of the first occurrence, value of the last).
   - jprint        : json.dumps(v)            separators ", " and ": ", ensure_ascii=True
   - jprint (jsort v) : json.dumps(v, sort_keys=True)   (keys sorted at every nesting level)
   - jparse        : json.loads(text); None = JSONDecodeError.  Strict mode (control characters inside
                     strings rejected), the number grammar  minus? (0 | nonzero digit, digits) (dot digits)? ([eE] sign? digits)?
                     with CPython's back-off, NaN/Infinity/-Infinity accepted, leading/trailing
                     whitespace skipped, anything else after the value rejected (Extra data).
   Not modelled: the recursion limit, int_max_str_digits, non-str dict keys / skipkeys, float literals
   that are not in repr form (the parser returns the literal token, Python the nearest double). *)
From Coq Require Import List NArith ZArith Bool.
From FIM Require Import Base.Str.
Import ListNotations.
Open Scope N_scope.

Inductive json :=
| JNull
| JBool (b : bool)
| JInt (z : Z)
| JFloat (tok : str)
| JStr (s : str)
| JArr (l : list json)
| JObj (m : list (str * json)).

Fixpoint json_eqb (a b : json) : bool :=
  match a, b with
  | JNull, JNull => true
  | JBool x, JBool y => Bool.eqb x y
  | JInt x, JInt y => Z.eqb x y
  | JFloat x, JFloat y => str_eqb x y
  | JStr x, JStr y => str_eqb x y
  | JArr x, JArr y =>
      (fix go (x y : list json) : bool :=
         match x, y with
         | [], [] => true
         | u :: x', v :: y' => json_eqb u v && go x' y'
         | _, _ => false
         end) x y
  | JObj x, JObj y =>
      (fix go (x y : list (str * json)) : bool :=
         match x, y with
         | [], [] => true
         | (k, u) :: x', (k', v) :: y' => str_eqb k k' && json_eqb u v && go x' y'
         | _, _ => false
         end) x y
  | _, _ => false
  end.

(* ---------------------------------------------------------------- printer *)

Definition hexdigit (n : N) : N := if n <? 10 then 48 + n else 87 + n.      (* lower case, as %04x *)
Definition hex4 (n : N) : str :=
  [hexdigit ((n / 4096) mod 16); hexdigit ((n / 256) mod 16); hexdigit ((n / 16) mod 16); hexdigit (n mod 16)].
Definition uesc (n : N) : str := 92 :: 117 :: hex4 n.

(* json.encoder.ESCAPE_ASCII: backslash, double quote and everything outside space..tilde are escaped,
   with the ESCAPE_DCT short forms, \uXXXX otherwise, a surrogate pair above the BMP *)
Definition esc_char (c : N) : str :=
  if c =? 34 then [92; 34]
  else if c =? 92 then [92; 92]
  else if c =? 10 then [92; 110]
  else if c =? 13 then [92; 114]
  else if c =? 9 then [92; 116]
  else if c =? 8 then [92; 98]
  else if c =? 12 then [92; 102]
  else if (c <? 32) || (126 <? c) then
    if c <? 65536 then uesc c
    else uesc (55296 + (c - 65536) / 1024) ++ uesc (56320 + (c - 65536) mod 1024)
  else [c].

Definition esc_body (s : str) : str := flat_map esc_char s.
Definition print_str (s : str) : str := 34 :: esc_body s ++ [34].

Definition sep_comma : str := [44; 32].     (* ", " *)
Definition sep_colon : str := [58; 32].     (* ": " *)

Fixpoint jprint (v : json) : str :=
  match v with
  | JNull => [110; 117; 108; 108]
  | JBool true => [116; 114; 117; 101]
  | JBool false => [102; 97; 108; 115; 101]
  | JInt z => str_of_Z z
  | JFloat t => t
  | JStr s => print_str s
  | JArr l => 91 :: join sep_comma (map jprint l) ++ [93]
  | JObj m => 123 :: join sep_comma (map (fun kv => print_str (fst kv) ++ sep_colon ++ jprint (snd kv)) m) ++ [125]
  end.

(* sort_keys=True : every dict, at every level, is emitted in sorted key order *)
Fixpoint jsort (v : json) : json :=
  match v with
  | JArr l => JArr (map jsort l)
  | JObj m => JObj (sort_kv (map (fun kv => (fst kv, jsort (snd kv))) m))
  | _ => v
  end.

Definition jdumps (sort_keys : bool) (v : json) : str := jprint (if sort_keys then jsort v else v).

(* ---------------------------------------------------------------- parser *)

Definition is_ws (c : N) : bool := (c =? 32) || (c =? 9) || (c =? 10) || (c =? 13).
Definition is_digit (c : N) : bool := (48 <=? c) && (c <=? 57).

Fixpoint skip_ws (s : str) : str :=
  match s with
  | c :: r => if is_ws c then skip_ws r else s
  | [] => []
  end.

Fixpoint span (p : N -> bool) (s : str) : str * str :=
  match s with
  | c :: r => if p c then let '(a, b) := span p r in (c :: a, b) else ([], s)
  | [] => ([], [])
  end.

Fixpoint starts_with (p s : str) : option str :=     (* Some rest *)
  match p, s with
  | [], _ => Some s
  | x :: p', y :: s' => if x =? y then starts_with p' s' else None
  | _ :: _, [] => None
  end.

Definition hexval (c : N) : option N :=
  if (48 <=? c) && (c <=? 57) then Some (c - 48)
  else if (97 <=? c) && (c <=? 102) then Some (c - 87)
  else if (65 <=? c) && (c <=? 70) then Some (c - 55)
  else None.

Definition hex4val (a b c d : N) : option N :=
  match hexval a, hexval b, hexval c, hexval d with
  | Some x, Some y, Some z, Some w => Some (x * 4096 + y * 256 + z * 16 + w)
  | _, _, _, _ => None
  end.

Definition is_high (u : N) : bool := (55296 <=? u) && (u <=? 56319).
Definition is_low (u : N) : bool := (56320 <=? u) && (u <=? 57343).

Definition opt_cons (c : N) (o : option (str * str)) : option (str * str) :=
  match o with Some (t, r) => Some (c :: t, r) | None => None end.

(* one step inside a string literal: the closing quote, one (possibly escaped) character, or an error *)
Inductive pstep_res := PEnd (rest : str) | PChar (c : N) (rest : str) | PFail.

Definition pstep (s : str) : pstep_res :=
  match s with
  | [] => PFail
  | c :: r =>
    if c =? 34 then PEnd r
    else if c =? 92 then
      match r with
      | [] => PFail
      | e :: r2 =>
        if e =? 117 then
          match r2 with
          | a :: b :: c' :: d :: r3 =>
            match hex4val a b c' d with
            | None => PFail
            | Some u =>
              if is_high u then
                (* a following \uXXXX low surrogate is combined; anything else leaves u alone *)
                match r3 with
                | b1 :: u1 :: a2 :: b2 :: c2 :: d2 :: r5 =>
                  if (b1 =? 92) && (u1 =? 117) then
                    match hex4val a2 b2 c2 d2 with
                    | None => PFail
                    | Some u2 =>
                      if is_low u2 then PChar (65536 + (u - 55296) * 1024 + (u2 - 56320)) r5
                      else PChar u r3
                    end
                  else PChar u r3
                | _ => PChar u r3
                end
              else PChar u r3
            end
          | _ => PFail
          end
        else if e =? 34 then PChar 34 r2
        else if e =? 92 then PChar 92 r2
        else if e =? 47 then PChar 47 r2
        else if e =? 98 then PChar 8 r2
        else if e =? 102 then PChar 12 r2
        else if e =? 110 then PChar 10 r2
        else if e =? 114 then PChar 13 r2
        else if e =? 116 then PChar 9 r2
        else PFail
      end
    else if c <? 32 then PFail
    else PChar c r
  end.

(* the body of a string literal, after the opening quote: Some (content, text after the closing quote).
   One unit of fuel per decoded character; pstr supplies more than the text can use. *)
Fixpoint pstr_f (f : nat) (s : str) : option (str * str) :=
  match f with
  | O => None
  | Datatypes.S f' =>
    match pstep s with
    | PEnd r => Some ([], r)
    | PChar c r => opt_cons c (pstr_f f' r)
    | PFail => None
    end
  end.

Definition pstr (s : str) : option (str * str) := pstr_f (Datatypes.S (length s)) s.

(* numbers: three scanners, each returns (consumed, rest) *)
Definition scan_int (s : str) : option (str * str) :=
  let body (sg : str) (s1 : str) :=
      match s1 with
      | c :: r =>
        if c =? 48 then Some (sg ++ [48], r)
        else if is_digit c then let '(ds, r') := span is_digit r in Some (sg ++ c :: ds, r')
        else None
      | [] => None
      end in
  match s with
  | c :: r => if c =? 45 then body [45] r else body [] s
  | [] => None
  end.

Definition scan_frac (s : str) : str * str :=
  match s with
  | c :: r =>
    if c =? 46 then
      match span is_digit r with
      | ([], _) => ([], s)
      | (ds, r') => (46 :: ds, r')
      end
    else ([], s)
  | [] => ([], [])
  end.

Definition scan_exp (s : str) : str * str :=
  match s with
  | e :: r =>
    if (e =? 101) || (e =? 69) then
      let '(sg, r1) := match r with
                       | c :: r' => if (c =? 43) || (c =? 45) then ([c], r') else ([], r)
                       | [] => ([], [])
                       end in
      match span is_digit r1 with
      | ([], _) => ([], s)
      | (ds, r2) => (e :: sg ++ ds, r2)
      end
    else ([], s)
  | [] => ([], [])
  end.

Definition pnum (s : str) : option (json * str) :=
  match scan_int s with
  | None => None
  | Some (ip, r1) =>
    let '(fp, r2) := scan_frac r1 in
    let '(ep, r3) := scan_exp r2 in
    match fp, ep with
    | [], [] => match Z_of_str ip with Some z => Some (JInt z, r3) | None => None end
    | _, _ => Some (JFloat (ip ++ fp ++ ep), r3)
    end
  end.

Definition lit_null : str := [110; 117; 108; 108].
Definition lit_true : str := [116; 114; 117; 101].
Definition lit_false : str := [102; 97; 108; 115; 101].
Definition lit_nan : str := [78; 97; 78].
Definition lit_inf : str := [73; 110; 102; 105; 110; 105; 116; 121].
Definition lit_ninf : str := 45 :: lit_inf.

Definition plit (l : str) (v : json) (s : str) : option (json * str) :=
  match starts_with l s with Some r => Some (v, r) | None => None end.

(* dict semantics for repeated keys *)
Fixpoint aset {V} (k : str) (v : V) (m : list (str * V)) : list (str * V) :=
  match m with
  | [] => [(k, v)]
  | (k', v') :: r => if str_eqb k k' then (k, v) :: r else (k', v') :: aset k v r
  end.
Definition pairs_to_dict {V} (l : list (str * V)) : list (str * V) :=
  fold_left (fun d kv => aset (fst kv) (snd kv) d) l [].

(* scan_once: no whitespace skipped before the value (the callers do that, as in CPython) *)
Fixpoint pval (f : nat) (s : str) : option (json * str) :=
  match f with
  | O => None
  | Datatypes.S f' =>
    match s with
    | [] => None
    | c :: r =>
      if c =? 34 then match pstr r with Some (t, r') => Some (JStr t, r') | None => None end
      else if c =? 91 then
        match skip_ws r with
        | [] => None
        | c2 :: r2 => if c2 =? 93 then Some (JArr [], r2)
                      else match pelems f' (c2 :: r2) with Some (l, r') => Some (JArr l, r') | None => None end
        end
      else if c =? 123 then
        match skip_ws r with
        | [] => None
        | c2 :: r2 => if c2 =? 125 then Some (JObj [], r2)
                      else match pmembers f' (c2 :: r2) with
                           | Some (m, r') => Some (JObj (pairs_to_dict m), r')
                           | None => None end
        end
      else if c =? 110 then plit lit_null JNull s
      else if c =? 116 then plit lit_true (JBool true) s
      else if c =? 102 then plit lit_false (JBool false) s
      else if c =? 78 then plit lit_nan (JFloat lit_nan) s
      else if c =? 73 then plit lit_inf (JFloat lit_inf) s
      else if c =? 45 then
        match starts_with lit_ninf s with
        | Some r' => Some (JFloat lit_ninf, r')
        | None => pnum s
        end
      else pnum s
    end
  end
with pelems (f : nat) (s : str) : option (list json * str) :=
  match f with
  | O => None
  | Datatypes.S f' =>
    match pval f' s with
    | None => None
    | Some (v, r) =>
      match skip_ws r with
      | [] => None
      | c :: r2 =>
        if c =? 44 then match pelems f' (skip_ws r2) with Some (l, r') => Some (v :: l, r') | None => None end
        else if c =? 93 then Some ([v], r2)
        else None
      end
    end
  end
with pmembers (f : nat) (s : str) : option (list (str * json) * str) :=
  match f with
  | O => None
  | Datatypes.S f' =>
    match s with
    | [] => None
    | q :: r0 =>
      if q =? 34 then
        match pstr r0 with
        | None => None
        | Some (k, r1) =>
          match skip_ws r1 with
          | [] => None
          | c1 :: r2 =>
            if c1 =? 58 then
              match pval f' (skip_ws r2) with
              | None => None
              | Some (v, r3) =>
                match skip_ws r3 with
                | [] => None
                | c3 :: r4 =>
                  if c3 =? 44 then match pmembers f' (skip_ws r4) with
                                   | Some (m, r') => Some ((k, v) :: m, r') | None => None end
                  else if c3 =? 125 then Some ([(k, v)], r4)
                  else None
                end
              end
            else None
          end
        end
      else None
    end
  end.

Definition jparse (s : str) : option json :=
  match pval (Datatypes.S (length s)) (skip_ws s) with
  | Some (v, r) => match skip_ws r with [] => Some v | _ :: _ => None end
  | None => None
  end.

(* ---------------------------------------------------------------- well-formed values
   the domain on which jparse (jprint v) = Some v  (Base/JsonRT.v) *)

Definition scalar_ok (c : N) : bool := (c <? 1114112) && negb ((55296 <=? c) && (c <=? 57343)).
Definition str_ok (s : str) : bool := forallb scalar_ok s.          (* no lone surrogates *)

Definition float_tok_ok (t : str) : bool :=
  str_eqb t lit_nan || str_eqb t lit_inf || str_eqb t lit_ninf ||
  match pnum t with Some (JFloat _, []) => true | _ => false end.

Fixpoint nodup_keys (l : list str) : bool :=
  match l with
  | [] => true
  | k :: r => negb (existsb (str_eqb k) r) && nodup_keys r
  end.

Fixpoint jwfb (v : json) : bool :=
  match v with
  | JNull | JBool _ | JInt _ => true
  | JFloat t => float_tok_ok t
  | JStr s => str_ok s
  | JArr l => forallb jwfb l
  | JObj m => forallb (fun kv => str_ok (fst kv) && jwfb (snd kv)) m && nodup_keys (map fst m)
  end.

(* fuel needed by pval *)
Fixpoint jsize (v : json) : nat :=
  match v with
  | JArr l => Datatypes.S (fold_right (fun x n => Datatypes.S (jsize x) + n)%nat O l)
  | JObj m => Datatypes.S (fold_right (fun kv n => Datatypes.S (jsize (snd kv)) + n)%nat O m)
  | _ => 1%nat
  end.

(* association-list helpers shared by the codec models *)
Fixpoint aget {V} (k : str) (m : list (str * V)) : option V :=
  match m with
  | [] => None
  | (k', v) :: r => if str_eqb k k' then Some v else aget k r
  end.
Definition ahas {V} (k : str) (m : list (str * V)) : bool :=
  match aget k m with Some _ => true | None => false end.

(* C10: record types of the two constraint tables (fim/slivers/network_service.py
   ServiceConstraintRecord, fim/slivers/network_node.py NodeConstraintRecord) shared by the
   regenerated tables (Gen/Constraints.v), the hand-pinned copy (Model/C10Pinned.v) and the model. *)
From Coq Require Import List ZArith String.
Import ListNotations.

Record svc_rec := mk_svc {
  sc_layer : string;
  sc_min_interfaces : Z;
  sc_num_interfaces : Z;
  sc_num_sites : Z;
  sc_num_instances : Z;
  sc_required : list string;
  sc_forbidden : list string;
  sc_itypes : list string }.

Record node_rec := mk_node {
  nc_required : list string;
  nc_forbidden : list string }.

(* everything the translator reads, as one value, so that "generated = pinned" is one equation *)
Record tables := mk_tables {
  t_no_limit : Z;                               (* NetworkServiceSliver.NO_LIMIT *)
  t_service_types : list string;                (* members of ServiceType, declaration order *)
  t_node_types : list string;                   (* members of NodeType *)
  t_interface_types : list string;              (* members of InterfaceType *)
  t_services : list (string * svc_rec);         (* ServiceConstraints, in dict order *)
  t_nodes : list (string * node_rec);           (* NodeConstraints, in dict order *)
  t_guardrails : list (string * string) }.      (* (service type, interface type) refused by __service_guardrails *)

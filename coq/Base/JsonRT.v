(* Round-trip theorem for Base/Json.v: jparse (jprint v) = Some v for every well-formed value
   (jwfb v = true: strings without surrogate code points, float tokens that the number scanner reads
   back whole, dict keys pairwise distinct).  Also for the sort_keys form. *)
From Coq Require Import List NArith ZArith Bool Lia Permutation.
From Coq Require Import DecimalString DecimalZ DecimalPos DecimalN DecimalFacts Decimal Ascii String.
From FIM Require Import Base.Str Base.Json.
Import ListNotations.
Open Scope N_scope.

Ltac Zify.zify_post_hook ::= Z.to_euclidean_division_equations.

(* ------------------------------------------------------------------ strings *)

Lemma hexval_hexdigit d : d < 16 -> hexval (hexdigit d) = Some d.
Proof.
  intro H. unfold hexdigit, hexval.
  destruct (d <? 10) eqn:E.
  - apply N.ltb_lt in E.
    replace ((48 <=? 48 + d) && (48 + d <=? 57)) with true by (symmetry; apply andb_true_iff; split; apply N.leb_le; lia).
    f_equal; lia.
  - apply N.ltb_ge in E.
    replace ((48 <=? 87 + d) && (87 + d <=? 57)) with false by (symmetry; apply andb_false_iff; right; apply N.leb_gt; lia).
    replace ((97 <=? 87 + d) && (87 + d <=? 102)) with true by (symmetry; apply andb_true_iff; split; apply N.leb_le; lia).
    f_equal; lia.
Qed.

Lemma hex4val_hex4 n : n < 65536 ->
  hex4val (hexdigit ((n / 4096) mod 16)) (hexdigit ((n / 256) mod 16)) (hexdigit ((n / 16) mod 16)) (hexdigit (n mod 16)) = Some n.
Proof.
  intro H. unfold hex4val.
  rewrite !hexval_hexdigit by (apply N.mod_lt; discriminate).
  f_equal. lia.
Qed.

Local Arguments N.div : simpl never.
Local Arguments N.modulo : simpl never.
Local Arguments N.add : simpl never.
Local Arguments N.sub : simpl never.
Local Arguments N.mul : simpl never.
Local Arguments hexdigit : simpl never.
Local Arguments hex4val : simpl never.
Local Arguments is_high : simpl never.
Local Arguments is_low : simpl never.

Lemma pstep_uesc u r : u < 65536 -> is_high u = false -> pstep (uesc u ++ r) = PChar u r.
Proof.
  intros H1 H2. unfold uesc, hex4. simpl.
  rewrite (hex4val_hex4 u H1), H2. reflexivity.
Qed.

Lemma pstep_pair hi lo r : hi < 65536 -> lo < 65536 -> is_high hi = true -> is_low lo = true ->
  pstep (uesc hi ++ uesc lo ++ r) = PChar (65536 + (hi - 55296) * 1024 + (lo - 56320)) r.
Proof.
  intros H1 H2 H3 H4. unfold uesc, hex4. simpl.
  rewrite (hex4val_hex4 hi H1), H3, (hex4val_hex4 lo H2), H4. reflexivity.
Qed.

Lemma pstep_esc c r : scalar_ok c = true -> pstep (esc_char c ++ r) = PChar c r.
Proof.
  intro H. unfold scalar_ok in H. apply andb_true_iff in H as [H1 H2]. apply N.ltb_lt in H1.
  apply negb_true_iff in H2.
  unfold esc_char.
  destruct (c =? 34) eqn:E1. { apply N.eqb_eq in E1; subst; reflexivity. }
  destruct (c =? 92) eqn:E2. { apply N.eqb_eq in E2; subst; reflexivity. }
  destruct (c =? 10) eqn:E3. { apply N.eqb_eq in E3; subst; reflexivity. }
  destruct (c =? 13) eqn:E4. { apply N.eqb_eq in E4; subst; reflexivity. }
  destruct (c =? 9) eqn:E5. { apply N.eqb_eq in E5; subst; reflexivity. }
  destruct (c =? 8) eqn:E6. { apply N.eqb_eq in E6; subst; reflexivity. }
  destruct (c =? 12) eqn:E7. { apply N.eqb_eq in E7; subst; reflexivity. }
  destruct ((c <? 32) || (126 <? c)) eqn:E8.
  - destruct (c <? 65536) eqn:E9.
    + apply N.ltb_lt in E9. apply pstep_uesc; [exact E9|].
      unfold is_high. apply andb_false_iff. apply andb_false_iff in H2. destruct H2 as [H2|H2].
      * left; exact H2.
      * right. apply N.leb_gt in H2. apply N.leb_gt. lia.
    + apply N.ltb_ge in E9.
      rewrite <- app_assoc.
      rewrite pstep_pair.
      * f_equal. lia.
      * lia.
      * assert ((c - 65536) mod 1024 < 1024) by (apply N.mod_lt; discriminate). lia.
      * unfold is_high. apply andb_true_iff; split; apply N.leb_le; lia.
      * unfold is_low. assert ((c - 65536) mod 1024 < 1024) by (apply N.mod_lt; discriminate).
        apply andb_true_iff; split; apply N.leb_le; lia.
  - apply orb_false_iff in E8 as [E8 E9].
    simpl. rewrite E1, E2, E8. reflexivity.
Qed.

Lemma esc_char_len c : (1 <= List.length (esc_char c))%nat.
Proof.
  unfold esc_char.
  repeat match goal with |- context [if ?b then _ else _] => destruct b end; simpl; try lia.
Qed.

Lemma esc_body_len s : (List.length s <= List.length (esc_body s))%nat.
Proof.
  induction s as [|c s IH]; simpl; [lia|].
  rewrite app_length. pose proof (esc_char_len c). lia.
Qed.

Lemma pstr_f_esc s : forall f rest, str_ok s = true -> (List.length s < f)%nat ->
  pstr_f f (esc_body s ++ 34 :: rest) = Some (s, rest).
Proof.
  induction s as [|c s IH]; intros f rest H Hf.
  - destruct f; [lia|]. reflexivity.
  - destruct f; [simpl in Hf; lia|].
    simpl in H. apply andb_true_iff in H as [Hc Hs].
    simpl esc_body. rewrite <- app_assoc.
    cbn [pstr_f]. rewrite (pstep_esc c _ Hc).
    rewrite IH; [reflexivity|exact Hs|simpl in Hf; lia].
Qed.

Lemma pstr_esc s rest : str_ok s = true -> pstr (esc_body s ++ 34 :: rest) = Some (s, rest).
Proof.
  intro H. unfold pstr. apply pstr_f_esc; [exact H|].
  rewrite app_length. pose proof (esc_body_len s). simpl. lia.
Qed.

(* ------------------------------------------------------------------ numbers *)

(* characters that cannot continue a number literal *)
Definition nstop_char (h : N) : bool :=
  negb (is_digit h || (h =? 46) || (h =? 101) || (h =? 69) || (h =? 43) || (h =? 45)).
Definition nstop (rest : str) : bool := match rest with [] => true | h :: _ => nstop_char h end.

Lemma span_app p a rest :
  match rest with [] => True | h :: _ => p h = false end ->
  span p (a ++ rest) = (fst (span p a), snd (span p a) ++ rest).
Proof.
  intro H. induction a as [|x a IH]; simpl.
  - destruct rest as [|h r]; [reflexivity|]. simpl. rewrite H. reflexivity.
  - destruct (p x) eqn:E.
    + rewrite IH. destruct (span p a) as [u v]. reflexivity.
    + reflexivity.
Qed.

Lemma nstop_digit rest : nstop rest = true -> match rest with [] => True | h :: _ => is_digit h = false end.
Proof.
  destruct rest as [|h r]; [trivial|]. simpl. unfold nstop_char. intro H.
  apply negb_true_iff in H. repeat (apply orb_false_iff in H; destruct H as [H ?]). exact H.
Qed.

Lemma nstop_chars h r : nstop (h :: r) = true ->
  is_digit h = false /\ (h =? 46) = false /\ (h =? 101) = false /\ (h =? 69) = false /\ (h =? 43) = false /\ (h =? 45) = false.
Proof.
  simpl. unfold nstop_char. intro H.
  apply negb_true_iff in H. repeat (apply orb_false_iff in H; destruct H as [H ?]). repeat split; assumption.
Qed.

Lemma scan_int_app t rest ip r1 : nstop rest = true -> scan_int t = Some (ip, r1) ->
  scan_int (t ++ rest) = Some (ip, r1 ++ rest).
Proof.
  intros Hs. pose proof (nstop_digit rest Hs) as Hd.
  assert (B : forall sg s1, (match s1 with
      | c :: r => if c =? 48 then Some (sg ++ [48], r)
                  else if is_digit c then let '(ds, r') := span is_digit r in Some (sg ++ c :: ds, r') else None
      | [] => None end) = Some (ip, r1) ->
      (match s1 ++ rest with
      | c :: r => if c =? 48 then Some (sg ++ [48], r)
                  else if is_digit c then let '(ds, r') := span is_digit r in Some (sg ++ c :: ds, r') else None
      | [] => None end) = Some (ip, r1 ++ rest)).
  { intros sg s1. destruct s1 as [|c r]; [discriminate|]. simpl.
    destruct (c =? 48). { intros [= <- <-]. reflexivity. }
    destruct (is_digit c); [|discriminate].
    rewrite (span_app is_digit r rest Hd). destruct (span is_digit r) as [ds r']. simpl.
    intros [= <- <-]. reflexivity. }
  unfold scan_int. destruct t as [|c r]; [discriminate|].
  change ((c :: r) ++ rest) with (c :: (r ++ rest)).
  cbv zeta beta iota. destruct (c =? 45).
  - intro H. exact (B [45] r H).
  - intro H. exact (B [] (c :: r) H).
Qed.

Lemma scan_frac_app t rest : nstop rest = true ->
  scan_frac (t ++ rest) = (fst (scan_frac t), snd (scan_frac t) ++ rest).
Proof.
  intros Hs. pose proof (nstop_digit rest Hs) as Hd.
  destruct t as [|c r]; simpl.
  - destruct rest as [|h r]; [reflexivity|]. apply nstop_chars in Hs. destruct Hs as (_ & H46 & _).
    simpl. rewrite H46. reflexivity.
  - destruct (c =? 46); [|reflexivity].
    rewrite (span_app is_digit r rest Hd). destruct (span is_digit r) as [ds r']. simpl.
    destruct ds; reflexivity.
Qed.

Lemma scan_exp_app t rest : nstop rest = true ->
  scan_exp (t ++ rest) = (fst (scan_exp t), snd (scan_exp t) ++ rest).
Proof.
  intros Hs. pose proof (nstop_digit rest Hs) as Hd.
  destruct t as [|e r]; simpl.
  - destruct rest as [|h r]; [reflexivity|]. apply nstop_chars in Hs. destruct Hs as (_ & _ & H1 & H2 & _).
    simpl. rewrite H1, H2. reflexivity.
  - destruct ((e =? 101) || (e =? 69)); [|reflexivity].
    destruct r as [|c r'].
    + simpl. destruct rest as [|h r2]; [reflexivity|].
      pose proof (nstop_chars _ _ Hs) as (Hdg & _ & _ & _ & H3 & H4).
      rewrite H3, H4. simpl. rewrite Hdg. reflexivity.
    + change ((c :: r') ++ rest) with (c :: (r' ++ rest)). cbv beta iota. destruct ((c =? 43) || (c =? 45)); cbv beta iota zeta.
      * rewrite (span_app is_digit r' rest Hd). destruct (span is_digit r') as [ds r2]. simpl.
        destruct ds; reflexivity.
      * change (c :: r' ++ rest) with ((c :: r') ++ rest).
        rewrite (span_app is_digit (c :: r') rest Hd). destruct (span is_digit (c :: r')) as [ds r2].
        cbn [fst snd]. destruct ds; reflexivity.
Qed.

Lemma pnum_app t v rest : nstop rest = true -> pnum t = Some (v, []) -> pnum (t ++ rest) = Some (v, rest).
Proof.
  intros Hs. unfold pnum.
  destruct (scan_int t) as [[ip r1]|] eqn:E1; [|discriminate].
  rewrite (scan_int_app t rest ip r1 Hs E1).
  rewrite (scan_frac_app r1 rest Hs). destruct (scan_frac r1) as [fp r2]. simpl.
  rewrite (scan_exp_app r2 rest Hs). destruct (scan_exp r2) as [ep r3]. simpl.
  destruct fp, ep; try (intros [= <- ->]; reflexivity).
  destruct (Z_of_str ip); [|discriminate]. intros [= <- ->]. reflexivity.
Qed.

(* the decimal text of an integer: digits, no leading zero, optional minus *)
Fixpoint udigits (u : uint) : str :=
  match u with
  | Nil => []
  | D0 d => 48 :: udigits d | D1 d => 49 :: udigits d | D2 d => 50 :: udigits d | D3 d => 51 :: udigits d
  | D4 d => 52 :: udigits d | D5 d => 53 :: udigits d | D6 d => 54 :: udigits d | D7 d => 55 :: udigits d
  | D8 d => 56 :: udigits d | D9 d => 57 :: udigits d
  end.

Lemma of_string_uint u : of_string (NilEmpty.string_of_uint u) = udigits u.
Proof.
  unfold of_string. induction u; simpl; try rewrite IHu; reflexivity.
Qed.

Lemma udigits_digits u : forallb is_digit (udigits u) = true.
Proof. induction u; simpl; try rewrite IHu; reflexivity. Qed.

Lemma span_all p l : forallb p l = true -> span p l = (l, []).
Proof.
  induction l as [|x l IH]; simpl; [reflexivity|].
  intro H. apply andb_true_iff in H as [H1 H2]. rewrite H1, (IH H2). reflexivity.
Qed.

Lemma to_uint_no_leading_zero p d : Pos.to_uint p <> D0 d.
Proof.
  intro H.
  assert (E : Pos.to_uint p = unorm (Pos.to_uint p)).
  { rewrite <- (DecimalPos.Unsigned.to_of (Pos.to_uint p)), DecimalPos.Unsigned.of_to. reflexivity. }
  unfold unorm in E. destruct (nzhead (Pos.to_uint p)) eqn:N0;
    try (rewrite E in H; rewrite <- N0 in H; exact (nzhead_nonzero _ _ H)).
  apply (DecimalPos.Unsigned.to_uint_nonzero p). exact E.
Qed.

Definition digits_ok (l : str) : Prop :=
  exists c ds, l = c :: ds /\ forallb is_digit (c :: ds) = true /\ (c = 48 -> ds = []).

Lemma pos_digits_ok p : digits_ok (udigits (Pos.to_uint p)).
Proof.
  pose proof (to_uint_no_leading_zero p) as NZ.
  pose proof (DecimalPos.Unsigned.to_uint_nonnil p) as NN.
  pose proof (udigits_digits (Pos.to_uint p)) as DG.
  destruct (Pos.to_uint p) as [|d|d|d|d|d|d|d|d|d|d]; try congruence;
    try (exfalso; exact (NZ d eq_refl));
    (eexists; eexists; split; [reflexivity|split; [exact DG|intro H; discriminate H]]).
Qed.

Lemma str_of_Z_shape z :
  exists sg l, str_of_Z z = sg ++ l /\ (sg = [] \/ sg = [45]) /\ digits_ok l.
Proof.
  unfold str_of_Z. destruct z as [|p|p]; simpl.
  - exists [], [48]. split; [reflexivity|]. split; [left; reflexivity|].
    exists 48, []. repeat split.
  - exists [], (udigits (Pos.to_uint p)). split.
    + unfold NilZero.string_of_uint.
      pose proof (DecimalPos.Unsigned.to_uint_nonnil p) as NN.
      destruct (Pos.to_uint p) eqn:E; try congruence; rewrite <- E; apply of_string_uint.
    + split; [left; reflexivity|apply pos_digits_ok].
  - exists [45], (udigits (Pos.to_uint p)). split.
    + unfold NilZero.string_of_uint.
      pose proof (DecimalPos.Unsigned.to_uint_nonnil p) as NN.
      destruct (Pos.to_uint p) eqn:E; try congruence; rewrite <- E;
        (unfold of_string; simpl; f_equal; apply of_string_uint).
    + split; [right; reflexivity|apply pos_digits_ok].
Qed.

Lemma is_digit_not_minus c : is_digit c = true -> (c =? 45) = false.
Proof.
  unfold is_digit. intro H. apply andb_true_iff in H as [H1 H2]. apply N.leb_le in H1.
  apply N.eqb_neq. lia.
Qed.

Lemma scan_int_digits sg l : (sg = [] \/ sg = [45]) -> digits_ok l -> scan_int (sg ++ l) = Some (sg ++ l, []).
Proof.
  intros Hsg (c & ds & -> & Hd & Hz).
  simpl in Hd. apply andb_true_iff in Hd as [Hc Hds].
  assert (B : (if c =? 48 then Some (sg ++ [48], ds)
               else if is_digit c then let '(x, r') := span is_digit ds in Some (sg ++ c :: x, r') else None)
              = Some (sg ++ c :: ds, [])).
  { destruct (c =? 48) eqn:E.
    - apply N.eqb_eq in E. rewrite (Hz E). subst c. reflexivity.
    - rewrite Hc, (span_all _ _ Hds). reflexivity. }
  unfold scan_int. destruct Hsg as [-> | ->]; simpl.
  - rewrite (is_digit_not_minus c Hc). exact B.
  - exact B.
Qed.

Lemma pnum_int z : pnum (str_of_Z z) = Some (JInt z, []).
Proof.
  destruct (str_of_Z_shape z) as (sg & l & E & Hsg & Hl).
  unfold pnum. rewrite E, (scan_int_digits sg l Hsg Hl). simpl.
  rewrite <- E, Z_of_str_of_Z. reflexivity.
Qed.

Lemma str_of_Z_head z : exists c r, str_of_Z z = c :: r /\ (c = 45 \/ is_digit c = true) /\
  (c = 45 -> exists d r', r = d :: r' /\ is_digit d = true).
Proof.
  destruct (str_of_Z_shape z) as (sg & l & E & Hsg & (c & ds & -> & Hd & Hz)).
  simpl in Hd. apply andb_true_iff in Hd as [Hc Hds].
  destruct Hsg as [-> | ->]; rewrite E; simpl.
  - exists c, ds. split; [reflexivity|]. split; [right; exact Hc|].
    intros ->. discriminate Hc.
  - exists 45, (c :: ds). split; [reflexivity|]. split; [left; reflexivity|].
    intros _. exists c, ds. split; [reflexivity|exact Hc].
Qed.

(* ------------------------------------------------------------------ values *)

Section JsonInd.
  Variable P : json -> Prop.
  Hypothesis Hn : P JNull.
  Hypothesis Hb : forall b, P (JBool b).
  Hypothesis Hi : forall z, P (JInt z).
  Hypothesis Hf : forall t, P (JFloat t).
  Hypothesis Hs : forall s, P (JStr s).
  Hypothesis Ha : forall l, Forall P l -> P (JArr l).
  Hypothesis Ho : forall m, Forall (fun kv => P (snd kv)) m -> P (JObj m).
  Fixpoint json_ind2 (v : json) : P v :=
    match v with
    | JNull => Hn | JBool b => Hb b | JInt z => Hi z | JFloat t => Hf t | JStr s => Hs s
    | JArr l => Ha l ((fix go (l : list json) : Forall P l :=
                         match l with [] => Forall_nil _ | x :: r => Forall_cons _ (json_ind2 x) (go r) end) l)
    | JObj m => Ho m ((fix go (m : list (str * json)) : Forall (fun kv => P (snd kv)) m :=
                         match m with [] => Forall_nil _ | kv :: r => Forall_cons _ (json_ind2 (snd kv)) (go r) end) m)
    end.
End JsonInd.

(* what may follow a value inside the texts the printer produces (and at the end of the text) *)
Definition delim (rest : str) : bool :=
  match rest with [] => true | c :: _ => (c =? 44) || (c =? 93) || (c =? 125) end.

Lemma delim_nstop rest : delim rest = true -> nstop rest = true.
Proof.
  destruct rest as [|c r]; [reflexivity|]. simpl. intro H.
  apply orb_true_iff in H as [H|H]; [apply orb_true_iff in H as [H|H]|]; apply N.eqb_eq in H; subst; reflexivity.
Qed.

Definition numhead (s : str) : Prop :=
  exists c r, s = c :: r /\ (is_digit c = true \/ (c = 45 /\ exists d r', r = d :: r' /\ is_digit d = true)).

Lemma numhead_app s rest : numhead s -> numhead (s ++ rest).
Proof.
  intros (c & r & -> & H). exists c, (r ++ rest). split; [reflexivity|].
  destruct H as [H|(-> & d & r' & -> & H)]; [left; exact H|].
  right. split; [reflexivity|]. exists d, (r' ++ rest). split; [reflexivity|exact H].
Qed.

Lemma digit_range c : is_digit c = true -> 48 <= c <= 57.
Proof. unfold is_digit. intro H. apply andb_true_iff in H as [H1 H2]. apply N.leb_le in H1, H2. lia. Qed.

Lemma pval_numhead s f : numhead s -> pval (Datatypes.S f) s = pnum s.
Proof.
  intros (c & r & -> & H). destruct H as [H|(-> & d & r' & -> & H)].
  - apply digit_range in H.
    assert (E : forall k, (k < 48 \/ 57 < k) -> (c =? k) = false) by (intros k Hk; apply N.eqb_neq; lia).
    cbn [pval]. rewrite !E by lia. reflexivity.
  - apply digit_range in H.
    assert (E : (73 =? d) = false) by (apply N.eqb_neq; lia).
    assert (SW : starts_with lit_ninf (45 :: d :: r') = None).
    { unfold lit_ninf, lit_inf. cbn [starts_with]. change (45 =? 45) with true. cbv iota. rewrite E. reflexivity. }
    cbn [pval].
    change (45 =? 34) with false; change (45 =? 91) with false; change (45 =? 123) with false;
    change (45 =? 110) with false; change (45 =? 116) with false; change (45 =? 102) with false;
    change (45 =? 78) with false; change (45 =? 73) with false; change (45 =? 45) with true.
    cbv iota. rewrite SW. reflexivity.
Qed.

Lemma scan_int_numhead t ip r1 : scan_int t = Some (ip, r1) -> numhead t.
Proof.
  unfold scan_int. destruct t as [|c r]; [discriminate|].
  assert (B : forall sg s1, (match s1 with
      | c :: r => if c =? 48 then Some (sg ++ [48], r)
                  else if is_digit c then let '(ds, r') := span is_digit r in Some (sg ++ c :: ds, r') else None
      | [] => None end) = Some (ip, r1) -> exists d r', s1 = d :: r' /\ is_digit d = true).
  { intros sg s1. destruct s1 as [|d r']; [discriminate|]. intro H. exists d, r'. split; [reflexivity|].
    destruct (d =? 48) eqn:E. { apply N.eqb_eq in E. subst. reflexivity. }
    destruct (is_digit d); [reflexivity|discriminate]. }
  cbv zeta beta. destruct (c =? 45) eqn:E.
  - apply N.eqb_eq in E. subst. intro H. apply B in H. destruct H as (d & r' & -> & Hd).
    exists 45, (d :: r'). split; [reflexivity|]. right. split; [reflexivity|]. exists d, r'. split; [reflexivity|exact Hd].
  - intro H. apply (B [] (c :: r)) in H. destruct H as (d & r' & [= <- <-] & Hd).
    exists c, r. split; [reflexivity|]. left. exact Hd.
Qed.

Lemma span_eq p s : s = fst (span p s) ++ snd (span p s).
Proof.
  induction s as [|c s IH]; simpl; [reflexivity|].
  destruct (p c); [|reflexivity]. destruct (span p s) as [a b]. simpl in *. congruence.
Qed.

Lemma scan_int_eq t ip r1 : scan_int t = Some (ip, r1) -> t = ip ++ r1.
Proof.
  unfold scan_int. destruct t as [|c r]; [discriminate|].
  assert (B : forall sg s1, (match s1 with
      | c :: r => if c =? 48 then Some (sg ++ [48], r)
                  else if is_digit c then let '(ds, r') := span is_digit r in Some (sg ++ c :: ds, r') else None
      | [] => None end) = Some (ip, r1) -> sg ++ s1 = ip ++ r1).
  { intros sg s1. destruct s1 as [|d r']; [discriminate|].
    destruct (d =? 48) eqn:E. { apply N.eqb_eq in E. subst. intros [= <- <-]. rewrite <- app_assoc. reflexivity. }
    destruct (is_digit d); [|discriminate].
    pose proof (span_eq is_digit r') as Q. destruct (span is_digit r') as [ds r2]. simpl in Q.
    intros [= <- <-]. rewrite <- app_assoc. simpl. congruence. }
  cbv zeta beta. destruct (c =? 45) eqn:E.
  - apply N.eqb_eq in E. subst. intro H. apply (B [45] r) in H. exact H.
  - intro H. apply (B [] (c :: r)) in H. exact H.
Qed.

Lemma scan_frac_eq s : s = fst (scan_frac s) ++ snd (scan_frac s).
Proof.
  destruct s as [|c r]; [reflexivity|]. simpl.
  destruct (c =? 46) eqn:E; [|reflexivity]. apply N.eqb_eq in E. subst.
  pose proof (span_eq is_digit r) as Q. destruct (span is_digit r) as [ds r2]. simpl in Q.
  destruct ds; simpl; [reflexivity|]. simpl in Q. congruence.
Qed.

Lemma scan_exp_eq s : s = fst (scan_exp s) ++ snd (scan_exp s).
Proof.
  destruct s as [|e r]; [reflexivity|]. simpl.
  destruct ((e =? 101) || (e =? 69)); [|reflexivity].
  destruct r as [|c r'].
  - reflexivity.
  - destruct ((c =? 43) || (c =? 45)) eqn:E.
    + pose proof (span_eq is_digit r') as Q. destruct (span is_digit r') as [ds r2]. simpl in Q.
      destruct ds; simpl; [reflexivity|]. simpl in Q. congruence.
    + pose proof (span_eq is_digit (c :: r')) as Q. destruct (span is_digit (c :: r')) as [ds r2]. simpl in Q.
      destruct ds; simpl; [reflexivity|]. simpl in Q. congruence.
Qed.

Lemma pnum_float_token t tok r : pnum t = Some (JFloat tok, r) -> t = tok ++ r.
Proof.
  unfold pnum. destruct (scan_int t) as [[ip r1]|] eqn:E1; [|discriminate].
  apply scan_int_eq in E1.
  pose proof (scan_frac_eq r1) as E2. destruct (scan_frac r1) as [fp r2]. simpl in E2.
  pose proof (scan_exp_eq r2) as E3. destruct (scan_exp r2) as [ep r3]. simpl in E3.
  destruct fp, ep; try (intros [= <- <-]; rewrite E1, E2, E3; simpl; rewrite ?List.app_nil_r; repeat (rewrite <- app_assoc; simpl); reflexivity).
  destruct (Z_of_str ip); discriminate.
Qed.

Lemma pnum_numhead t v r : pnum t = Some (v, r) -> numhead t.
Proof.
  unfold pnum. destruct (scan_int t) as [[ip r1]|] eqn:E1; [|discriminate].
  intros _. exact (scan_int_numhead _ _ _ E1).
Qed.

Definition head_ok (s : str) : Prop :=
  exists c r, s = c :: r /\ is_ws c = false /\ (c =? 93) = false /\ (c =? 125) = false.

Lemma head_ok_app s rest : head_ok s -> head_ok (s ++ rest).
Proof. intros (c & r & -> & H). exists c, (r ++ rest). split; [reflexivity|exact H]. Qed.

Lemma skip_ws_head s : head_ok s -> skip_ws s = s.
Proof. intros (c & r & -> & H & _). simpl. rewrite H. reflexivity. Qed.

Lemma numhead_head_ok s : numhead s -> head_ok s.
Proof.
  intros (c & r & -> & H). exists c, r. split; [reflexivity|].
  destruct H as [H|(-> & _)].
  - apply digit_range in H. unfold is_ws.
    repeat split; repeat (apply orb_false_iff; split); apply N.eqb_neq; lia.
  - repeat split; reflexivity.
Qed.

Lemma float_tok_cases t : float_tok_ok t = true ->
  t = lit_nan \/ t = lit_inf \/ t = lit_ninf \/ pnum t = Some (JFloat t, []).
Proof.
  unfold float_tok_ok. intro H.
  apply orb_true_iff in H as [H|H]; [apply orb_true_iff in H as [H|H]; [apply orb_true_iff in H as [H|H]|]|].
  - left. apply str_eqb_eq. exact H.
  - right; left. apply str_eqb_eq. exact H.
  - right; right; left. apply str_eqb_eq. exact H.
  - right; right; right.
    destruct (pnum t) as [[v r]|] eqn:E; [|discriminate].
    destruct v; try discriminate. destruct r; [|discriminate].
    pose proof (pnum_float_token _ _ _ E) as Q. rewrite List.app_nil_r in Q. subst tok. reflexivity.
Qed.

Lemma jhead v : jwfb v = true -> head_ok (jprint v).
Proof.
  destruct v as [|b|z|t|s|l|m]; simpl; intro H.
  - exists 110, [117; 108; 108]. repeat split.
  - destruct b; [exists 116, [114; 117; 101]|exists 102, [97; 108; 115; 101]]; repeat split.
  - apply numhead_head_ok. destruct (str_of_Z_head z) as (c & r & E & Hc & Hm).
    exists c, r. split; [exact E|]. destruct Hc as [-> | Hc]; [right|left; exact Hc].
    split; [reflexivity|]. exact (Hm eq_refl).
  - destruct (float_tok_cases t H) as [-> | [-> | [-> | E]]].
    + exists 78, [97; 78]. repeat split.
    + eexists; eexists; split; [reflexivity|repeat split].
    + eexists; eexists; split; [reflexivity|repeat split].
    + apply numhead_head_ok. exact (pnum_numhead _ _ _ E).
  - eexists; eexists; split; [reflexivity|repeat split].
  - eexists; eexists; split; [reflexivity|repeat split].
  - eexists; eexists; split; [reflexivity|repeat split].
Qed.

Definition RT (v : json) : Prop :=
  jwfb v = true -> forall f rest, (jsize v <= f)%nat -> delim rest = true ->
  pval f (jprint v ++ rest) = Some (v, rest).

Definition esize (l : list json) : nat := fold_right (fun x n => Datatypes.S (jsize x) + n)%nat O l.
Definition msize (m : list (str * json)) : nat := fold_right (fun kv n => Datatypes.S (jsize (snd kv)) + n)%nat O m.

Lemma join_cons sep a r : join sep (a :: r) = a ++ match r with [] => [] | _ => sep ++ join sep r end.
Proof. destruct r; simpl; [rewrite List.app_nil_r|]; reflexivity. Qed.

Lemma join_head_ok sep (l : list str) x r : l = x :: r -> head_ok x -> head_ok (join sep l).
Proof. intros -> H. rewrite join_cons. apply head_ok_app. exact H. Qed.

Lemma pelems_print l : l <> [] -> Forall RT l -> forallb jwfb l = true ->
  forall f rest, (esize l <= f)%nat ->
  pelems f (join sep_comma (map jprint l) ++ 93 :: rest) = Some (l, rest).
Proof.
  induction l as [|x l IH]; [congruence|]. intros _ HF HW f rest Hf.
  inversion HF as [|? ? Hx HF']; subst. simpl in HW. apply andb_true_iff in HW as [Wx Wl].
  simpl in Hf. destruct f as [|f]; [lia|].
  cbn [map]. rewrite join_cons. rewrite <- app_assoc.
  cbn [pelems].
  destruct l as [|y l'].
  - cbn [map]. rewrite List.app_nil_l.
    rewrite (Hx Wx f (93 :: rest)); [|lia|reflexivity].
    reflexivity.
  - assert (Hr : pval f (jprint x ++ (sep_comma ++ join sep_comma (map jprint (y :: l'))) ++ 93 :: rest)
                 = Some (x, (sep_comma ++ join sep_comma (map jprint (y :: l'))) ++ 93 :: rest)).
    { apply (Hx Wx); [lia|reflexivity]. }
    cbn [map] in *. rewrite Hr.
    set (J := join sep_comma (jprint y :: map jprint l')).
    change ((sep_comma ++ J) ++ 93 :: rest) with (44 :: 32 :: (J ++ 93 :: rest)).
    change (skip_ws (44 :: 32 :: (J ++ 93 :: rest))) with (44 :: 32 :: (J ++ 93 :: rest)).
    cbv iota beta. change (44 =? 44) with true. cbv iota.
    change (skip_ws (32 :: (J ++ 93 :: rest))) with (skip_ws (J ++ 93 :: rest)).
    subst J.
    assert (HO : head_ok (join sep_comma (jprint y :: map jprint l') ++ 93 :: rest)).
    { apply head_ok_app. eapply join_head_ok; [reflexivity|]. apply jhead.
      simpl in Wl. apply andb_true_iff in Wl as [Wy _]. exact Wy. }
    rewrite (skip_ws_head _ HO).
    rewrite (IH ltac:(discriminate) HF' Wl f rest); [reflexivity|].
    simpl in *. lia.
Qed.

Definition member_text (kv : str * json) : str := print_str (fst kv) ++ sep_colon ++ jprint (snd kv).

Lemma member_text_eq k v T :
  member_text (k, v) ++ T = 34 :: esc_body k ++ 34 :: 58 :: 32 :: (jprint v ++ T).
Proof.
  unfold member_text, print_str, sep_colon. cbn [fst snd]. simpl.
  rewrite <- !app_assoc. reflexivity.
Qed.

Lemma member_head_ok kv : head_ok (member_text kv).
Proof. unfold member_text, print_str. eexists; eexists; split; [reflexivity|repeat split]. Qed.

Lemma pmembers_print m : m <> [] -> Forall (fun kv => RT (snd kv)) m ->
  forallb (fun kv => str_ok (fst kv) && jwfb (snd kv)) m = true ->
  forall f rest, (msize m <= f)%nat ->
  pmembers f (join sep_comma (map member_text m) ++ 125 :: rest) = Some (m, rest).
Proof.
  induction m as [|[k v] m IH]; [congruence|]. intros _ HF HW f rest Hf.
  inversion HF as [|? ? Hv HF']; subst. cbn [snd] in Hv.
  simpl in HW. apply andb_true_iff in HW as [Wkv Wm]. apply andb_true_iff in Wkv as [Wk Wv].
  simpl in Hf. destruct f as [|f]; [lia|].
  cbn [map]. rewrite join_cons. rewrite <- app_assoc. rewrite member_text_eq.
  cbn [pmembers]. change (34 =? 34) with true. cbv iota.
  rewrite (pstr_esc k _ Wk).
  match goal with |- context [skip_ws (58 :: ?X)] => change (skip_ws (58 :: X)) with (58 :: X) end.
  cbv iota beta. change (58 =? 58) with true. cbv iota.
  match goal with |- context [skip_ws (32 :: ?X)] => change (skip_ws (32 :: X)) with (skip_ws X) end.
  rewrite (skip_ws_head _ (head_ok_app _ _ (jhead v Wv))).
  destruct m as [|y m'].
  - cbn [map]. rewrite List.app_nil_l.
    rewrite (Hv Wv f (125 :: rest)); [|lia|reflexivity].
    reflexivity.
  - cbn [map] in *.
    set (J := join sep_comma (member_text y :: map member_text m')).
    change ((sep_comma ++ J) ++ 125 :: rest) with (44 :: 32 :: (J ++ 125 :: rest)).
    rewrite (Hv Wv f (44 :: 32 :: (J ++ 125 :: rest))); [|lia|reflexivity].
    change (skip_ws (44 :: 32 :: (J ++ 125 :: rest))) with (44 :: 32 :: (J ++ 125 :: rest)).
    cbv iota beta. change (44 =? 44) with true. cbv iota.
    change (skip_ws (32 :: (J ++ 125 :: rest))) with (skip_ws (J ++ 125 :: rest)).
    assert (HO : head_ok (J ++ 125 :: rest)).
    { apply head_ok_app. subst J. eapply join_head_ok; [reflexivity|]. apply member_head_ok. }
    rewrite (skip_ws_head _ HO). subst J.
    rewrite (IH ltac:(discriminate) HF' Wm f rest); [reflexivity|].
    simpl in *. lia.
Qed.

(* dict semantics of the decoder are the identity on pairwise distinct keys *)
Lemma nodup_keys_NoDup l : nodup_keys l = true -> NoDup l.
Proof.
  induction l as [|k l IH]; simpl; intro H; [constructor|].
  apply andb_true_iff in H as [H1 H2]. constructor; [|exact (IH H2)].
  intro Hin. apply negb_true_iff in H1.
  assert (existsb (str_eqb k) l = true); [|congruence].
  apply existsb_exists. exists k. split; [exact Hin|apply str_eqb_refl].
Qed.

Lemma NoDup_nodup_keys l : NoDup l -> nodup_keys l = true.
Proof.
  induction 1 as [|k l Hn Hd IH]; simpl; [reflexivity|].
  rewrite IH, andb_true_r. apply negb_true_iff.
  destruct (existsb (str_eqb k) l) eqn:E; [|reflexivity].
  apply existsb_exists in E as (x & Hx & Ex). apply str_eqb_eq in Ex. subst. contradiction.
Qed.

Lemma aset_fresh {V} k (v : V) m : ~ In k (map fst m) -> aset k v m = m ++ [(k, v)].
Proof.
  induction m as [|[k' v'] m IH]; simpl; intro H; [reflexivity|].
  destruct (str_eqb k k') eqn:E.
  - apply str_eqb_eq in E. subst. exfalso. apply H. left. reflexivity.
  - rewrite IH; [reflexivity|]. intro Hin. apply H. right. exact Hin.
Qed.

Lemma pairs_to_dict_acc {V} (m acc : list (str * V)) : NoDup (map fst acc ++ map fst m) ->
  fold_left (fun d kv => aset (fst kv) (snd kv) d) m acc = acc ++ m.
Proof.
  revert acc. induction m as [|[k v] m IH]; intros acc H; simpl.
  - rewrite List.app_nil_r. reflexivity.
  - simpl in H. rewrite aset_fresh.
    + rewrite IH; [rewrite <- app_assoc; reflexivity|].
      rewrite map_app. simpl. rewrite <- app_assoc. exact H.
    + apply NoDup_remove_2 in H. intro Hin. apply H. apply in_or_app. left. exact Hin.
Qed.

Lemma pairs_to_dict_nodup {V} (m : list (str * V)) : nodup_keys (map fst m) = true -> pairs_to_dict m = m.
Proof.
  intro H. unfold pairs_to_dict. rewrite pairs_to_dict_acc; [reflexivity|].
  simpl. apply nodup_keys_NoDup. exact H.
Qed.

Lemma pval_print_all : forall v, RT v.
Proof.
  apply json_ind2; unfold RT.
  - intros _ f rest Hf Hd. destruct f; [simpl in Hf; lia|]. reflexivity.
  - intros b _ f rest Hf Hd. destruct f; [simpl in Hf; lia|]. destruct b; reflexivity.
  - intros z _ f rest Hf Hd. destruct f; [simpl in Hf; lia|]. cbn [jprint].
    assert (NH : numhead (str_of_Z z)).
    { destruct (str_of_Z_head z) as (c & r & E & Hc & Hm).
      exists c, r. split; [exact E|]. destruct Hc as [-> | Hc]; [right|left; exact Hc].
      split; [reflexivity|]. exact (Hm eq_refl). }
    rewrite (pval_numhead _ f (numhead_app _ rest NH)).
    apply pnum_app; [apply delim_nstop; exact Hd|apply pnum_int].
  - intros t W f rest Hf Hd. destruct f; [simpl in Hf; lia|]. cbn [jprint]. simpl in W.
    destruct (float_tok_cases t W) as [-> | [-> | [-> | E]]]; try reflexivity.
    rewrite (pval_numhead _ f (numhead_app _ rest (pnum_numhead _ _ _ E))).
    apply pnum_app; [apply delim_nstop; exact Hd|exact E].
  - intros s W f rest Hf Hd. destruct f; [simpl in Hf; lia|]. simpl in W.
    cbn [jprint]. unfold print_str. cbn [List.app]. rewrite <- app_assoc. cbn [List.app].
    cbn [pval]. change (34 =? 34) with true. cbv iota.
    rewrite (pstr_esc s rest W). reflexivity.
  - intros l HF W f rest Hf Hd. destruct f; [simpl in Hf; lia|]. simpl in W.
    cbn [jprint]. cbn [List.app]. rewrite <- app_assoc. cbn [List.app].
    cbn [pval]. change (91 =? 34) with false. change (91 =? 91) with true. cbv iota.
    destruct l as [|x l'].
    + reflexivity.
    + assert (HO : head_ok (join sep_comma (map jprint (x :: l')) ++ 93 :: rest)).
      { apply head_ok_app. eapply join_head_ok; [reflexivity|]. apply jhead.
        simpl in W. apply andb_true_iff in W as [Wx _]. exact Wx. }
      rewrite (skip_ws_head _ HO).
      destruct HO as (c2 & r2 & E & _ & N93 & _). rewrite E. rewrite N93. rewrite <- E.
      rewrite (pelems_print (x :: l') ltac:(discriminate) HF W f rest); [reflexivity|].
      simpl in Hf. unfold esize. simpl. lia.
  - intros m HF W f rest Hf Hd. destruct f; [simpl in Hf; lia|]. simpl in W.
    apply andb_true_iff in W as [W ND].
    cbn [jprint]. cbn [List.app]. rewrite <- app_assoc. cbn [List.app].
    cbn [pval]. change (123 =? 34) with false. change (123 =? 91) with false. change (123 =? 123) with true. cbv iota.
    destruct m as [|kv m'].
    + reflexivity.
    + change (map (fun kv0 : str * json => print_str (fst kv0) ++ sep_colon ++ jprint (snd kv0)) (kv :: m'))
        with (map member_text (kv :: m')).
      assert (HO : head_ok (join sep_comma (map member_text (kv :: m')) ++ 125 :: rest)).
      { apply head_ok_app. eapply join_head_ok; [reflexivity|]. apply member_head_ok. }
      rewrite (skip_ws_head _ HO).
      destruct HO as (c2 & r2 & E & _ & _ & N125). rewrite E. rewrite N125. rewrite <- E.
      rewrite (pmembers_print (kv :: m') ltac:(discriminate) HF W f rest).
      * rewrite (pairs_to_dict_nodup _ ND). reflexivity.
      * simpl in Hf. unfold msize. simpl. lia.
Qed.

Theorem pval_print v f rest : jwfb v = true -> (jsize v <= f)%nat -> delim rest = true ->
  pval f (jprint v ++ rest) = Some (v, rest).
Proof. intros W Hf Hd. exact (pval_print_all v W f rest Hf Hd). Qed.

(* ------------------------------------------------------------------ top level *)

Lemma head_ok_len s : head_ok s -> (1 <= List.length s)%nat.
Proof. intros (c & r & -> & _). simpl. lia. Qed.

Lemma esize_le l : Forall (fun x => jsize x <= List.length (jprint x))%nat l ->
  (esize l <= List.length (join sep_comma (map jprint l)) + 1)%nat.
Proof.
  induction 1 as [|x l Hx HF IH]; [simpl; lia|].
  cbn [map]. rewrite join_cons. rewrite app_length. unfold esize in *. cbn [fold_right].
  destruct l as [|y l'].
  - simpl. lia.
  - cbn [map] in *. rewrite app_length. simpl List.length at 2. lia.
Qed.

Lemma msize_le m : Forall (fun kv => jsize (snd kv) <= List.length (jprint (snd kv)))%nat m ->
  (msize m <= List.length (join sep_comma (map member_text m)) + 1)%nat.
Proof.
  induction 1 as [|[k v] m Hx HF IH]; [simpl; lia|].
  cbn [map]. rewrite join_cons. rewrite app_length. unfold msize in *. cbn [fold_right snd] in *.
  assert (L : (List.length (jprint v) + 4 <= List.length (member_text (k, v)))%nat).
  { unfold member_text, print_str, sep_colon. cbn [fst snd]. simpl. rewrite !app_length. simpl. lia. }
  destruct m as [|y m'].
  - cbn [map List.length fold_right]. lia.
  - cbn [map] in *. rewrite app_length. unfold sep_comma at 1. cbn [List.length]. cbn [fold_right] in *. lia.
Qed.

Lemma jsize_le_len : forall v, jwfb v = true -> (jsize v <= List.length (jprint v))%nat.
Proof.
  apply (json_ind2 (fun v => jwfb v = true -> (jsize v <= List.length (jprint v))%nat)).
  - intros _. simpl. lia.
  - intros b _. destruct b; simpl; lia.
  - intros z W. apply (head_ok_len _ (jhead (JInt z) W)).
  - intros t W. apply (head_ok_len _ (jhead (JFloat t) W)).
  - intros s _. simpl. lia.
  - intros l HF W. simpl in W.
    assert (HF' : Forall (fun x => jsize x <= List.length (jprint x))%nat l).
    { apply Forall_forall. intros x Hin. rewrite Forall_forall in HF. apply (HF x Hin).
      rewrite forallb_forall in W. exact (W x Hin). }
    pose proof (esize_le l HF') as Q. cbn [jprint jsize]. fold (esize l).
    simpl List.length. rewrite app_length. simpl. lia.
  - intros m HF W. simpl in W. apply andb_true_iff in W as [W _].
    assert (HF' : Forall (fun kv => jsize (snd kv) <= List.length (jprint (snd kv)))%nat m).
    { apply Forall_forall. intros x Hin. rewrite Forall_forall in HF. apply (HF x Hin).
      rewrite forallb_forall in W. specialize (W x Hin). apply andb_true_iff in W as [_ W]. exact W. }
    pose proof (msize_le m HF') as Q. cbn [jprint jsize]. fold (msize m).
    change (map (fun kv : str * json => print_str (fst kv) ++ sep_colon ++ jprint (snd kv)) m) with (map member_text m).
    simpl List.length. rewrite app_length. simpl. lia.
Qed.

Theorem jparse_jprint v : jwfb v = true -> jparse (jprint v) = Some v.
Proof.
  intro W. unfold jparse.
  rewrite (skip_ws_head _ (jhead v W)).
  pose proof (pval_print v (Datatypes.S (List.length (jprint v))) [] W) as Q.
  rewrite List.app_nil_r in Q. rewrite Q; [reflexivity| |reflexivity].
  pose proof (jsize_le_len v W). lia.
Qed.

(* sort_keys *)
Lemma insert_kv_perm {V} k (v : V) l : Permutation (insert_kv k v l) ((k, v) :: l).
Proof.
  induction l as [|[k' v'] l IH]; simpl; [apply Permutation_refl|].
  destruct (str_ltb k k'); [apply Permutation_refl|].
  eapply Permutation_trans; [apply perm_skip; exact IH|apply perm_swap].
Qed.

Lemma sort_kv_perm {V} (l : list (str * V)) : Permutation (sort_kv l) l.
Proof.
  induction l as [|[k v] l IH]; simpl; [constructor|].
  eapply Permutation_trans; [apply insert_kv_perm|apply perm_skip; exact IH].
Qed.

Lemma forallb_perm {A} (p : A -> bool) l l' : Permutation l l' -> forallb p l' = true -> forallb p l = true.
Proof.
  intros HP H. apply forallb_forall. intros x Hin. rewrite forallb_forall in H. apply H.
  eapply Permutation_in; [exact HP|exact Hin].
Qed.

Lemma jwfb_jsort : forall v, jwfb v = true -> jwfb (jsort v) = true.
Proof.
  apply (json_ind2 (fun v => jwfb v = true -> jwfb (jsort v) = true)); try (intros; assumption).
  - intros l HF W. simpl in *. rewrite forallb_forall in *. intros y Hy.
    apply in_map_iff in Hy as (x & <- & Hx). rewrite Forall_forall in HF. apply (HF x Hx). apply (W x Hx).
  - intros m HF W. simpl in W. apply andb_true_iff in W as [W ND].
    cbn [jsort jwfb]. set (m2 := map (fun kv => (fst kv, jsort (snd kv))) m).
    assert (W2 : forallb (fun kv => str_ok (fst kv) && jwfb (snd kv)) m2 = true).
    { apply forallb_forall. intros y Hy. subst m2. apply in_map_iff in Hy as (x & <- & Hx). cbn [fst snd].
      rewrite forallb_forall in W. specialize (W x Hx). apply andb_true_iff in W as [W1 W3].
      rewrite W1. rewrite Forall_forall in HF. rewrite (HF x Hx W3). reflexivity. }
    assert (K2 : map fst m2 = map fst m).
    { subst m2. rewrite map_map. reflexivity. }
    apply andb_true_iff. split.
    + eapply forallb_perm; [apply sort_kv_perm|exact W2].
    + apply NoDup_nodup_keys. eapply Permutation_NoDup.
      * apply Permutation_sym. apply Permutation_map. apply sort_kv_perm.
      * rewrite K2. apply nodup_keys_NoDup. exact ND.
Qed.

Theorem jparse_jdumps b v : jwfb v = true -> jparse (jdumps b v) = Some (if b then jsort v else v).
Proof.
  intro W. unfold jdumps. destruct b; apply jparse_jprint; [apply jwfb_jsort|]; exact W.
Qed.

(* the printer is a function of the value: equal values have identical text (canonical form), and the
   sorted form does not depend on the insertion order of a flat dict *)
Lemma jsort_idem_scalar v : match v with JArr _ | JObj _ => True | _ => jsort v = v end.
Proof. destruct v; exact I || reflexivity. Qed.

(* ------------------------------------------------------------------ equality test *)
Lemma json_eqb_eq : forall a b, json_eqb a b = true -> a = b.
Proof.
  apply (json_ind2 (fun a => forall b, json_eqb a b = true -> a = b)).
  - intros b H; destruct b; try discriminate; reflexivity.
  - intros x b H; destruct b; try discriminate. simpl in H. apply eqb_prop in H. congruence.
  - intros x b H; destruct b; try discriminate. simpl in H. apply Z.eqb_eq in H. congruence.
  - intros x b H; destruct b; try discriminate. simpl in H. apply str_eqb_eq in H. congruence.
  - intros x b H; destruct b; try discriminate. simpl in H. apply str_eqb_eq in H. congruence.
  - intros l HF b H. destruct b as [| | | | |l2|]; try discriminate. simpl in H. f_equal.
    revert l2 H. induction HF as [|u l Hu HF IH]; intros l2 H; destruct l2 as [|v l2]; try discriminate; [reflexivity|].
    apply andb_true_iff in H as [H1 H2]. f_equal; [apply Hu; exact H1|apply IH; exact H2].
  - intros m HF b H. destruct b as [| | | | | |m2]; try discriminate. simpl in H. f_equal.
    revert m2 H. induction HF as [|[k u] m Hu HF IH]; intros m2 H; destruct m2 as [|[k2 v] m2]; try discriminate; [reflexivity|].
    apply andb_true_iff in H as [H1 H3]. apply andb_true_iff in H1 as [H1 H2].
    apply str_eqb_eq in H1. subst. f_equal; [f_equal; apply Hu; exact H2|apply IH; exact H3].
Qed.

Lemma json_eqb_refl : forall a, json_eqb a a = true.
Proof.
  apply (json_ind2 (fun a => json_eqb a a = true)); simpl; intros.
  - reflexivity.
  - apply eqb_reflx.
  - apply Z.eqb_refl.
  - apply str_eqb_refl.
  - apply str_eqb_refl.
  - induction H as [|u l Hu HF IH]; [reflexivity|]. rewrite Hu, IH. reflexivity.
  - induction H as [|[k u] m Hu HF IH]; [reflexivity|]. simpl in Hu. rewrite str_eqb_refl, Hu, IH. reflexivity.
Qed.

(* Python str = list of Unicode code points (N).  Conversions from Coq string literals (ASCII),
   equality, ordering (code-point lexicographic = Python's str ordering), decimal printing of Z
   (with the stdlib's proven round trip), join, insertion sort on keys. *)
From Coq Require Import List NArith ZArith String Ascii Bool Lia.
From Coq Require Import DecimalString DecimalZ DecimalPos Decimal.
Import ListNotations.

Definition str := list N.

Definition of_string (s : string) : str := map N_of_ascii (list_ascii_of_string s).
Notation "'S' s" := (of_string s%string) (at level 9, only parsing).

Fixpoint str_eqb (a b : str) : bool :=
  match a, b with
  | [], [] => true
  | x :: a', y :: b' => N.eqb x y && str_eqb a' b'
  | _, _ => false
  end.

Lemma str_eqb_eq a b : str_eqb a b = true <-> a = b.
Proof.
  revert b; induction a as [|x a IH]; destruct b as [|y b]; simpl; split; intro H; try congruence; try discriminate.
  - apply andb_true_iff in H as [H1 H2]. apply N.eqb_eq in H1. apply IH in H2. congruence.
  - inversion H; subst. rewrite N.eqb_refl. simpl. apply IH. reflexivity.
Qed.

Lemma str_eqb_refl a : str_eqb a a = true.
Proof. apply str_eqb_eq; reflexivity. Qed.

(* Python's str < : lexicographic on code points, a proper prefix is smaller *)
Fixpoint str_ltb (a b : str) : bool :=
  match a, b with
  | [], [] => false
  | [], _ :: _ => true
  | _ :: _, [] => false
  | x :: a', y :: b' => if N.ltb x y then true else if N.ltb y x then false else str_ltb a' b'
  end.

Definition str_leb (a b : str) : bool := negb (str_ltb b a).

Fixpoint list_eqb {A} (eqb : A -> A -> bool) (a b : list A) : bool :=
  match a, b with
  | [], [] => true
  | x :: a', y :: b' => eqb x y && list_eqb eqb a' b'
  | _, _ => false
  end.

Definition opt_eqb {A} (eqb : A -> A -> bool) (a b : option A) : bool :=
  match a, b with
  | None, None => true
  | Some x, Some y => eqb x y
  | _, _ => false
  end.

Fixpoint join (sep : str) (l : list str) : str :=
  match l with
  | [] => []
  | [x] => x
  | x :: r => x ++ sep ++ join sep r
  end.

(* insertion sort of key/value pairs by key (stable) -- json.dumps(sort_keys=True) *)
Fixpoint insert_kv {V} (k : str) (v : V) (l : list (str * V)) : list (str * V) :=
  match l with
  | [] => [(k, v)]
  | (k', v') :: r => if str_ltb k k' then (k, v) :: l else (k', v') :: insert_kv k v r
  end.

Fixpoint sort_kv {V} (l : list (str * V)) : list (str * V) :=
  match l with
  | [] => []
  | (k, v) :: r => insert_kv k v (sort_kv r)
  end.

(* decimal text of an integer: Python's str(int) / json.dumps(int) *)
Definition str_of_Z (z : Z) : str := of_string (NilZero.string_of_int (Z.to_int z)).

Definition to_ascii_list (s : str) : option (list ascii) :=
  fold_right (fun c acc => match acc with
                           | Some l => if N.ltb c 256 then Some (ascii_of_N c :: l) else None
                           | None => None end) (Some []) s.

Definition Z_of_str (s : str) : option Z :=
  match to_ascii_list s with
  | Some l => match NilZero.int_of_string (string_of_list_ascii l) with
              | Some i => Some (Z.of_int i)
              | None => None
              end
  | None => None
  end.

Lemma to_ascii_list_of_string s : to_ascii_list (of_string s) = Some (list_ascii_of_string s).
Proof.
  unfold of_string. induction (list_ascii_of_string s) as [|a l IH]; simpl; [reflexivity|].
  rewrite IH.
  assert (H : (N_of_ascii a <? 256)%N = true).
  { apply N.ltb_lt. apply N_ascii_bounded. }
  rewrite H, ascii_N_embedding. reflexivity.
Qed.

Theorem Z_of_str_of_Z z : Z_of_str (str_of_Z z) = Some z.
Proof.
  unfold Z_of_str, str_of_Z. rewrite to_ascii_list_of_string, string_of_list_ascii_of_string.
  rewrite NilZero.isi.
  - rewrite DecimalZ.of_to. reflexivity.
  - destruct z as [|p|p]; simpl; try discriminate.
    intro H; inversion H as [H1]. exact (DecimalPos.Unsigned.to_uint_nonnil p H1).
  - destruct z as [|p|p]; simpl; try discriminate.
    intro H; inversion H as [H1]. exact (DecimalPos.Unsigned.to_uint_nonnil p H1).
Qed.

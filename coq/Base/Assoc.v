(* Association lists keyed by N, kept in increasing key order by [aset] (the canonical form of a
   Python dict whose key order is never behaviourally relevant: property dictionaries of nodes
   and links).  [aget] returns the first binding, [aset] replaces the first binding or inserts in
   key order, [aremove] drops the first binding, [aupdate] is dict.update.  The basic get/set
   laws hold for arbitrary (also unsorted) lists, so no well-formedness side condition is needed by
   the users.  Owned by C04/C05 (store model); reusable. *)
From Coq Require Import List NArith Bool Lia.
Import ListNotations.

Section Assoc.
Context {V : Type}.

Definition assoc := list (N * V).

Fixpoint aget (k : N) (l : assoc) : option V :=
  match l with
  | [] => None
  | (k', v) :: r => if N.eqb k k' then Some v else aget k r
  end.

Definition ahas (k : N) (l : assoc) : bool :=
  match aget k l with Some _ => true | None => false end.

Fixpoint aset (k : N) (v : V) (l : assoc) : assoc :=
  match l with
  | [] => [(k, v)]
  | (k', v') :: r =>
      if N.eqb k k' then (k, v) :: r
      else if N.ltb k k' then (k, v) :: (k', v') :: r
      else (k', v') :: aset k v r
  end.

Fixpoint aremove (k : N) (l : assoc) : assoc :=
  match l with
  | [] => []
  | (k', v') :: r => if N.eqb k k' then r else (k', v') :: aremove k r
  end.

(* dict.update(upd): bindings of upd applied left to right *)
Fixpoint aupdate (upd : assoc) (l : assoc) : assoc :=
  match upd with
  | [] => l
  | (k, v) :: r => aupdate r (aset k v l)
  end.

Definition akeys (l : assoc) : list N := map fst l.

(* ---------- laws (any list) ---------- *)
Lemma aget_aset_same k v l : aget k (aset k v l) = Some v.
Proof.
  induction l as [|[k' v'] r IH]; simpl.
  - now rewrite N.eqb_refl.
  - destruct (N.eqb k k') eqn:E; simpl.
    + now rewrite N.eqb_refl.
    + destruct (N.ltb k k'); simpl.
      * now rewrite N.eqb_refl.
      * now rewrite E.
Qed.

Lemma aget_aset_other k k' v l : k' <> k -> aget k' (aset k v l) = aget k' l.
Proof.
  intro Hne. induction l as [|[k2 v2] r IH]; simpl.
  - destruct (N.eqb k' k) eqn:E; [apply N.eqb_eq in E; congruence | reflexivity].
  - destruct (N.eqb k k2) eqn:E; simpl.
    + apply N.eqb_eq in E; subst k2.
      destruct (N.eqb k' k) eqn:E2; [apply N.eqb_eq in E2; congruence | reflexivity].
    + destruct (N.ltb k k2); simpl.
      * destruct (N.eqb k' k) eqn:E2; [apply N.eqb_eq in E2; congruence | reflexivity].
      * destruct (N.eqb k' k2); [reflexivity | exact IH].
Qed.

Lemma aget_aset k k' v l : aget k' (aset k v l) = if N.eqb k' k then Some v else aget k' l.
Proof.
  destruct (N.eqb k' k) eqn:E.
  - apply N.eqb_eq in E; subst; apply aget_aset_same.
  - apply N.eqb_neq in E; now apply aget_aset_other.
Qed.

Lemma aget_aremove_other k k' l : k' <> k -> aget k' (aremove k l) = aget k' l.
Proof.
  intro Hne. induction l as [|[k2 v2] r IH]; simpl; [reflexivity|].
  destruct (N.eqb k k2) eqn:E; simpl.
  - apply N.eqb_eq in E; subst k2.
    destruct (N.eqb k' k) eqn:E2; [apply N.eqb_eq in E2; congruence | reflexivity].
  - destruct (N.eqb k' k2); [reflexivity | exact IH].
Qed.

Lemma aget_aupdate_notin k upd l : aget k upd = None -> aget k (aupdate upd l) = aget k l.
Proof.
  revert l; induction upd as [|[k2 v2] r IH]; simpl; intros l H; [reflexivity|].
  destruct (N.eqb k k2) eqn:E; [discriminate|].
  rewrite IH by exact H. apply aget_aset_other. now apply N.eqb_neq.
Qed.

Lemma ahas_aset k k' v l : ahas k' (aset k v l) = N.eqb k' k || ahas k' l.
Proof. unfold ahas. rewrite aget_aset. destruct (N.eqb k' k); reflexivity. Qed.

Lemma ahas_aupdate k upd l : ahas k l = true -> ahas k (aupdate upd l) = true.
Proof.
  revert l; induction upd as [|[k2 v2] r IH]; simpl; intros l H; [exact H|].
  apply IH. rewrite ahas_aset, H. apply orb_true_r.
Qed.

End Assoc.

Arguments assoc V : clear implicits.

(* insertion sort on N (canonical order of id lists) and a generic membership / permutation test *)
Fixpoint insertN (x : N) (l : list N) : list N :=
  match l with
  | [] => [x]
  | y :: r => if N.leb x y then x :: l else y :: insertN x r
  end.
Definition sortN (l : list N) : list N := fold_right insertN [] l.

Fixpoint remove1 {A} (eqb : A -> A -> bool) (x : A) (l : list A) : option (list A) :=
  match l with
  | [] => None
  | y :: r => if eqb x y then Some r
              else match remove1 eqb x r with Some r' => Some (y :: r') | None => None end
  end.

(* multiset equality under a boolean equality *)
Fixpoint perm_eqb {A} (eqb : A -> A -> bool) (a b : list A) : bool :=
  match a with
  | [] => match b with [] => true | _ => false end
  | x :: a' => match remove1 eqb x b with Some b' => perm_eqb eqb a' b' | None => false end
  end.

(* Correspondence support: indices of the cases on which the model disagrees with the
   recorded implementation observation.  Evaluated with vm_compute from generated cases files. *)
From Coq Require Import List NArith.
Import ListNotations.

Fixpoint bad_indices_from {A} (chk : A -> bool) (i : N) (l : list A) : list N :=
  match l with
  | [] => []
  | x :: r => if chk x then bad_indices_from chk (N.succ i) r
              else i :: bad_indices_from chk (N.succ i) r
  end.

Definition bad_indices {A} (chk : A -> bool) (l : list A) : list N := bad_indices_from chk 0%N l.

(* Universal observation values: what the harness records from the implementation and what the
   model predicts, compared structurally. *)
From Coq Require Import ZArith Bool.
From FIM Require Import Base.Str.

Inductive val :=
| VZ (z : Z)
| VS (s : str)
| VB (b : bool)
| VNone
| VL (l : list val)
| VErr (cls : str).     (* an exception of class cls *)

Fixpoint val_eqb (a b : val) : bool :=
  match a, b with
  | VZ x, VZ y => Z.eqb x y
  | VS x, VS y => str_eqb x y
  | VB x, VB y => Bool.eqb x y
  | VNone, VNone => true
  | VL x, VL y =>
      (fix go (x y : list val) : bool :=
         match x, y with
         | [], [] => true
         | u :: x', v :: y' => val_eqb u v && go x' y'
         | _, _ => false
         end) x y
  | VErr x, VErr y => str_eqb x y
  | _, _ => false
  end.

Definition VLZ (l : list Z) : val := VL (map VZ l).
Definition VLS (l : list str) : val := VL (map VS l).
Definition VOpt {A} (f : A -> val) (o : option A) : val := match o with Some x => f x | None => VNone end.

(* Regular expressions over Python strings (lists of code points): AST, declarative language `lang`,
   Brzozowski-derivative matcher `rmatch`, bounded repetition by expansion (`rep`), and the three ways
   the Python code applies a pattern: re.fullmatch (Full), re.match('^' + r + '$') (Dollar: `$` also
   matches just before a final newline) and re.match without end anchor (Prefix).
   Character categories (\d \w \s ...) are interpreted by a parameter catf : category id -> code point ->
   bool, instantiated in the models with the tables regenerated from the running interpreter.
   Definitions only; the proofs are in Base/RegexSound.v. *)
From Coq Require Import List NArith Bool.
Import ListNotations.

Inductive citem :=
| CR (lo hi : N)          (* a code-point range lo..hi (a literal is CR c c) *)
| CC (k : N).             (* a character category, by id *)

Inductive re :=
| Empty                                   (* matches nothing *)
| Eps                                     (* the empty string *)
| Cls (neg : bool) (items : list citem)   (* one code point in / not in the class *)
| Cat (a b : re)
| Alt (a b : re)
| Star (a : re).

(* category ids used by the translator (sre categories) *)
Definition cat_digit : N := 0.
Definition cat_not_digit : N := 1.
Definition cat_space : N := 2.
Definition cat_not_space : N := 3.
Definition cat_word : N := 4.
Definition cat_not_word : N := 5.

Definition any_no_nl : re := Cls true [CR 10 10].     (* `.` without DOTALL *)
Definition any_char : re := Cls true [].
Definition lit (c : N) : re := Cls false [CR c c].

Fixpoint pow (r : re) (n : nat) : re :=
  match n with O => Eps | S k => Cat r (pow r k) end.

Fixpoint upto (r : re) (n : nat) : re :=              (* r{0,n} *)
  match n with O => Eps | S k => Alt Eps (Cat r (upto r k)) end.

(* r{m,n} (Some n) and r{m,} (None); the translator only emits m <= n *)
Definition rep (r : re) (m : nat) (mx : option nat) : re :=
  match mx with
  | None => Cat (pow r m) (Star r)
  | Some n => Cat (pow r m) (upto r (n - m))
  end.

Fixpoint cats (l : list re) : re :=
  match l with [] => Eps | [x] => x | x :: r => Cat x (cats r) end.

Fixpoint alts (l : list re) : re :=
  match l with [] => Empty | [x] => x | x :: r => Alt x (alts r) end.

Section Sem.
Variable catf : N -> N -> bool.

Definition citem_in (c : N) (i : citem) : bool :=
  match i with
  | CR lo hi => N.leb lo c && N.leb c hi
  | CC k => catf k c
  end.

Definition cls_in (neg : bool) (items : list citem) (c : N) : bool :=
  xorb neg (existsb (citem_in c) items).

(* the declarative semantics: which strings a pattern denotes (whole-string membership) *)
Inductive lang : re -> list N -> Prop :=
| L_eps : lang Eps []
| L_cls neg items c : cls_in neg items c = true -> lang (Cls neg items) [c]
| L_cat a b s t : lang a s -> lang b t -> lang (Cat a b) (s ++ t)
| L_altl a b s : lang a s -> lang (Alt a b) s
| L_altr a b s : lang b s -> lang (Alt a b) s
| L_star0 a : lang (Star a) []
| L_star1 a s t : lang a s -> lang (Star a) t -> lang (Star a) (s ++ t).

Fixpoint nullable (r : re) : bool :=
  match r with
  | Empty => false
  | Eps => true
  | Cls _ _ => false
  | Cat a b => nullable a && nullable b
  | Alt a b => nullable a || nullable b
  | Star _ => true
  end.

Definition is_empty (r : re) : bool := match r with Empty => true | _ => false end.
Definition is_eps (r : re) : bool := match r with Eps => true | _ => false end.

Definition mkCat (a b : re) : re :=
  if is_empty a then Empty else if is_empty b then Empty
  else if is_eps a then b else if is_eps b then a else Cat a b.

Definition mkAlt (a b : re) : re :=
  if is_empty a then b else if is_empty b then a else Alt a b.

Fixpoint deriv (c : N) (r : re) : re :=
  match r with
  | Empty => Empty
  | Eps => Empty
  | Cls neg items => if cls_in neg items c then Eps else Empty
  | Cat a b => mkAlt (mkCat (deriv c a) b) (if nullable a then deriv c b else Empty)
  | Alt a b => mkAlt (deriv c a) (deriv c b)
  | Star a => mkCat (deriv c a) (Star a)
  end.

Fixpoint rmatch (r : re) (s : list N) : bool :=
  match s with
  | [] => nullable r
  | c :: s' => let d := deriv c r in if is_empty d then false else rmatch d s'
  end.

(* ---- how Python applies a pattern ---- *)
Inductive mmode := Full | Dollar | Prefix.

Definition ends_nl (s : list N) : bool :=
  match rev s with c :: _ => N.eqb c 10 | [] => false end.

Definition py_match (m : mmode) (r : re) (s : list N) : bool :=
  match m with
  | Full => rmatch r s                                            (* re.fullmatch(r, s) *)
  | Dollar => rmatch r s || (ends_nl s && rmatch r (removelast s))  (* re.match('^' + r + '$', s) *)
  | Prefix => rmatch (Cat r (Star any_char)) s                     (* re.match(r, s) *)
  end.

End Sem.

Definition mmode_eqb (a b : mmode) : bool :=
  match a, b with Full, Full | Dollar, Dollar | Prefix, Prefix => true | _, _ => false end.

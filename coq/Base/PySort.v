(* CPython 3.12 list.sort (Objects/listobject.c: count_run, binarysort, merge_compute_minrun, the
   powersort merge policy found_new_run/powerloop, merge_at, gallop_left/gallop_right, merge_lo/merge_hi
   with the adaptive min_gallop, merge_force_collapse) as a total executable function over lists, for an
   ARBITRARY boolean `lt` -- in particular one that is not a strict weak order (Capacities.__lt__ is the
   non-strict componentwise order), which is why "it returns a sorted permutation" is not a usable
   specification and the algorithm itself is transcribed.

   Definitions only (so that it keeps running when a proof elsewhere breaks).  Every loop runs on explicit
   fuel; `None` = fuel exhausted or an index outside its array = outside the modelled fragment
   (fail-closed: callers treat None as "no answer").  The transcription is tied to the running interpreter
   on every check by the `pysort` stream of harness/c18.py (whole output lists compared with sorted()
   under consistent AND inconsistent comparators, sizes up to a few thousand, run-structured inputs so
   that galloping, merge_hi/merge_lo and the powersort policy are all exercised).

   Not modelled: key= / reverse= arguments, exceptions raised by the comparison, mutation of the list
   during the sort, the pre-sort type specialisation (it only selects a faster way to call the same
   __lt__). *)
From Coq Require Import List NArith Bool.
Import ListNotations.
Open Scope N_scope.

Definition obind {X Y} (o : option X) (f : X -> option Y) : option Y :=
  match o with Some x => f x | None => None end.
Notation "'do' x <- o ; k" := (obind o (fun x => k)) (at level 200, x name, o at level 100, k at level 200).

Definition takeN {A} (k : N) (l : list A) : list A := firstn (N.to_nat k) l.
Definition dropN {A} (k : N) (l : list A) : list A := skipn (N.to_nat k) l.
Definition lenN {A} (l : list A) : N := N.of_nat (List.length l).
Definition atN {A} (l : list A) (i : N) : option A := nth_error l (N.to_nat i).
(* element i (forward numbering) of an n-element array held reversed *)
Definition atR {A} (rl : list A) (n : N) (i : N) : option A := if i <? n then atN rl (n - 1 - i) else None.

Definition MIN_GALLOP : N := 7.

(* merge_compute_minrun: n < 64 -> n; else the 6 leading bits of n, plus 1 if any shifted-out bit is set *)
Definition minrun (n : N) : N :=
  if n <? 64 then n
  else let k := N.log2 n - 5 in
       N.shiftr n k + (if N.land n (N.shiftl 1 k - 1) =? 0 then 0 else 1).

Section Sort.
Context {A : Type} (lt : A -> A -> bool).

(* ---------- count_run ---------- *)
(* acc = the run so far, REVERSED *)
Fixpoint take_desc (prev : A) (l acc : list A) : list A * list A :=
  match l with
  | x :: r => if lt x prev then take_desc x r (x :: acc) else (acc, l)
  | [] => (acc, [])
  end.
Fixpoint take_asc (prev : A) (l acc : list A) : list A * list A :=
  match l with
  | x :: r => if lt x prev then (acc, l) else take_asc x r (x :: acc)
  | [] => (acc, [])
  end.
(* the next natural run, already put in ascending order (a descending run is reversed in place), and the rest *)
Definition count_run (l : list A) : option (list A * list A) :=
  match l with
  | [] => None
  | [x] => Some ([x], [])
  | x0 :: x1 :: r =>
      if lt x1 x0 then Some (take_desc x1 r [x1; x0])
      else let '(acc, rest) := take_asc x1 r [x1; x0] in Some (rev acc, rest)
  end.

(* ---------- binarysort: insert one pivot into the sorted prefix ---------- *)
Fixpoint bsearch (fuel : nat) (pivot : A) (pre : list A) (l r : N) : option N :=
  if l <? r then
    match fuel with
    | O => None
    | S f => let p := l + N.shiftr (r - l) 1 in
             do x <- atN pre p;
             if lt pivot x then bsearch f pivot pre l p else bsearch f pivot pre (p + 1) r
    end
  else Some l.
Definition binsert (pre : list A) (pivot : A) : option (list A) :=
  do l <- bsearch (S (List.length pre)) pivot pre 0 (lenN pre);
  Some (takeN l pre ++ pivot :: dropN l pre).
Fixpoint binsert_all (run extra : list A) : option (list A) :=
  match extra with
  | [] => Some run
  | x :: r => do run' <- binsert run x; binsert_all run' r
  end.

(* ---------- galloping ---------- *)
Definition gfuel (n : N) : nat := S (S (N.size_nat n)).

(* gallop_left: a[hint] < key, gallop right: returns (lastofs, ofs) relative to hint *)
Fixpoint gl_right (fuel : nat) (key : A) (get : N -> option A) (hint maxofs lastofs ofs : N) : option (N * N) :=
  if ofs <? maxofs then
    match fuel with
    | O => None
    | S f => do x <- get (hint + ofs);
             if lt x key then gl_right f key get hint maxofs ofs (N.shiftl ofs 1 + 1) else Some (lastofs, ofs)
    end
  else Some (lastofs, ofs).
Fixpoint gl_left (fuel : nat) (key : A) (get : N -> option A) (hint maxofs lastofs ofs : N) : option (N * N) :=
  if ofs <? maxofs then
    match fuel with
    | O => None
    | S f => do x <- get (hint - ofs);
             if lt x key then Some (lastofs, ofs) else gl_left f key get hint maxofs ofs (N.shiftl ofs 1 + 1)
    end
  else Some (lastofs, ofs).
(* binary search with invariant a[lastofs-1] < key <= a[ofs]; lo/hi are Z-like but never negative here
   because the caller has already added 1 to lastofs (which may have been -1) *)
Fixpoint gl_bin (fuel : nat) (key : A) (get : N -> option A) (lo hi : N) : option N :=
  if lo <? hi then
    match fuel with
    | O => None
    | S f => let m := lo + N.shiftr (hi - lo) 1 in
             do x <- get m;
             if lt x key then gl_bin f key get (m + 1) hi else gl_bin f key get lo m
    end
  else Some hi.

(* returns k in 0..n with a[k-1] < key <= a[k] (for a consistent order) *)
Definition gallop_left (key : A) (get : N -> option A) (n hint : N) : option N :=
  do ah <- get hint;
  if lt ah key then
    let maxofs := n - hint in
    do p <- gl_right (gfuel n) key get hint maxofs 0 1;
    let '(lastofs, ofs) := p in
    let ofs := if maxofs <? ofs then maxofs else ofs in
    (* lastofs += hint; ofs += hint; ++lastofs *)
    gl_bin (gfuel n) key get (lastofs + hint + 1) (ofs + hint)
  else
    let maxofs := hint + 1 in
    do p <- gl_left (gfuel n) key get hint maxofs 0 1;
    let '(lastofs, ofs) := p in
    let ofs := if maxofs <? ofs then maxofs else ofs in
    (* k = lastofs; lastofs = hint - ofs (may be -1); ofs = hint - k; ++lastofs  ==> lo = hint + 1 - ofs *)
    gl_bin (gfuel n) key get (hint + 1 - ofs) (hint - lastofs).

Fixpoint gr_left (fuel : nat) (key : A) (get : N -> option A) (hint maxofs lastofs ofs : N) : option (N * N) :=
  if ofs <? maxofs then
    match fuel with
    | O => None
    | S f => do x <- get (hint - ofs);
             if lt key x then gr_left f key get hint maxofs ofs (N.shiftl ofs 1 + 1) else Some (lastofs, ofs)
    end
  else Some (lastofs, ofs).
Fixpoint gr_right (fuel : nat) (key : A) (get : N -> option A) (hint maxofs lastofs ofs : N) : option (N * N) :=
  if ofs <? maxofs then
    match fuel with
    | O => None
    | S f => do x <- get (hint + ofs);
             if lt key x then Some (lastofs, ofs) else gr_right f key get hint maxofs ofs (N.shiftl ofs 1 + 1)
    end
  else Some (lastofs, ofs).
Fixpoint gr_bin (fuel : nat) (key : A) (get : N -> option A) (lo hi : N) : option N :=
  if lo <? hi then
    match fuel with
    | O => None
    | S f => let m := lo + N.shiftr (hi - lo) 1 in
             do x <- get m;
             if lt key x then gr_bin f key get lo m else gr_bin f key get (m + 1) hi
    end
  else Some hi.

(* returns k in 0..n with a[k-1] <= key < a[k] *)
Definition gallop_right (key : A) (get : N -> option A) (n hint : N) : option N :=
  do ah <- get hint;
  if lt key ah then
    let maxofs := hint + 1 in
    do p <- gr_left (gfuel n) key get hint maxofs 0 1;
    let '(lastofs, ofs) := p in
    let ofs := if maxofs <? ofs then maxofs else ofs in
    gr_bin (gfuel n) key get (hint + 1 - ofs) (hint - lastofs)
  else
    let maxofs := n - hint in
    do p <- gr_right (gfuel n) key get hint maxofs 0 1;
    let '(lastofs, ofs) := p in
    let ofs := if maxofs <? ofs then maxofs else ofs in
    gr_bin (gfuel n) key get (lastofs + hint + 1) (ofs + hint).

(* ---------- merge_lo ----------
   a, b : what remains of the two runs (forward); rout : the merged prefix, reversed;
   mg : the local min_gallop; smg : ms->min_gallop as last stored.  Result: merged list, ms->min_gallop. *)
Definition dec_mg (mg : N) : N := if 1 <? mg then mg - 1 else mg.

Fixpoint lo_go (fuel : nat) (gal : bool) (rout a b : list A) (na nb ac bc mg smg : N) {struct fuel}
  : option (list A * N) :=
  match fuel with
  | O => None
  | S f =>
    if negb gal then
      match a, b with
      | x :: a', y :: b' =>
        if lt y x then
          let rout := y :: rout in let nb := nb - 1 in let bc := bc + 1 in
          if nb =? 0 then Some (rev_append rout a, smg)
          else if mg <=? bc then lo_go f true rout a b' na nb 0 bc (mg + 1) smg
          else lo_go f false rout a b' na nb 0 bc mg smg
        else
          let rout := x :: rout in let na := na - 1 in let ac := ac + 1 in
          if na =? 1 then Some (rev_append rout (b ++ a'), smg)
          else if mg <=? ac then lo_go f true rout a' b na nb ac 0 (mg + 1) smg
          else lo_go f false rout a' b na nb ac 0 mg smg
      | _, _ => None
      end
    else
      let mg := dec_mg mg in
      let smg := mg in
      match b with
      | [] => None
      | y :: b' =>
        do k <- gallop_right y (atN a) na 0;
        let rout1 := rev_append (takeN k a) rout in
        let a1 := dropN k a in
        let na1 := na - k in
        if (0 <? k) && (na1 =? 1) then Some (rev_append rout1 (b ++ a1), smg)
        else if (0 <? k) && (na1 =? 0) then Some (rev_append rout1 b, smg)
        else
          let rout2 := y :: rout1 in
          let nb1 := nb - 1 in
          if nb1 =? 0 then Some (rev_append rout2 a1, smg)
          else
            match a1 with
            | [] => None
            | x :: a2 =>
              do k2 <- gallop_left x (atN b') nb1 0;
              let rout3 := rev_append (takeN k2 b') rout2 in
              let b2 := dropN k2 b' in
              let nb2 := nb1 - k2 in
              if (0 <? k2) && (nb2 =? 0) then Some (rev_append rout3 a1, smg)
              else
                let rout4 := x :: rout3 in
                let na2 := na1 - 1 in
                if na2 =? 1 then Some (rev_append rout4 (b2 ++ a2), smg)
                else if (MIN_GALLOP <=? k) || (MIN_GALLOP <=? k2)
                     then lo_go f true rout4 a2 b2 na2 nb2 k k2 mg smg
                     else lo_go f false rout4 a2 b2 na2 nb2 0 0 (mg + 1) (mg + 1)
            end
      end
  end.

Definition merge_lo (a b : list A) (na nb smg : N) : option (list A * N) :=
  match b with
  | [] => None
  | y :: b' =>
      let nb := nb - 1 in
      if nb =? 0 then Some (y :: a, smg)
      else if na =? 1 then Some (y :: b' ++ a, smg)
      else lo_go (S (List.length a + List.length b)) false [y] a b' na nb 0 0 smg smg
  end.

(* ---------- merge_hi ----------  ra, rb : what remains of the runs, REVERSED; out : the merged suffix (forward) *)
Fixpoint hi_go (fuel : nat) (gal : bool) (ra rb out : list A) (na nb ac bc mg smg : N) {struct fuel}
  : option (list A * N) :=
  match fuel with
  | O => None
  | S f =>
    if negb gal then
      match ra, rb with
      | x :: ra', y :: rb' =>
        if lt y x then
          let out := x :: out in let na := na - 1 in let ac := ac + 1 in
          if na =? 0 then Some (rev_append rb out, smg)
          else if mg <=? ac then hi_go f true ra' rb out na nb ac 0 (mg + 1) smg
          else hi_go f false ra' rb out na nb ac 0 mg smg
        else
          let out := y :: out in let nb := nb - 1 in let bc := bc + 1 in
          if nb =? 1 then Some (rev_append rb' (rev_append ra out), smg)
          else if mg <=? bc then hi_go f true ra rb' out na nb 0 bc (mg + 1) smg
          else hi_go f false ra rb' out na nb 0 bc mg smg
      | _, _ => None
      end
    else
      let mg := dec_mg mg in
      let smg := mg in
      match rb with
      | [] => None
      | y :: rb' =>
        do k0 <- gallop_right y (atR ra na) na (na - 1);
        let k := na - k0 in
        let out1 := rev_append (takeN k ra) out in
        let ra1 := dropN k ra in
        let na1 := na - k in
        if (0 <? k) && (na1 =? 0) then Some (rev_append rb out1, smg)
        else
          let out2 := y :: out1 in
          let nb1 := nb - 1 in
          if nb1 =? 1 then Some (rev_append rb' (rev_append ra1 out2), smg)
          else
            match ra1 with
            | [] => None
            | x :: ra2 =>
              do k0' <- gallop_left x (atR rb' nb1) nb1 (nb1 - 1);
              let k2 := nb1 - k0' in
              let out3 := rev_append (takeN k2 rb') out2 in
              let rb2 := dropN k2 rb' in
              let nb2 := nb1 - k2 in
              if (0 <? k2) && (nb2 =? 1) then Some (rev_append rb2 (rev_append ra1 out3), smg)
              else if (0 <? k2) && (nb2 =? 0) then Some (rev_append ra1 out3, smg)
              else
                let out4 := x :: out3 in
                let na2 := na1 - 1 in
                if na2 =? 0 then Some (rev_append rb2 out4, smg)
                else if (MIN_GALLOP <=? k) || (MIN_GALLOP <=? k2)
                     then hi_go f true ra2 rb2 out4 na2 nb2 k k2 mg smg
                     else hi_go f false ra2 rb2 out4 na2 nb2 0 0 (mg + 1) (mg + 1)
            end
      end
  end.

Definition merge_hi (a b : list A) (na nb smg : N) : option (list A * N) :=
  match rev a with
  | [] => None
  | x :: ra' =>
      let na := na - 1 in
      if na =? 0 then Some (b ++ [x], smg)
      else if nb =? 1 then Some (b ++ rev_append ra' [x], smg)
      else hi_go (S (List.length a + List.length b)) false ra' (rev b) [x] na nb 0 0 smg smg
  end.

(* ---------- merge_at: merge two adjacent runs ---------- *)
Definition merge (a b : list A) (smg : N) : option (list A * N) :=
  let na := lenN a in
  let nb := lenN b in
  match b with
  | [] => None
  | b0 :: _ =>
    do k <- gallop_right b0 (atN a) na 0;
    let na2 := na - k in
    if na2 =? 0 then Some (a ++ b, smg)
    else
      do alast <- atN a (na - 1);
      do nb2 <- gallop_left alast (atN b) nb (nb - 1);
      if nb2 =? 0 then Some (a ++ b, smg)
      else
        let a2 := dropN k a in
        let b2 := takeN nb2 b in
        do r <- (if na2 <=? nb2 then merge_lo a2 b2 na2 nb2 smg else merge_hi a2 b2 na2 nb2 smg);
        let '(mid, smg') := r in
        Some (takeN k a ++ mid ++ dropN nb2 b, smg')
  end.

(* ---------- the run stack and the powersort policy ---------- *)
Record run := { r_items : list A; r_start : N; r_len : N; r_power : N }.

Fixpoint powerloop_go (fuel : nat) (a b n result : N) : option N :=
  match fuel with
  | O => None
  | S f =>
      let result := result + 1 in
      if n <=? a then powerloop_go f (N.shiftl (a - n) 1) (N.shiftl (b - n) 1) n result
      else if n <=? b then Some result
      else powerloop_go f (N.shiftl a 1) (N.shiftl b 1) n result
  end.
Definition powerloop (s1 n1 n2 n : N) : option N :=
  let a := 2 * s1 + n1 in
  powerloop_go (S (S (S (N.size_nat n)))) a (a + n1 + n2) n 0.

(* stack: top first.  merge the two topmost runs (merge_at(ms, n-2)) *)
Definition merge_top (st : list run) (smg : N) : option (list run * N) :=
  match st with
  | rb :: ra :: rest =>
      do r <- merge (r_items ra) (r_items rb) smg;
      let '(m, smg') := r in
      Some ({| r_items := m; r_start := r_start ra; r_len := r_len ra + r_len rb; r_power := r_power ra |} :: rest, smg')
  | _ => None
  end.
(* merge_at(ms, n-3): the 2nd and 3rd from the top *)
Definition merge_below (st : list run) (smg : N) : option (list run * N) :=
  match st with
  | rc :: rest => do r <- merge_top rest smg; let '(st', smg') := r in Some (rc :: st', smg')
  | _ => None
  end.

Fixpoint collapse_power (fuel : nat) (st : list run) (power smg : N) : option (list run * N) :=
  match st with
  | _ :: ra :: _ =>
      if power <? r_power ra then
        match fuel with
        | O => None
        | S f => do r <- merge_top st smg; let '(st', smg') := r in collapse_power f st' power smg'
        end
      else Some (st, smg)
  | _ => Some (st, smg)
  end.

Definition found_new_run (st : list run) (n2 listlen smg : N) : option (list run * N) :=
  match st with
  | [] => Some ([], smg)
  | top :: _ =>
      do power <- powerloop (r_start top) (r_len top) n2 listlen;
      do r <- collapse_power (List.length st) st power smg;
      let '(st', smg') := r in
      match st' with
      | t :: rest => Some ({| r_items := r_items t; r_start := r_start t; r_len := r_len t; r_power := power |} :: rest, smg')
      | [] => None
      end
  end.

Fixpoint force_collapse (fuel : nat) (st : list run) (smg : N) : option (list A) :=
  match st with
  | [] => None
  | [r] => Some (r_items r)
  | [_; _] => match fuel with O => None | S f =>
                do r <- merge_top st smg; let '(st', smg') := r in force_collapse f st' smg' end
  | rc :: _ :: ra :: _ =>
      match fuel with
      | O => None
      | S f =>
          do r <- (if r_len ra <? r_len rc then merge_below st smg else merge_top st smg);
          let '(st', smg') := r in force_collapse f st' smg'
      end
  end.

Fixpoint runs_go (fuel : nat) (rest : list A) (s nrem listlen mr : N) (st : list run) (smg : N) : option (list A) :=
  match rest with
  | [] => force_collapse (List.length st) st smg
  | _ =>
    match fuel with
    | O => None
    | S f =>
      do cr <- count_run rest;
      let '(r0, rest1) := cr in
      let n0 := lenN r0 in
      do ext <- (if n0 <? mr then
                   let force := if nrem <=? mr then nrem else mr in
                   do r1 <- binsert_all r0 (takeN (force - n0) rest1);
                   Some (r1, dropN (force - n0) rest1, force)
                 else Some (r0, rest1, n0));
      let '(r1, rest2, n1) := ext in
      do fr <- found_new_run st n1 listlen smg;
      let '(st', smg') := fr in
      runs_go f rest2 (s + n1) (nrem - n1) listlen mr
              ({| r_items := r1; r_start := s; r_len := n1; r_power := 0 |} :: st') smg'
    end
  end.

Definition py_sort (l : list A) : option (list A) :=
  let n := lenN l in
  if n <? 2 then Some l
  else runs_go (List.length l) l 0 n n (minrun n) [] MIN_GALLOP.

(* candidates.sort(); candidates[0] *)
Definition py_sort_first (l : list A) : option A :=
  match py_sort l with Some (x :: _) => Some x | _ => None end.

End Sort.

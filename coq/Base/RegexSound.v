(* Correctness of the derivative matcher: rmatch r s = true <-> lang r s, the meaning of bounded
   repetition, and what each Python call idiom accepts in terms of `lang`. *)
From Coq Require Import List NArith Bool Arith Lia.
From FIM Require Import Base.Regex.
Import ListNotations.

Section Sound.
Variable catf : N -> N -> bool.
Notation lang := (lang catf).
Notation deriv := (deriv catf).
Notation rmatch := (rmatch catf).
Notation cls_in := (cls_in catf).
Notation py_match := (py_match catf).

Lemma lang_empty s : ~ lang Empty s.
Proof. intro H; inversion H. Qed.

Lemma lang_eps_inv s : lang Eps s -> s = [].
Proof. intro H; inversion H; reflexivity. Qed.

Lemma lang_cls_inv neg it s : lang (Cls neg it) s -> exists c, s = [c] /\ cls_in neg it c = true.
Proof. intro H; inversion H; subst; eauto. Qed.

Lemma lang_cat_inv a b s : lang (Cat a b) s -> exists s1 s2, s = s1 ++ s2 /\ lang a s1 /\ lang b s2.
Proof. intro H; inversion H; subst; eauto. Qed.

Lemma lang_alt_inv a b s : lang (Alt a b) s -> lang a s \/ lang b s.
Proof. intro H; inversion H; subst; auto. Qed.

Lemma lang_star_cons_inv a c u : lang (Star a) (c :: u) ->
  exists s t, u = s ++ t /\ lang a (c :: s) /\ lang (Star a) t.
Proof.
  intro H. remember (Star a) as r eqn:Er. remember (c :: u) as w eqn:Ew.
  revert u Ew. induction H; intros u Ew; try discriminate.
  inversion Er; subst a0. destruct s as [|c' s'].
  - simpl in Ew. apply IHlang2; auto.
  - simpl in Ew. inversion Ew; subst. exists s', t. auto.
Qed.

Lemma nullable_spec r : nullable r = true <-> lang r [].
Proof.
  induction r; simpl; split; intro H; try discriminate.
  - inversion H.
  - constructor.
  - reflexivity.
  - inversion H.
  - apply andb_true_iff in H as [H1 H2]. change (@nil N) with (@nil N ++ []). constructor; tauto.
  - apply lang_cat_inv in H as (s1 & s2 & E & H1 & H2). symmetry in E. apply app_eq_nil in E as [-> ->].
    apply andb_true_iff; tauto.
  - apply orb_true_iff in H as [H|H]; [apply L_altl | apply L_altr]; tauto.
  - apply lang_alt_inv in H. apply orb_true_iff; tauto.
  - constructor.
  - reflexivity.
Qed.

Lemma mkCat_spec a b s : lang (mkCat a b) s <-> lang (Cat a b) s.
Proof.
  unfold mkCat.
  destruct (is_empty a) eqn:Ea.
  { destruct a; try discriminate. split; intro H; [inversion H|].
    apply lang_cat_inv in H as (? & ? & _ & H & _). inversion H. }
  destruct (is_empty b) eqn:Eb.
  { destruct b; try discriminate. split; intro H; [inversion H|].
    apply lang_cat_inv in H as (? & ? & _ & _ & H). inversion H. }
  destruct (is_eps a) eqn:Pa.
  { destruct a; try discriminate. split; intro H.
    - change s with ([] ++ s). constructor; [constructor | exact H].
    - apply lang_cat_inv in H as (s1 & s2 & -> & H1 & H2). apply lang_eps_inv in H1; subst. exact H2. }
  destruct (is_eps b) eqn:Pb.
  { destruct b; try discriminate. split; intro H.
    - rewrite <- (app_nil_r s). constructor; [exact H | constructor].
    - apply lang_cat_inv in H as (s1 & s2 & -> & H1 & H2). apply lang_eps_inv in H2; subst.
      rewrite app_nil_r. exact H1. }
  tauto.
Qed.

Lemma mkAlt_spec a b s : lang (mkAlt a b) s <-> lang (Alt a b) s.
Proof.
  unfold mkAlt.
  destruct (is_empty a) eqn:Ea.
  { destruct a; try discriminate. split; intro H; [apply L_altr; exact H|].
    apply lang_alt_inv in H as [H|H]; [inversion H | exact H]. }
  destruct (is_empty b) eqn:Eb.
  { destruct b; try discriminate. split; intro H; [apply L_altl; exact H|].
    apply lang_alt_inv in H as [H|H]; [exact H | inversion H]. }
  tauto.
Qed.

Lemma deriv_spec c r : forall s, lang (deriv c r) s <-> lang r (c :: s).
Proof.
  induction r as [| | neg it | a IHa b IHb | a IHa b IHb | a IHa]; intro s; cbn [Regex.deriv].
  - split; intro H; inversion H.
  - split; intro H; inversion H.
  - destruct (cls_in neg it c) eqn:E; split; intro H.
    + apply lang_eps_inv in H; subst. constructor; exact E.
    + apply lang_cls_inv in H as (c' & Es & _). inversion Es; subst. constructor.
    + inversion H.
    + apply lang_cls_inv in H as (c' & Es & Hc). inversion Es; subst. congruence.
  - rewrite mkAlt_spec. split; intro H.
    + apply lang_alt_inv in H as [H|H].
      * apply mkCat_spec in H. apply lang_cat_inv in H as (s1 & s2 & -> & H1 & H2).
        apply IHa in H1. change (c :: s1 ++ s2) with ((c :: s1) ++ s2). constructor; assumption.
      * destruct (nullable a) eqn:Na; [| inversion H].
        apply IHb in H. apply nullable_spec in Na.
        change (c :: s) with ([] ++ c :: s). constructor; assumption.
    + apply lang_cat_inv in H as (s1 & s2 & E & H1 & H2). destruct s1 as [|c' s1'].
      * simpl in E; subst s2. apply L_altr. apply nullable_spec in H1. rewrite H1. apply IHb; exact H2.
      * simpl in E. inversion E; subst. apply L_altl. apply mkCat_spec. constructor; [apply IHa; exact H1 | exact H2].
  - rewrite mkAlt_spec. split; intro H.
    + apply lang_alt_inv in H as [H|H]; [apply L_altl; apply IHa | apply L_altr; apply IHb]; exact H.
    + apply lang_alt_inv in H as [H|H]; [apply L_altl; apply IHa | apply L_altr; apply IHb]; exact H.
  - rewrite mkCat_spec. split; intro H.
    + apply lang_cat_inv in H as (s1 & s2 & -> & H1 & H2). apply IHa in H1.
      change (c :: s1 ++ s2) with ((c :: s1) ++ s2). constructor; assumption.
    + apply lang_star_cons_inv in H as (s1 & t & -> & H1 & H2). constructor; [apply IHa; exact H1 | exact H2].
Qed.

Theorem rmatch_spec : forall s r, rmatch r s = true <-> lang r s.
Proof.
  induction s as [|c s IH]; intro r; cbn [Regex.rmatch].
  - apply nullable_spec.
  - destruct (is_empty (deriv c r)) eqn:E.
    + split; [discriminate|]. intro H. apply deriv_spec in H. destruct (deriv c r); try discriminate. inversion H.
    + rewrite IH. apply deriv_spec.
Qed.

Corollary rmatch_false_spec r s : rmatch r s = false <-> ~ lang r s.
Proof.
  rewrite <- rmatch_spec. destruct (rmatch r s); split; intro H; try reflexivity; try discriminate.
  - exfalso; apply H; reflexivity.
Qed.

(* ---------------- bounded repetition ---------------- *)

Lemma lang_pow_cls neg it n s :
  lang (pow (Cls neg it) n) s <-> length s = n /\ forallb (cls_in neg it) s = true.
Proof.
  revert s; induction n as [|n IH]; intro s; cbn [pow].
  - split; intro H.
    + apply lang_eps_inv in H; subst; auto.
    + destruct H as [H _]. destruct s; [constructor | discriminate].
  - split; intro H.
    + apply lang_cat_inv in H as (s1 & s2 & -> & H1 & H2).
      apply lang_cls_inv in H1 as (c & -> & Hc). apply IH in H2 as [L F]. simpl. rewrite Hc, F, L. auto.
    + destruct H as [L F]. destruct s as [|c s]; [discriminate|]. simpl in L, F.
      apply andb_true_iff in F as [Fc F]. change (c :: s) with ([c] ++ s).
      constructor; [constructor; exact Fc | apply IH; split; [lia | exact F]].
Qed.

Lemma lang_upto_cls neg it n s :
  lang (upto (Cls neg it) n) s <-> length s <= n /\ forallb (cls_in neg it) s = true.
Proof.
  revert s; induction n as [|n IH]; intro s; cbn [upto].
  - split; intro H.
    + apply lang_eps_inv in H; subst; simpl; auto.
    + destruct H as [H _]. destruct s; [constructor | simpl in H; lia].
  - split; intro H.
    + apply lang_alt_inv in H as [H|H].
      * apply lang_eps_inv in H; subst; simpl; split; [lia | reflexivity].
      * apply lang_cat_inv in H as (s1 & s2 & -> & H1 & H2).
        apply lang_cls_inv in H1 as (c & -> & Hc). apply IH in H2 as [L F]. simpl. rewrite Hc, F. split; [lia | reflexivity].
    + destruct H as [L F]. destruct s as [|c s]; [apply L_altl; constructor|]. simpl in L, F.
      apply andb_true_iff in F as [Fc F]. apply L_altr. change (c :: s) with ([c] ++ s).
      constructor; [constructor; exact Fc | apply IH; split; [lia | exact F]].
Qed.

(* [class]{m,n} : between m and n code points, all in the class *)
Theorem lang_rep_cls neg it m n s : m <= n ->
  (lang (rep (Cls neg it) m (Some n)) s <->
   m <= length s <= n /\ forallb (cls_in neg it) s = true).
Proof.
  intro Hmn. unfold rep. split; intro H.
  - apply lang_cat_inv in H as (s1 & s2 & -> & H1 & H2).
    apply lang_pow_cls in H1 as [L1 F1]. apply lang_upto_cls in H2 as [L2 F2].
    rewrite app_length, forallb_app, F1, F2. split; [lia | reflexivity].
  - destruct H as [L F]. rewrite <- (firstn_skipn m s) in F |- *. rewrite forallb_app in F.
    apply andb_true_iff in F as [F1 F2]. constructor.
    + apply lang_pow_cls. split; [rewrite firstn_length; lia | exact F1].
    + apply lang_upto_cls. split; [rewrite skipn_length; lia | exact F2].
Qed.

Lemma lang_star_cls neg it s : lang (Star (Cls neg it)) s <-> forallb (cls_in neg it) s = true.
Proof.
  split.
  - intro H. remember (Star (Cls neg it)) as r eqn:Er. induction H; try discriminate; [reflexivity|].
    inversion Er; subst. apply lang_cls_inv in H as (c & -> & Hc). simpl. rewrite Hc. apply IHlang2. reflexivity.
  - induction s as [|c s IH]; intro F; [constructor|]. simpl in F. apply andb_true_iff in F as [Fc F].
    change (c :: s) with ([c] ++ s). constructor; [constructor; exact Fc | apply IH; exact F].
Qed.

(* [class]{m,} *)
Theorem lang_rep_cls_unbounded neg it m s :
  lang (rep (Cls neg it) m None) s <-> m <= length s /\ forallb (cls_in neg it) s = true.
Proof.
  unfold rep. split; intro H.
  - apply lang_cat_inv in H as (s1 & s2 & -> & H1 & H2).
    apply lang_pow_cls in H1 as [L1 F1]. apply lang_star_cls in H2.
    rewrite app_length, forallb_app, F1, H2. split; [lia | reflexivity].
  - destruct H as [L F]. rewrite <- (firstn_skipn m s) in F |- *. rewrite forallb_app in F.
    apply andb_true_iff in F as [F1 F2]. constructor.
    + apply lang_pow_cls. split; [rewrite firstn_length; lia | exact F1].
    + apply lang_star_cls. exact F2.
Qed.

(* general r: r{m,n} is "k copies of r for some m <= k <= n" *)
Lemma lang_upto_pow r n s : lang (upto r n) s <-> exists k, k <= n /\ lang (pow r k) s.
Proof.
  revert s; induction n as [|n IH]; intro s; cbn [upto].
  - split; intro H.
    + exists 0. split; [lia | exact H].
    + destruct H as (k & Hk & H). assert (k = 0) by lia. subst. exact H.
  - split; intro H.
    + apply lang_alt_inv in H as [H|H].
      * exists 0. split; [lia | exact H].
      * apply lang_cat_inv in H as (s1 & s2 & -> & H1 & H2). apply IH in H2 as (k & Hk & H2).
        exists (S k). split; [lia|]. cbn [pow]. constructor; assumption.
    + destruct H as (k & Hk & H). destruct k as [|k]; [apply L_altl; exact H|].
      cbn [pow] in H. apply lang_cat_inv in H as (s1 & s2 & -> & H1 & H2). apply L_altr. constructor; [exact H1|].
      apply IH. exists k. split; [lia | exact H2].
Qed.

Lemma lang_pow_add r a b s : lang (Cat (pow r a) (pow r b)) s <-> lang (pow r (a + b)) s.
Proof.
  revert s; induction a as [|a IH]; intro s; cbn [pow plus].
  - split; intro H.
    + apply lang_cat_inv in H as (s1 & s2 & -> & H1 & H2). apply lang_eps_inv in H1; subst. exact H2.
    + change s with ([] ++ s). constructor; [constructor | exact H].
  - split; intro H.
    + apply lang_cat_inv in H as (s1 & s2 & -> & H1 & H2). apply lang_cat_inv in H1 as (u & v & -> & Hu & Hv).
      rewrite <- app_assoc. constructor; [exact Hu|]. apply IH. constructor; assumption.
    + apply lang_cat_inv in H as (u & w & -> & Hu & Hw). apply IH in Hw.
      apply lang_cat_inv in Hw as (v & s2 & -> & Hv & H2). rewrite app_assoc. constructor; [constructor; assumption | exact H2].
Qed.

Theorem lang_rep_bounded r m n s : m <= n ->
  (lang (rep r m (Some n)) s <-> exists k, m <= k <= n /\ lang (pow r k) s).
Proof.
  intro Hmn. unfold rep. split; intro H.
  - apply lang_cat_inv in H as (s1 & s2 & -> & H1 & H2). apply lang_upto_pow in H2 as (k & Hk & H2).
    exists (m + k). split; [lia|]. apply lang_pow_add. constructor; assumption.
  - destruct H as (k & Hk & H). replace k with (m + (k - m)) in H by lia. apply lang_pow_add in H.
    apply lang_cat_inv in H as (s1 & s2 & -> & H1 & H2). constructor; [exact H1|].
    apply lang_upto_pow. exists (k - m). split; [lia | exact H2].
Qed.

(* ---------------- the Python call idioms ---------------- *)

Theorem py_fullmatch_spec r s : py_match Full r s = true <-> lang r s.
Proof. apply rmatch_spec. Qed.

Lemma ends_nl_spec s : ends_nl s = true <-> exists t, s = t ++ [10%N].
Proof.
  unfold ends_nl. split.
  - intro H. destruct (rev s) as [|c l] eqn:E; [discriminate|]. apply N.eqb_eq in H; subst c.
    exists (rev l). rewrite <- (rev_involutive s), E. reflexivity.
  - intros (t & ->). rewrite rev_app_distr. reflexivity.
Qed.

(* re.match('^' + r + '$', s): s is in the language, or s is a member followed by one newline *)
Theorem py_dollar_spec r s :
  py_match Dollar r s = true <-> lang r s \/ exists t, s = t ++ [10%N] /\ lang r t.
Proof.
  cbn [Regex.py_match]. rewrite orb_true_iff, andb_true_iff, !rmatch_spec, ends_nl_spec. split.
  - intros [H|[(t & ->) H]]; [left; exact H|]. right. exists t. rewrite removelast_last in H. auto.
  - intros [H|(t & -> & H)]; [left; exact H|]. right. split; [eauto|]. rewrite removelast_last. exact H.
Qed.

Lemma lang_star_any s : lang (Star any_char) s.
Proof. apply lang_star_cls. induction s; simpl; auto. Qed.

(* re.match(r, s) without an end anchor: some prefix of s is a member *)
Theorem py_prefix_spec r s :
  py_match Prefix r s = true <-> exists p q, s = p ++ q /\ lang r p.
Proof.
  cbn [Regex.py_match]. rewrite rmatch_spec. split.
  - intro H. apply lang_cat_inv in H as (p & q & -> & Hp & _). eauto.
  - intros (p & q & -> & Hp). constructor; [exact Hp | apply lang_star_any].
Qed.

(* the `$` idiom is strictly weaker than whole-string membership: whenever t is a member whose
   extension by a newline is not, '^r$' accepts a string outside the language *)
Theorem py_dollar_accepts_trailing_newline r t :
  lang r t -> ~ lang r (t ++ [10%N]) ->
  py_match Dollar r (t ++ [10%N]) = true /\ py_match Full r (t ++ [10%N]) = false.
Proof.
  intros H1 H2. split.
  - apply py_dollar_spec. right. eauto.
  - apply rmatch_false_spec. exact H2.
Qed.

End Sound.

(* C14 - correspondence check of the ABSTRACT model (Cbm14Spec.v): the recorded histories are replayed with
   smerge / sunmerge / snapshot / rollback on the abstract combined model and compared, modulo the declared
   equivalence (adm_graph_ids as a set; an absent delegation property = an empty one), with the snapshots
   recorded from the implementation.  The comparison stops (accepting) at the first operation outside the
   documented domain: a malformed source, merging a contributor again, a refused merge (the implementation
   must have raised), unmerge / snapshot of an empty combined model, an unknown or consumed snapshot.
   Definitions only. *)
From Coq Require Import List NArith Bool.
From FIM Require Import Model.Cbm14Store Model.Cbm14Check Model.Cbm14Spec Model.Cbm14Abs.
Import ListNotations.
Open Scope N_scope.

Fixpoint mapM {A B} (f : A -> option B) (l : list A) : option (list B) :=
  match l with
  | [] => Some []
  | x :: r => match f x, mapM f r with Some y, Some r' => Some (y :: r') | _, _ => None end
  end.

(* a source model seen as an abstract delegation model (None: some delegation property is not a one-entry
   dictionary) *)
Definition adel (d : dval) : option (option N) :=
  match d with DAbs => Some None | DDict [(_, c)] => Some (Some c) | _ => None end.
Definition adm_of_view (g : N) (v : view) : option adm :=
  match v with
  | None => None
  | Some (ns, es) =>
      match mapM (fun x : vnode => let '(nid, cls, oth, _, ld, cd) := x in
                                   match adel ld, adel cd with
                                   | Some l, Some c => Some (nid, mkA cls oth l c)
                                   | _, _ => None end) ns with
      | None => None
      | Some ans => Some (mkAdm g ans (map (fun x : vedge => let '(a, b, cls, oth, _) := x in ((a, b), (cls, oth))) es))
      end
  end.

(* comparable forms *)
Definition qnode := (N * N * list (N * N) * list N * option (N * N) * option (N * N))%type.
Fixpoint insN (x : N) (l : list N) : list N :=
  match l with [] => [x] | y :: r => if x <=? y then x :: l else y :: insN x r end.
Definition sortN (l : list N) : list N := fold_right insN [] l.
Definition qdel (d : dval) : option (option (N * N)) :=
  match d with DAbs => Some None | DStr0 => Some None | DDict [(g, c)] => Some (Some (g, c)) | _ => None end.
Definition qnode_of_vnode (x : vnode) : option qnode :=
  let '(nid, cls, oth, si, ld, cd) := x in
  match si, qdel ld, qdel cd with
  | SIds l, Some l', Some c' => Some (nid, cls, oth, sortN l, l', c')
  | _, _, _ => None
  end.
Fixpoint ins_q (x : qnode) (l : list qnode) : list qnode :=
  match l with
  | [] => [x]
  | y :: r => let '(kx, _, _, _, _, _) := x in let '(ky, _, _, _, _, _) := y in
              if kx <=? ky then x :: l else y :: ins_q x r
  end.
Definition qnodes_of_cbm (C : cbm) : list qnode :=
  fold_right ins_q [] (map (fun kc => (fst kc, c_cls (snd kc), c_oth (snd kc), sortN (c_con (snd kc)),
                                        c_ld (snd kc), c_cd (snd kc))) (Cbm14Spec.nodes C)).
Definition vedges_of_cbm (C : cbm) : list vedge :=
  sort_edges (map (fun kd => (fst (fst kd), snd (fst kd), fst (snd kd), snd (snd kd), false))
                  (Cbm14Spec.edges C)).

Definition opt_pair_eqb (a b : option (N * N)) : bool :=
  match a, b with None, None => true | Some x, Some y => pair_eqb x y | _, _ => false end.
Definition qnode_eqb (x y : qnode) : bool :=
  let '(a1, b1, c1, d1, e1, f1) := x in let '(a2, b2, c2, d2, e2, f2) := y in
  (a1 =? a2) && (b1 =? b2) && leqb pair_eqb c1 c2 && leqb N.eqb d1 d2 && opt_pair_eqb e1 e2 && opt_pair_eqb f1 f2.

(* does the abstract combined model describe the recorded snapshot? (an empty model = no graph) *)
Definition cbm_matches (C : cbm) (v : view) : bool :=
  match v with
  | None => match Cbm14Spec.nodes C with [] => true | _ => false end
  | Some (ns, es) =>
      match mapM qnode_of_vnode ns with
      | None => false
      | Some qs => leqb qnode_eqb (qnodes_of_cbm C) qs && leqb vedge_eqb (vedges_of_cbm C) es
      end
  end.

Definition is_empty (C : cbm) : bool := match Cbm14Spec.nodes C with [] => true | _ => false end.
Fixpoint spec_hist (adms : list (N * adm)) (s : hstate) (h : list (op * obs)) : bool :=
  match h with
  | [] => true
  | (o, ob) :: r =>
      let '(rc, vc, _, _, _) := ob in
      match o with
      | OpMerge g _ =>
          match getn g adms with
          | None => true
          | Some A =>
              if Cbm14Spec.mem g (map adm_id (h_ms s)) then true else
              match smerge (h_cur s) A with
              | None => negb (rc =? 0)
              | Some C => (rc =? 0) && cbm_matches C vc
                          && spec_hist adms (hstep s (HMerge A)) r
              end
          end
      | OpUnmerge g =>
          if is_empty (h_cur s) then true else
          let s' := hstep s (HUnmerge g) in
          (rc =? 0) && cbm_matches (h_cur s') vc && spec_hist adms s' r
      | OpSnap id =>
          if is_empty (h_cur s) || hasn id (h_snaps s) then true else
          (rc =? 0) && cbm_matches (h_cur s) vc && spec_hist adms (hstep s (HSnap id)) r
      | OpRollback id =>
          match getn id (h_snaps s) with
          | None => true
          | Some _ => let s' := hstep s (HRollback id) in
                      (rc =? 0) && cbm_matches (h_cur s') vc && spec_hist adms s' r
          end
      end
  end.

Definition spec_case (c : case) : bool :=
  let '(st, _, gs, hs) := c in
  let adms := flat_map (fun g => match adm_of_view g (view_of g st) with Some A => [(g, A)] | None => [] end) gs in
  forallb (spec_hist adms hinit) hs.

(* the initial store satisfies the (decidable) invariant of the refinement theorems and holds no combined graph yet *)
Definition refine_hyp (c : case) : bool :=
  let '(st, cbm, gs, _) := c in
  rgoodb cbm st && negb (gexists cbm st) &&
  (* full refinement: every well-formed source is mergeable (well-formed abstraction, no self-loop) *)
  forallb (fun g => match adm_of_view g (view_of g st) with Some _ => mergeableb g st | None => true end) gs.

Definition check_case_both (c : case) : bool := check_case c && spec_case c && refine_hyp c.

(* with the recorded orders of the common nodes: refused merges are replayed with their partial effects *)
Definition check_ocase_both (c : ocase) : bool := check_ocase c && spec_case (fst c) && refine_hyp (fst c).
(* families produced by the real partitioner: any two partitions describe a common node / connection identically *)
Definition partition_domain (c : case) : bool :=
  let '(st, _, gs, _) := c in
  forallb (fun g => forallb (fun h => (g =? h) || compatibleb (abs_adm g st) (abs_adm h st)) gs) gs.
Definition check_ocase_part (c : ocase) : bool := check_ocase_both c && partition_domain (fst c).

(* C19 correspondence checks (evaluated by the generated cases files with vm_compute).
   A statement record = what the stand-in driver saw for one session.run call of the real code:
     (template id chosen from the call site, values of the template's holes read from the caller's frame,
      statement text, keyword names, verdict of the independent python checker on that text). *)
From Coq Require Import List NArith Bool.
Import ListNotations.
From FIM Require Import Base.Str Model.Cypher19 Gen.Cypher.
Open Scope N_scope.

Definition verdict := (bool * list str * list str * list str)%type.   (* structure ok, $names, uses, binds *)
Definition stmt_rec := (N * list str * str * list str * verdict)%type.

Definition set_eqb (a b : list str) : bool := subset a b && subset b a.

Definition verdict_agrees (text : str) (v : verdict) : bool :=
  let '(pst, pps, pus, pbs) := v in
  match final_state text with
  | None => negb pst
  | Some s =>
      match s_mode s, s_stack s with
      | MNorm, [] => pst && set_eqb (s_params s) pps && set_eqb (s_uses s) pus && set_eqb (s_binds s) pbs
      | _, _ => negb pst
      end
  end.

Definition py_wf_of (v : verdict) (kws : list str) : bool :=
  let '(pst, pps, pus, pbs) := v in pst && subset pps kws && subset pus pbs.

Definition find_tmpl (tid : N) : option tmpl := find (fun t => t_id t =? tid) gen_templates.

Definition check_rec (r : stmt_rec) : bool :=
  let '(tid, el, text, kws, v) := r in
  match find_tmpl tid with
  | None => false
  | Some t =>
      let e := env_of_list el in
      str_eqb (render (t_frags t) e) text                      (* the translator's fragments are what the code computes *)
      && t_params_known t && set_eqb (t_params t) kws           (* and the keyword set is the one it read *)
      && verdict_agrees text v                                  (* model scanner = independent checker *)
      && Bool.eqb (wf_b text kws) (py_wf_of v kws)
      && implb (tmpl_ok t && idents_okb (t_frags t) e) (wf_b text kws)   (* instance of C19_sound *)
  end.

Definition check_recs (l : list stmt_rec) : bool := forallb check_rec l.

Definition check_text (x : str * list str * verdict) : bool :=
  let '(text, kws, v) := x in verdict_agrees text v && Bool.eqb (wf_b text kws) (py_wf_of v kws).

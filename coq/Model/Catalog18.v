(* C18 model: InstanceCatalog.map_capacities_to_instance / get_instance_capacities
   (fim/slivers/instance_catalog.py:60-87) and ComponentCatalog.generate_component /
   populate_catalog_models_and_types (fim/slivers/component_catalog.py:65-184, 232-254), over the tables
   REGENERATED from the two JSON resource files (Gen/Catalog.v).  Definitions only; proofs in
   Proofs/Catalog18*.v.  `None` / `Err` are the explicit error branches (never totalised away). *)
From Coq Require Import List ZArith NArith Bool String.
From FIM Require Import Base.Str Base.Corr Base.PySort Gen.Catalog.
Import ListNotations.
Open Scope Z_scope.

(* ------------------------------------------------------------------------------------------ *)
(* instance sizes                                                                               *)
(* ------------------------------------------------------------------------------------------ *)
Definition caps3 : Type := (Z * Z * Z)%type.          (* core, ram, disk -- the only fields the catalogue sets *)
Definition inst_entry : Type := (str * caps3)%type.

Definition core (x : caps3) : Z := fst (fst x).
Definition ram (x : caps3) : Z := snd (fst x).
Definition disk (x : caps3) : Z := snd x.

(* the lambda of instance_catalog.py:81:  x.core >= cap.core and x.ram >= cap.ram and x.disk >= cap.disk *)
Definition fits (req x : caps3) : bool :=
  (core x >=? core req) && (ram x >=? ram req) && (disk x >=? disk req).

(* Capacities.__lt__ (capacities_labels.py:195): False as soon as one field of self is > the other's; on
   catalogue values only core/ram/disk can be non-zero.  NOT strict: clt3 a a = true. *)
Definition clt3 (a b : caps3) : bool :=
  negb (core a >? core b) && negb (ram a >? ram b) && negb (disk a >? disk b).

(* Capacities.__eq__ on catalogue values *)
Definition ceq3 (a b : caps3) : bool :=
  (core a =? core b) && (ram a =? ram b) && (disk a =? disk b).

(* list.index(x): position of the first element equal to x; None = ValueError *)
Fixpoint index_eq (x : caps3) (l : list caps3) : option nat :=
  match l with
  | [] => None
  | y :: r => if ceq3 y x then Some O else option_map Datatypes.S (index_eq x r)
  end.

Definition last_opt {A} (l : list A) : option A :=          (* l[-1]; None = IndexError *)
  match rev l with x :: _ => Some x | [] => None end.

Definition candidates (cat : list inst_entry) (req : caps3) : list caps3 :=
  filter (fits req) (map snd cat).

(* what the code does once the candidate list is known (sort, first, values.index, keys[...]) *)
Definition pick (cat : list inst_entry) (cands : list caps3) : option str :=
  let keys := map fst cat in
  let values := map snd cat in
  match cands with
  | [] => last_opt keys
  | _ => match py_sort_first clt3 cands with
         | Some c0 => match index_eq c0 values with
                      | Some i => nth_error keys i
                      | None => None
                      end
         | None => None                                   (* outside the modelled fragment of list.sort *)
         end
  end.

Definition map_caps (cat : list inst_entry) (req : caps3) : option str := pick cat (candidates cat req).

(* dict.get(instance_type, None) *)
Fixpoint get_caps (cat : list inst_entry) (name : str) : option caps3 :=
  match cat with
  | [] => None
  | (k, v) :: r => if str_eqb k name then Some v else get_caps r name
  end.

Definition catalogue : list inst_entry := inst_sizes.

(* -------- correspondence: one request -> [name, capacities of that name] -------- *)
Definition val_caps (c : caps3) : val := VLZ [core c; ram c; disk c].
Definition observe_inst_in (cat : list inst_entry) (req : caps3) : val :=
  match map_caps cat req with
  | Some n => VL [VS n; VOpt val_caps (get_caps cat n)]
  | None => VErr (S"model-None")
  end.
Definition observe_inst (req : caps3) : val := observe_inst_in catalogue req.
Definition check_inst (x : caps3 * val) : bool := val_eqb (observe_inst (fst x)) (snd x).

(* -------- correspondence of Base/PySort.v alone: comparator id, tagged triples, expected tag order ---- *)
Definition telem : Type := (caps3 * N)%type.
Definition cmp_of (id : N) (a b : telem) : bool :=
  let x := fst a in let y := fst b in
  match id with
  | 0%N => clt3 x y
  | 1%N => (core x <? core y) && (ram x <? ram y) && (disk x <? disk y)
  | 2%N => if core x <? core y then true else if core y <? core x then false
           else if ram x <? ram y then true else if ram y <? ram x then false
           else if disk x <? disk y then true else if disk y <? disk x then false
           else N.ltb (snd a) (snd b)
  | 3%N => core x <? core y
  | 4%N => core x <=? core y
  | _ => ((core x * 7 + ram y * 13 + disk x) mod 3) =? 0      (* an inconsistent "order" *)
  end.
Definition check_sort (x : (N * list telem) * list N) : bool :=
  let '((id, l), expected) := x in
  match py_sort (cmp_of id) l with
  | Some r => list_eqb N.eqb (map snd r) expected
  | None => false
  end.

(* ------------------------------------------------------------------------------------------ *)
(* components                                                                                   *)
(* ------------------------------------------------------------------------------------------ *)
Definition comp_entry : Type := comp_entry_t.
Definition e_model (e : comp_entry) : str := let '(m, _, _, _, _) := e in m.
Definition e_also (e : comp_entry) : list str := let '(_, a, _, _, _) := e in a.
Definition e_type (e : comp_entry) : str := let '(_, _, t, _, _) := e in t.
Definition e_details (e : comp_entry) : str := let '(_, _, _, d, _) := e in d.
Definition e_ifs (e : comp_entry) : option (list (str * Z)) := let '(_, _, _, _, i) := e in i.

Definition mem_str (s : str) (l : list str) : bool := existsb (str_eqb s) l.

(* the lookup loop, component_catalog.py:98-109 *)
Definition entry_matches (model ctype : str) (e : comp_entry) : bool :=
  (str_eqb model (e_model e) && str_eqb ctype (e_type e))
  || (mem_str model (e_also e) && str_eqb ctype (e_type e)).
Definition find_entry (cat : list comp_entry) (model ctype : str) : option comp_entry :=
  find (entry_matches model ctype) cat.

Inductive bdf_t := BNone | BStr (s : str) | BList (l : list str).
Record lab := { lab_bdf : bdf_t; lab_tag : N }.     (* tag: which caller object it is (the rest of the fields are opaque) *)
Inductive sel := ByTypeModel (ctype model : option str) | ByModelType (v : N).
Inductive idv := IdGiven (s : str) | IdFresh.        (* IdFresh: str(uuid.uuid4()) *)
Inductive localv := LStr (s : str) | LList (l : list str).
Record iface := { if_name : str; if_kind : option str; if_id : idv; if_tag : option N; if_bdf : bdf_t;
                  if_local : localv; if_unit : Z; if_bw : Z }.
Record nsv := { ns_id : idv; ns_name : str; ns_type : str; ns_layer : str; ns_ifs : list iface }.
Record comp := { c_name : str; c_model : str; c_type : option str; c_details : str; c_ns : option nsv }.
Inductive res (T : Type) := Ok (x : T) | Err (cls : str).
Arguments Ok {T} _.
Arguments Err {T} _.

(* ComponentSliver.type_from_str: the member whose str() equals the text, else None *)
Definition type_from_str (t : str) : option str := if mem_str t comp_types then Some t else None.
Definition is_type (ct : option str) (name : string) : bool :=
  match ct with Some t => str_eqb t (of_string name) | None => false end.

Definition kind_of (ct : option str) : option str :=
  if is_type ct "SmartNIC" || is_type ct "FPGA" then Some (S"DedicatedPort")
  else if is_type ct "SharedNIC" then Some (S"SharedPort")
  else None.

Definition units_of (b : bdf_t) : Z :=                 (* len(lab.bdf) if isinstance(lab.bdf, list) else 1 *)
  match b with
  | BNone => 1
  | BStr _ => 1                                        (* a single address: one device *)
  | BList l => Z.of_nat (List.length l)
  end.
Definition local_of (b : bdf_t) (port : str) : localv :=
  match b with
  | BList l => LList (map (fun _ => port) l)
  | _ => LStr port
  end.

(* one pass of the interface loop, component_catalog.py:136-170, at position idx = id_index *)
Definition gen_iface (name : str) (ct : option str) (p : str * Z) (idx : nat)
           (ids : option (list str)) (labs : option (list lab)) : res iface :=
  let rid := match ids with
             | Some l => match nth_error l idx with Some i => Ok (IdGiven i) | None => Err (S"IndexError") end
             | None => Ok IdFresh
             end in
  match rid with
  | Err c => Err c
  | Ok id =>
    let rlab := match labs with
                | Some l => match nth_error l idx with
                            | Some lb => Ok (Some (lab_tag lb), lab_bdf lb)
                            | None => Err (S"IndexError")
                            end
                | None => Ok (None, BNone)
                end in
    match rlab with
    | Err c => Err c
    | Ok (tag, bdf) =>
        Ok {| if_name := name ++ S"-" ++ fst p; if_kind := kind_of ct; if_id := id; if_tag := tag;
              if_bdf := bdf; if_local := local_of bdf (fst p); if_unit := units_of bdf;
              if_bw := if is_type ct "SharedNIC" then 0 else snd p |}
    end
  end.

Fixpoint gen_ifaces (name : str) (ct : option str) (ports : list (str * Z)) (idx : nat)
         (ids : option (list str)) (labs : option (list lab)) : res (list iface) :=
  match ports with
  | [] => Ok []
  | p :: rest =>
      match gen_iface name ct p idx ids labs with
      | Err c => Err c
      | Ok i => match gen_ifaces name ct rest (Datatypes.S idx) ids labs with
                | Ok r => Ok (i :: r)
                | Err c => Err c
                end
      end
  end.

Definition gen_from_entry (e : comp_entry) (name : str) (nsid : option str) (ids : option (list str))
           (labs : option (list lab)) (parent : option str) : res comp :=
  let ct := type_from_str (e_type e) in
  match e_ifs e with
  | None => Ok {| c_name := name; c_model := e_model e; c_type := ct; c_details := e_details e; c_ns := None |}
  | Some ports =>
      let n := List.length ports in
      let len_check :=
        match ids with
        | None => Ok tt
        | Some l =>
            if negb (Nat.eqb (List.length l) n) then Err (S"RuntimeError")
            else match labs with
                 | None => Err (S"TypeError")                         (* len(None) *)
                 | Some ll => if negb (Nat.eqb (List.length ll) n) then Err (S"RuntimeError") else Ok tt
                 end
        end in
      match len_check with
      | Err c => Err c
      | Ok _ =>
        match gen_ifaces name ct ports 0 ids labs with
        | Err c => Err c
        | Ok ifs =>
          let fpga := is_type ct "FPGA" in
          let suffix := if fpga then S"-l2p4" else S"-l2ovs" in
          let ns := {| ns_id := match nsid with Some i => IdGiven i | None => IdFresh end;
                       ns_name := match parent with Some p => p ++ S"-" ++ name ++ suffix | None => name ++ suffix end;
                       ns_type := if fpga then S"P4" else S"OVS";
                       ns_layer := S"L2";
                       ns_ifs := ifs |} in
          Ok {| c_name := name; c_model := e_model e; c_type := ct; c_details := e_details e; c_ns := Some ns |}
        end
      end
  end.

(* generate_component.  Names are assumed to match the slivers' NAME_REGEX (set_name raises otherwise: C16). *)
Definition gen_component (cat : list comp_entry) (name : str) (s : sel) (nsid : option str)
           (ids : option (list str)) (labs : option (list lab)) (parent : option str) : res comp :=
  let key :=
    match s with
    | ByModelType v =>                                   (* ComponentModelTypeMap[model_type] = catalog[v-1] *)
        match (if (0 <? v)%N then nth_error cat (N.to_nat (v - 1)) else None) with
        | Some e => Ok (e_model e, e_type e)
        | None => Err (S"KeyError")
        end
    | ByTypeModel (Some ct) (Some m) => Ok (m, ct)
    | ByTypeModel _ _ => Err (S"RuntimeError")
    end in
  match key with
  | Err c => Err c
  | Ok (model, ctype) =>
      match find_entry cat model ctype with
      | None => Err (S"CatalogException")
      | Some e => gen_from_entry e name nsid ids labs parent
      end
  end.

(* -------- populate_catalog_models_and_types -------- *)
Definition massage (s : str) : str :=                   (* re.sub(r'[ -]', '_', name) *)
  map (fun c => if (N.eqb c 32 || N.eqb c 45)%bool then 95%N else c) s.
Definition type_model_name (e : comp_entry) : str := massage (e_type e) ++ S"_" ++ massage (e_model e).

Fixpoint dict_set (k : str) (v : N) (d : list (str * N)) : list (str * N) :=   (* d[k] = v *)
  match d with
  | [] => [(k, v)]
  | (k', v') :: r => if str_eqb k' k then (k', v) :: r else (k', v') :: dict_set k v r
  end.
Definition enum_dict (cat : list comp_entry) : list (str * N) :=
  fst (fold_left (fun st e => (dict_set (type_model_name e) (snd st) (fst st), N.succ (snd st))) cat ([], 1%N)).
(* members of ComponentModelType in definition order with the entry ComponentModelTypeMap gives them *)
Definition enum_members (cat : list comp_entry) : list (str * N * option comp_entry) :=
  map (fun kv => (fst kv, snd kv, nth_error cat (N.to_nat (snd kv - 1)))) (enum_dict cat).

(* -------- conversion to observation values -------- *)
Definition val_id (i : idv) : val := match i with IdGiven s => VS s | IdFresh => VNone end.
Definition val_bdf (b : bdf_t) : val := match b with BNone => VNone | BStr s => VS s | BList l => VLS l end.
Definition val_local (l : localv) : val := match l with LStr s => VS s | LList l => VLS l end.
Definition val_iface (i : iface) : val :=
  VL [VS (if_name i); VOpt VS (if_kind i); val_id (if_id i); VOpt (fun t => VZ (Z.of_N t)) (if_tag i);
      val_bdf (if_bdf i); val_local (if_local i); VZ (if_unit i); VZ (if_bw i)].
Definition val_ns (n : nsv) : val :=
  VL [val_id (ns_id n); VS (ns_name n); VS (ns_type n); VS (ns_layer n); VL (map val_iface (ns_ifs n))].
Definition val_comp (r : res comp) : val :=
  match r with
  | Err c => VErr c
  | Ok c => VL [VS (c_name c); VS (c_model c); VOpt VS (c_type c); VS (c_details c); VOpt val_ns (c_ns c)]
  end.

(* -------- what the CALLER sees: aliasing of the label objects --------
   generate_component does not copy the Labels objects it is handed: it attaches the caller's object to the
   interface and then stamps local_name INTO it (component_catalog.py:150-158).  lab_tag is the identity of the
   caller's object.  Consequences modelled here (and compared by the tie): after the call, an object carries the
   local_name of the LAST port it was handed to; every interface that shares it shows that value; the caller's
   own objects are modified -- also by a call that then raises IndexError on a too-short label list. *)
(* Whether the code does that is read from the source by the translator: Gen.Catalog.stamps_caller_labels (true = the
   caller's object is attached as is; false = a copy is attached, fix 356ad86).  The model follows either tree. *)

Definition set_local (i : iface) (l : localv) : iface :=
  {| if_name := if_name i; if_kind := if_kind i; if_id := if_id i; if_tag := if_tag i; if_bdf := if_bdf i;
     if_local := l; if_unit := if_unit i; if_bw := if_bw i |}.

(* the port whose name the object with tag t carries after the loop: the last port it was handed to *)
Definition owner_port (pnames : list str) (labs : list lab) (t : N) : option str :=
  last_opt (map fst (filter (fun pl => N.eqb (lab_tag (snd pl)) t) (combine pnames labs))).

Fixpoint mapi_from {X Y} (f : nat -> X -> Y) (j : nat) (l : list X) : list Y :=
  match l with [] => [] | x :: r => f j x :: mapi_from f (Datatypes.S j) r end.

Definition alias_iface (pnames : list str) (labs : list lab) (j : nat) (i : iface) : iface :=
  match nth_error labs j with
  | Some lb => match owner_port pnames labs (lab_tag lb) with
               | Some pn => set_local i (local_of (if_bdf i) pn)
               | None => i
               end
  | None => i
  end.

Definition sel_ports (cat : list comp_entry) (s : sel) : option (list (str * Z)) :=
  let key := match s with
             | ByModelType v => match (if (0 <? v)%N then nth_error cat (N.to_nat (v - 1)) else None) with
                                | Some e => Some (e_model e, e_type e) | None => None end
             | ByTypeModel (Some ct) (Some m) => Some (m, ct)
             | ByTypeModel _ _ => None
             end in
  match key with
  | Some (m, ct) => match find_entry cat m ct with Some e => e_ifs e | None => None end
  | None => None
  end.

Definition alias_comp (pnames : list str) (labs : list lab) (c : comp) : comp :=
  {| c_name := c_name c; c_model := c_model c; c_type := c_type c; c_details := c_details c;
     c_ns := match c_ns c with
             | Some ns => Some {| ns_id := ns_id ns; ns_name := ns_name ns; ns_type := ns_type ns; ns_layer := ns_layer ns;
                                  ns_ifs := mapi_from (alias_iface pnames labs) 0 (ns_ifs ns) |}
             | None => None
             end |}.

(* the component as the caller sees it when the call returns *)
Definition gen_component_seen_with (stamps : bool) (cat : list comp_entry) (name : str) (s : sel) (nsid : option str)
           (ids : option (list str)) (labs : option (list lab)) (parent : option str) : res comp :=
  match gen_component cat name s nsid ids labs parent, labs, sel_ports cat s with
  | Ok c, Some l, Some ports => if stamps then Ok (alias_comp (map fst ports) l c) else Ok c
  | r, _, _ => r
  end.
Definition gen_component_seen := gen_component_seen_with stamps_caller_labels.

(* local_name of each label object the caller handed over, after the call (None = untouched) *)
Definition caller_labels_after_with (stamps : bool) (cat : list comp_entry) (name : str) (s : sel) (nsid : option str)
           (ids : option (list str)) (labs : option (list lab)) (parent : option str) : list (option localv) :=
  match labs, sel_ports cat s with
  | Some l, Some ports =>
      let stamped := match gen_component cat name s nsid ids labs parent with
                     | Ok _ => true
                     | Err c => str_eqb c (S"IndexError")
                     end in
      map (fun lb => if stamps && stamped
                     then option_map (local_of (lab_bdf lb)) (owner_port (map fst ports) l (lab_tag lb))
                     else None) l
  | Some l, None => map (fun _ => None) l
  | None, _ => []
  end.

Definition caller_labels_after := caller_labels_after_with stamps_caller_labels.

Definition comp_case : Type :=
  (str * sel * option str * option (list str) * option (list lab) * option str)%type.
Definition obs_gen (cat : list comp_entry) (c : comp_case) : val :=
  let '(name, s, nsid, ids, labs, parent) := c in
  VL [val_comp (gen_component_seen cat name s nsid ids labs parent);
      VL (map (VOpt val_local) (caller_labels_after cat name s nsid ids labs parent))].
Definition check_comp (x : comp_case * val) : bool := val_eqb (obs_gen comp_catalog (fst x)) (snd x).

Definition val_member (m : str * N * option comp_entry) : val :=
  let '(k, v, e) := m in
  VL [VS k; VZ (Z.of_N v); VOpt (fun e => VL [VS (e_model e); VS (e_type e)]) e].
Definition check_enum (x : unit * val) : bool :=
  val_eqb (VL (map val_member (enum_members comp_catalog))) (snd x).

(* -------- component_details / search_catalog (component_catalog.py:186-222) -------- *)
(* component_details: the loop has no break -- the LAST entry whose Model equals wins *)
Definition component_details (cat : list comp_entry) (model : str) : res str :=
  match last_opt (filter (fun e => str_eqb model (e_model e)) cat) with
  | Some e => Ok (e_details e)
  | None => Err (S"CatalogException")
  end.

Fixpoint dict_set_s (k v : str) (d : list (str * str)) : list (str * str) :=      (* d[k] = v *)
  match d with
  | [] => [(k, v)]
  | (k', v') :: r => if str_eqb k' k then (k', v) :: r else (k', v') :: dict_set_s k v r
  end.

(* search_catalog: {Model: Details} of the entries whose Type is str(ctype), in catalogue order *)
Definition search_catalog (cat : list comp_entry) (t : str) : res (list (str * str)) :=
  match filter (fun e => str_eqb t (e_type e)) cat with
  | [] => Err (S"CatalogException")
  | l => Ok (fold_left (fun d e => dict_set_s (e_model e) (e_details e) d) l [])
  end.

Definition val_lookup (k : N) (arg : str) : val :=
  match k with
  | 0%N => match component_details comp_catalog arg with Ok d => VS d | Err c => VErr c end
  | _ => match search_catalog comp_catalog arg with
         | Ok d => VL (map (fun kv => VL [VS (fst kv); VS (snd kv)]) d)
         | Err c => VErr c
         end
  end.
Definition check_lookup (x : (N * str) * val) : bool := val_eqb (val_lookup (fst (fst x)) (snd (fst x))) (snd x).

(* ------------------------------------------------------------------------------------------ *)
(* histories of calls                                                                           *)
(* ------------------------------------------------------------------------------------------ *)
(* The only state the two catalogue classes keep between calls is the parsed resource files (class-level
   caches).  A history is a sequence of calls; between calls the caller may modify IN PLACE anything it holds:
   the request object it passed, the id / label lists, every object an earlier call returned (OpSkip: not an
   operation of the catalogues).  hstep threads the state explicitly so that "no state leaks between calls"
   is a statement about this model (Proofs/Catalog18Hist.v) and the `history` stream compares whole histories. *)
Record cstate := { s_inst : list inst_entry; s_comp : list comp_entry }.
Inductive hop := OpMap (req : caps3) | OpGen (c : comp_case) | OpSkip.

Definition gen_case_val (cat : list comp_entry) (c : comp_case) : val := obs_gen cat c.

Definition hstep (s : cstate) (o : hop) : cstate * val :=
  match o with
  | OpMap r => (s, observe_inst_in (s_inst s) r)
  | OpGen c => (s, gen_case_val (s_comp s) c)
  | OpSkip => (s, VNone)
  end.

Fixpoint hrun (s : cstate) (ops : list hop) : cstate * list val :=
  match ops with
  | [] => (s, [])
  | o :: r => let '(s1, v) := hstep s o in let '(s2, vs) := hrun s1 r in (s2, v :: vs)
  end.

Definition init_state : cstate := {| s_inst := catalogue; s_comp := comp_catalog |}.

Definition check_hist (x : list hop * list val) : bool :=
  list_eqb val_eqb (snd (hrun init_state (fst x))) (snd x).

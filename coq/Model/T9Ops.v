(* C09 - the topology-building calls of fim/user/{topology,node,network_service,interface,link,component}.py
   as state-and-exception monadic programs that keep the ORDER of the checks and of the primitive graph
   mutations of the code.  Effects before a raise stay in the state.  Definitions only.

   What is an INPUT of the model rather than modelled: the verdict of the pure sliver construction for the
   non-name arguments (set_type/set_site/set_properties(kwargs) on a sliver object that is not yet in the
   graph): `pure : option exn`, computed by the harness by building the sliver alone.  The model fixes WHERE
   in the sequence of checks and mutations that verdict is raised.  Names are validated by the model
   itself with the regenerated NAME_REGEX rules (Gen/T9Names.v). *)
From Coq Require Import List NArith ZArith Bool.
From FIM Require Import Base.Str Gen.T9Names Model.T9Graph.
Import ListNotations.
Open Scope N_scope.

Inductive flavour := Experiment | Substrate.
Definition is_substrate (f : flavour) : bool := match f with Substrate => true | Experiment => false end.

(* ---------------------------------------------------------------- names *)
Definition is_word_ascii (c : N) : bool :=
  ((48 <=? c) && (c <=? 57)) || ((65 <=? c) && (c <=? 90)) || ((97 <=? c) && (c <=? 122)) || (c =? 95).

(* re.fullmatch('^[..]{lo,hi}$', s) for ASCII s (non-ASCII code points are outside the modelled domain
   and are rejected here; the generator only produces ASCII names) *)
Definition name_ok (r : name_rule) (s : str) : bool :=
  Nat.leb (nr_lo r) (length s) && Nat.leb (length s) (nr_hi r)
  && forallb (fun c => (nr_word r && is_word_ascii c) || existsb (N.eqb c) (nr_extra r)) s.

Definition dash : str := [45].
Definition suffix_link : str := [45; 108; 105; 110; 107].          (* "-link" *)
Definition suffix_ns : str := [45; 110; 115].                      (* "-ns" *)
Definition suffix_int : str := [45; 105; 110; 116].                (* "-int" *)

(* ---------------------------------------------------------------- handles *)
(* an Interface object held by the caller: node id + the name cached in the object *)
Record iface_h := mkIface { ih_id : N; ih_name : str }.

(* ---------------------------------------------------------------- views used by the uniqueness checks *)
(* Topology._list_nodes().keys(): names of the NetworkNode-class nodes that are not facilities *)
Definition list_node_names (g : graph) : list str :=
  map nname (filter (fun n => (ncls n =? cNN) && negb (ntype n =? tFacility)) (gnodes g)).
Definition list_link_names (g : graph) : list str :=
  map nname (filter (fun n => ncls n =? cLink) (gnodes g)).

(* Node.__list_components(): get_all_network_node_components(parent) *)
Definition component_names (g : graph) (pn : N) : res (list str) :=
  match node_cls g pn with
  | Err e => Err e
  | Ok c => if c =? cNN then
              match first_neighbor g pn rHas cComp with Err e => Err e | Ok l => Ok (names_of g l) end
            else Err EQuery
  end.
(* Node.__list_network_services(): get_all_network_node_or_component_nss(parent) *)
Definition node_service_names (g : graph) (pn : N) : res (list str) :=
  match node_cls g pn with
  | Err e => Err e
  | Ok c => if (c =? cNN) || (c =? cComp) then
              match first_neighbor g pn rHas cNS with Err e => Err e | Ok l => Ok (names_of g l) end
            else Err EQuery
  end.
(* the _interfaces list of a NetworkService handle made just now: get_all_ns_or_link_connection_points *)
Definition service_iface_names (g : graph) (ns : N) : res (list str) :=
  match node_cls g ns with
  | Err e => Err e
  | Ok c => if (c =? cLink) || (c =? cNS) then
              match first_neighbor g ns rConnects cCP with Err e => Err e | Ok l => Ok (names_of g l) end
            else Err EQuery
  end.

(* ---------------------------------------------------------------- ownership (Topology.get_owner_node) *)
(* get_parent_element(Interface): a sub-interface's parent is a ConnectionPoint, any other interface's
   parent is a NetworkService; none (or several) -> TopologyException *)
Inductive parent_of_iface := PService (ns : N) | PIface (cp : N).

Definition iface_parent (g : graph) (e : N) : res parent_of_iface :=
  match node_type g e with
  | Err x => Err x
  | Ok t =>
    if t =? tSubInterface then
      match get_parent g e rConnects cCP with
      | Err x => Err x | Ok None => Err ETopology | Ok (Some p) => Ok (PIface p) end
    else
      match get_parent g e rConnects cNS with
      | Err x => Err x | Ok None => Err ETopology | Ok (Some p) => Ok (PService p) end
  end.

(* get_owner_node(NetworkService): via a Component (then the component's NetworkNode, which must exist),
   else a NetworkNode, else a CompositeNode, else None *)
Definition service_owner (g : graph) (ns : N) : res (option N) :=
  match get_parent g ns rHas cComp with
  | Err x => Err x
  | Ok (Some c) =>
      match get_parent g c rHas cNN with
      | Err x => Err x | Ok None => Err ETopology | Ok (Some n) => Ok (Some n) end
  | Ok None =>
      match get_parent g ns rHas cNN with
      | Err x => Err x
      | Ok (Some n) => Ok (Some n)
      | Ok None =>
          match get_parent g ns rHas cCN with
          | Err x => Err x | Ok o => Ok o end
      end
  end.

(* get_owner_node(Interface): recursion through parent interfaces; Python's recursion limit is the fuel *)
Fixpoint iface_owner (fuel : nat) (g : graph) (e : N) : res (option N) :=
  match fuel with
  | O => Err EOther
  | Datatypes.S f =>
    match iface_parent g e with
    | Err x => Err x
    | Ok (PService ns) => service_owner g ns
    | Ok (PIface p) => iface_owner f g p
    end
  end.

Definition owner_fuel (g : graph) : nat := Datatypes.S (length (gnodes g)).

(* ---------------------------------------------------------------- element constructors (etype NEW) *)

(* Interface(name, node_id, parent_node_id, etype=NEW, itype, kwargs)   fim/user/interface.py:63-83 *)
Definition new_interface (fl : flavour) (name : str) (node_id : option N) (parent : option N)
           (itype : option N) (pure : option exn) : M N :=
  guard (negb (is_substrate fl && match node_id with None => true | Some _ => false end)) ETopology ;;;
  id <- id_or_draw node_id ;;
  match itype with
  | None => raise ETopology
  | Some ty =>
      guard (name_ok rule_iface name) EValue ;;;
      opt_raise pure ;;;
      (* add_interface_sliver *)
      m_add_node (mkNode id cCP name ty 0) ;;;
      match parent with
      | Some p => m_add_edge p rConnects id
      | None => ret tt
      end ;;;
      ret id
  end.

(* Link(name, node_id, etype=NEW, interfaces, ltype, kwargs)    fim/user/link.py:66-93 and
   add_network_link_sliver: interfaces looked up, then the Link node, then one edge per interface *)
Definition new_link (fl : flavour) (name : str) (node_id : option N) (ltype : option N)
           (ifs : option (list iface_h)) (pure : option exn) : M N :=
  guard (negb (is_substrate fl && match node_id with None => true | Some _ => false end)) ETopology ;;;
  id <- id_or_draw node_id ;;
  match ltype with
  | None => raise ETopology
  | Some ty =>
    match ifs with
    | None | Some [] => raise ETopology
    | Some l =>
      guard (name_ok rule_link name) EValue ;;;
      opt_raise pure ;;;
      (* add_network_link_sliver (fix b5829c4): every interface is looked up before the Link node is added *)
      for_each l (fun i => _ <- ask (fun g => find_node g (ih_id i)) ;; ret tt) ;;;
      m_add_node (mkNode id cLink name ty 0) ;;;
      for_each l (fun i => m_add_edge id rConnects (ih_id i)) ;;;
      ret id
    end
  end.

(* ---------------------------------------------------------------- NetworkService: connect / disconnect *)

(* NetworkService.__service_guardrails *)
Definition guardrails (nstype : N) (i : iface_h) : M unit :=
  if nstype =? tL2PTP then
    ity <- ask (fun g => node_type g (ih_id i)) ;;
    guard (negb (ity =? tSharedPort)) ETopology
  else ret tt.

(* NetworkService.connect_interface   network_service.py:319-350 *)
Definition connect_interface (fl : flavour) (ns : N) (i : iface_h) : M unit :=
  (* fix 7b9c57b: the guardrails again, with the service type read back from the graph *)
  nsty <- ask (fun g => node_type g ns) ;;
  guardrails nsty i ;;;
  owner <- ask (fun g => iface_owner (owner_fuel g) g (ih_id i)) ;;
  match owner with
  | None => raise ETopology
  | Some on =>
      oname <- ask (fun g => node_name g on) ;;
      peers <- ask (fun g => peer_cps g (ih_id i)) ;;
      guard (match peers with [] => true | _ => false end) ETopology ;;;
      let pname := oname ++ dash ++ ih_name i in
      (* fix 8b1a93d: refuse before creating anything when the service already has an interface with the derived
         name, or a link with the derived link name exists *)
      cps <- ask (fun g => service_iface_names g ns) ;;
      guard (negb (str_in pname cps)) ETopology ;;;
      ltaken <- ask (fun g => Ok (name_taken g cLink (pname ++ suffix_link))) ;;
      guard (negb ltaken) ETopology ;;;
      p <- new_interface fl pname None (Some ns) (Some tServicePort) None ;;
      ity <- ask (fun g => node_type g (ih_id i)) ;;
      let lty := if ity =? tSharedPort then tL2Path else tPatch in
      _ <- new_link fl (pname ++ suffix_link) None (Some lty) (Some [i; mkIface p pname]) None ;;
      ret tt
  end.

Fixpoint dedupN (l : list N) : list N :=
  match l with [] => [] | x :: r => if existsb (N.eqb x) r then dedupN r else x :: dedupN r end.

(* ABCPropertyGraph.remove_cp_and_links(node_id, delete_parent=True)   abc_property_graph.py:1166-1202 *)
Definition remove_cp_and_links (x : N) : M unit :=
  parents <- ask (fun g => first_neighbor g x rConnects cCP) ;;
  extra <- ask (fun g =>
     (fix go (ps : list N) : res (list N) :=
        match ps with
        | [] => Ok []
        | p :: r =>
            match first_neighbor g p rConnects cCP with
            | Err e => Err e
            | Ok ch => match go r with
                       | Err e => Err e
                       | Ok acc => Ok (if Nat.eqb (length ch) 1 then p :: acc else acc)
                       end
            end
        end) parents) ;;
  let to_del := dedupN (x :: extra) in
  links <- ask (fun g =>
     (fix go (is : list N) : res (list N) :=
        match is with
        | [] => Ok []
        | i :: r =>
            match first_neighbor g i rConnects cLink with
            | Err e => Err e
            | Ok ls =>
                match (fix go2 (ls : list N) : res (list N) :=
                         match ls with
                         | [] => Ok []
                         | l :: r2 =>
                             match first_neighbor g l rConnects cCP with
                             | Err e => Err e
                             | Ok cps => match go2 r2 with
                                         | Err e => Err e
                                         | Ok acc => Ok (if Nat.eqb (length cps) 2 then l :: acc else acc)
                                         end
                             end
                         end) ls with
                | Err e => Err e
                | Ok a => match go r with Err e => Err e | Ok b => Ok (a ++ b) end
                end
            end
        end) to_del) ;;
  for_each (dedupN (to_del ++ links)) m_delete_node.

(* NetworkService.disconnect_interface   network_service.py:352-372: only a ServicePort peer
   (interface.get_peers(itype=ServicePort)) is removed *)
Definition is_service_port (g : graph) (p : N) : bool :=
  match find_nodes g p with n :: _ => ntype n =? tServicePort | [] => false end.

Definition disconnect_interface (i : iface_h) : M unit :=
  peers <- ask (fun g => peer_cps g (ih_id i)) ;;
  sps <- ask (fun g => Ok (filter (is_service_port g) peers)) ;;
  match sps with
  | [] => ret tt
  | [p] => remove_cp_and_links p
  | _ => raise ETopology
  end.

(* ABCPropertyGraph.remove_ns_with_cps_and_links   abc_property_graph.py:1148-1164 *)
Definition remove_ns_with_cps_and_links (ns : N) : M unit :=
  c <- ask (fun g => node_cls g ns) ;;
  guard (c =? cNS) EQuery ;;;
  ifs <- ask (fun g => first_neighbor g ns rConnects cCP) ;;
  m_delete_node ns ;;;
  for_each ifs remove_cp_and_links.

(* the interface loop of NetworkService.__init__ (network_service.py:100-119, fix 16ce105): per interface
   try: guardrails; connect; remember   except Exception: disconnect the remembered ones, remove the service
   (with any ServicePort a half-finished connect left on it), re-raise the same class of exception *)
Definition rollback_service (ns : N) (done : list iface_h) (e : exn) : M unit :=
  for_each done disconnect_interface ;;;
  remove_ns_with_cps_and_links ns ;;;
  raise e.

Fixpoint connect_all (fl : flavour) (ns nstype : N) (todo done : list iface_h) : M unit :=
  match todo with
  | [] => ret tt
  | i :: r =>
      catch_any (guardrails nstype i ;;; connect_interface fl ns i) (rollback_service ns done) ;;;
      connect_all fl ns nstype r (done ++ [i])
  end.

(* NetworkService(name, node_id, topo, etype=NEW, parent_node_id, interfaces, nstype, kwargs) *)
Definition new_service (fl : flavour) (name : str) (node_id : option N) (parent : option N)
           (nstype : option N) (ifs : list iface_h) (pure : option exn) : M N :=
  id <- id_or_draw node_id ;;
  match nstype with
  | None => raise ETopology
  | Some ty =>
      guard (name_ok rule_svc name) EValue ;;;
      opt_raise pure ;;;
      (* add_network_service_sliver: slice-wide services must have unique names *)
      match parent with
      | None => taken <- ask (fun g => Ok (name_taken g cNS name)) ;; guard (negb taken) EQuery
      | Some _ => ret tt
      end ;;;
      m_add_node (mkNode id cNS name ty 0) ;;;
      match parent with
      | Some p => m_add_edge p rHas id
      | None => ret tt
      end ;;;
      connect_all fl id ty ifs [] ;;;
      ret id
  end.

(* ABCPropertyGraph.remove_component_with_nss_cps_and_links / remove_network_node_with_components_nss_cps_and_links
   abc_property_graph.py:1086-1136 *)
Definition remove_component_with_nss (c : N) : M unit :=
  k <- ask (fun g => node_cls g c) ;;
  guard (k =? cComp) EQuery ;;;
  nss <- ask (fun g => first_neighbor g c rHas cNS) ;;
  m_delete_node c ;;;
  for_each nss remove_ns_with_cps_and_links.

Definition remove_network_node_with_all (n : N) : M unit :=
  k <- ask (fun g => node_cls g n) ;;
  guard (k =? cNN) EQuery ;;;
  comps <- ask (fun g => first_neighbor g n rHas cComp) ;;
  for_each comps remove_component_with_nss ;;;
  nss <- ask (fun g => first_neighbor g n rHas cNS) ;;
  m_delete_node n ;;;
  for_each nss remove_ns_with_cps_and_links.

(* ---------------------------------------------------------------- the calls *)

(* Topology.add_node -> Node(etype=NEW)     topology.py:187-212, node.py:85-110 *)
Definition op_add_node (fl : flavour) (name : str) (node_id : option N) (ntype : option N)
           (pure : option exn) : M N :=
  names <- ask (fun g => Ok (list_node_names g)) ;;
  guard (negb (str_in name names)) ETopology ;;;
  guard (negb (is_substrate fl && match node_id with None => true | Some _ => false end)) ETopology ;;;
  id <- id_or_draw node_id ;;
  match ntype with
  | None => raise ETopology
  | Some ty =>
      guard (name_ok rule_node name) EValue ;;;
      opt_raise pure ;;;
      (* add_network_node_sliver *)
      taken <- ask (fun g => Ok (name_taken g cNN name)) ;;
      guard (negb taken) EQuery ;;;
      m_add_node (mkNode id cNN name ty 0) ;;;
      ret id
  end.

(* Topology.add_network_service *)
Definition op_add_service (fl : flavour) (name : str) (node_id : option N) (nstype : option N)
           (ifs : list iface_h) (pure : option exn) : M N :=
  new_service fl name node_id None nstype ifs pure.

(* Node.add_network_service (fresh Node handle pn) *)
Definition op_add_node_service (fl : flavour) (pn : N) (name : str) (node_id : option N)
           (nstype : option N) (pure : option exn) : M N :=
  names <- ask (fun g => node_service_names g pn) ;;
  guard (negb (str_in name names)) ETopology ;;;
  new_service fl name node_id (Some pn) nstype [] pure.

(* NetworkService.add_interface on a handle whose cached interface names are `cached` *)
Definition add_interface_cached (fl : flavour) (ns : N) (cached : list str) (name : str)
           (node_id : option N) (itype : option N) (pure : option exn) : M N :=
  guard (negb (str_in name cached)) ETopology ;;;
  new_interface fl name node_id (Some ns) itype pure.

(* proposed_fixes/C09-8.patch: add_interface_sliver looks the parent up before it adds the ConnectionPoint node *)
Definition new_interface_pc (fl : flavour) (name : str) (node_id : option N) (p : N)
           (itype : option N) (pure : option exn) : M N :=
  guard (negb (is_substrate fl && match node_id with None => true | Some _ => false end)) ETopology ;;;
  id <- id_or_draw node_id ;;
  match itype with
  | None => raise ETopology
  | Some ty =>
      guard (name_ok rule_iface name) EValue ;;;
      opt_raise pure ;;;
      _ <- ask (fun g => find_node g p) ;;
      m_add_node (mkNode id cCP name ty 0) ;;;
      m_add_edge p rConnects id ;;;
      ret id
  end.

(* NetworkService.add_interface on ANY handle (possibly a stale one of a removed service): the uniqueness check
   uses the names cached in the handle, nothing is read from the graph before the Interface constructor.
   `parent_check`: does the running library have C09-8 (read off the source of add_interface_sliver)? *)
Definition add_interface_h (parent_check : bool) (fl : flavour) (ns : N) (cached : list str) (name : str)
           (node_id : option N) (itype : option N) (pure : option exn) : M N :=
  guard (negb (str_in name cached)) ETopology ;;;
  if parent_check then new_interface_pc fl name node_id ns itype pure
  else new_interface fl name node_id (Some ns) itype pure.

(* the same through a handle obtained from the views just before the call *)
Definition op_add_interface (fl : flavour) (ns : N) (name : str) (node_id : option N)
           (itype : option N) (pure : option exn) : M N :=
  cached <- ask (fun g => service_iface_names g ns) ;;
  add_interface_cached fl ns cached name node_id itype pure.

(* Topology.add_link *)
Definition op_add_link (fl : flavour) (name : str) (node_id : option N) (ltype : option N)
           (ifs : option (list iface_h)) (pure : option exn) : M N :=
  names <- ask (fun g => Ok (list_link_names g)) ;;
  guard (negb (str_in name names)) ETopology ;;;
  new_link fl name node_id ltype ifs pure.

(* Node.add_component -> Component(etype=NEW) -> add_component_sliver   node.py:272-300,
   component.py:78-110, abc_property_graph.py:1242-1259.
   `cat`: what ComponentCatalog.generate_component returns for the arguments (or the exception it raises):
   component type and, for components with ports, the network service and interface slivers
   (name, type, caller-supplied id if any). *)
Record child_if := mkChildIf { ci_name : str; ci_type : N; ci_id : option N }.
Record child_ns := mkChildNs { cn_name : str; cn_type : N; cn_id : option N; cn_ifs : list child_if }.
Record comp_spec := mkCompSpec { cs_type : N; cs_child : option child_ns }.

Fixpoint draw_if_ids (l : list child_if) : M (list (child_if * N)) :=
  match l with
  | [] => ret []
  | c :: r => id <- id_or_draw (ci_id c) ;; rest <- draw_if_ids r ;; ret ((c, id) :: rest)
  end.

(* proposed_fixes/C09-6.patch: add_component_sliver first checks that the parent exists and that every id it is going
   to add (component, child service, child interfaces) is new and pairwise distinct; `precheck` tells whether the
   running library does that (read off its source by the harness) *)
Definition sliver_ids (id : N) (drawn : option (child_ns * N * list (child_if * N))) : list N :=
  id :: match drawn with Some (_, nsid, ifs) => nsid :: map snd ifs | None => [] end.
Definition ids_new (g : graph) (l : list N) : bool :=
  nodupN l && forallb (fun x => negb (has_node g x)) l.

Definition op_add_component (precheck : bool) (fl : flavour) (pn : N) (name : str) (node_id : option N)
           (spec_given : bool) (nic_ctype : bool) (sub_ids_given : bool)
           (cat : res comp_spec) (pure : option exn) : M N :=
  names <- ask (fun g => component_names g pn) ;;
  guard (negb (str_in name names)) ETopology ;;;
  guard (negb (is_substrate fl && match node_id with None => true | Some _ => false end)) ETopology ;;;
  id <- id_or_draw node_id ;;
  guard spec_given ETopology ;;;
  guard (negb (is_substrate fl && nic_ctype && negb sub_ids_given)) ETopology ;;;
  _ <- ask (fun g => node_name g pn) ;;
  match cat with
  | Err e => raise e
  | Ok spec =>
      (* the catalogue draws the interface ids, then the service id *)
      drawn <- match cs_child spec with
               | None => ret None
               | Some ch => ifs <- draw_if_ids (cn_ifs ch) ;; nsid <- id_or_draw (cn_id ch) ;;
                            ret (Some (ch, nsid, ifs))
               end ;;
      opt_raise pure ;;;
      (* add_component_sliver *)
      (if precheck
       then _ <- ask (fun g => find_node g pn) ;;
            ok <- ask (fun g => Ok (ids_new g (sliver_ids id drawn))) ;;
            guard ok EQuery
       else ret tt) ;;;
      m_add_node (mkNode id cComp name (cs_type spec) 0) ;;;
      m_add_edge pn rHas id ;;;
      match drawn with
      | None => ret tt
      | Some (ch, nsid, ifs) =>
          (* add_network_service_sliver(parent = component) *)
          m_add_node (mkNode nsid cNS (cn_name ch) (cn_type ch) 0) ;;;
          m_add_edge id rHas nsid ;;;
          for_each ifs (fun ci =>
             m_add_node (mkNode (snd ci) cCP (ci_name (fst ci)) (ci_type (fst ci)) 0) ;;;
             m_add_edge nsid rConnects (snd ci))
      end ;;;
      ret id
  end.

(* Topology.add_facility   topology.py:245-281: node, then its service, then the port(s); the handle `facs`
   returned by add_network_service starts with an empty interface list and (fix 18a115a) learns the ports added
   through it, so a port name repeated in the list is refused.  Derived ids (node_id + '-ns', '-int', '-int<k>') are interned by the harness and
   handed over as `d_ns`, `d_int`, `d_intk` (k-th element for index k); WHICH index is used for which
   port is decided here, as in the code (iindex starts at 0 before the loop and is incremented). *)
Record fac_port := mkFacPort { fp_name : str; fp_pure : option exn }.

Fixpoint facility_ports (fl : flavour) (ns : N) (cached : list str) (ports : list fac_port) (with_id : bool)
         (d_intk : list N) (iindex : nat) : M unit :=
  match ports with
  | [] => ret tt
  | p :: r =>
      let nid := if with_id then Some (nth iindex d_intk 0) else None in
      _ <- add_interface_cached fl ns cached (fp_name p) nid (Some tFacilityPort) (fp_pure p) ;;
      facility_ports fl ns (cached ++ [fp_name p]) r with_id d_intk (Datatypes.S iindex)
  end.

Definition facility_tail (fl : flavour) (facn : N) (name : str) (with_id : bool) (d_ns d_int : N)
           (d_intk : list N) (nstype : N) (pure_ns : option exn)
           (ports : option (list fac_port)) (pure_single : option exn) : M unit :=
  facs <- op_add_node_service fl facn (name ++ suffix_ns) (if with_id then Some d_ns else None)
                              (Some nstype) pure_ns ;;
  match ports with
  | None | Some [] =>
      _ <- add_interface_cached fl facs [] (name ++ suffix_int) (if with_id then Some d_int else None)
                                (Some tFacilityPort) pure_single ;;
      ret tt
  | Some l => facility_ports fl facs [] l with_id d_intk 0
  end.

(* fix 2982a89: everything after add_node runs in a try; on any exception the facility node is removed with
   its service and ports and the exception is re-raised *)
Definition op_add_facility (fl : flavour) (name : str) (node_id : option N) (d_ns d_int : N)
           (d_intk : list N) (nstype : N) (pure_ns : option exn)
           (ports : option (list fac_port)) (pure_single : option exn) : M N :=
  let with_id := match node_id with Some _ => true | None => false end in
  facn <- op_add_node fl name node_id (Some tFacility) None ;;
  catch_any (facility_tail fl facn name with_id d_ns d_int d_intk nstype pure_ns ports pure_single)
            (fun e => remove_network_node_with_all facn ;;; raise e) ;;;
  ret facn.

(* Topology.add_switch   topology.py:305-336: node (type Switch), its service, then ports 'p1'..'p<nports>' with ids
   node_id + '-int<i>' (i from 1); same structure as add_facility.  `d_intk` holds the
   interned ids for i = 1, 2, ...; `pure_port` is the verdict of the port slivers (portlabels / portcapacities
   are the same objects for every port). *)
Definition tSwitch : N := 10.
Definition port_name (i : nat) : str := 112 :: str_of_Z (Z.of_nat i).       (* 'p' ++ str(i) *)

Fixpoint switch_ports (fl : flavour) (ns : N) (cached : list str) (n : nat) (i : nat) (with_id : bool)
         (d_intk : list N) (pure_port : option exn) : M unit :=
  match n with
  | O => ret tt
  | Datatypes.S n' =>
      let nid := if with_id then Some (nth (Nat.pred i) d_intk 0) else None in
      _ <- add_interface_cached fl ns cached (port_name i) nid (Some tDedicatedPort) pure_port ;;
      switch_ports fl ns (cached ++ [port_name i]) n' (Datatypes.S i) with_id d_intk pure_port
  end.

Definition switch_tail (fl : flavour) (sw : N) (name : str) (with_id : bool) (d_ns : N) (d_intk : list N)
           (nstype : N) (pure_ns : option exn) (nports : nat) (pure_port : option exn) : M unit :=
  sws <- op_add_node_service fl sw (name ++ suffix_ns) (if with_id then Some d_ns else None)
                             (Some nstype) pure_ns ;;
  switch_ports fl sws [] nports 1 with_id d_intk pure_port.

(* `rollback`: does Topology.add_switch wrap the steps after add_node in try/except that removes the node
   (proposed_fixes/C09-5.patch)?  The harness reads it off the source of the running library. *)
Definition op_add_switch (rollback : bool) (fl : flavour) (name : str) (node_id : option N) (d_ns : N)
           (d_intk : list N) (nstype : N) (pure_ns : option exn) (nports : nat) (pure_port : option exn) : M N :=
  let with_id := match node_id with Some _ => true | None => false end in
  sw <- op_add_node fl name node_id (Some tSwitch) None ;;
  (if rollback
   then catch_any (switch_tail fl sw name with_id d_ns d_intk nstype pure_ns nports pure_port)
                  (fun e => remove_network_node_with_all sw ;;; raise e)
   else switch_tail fl sw name with_id d_ns d_intk nstype pure_ns nports pure_port) ;;;
  ret sw.

(* NetworkService.peer(ns, kwargs)   network_service.py:409-424: a ServicePort on each of the two services
   (named '<self>-<other>' and '<other>-<self>', each checked against the interface names its handle cached
   when it was made, i.e. before the call) and an L2Path link between them - three steps. *)
Definition op_peer_h (pc : bool) (fl : flavour) (a : N) (an : str) (ca : list str) (b : N) (bn : str) (cb : list str)
           (pure : option exn) : M unit :=
  let n1 := an ++ dash ++ bn in
  let n2 := bn ++ dash ++ an in
  i1 <- add_interface_h pc fl a ca n1 None (Some tServicePort) pure ;;
  (* fix 1e03994: each later step in a try whose handler removes the port made by the step before *)
  catch_any
    (i2 <- add_interface_h pc fl b cb n2 None (Some tServicePort) None ;;
     catch_any
       (_ <- new_link fl (n1 ++ suffix_link) None (Some tL2Path) (Some [mkIface i1 n1; mkIface i2 n2]) None ;;
        ret tt)
       (fun e => remove_cp_and_links i2 ;;; raise e))
    (fun e => remove_cp_and_links i1 ;;; raise e).

(* peer with a service handle of ANOTHER live topology: the other service's port is made in (and, by the inner
   handler, removed from) that other topology - nothing of it touches this graph except that it draws an id;
   the link is attempted in this topology, where the other port is unknown *)
Definition op_peer_foreign (pc : bool) (fl : flavour) (a : N) (an : str) (ca : list str) (bn : str) (cb : list str)
           (pure : option exn) : M unit :=
  let n1 := an ++ dash ++ bn in
  let n2 := bn ++ dash ++ an in
  i1 <- add_interface_h pc fl a ca n1 None (Some tServicePort) pure ;;
  catch_any
    (guard (negb (str_in n2 cb)) ETopology ;;;
     guard (negb (is_substrate fl)) ETopology ;;;
     i2 <- draw ;;
     guard (name_ok rule_iface n2) EValue ;;;
     _ <- new_link fl (n1 ++ suffix_link) None (Some tL2Path) (Some [mkIface i1 n1; mkIface i2 n2]) None ;;
     ret tt)
    (fun e => remove_cp_and_links i1 ;;; raise e).

(* through two handles made just now: names and cached interface names are what the graph shows *)
Definition op_peer (fl : flavour) (a b : N) (pure : option exn) : M unit :=
  an <- ask (fun g => node_name g a) ;;
  bn <- ask (fun g => node_name g b) ;;
  ca <- ask (fun g => service_iface_names g a) ;;
  cb <- ask (fun g => service_iface_names g b) ;;
  op_peer_h false fl a an ca b bn cb pure.

(* ================================================================ calls on existing elements *)
Definition rbind {A B} (r : res A) (k : A -> res B) : res B := match r with Ok a => k a | Err e => Err e end.
Fixpoint rflat (l : list N) (f : N -> res (list N)) : res (list N) :=
  match l with
  | [] => Ok []
  | x :: r => rbind (f x) (fun a => rbind (rflat r f) (fun b => Ok (a ++ b)))
  end.
Definition all_of_class (g : graph) (c : N) : list N := map nid (filter (fun n => ncls n =? c) (gnodes g)).

(* ModelElement._check_name_unique (fix 6648cd3): the elements of the scope the constructors check *)
Definition name_scope (g : graph) (x : N) : res (list N) :=
  rbind (find_node g x) (fun n =>
    let c := ncls n in
    if (c =? cNN) || (c =? cLink) then Ok (all_of_class g c)
    else if c =? cComp then
      rbind (first_neighbor g x rHas cNN) (fun p1 =>
      rbind (first_neighbor g x rHas cCN) (fun p2 =>
      rflat (p1 ++ p2) (fun p => first_neighbor g p rHas cComp)))
    else if c =? cNS then
      rbind (first_neighbor g x rHas cNN) (fun p1 =>
      rbind (first_neighbor g x rHas cCN) (fun p2 =>
      rbind (first_neighbor g x rHas cComp) (fun p3 =>
      match p1 ++ p2 ++ p3 with
      | [] => Ok (all_of_class g cNS)
      | owners => rflat owners (fun p => first_neighbor g p rHas cNS)
      end)))
    else if c =? cCP then
      rbind (first_neighbor g x rConnects cNS) (fun owners =>
      rbind (if ntype n =? tSubInterface
             then rbind (first_neighbor g x rConnects cCP) (fun ps =>
                  rflat ps (fun p => rbind (node_type g p) (fun t => Ok (if t =? tSubInterface then [] else [p]))))
             else Ok []) (fun extra =>
      rflat (owners ++ extra) (fun p => first_neighbor g p rConnects cCP)))
    else Ok []).

Definition name_free (g : graph) (x : N) (new_name : str) : res bool :=
  rbind (name_scope g x) (fun sibs =>
    Ok (negb (existsb (fun s => negb (s =? x) && str_in new_name (names_of g [s])) sibs))).

Definition g_set_name (x : N) (nm : str) (g : graph) : res graph :=
  match find_node g x with
  | Err e => Err e
  | Ok _ => Ok (mkGraph (map (fun n => if nid n =? x then mkNode (nid n) (ncls n) nm (ntype n) (nrest n) else n) (gnodes g))
                        (gedges g))
  end.
Definition g_set_rest (x : N) (r : N) (g : graph) : res graph :=
  match find_node g x with
  | Err e => Err e
  | Ok _ => Ok (mkGraph (map (fun n => if nid n =? x then mkNode (nid n) (ncls n) (nname n) (ntype n) r else n) (gnodes g))
                        (gedges g))
  end.

Definition rule_of_class (c : N) : name_rule :=
  if c =? cNN then rule_node else if c =? cComp then rule_comp else if c =? cNS then rule_svc
  else if c =? cLink then rule_link else rule_iface.

(* ModelElement.rename(new_name) = the name setter = set_property('name', v): scope check, NAME_REGEX, write *)
Definition op_rename (x : N) (kind : N) (new_name : str) : M unit :=
  free <- ask (fun g => name_free g x new_name) ;;
  guard free ETopology ;;;
  guard (name_ok (rule_of_class kind) new_name) EValue ;;;
  mutate (g_set_name x new_name).

(* <element>.set_properties(kwargs) (no name among them): the sliver is built and validated first, then written;
   `new_rest` is the token of the element's other properties after the write (given by the harness) *)
Definition op_set_props (x : N) (pure : option exn) (new_rest : N) : M unit :=
  opt_raise pure ;;;
  mutate (g_set_rest x new_rest).

(* find_node_by_name(name, class): exactly one *)
Definition find_by_name (g : graph) (c : N) (nm : str) : res N :=
  match filter (fun n => (ncls n =? c) && str_eqb (nname n) nm) (gnodes g) with
  | [n] => Ok (nid n)
  | _ => Err EQuery
  end.
Definition any_service_port (g : graph) (l : list N) : bool := existsb (is_service_port g) l.

(* Topology.remove_link(name) (fix 65db950): a link made by connect_interface/peer is refused *)
Definition op_remove_link (name : str) : M unit :=
  lid <- ask (fun g => find_by_name g cLink name) ;;
  ifs <- ask (fun g => first_neighbor g lid rConnects cCP) ;;
  sp <- ask (fun g => Ok (any_service_port g ifs)) ;;
  guard (negb sp) ETopology ;;;
  m_delete_node lid.

(* NetworkService.unpeer(ns) (fix 24d5e04): the peerings are this service's ServicePorts whose peer over a link
   is a ServicePort owned by ns; none -> TopologyException before anything is touched *)
Definition peerings (g : graph) (a b : N) : res (list N * list N) :=
  rbind (node_cls g a) (fun c =>
  if negb ((c =? cLink) || (c =? cNS)) then Err EQuery else
  rbind (first_neighbor g a rConnects cCP) (fun cps =>
  (fix go (l : list N) : res (list N * list N) :=
     match l with
     | [] => Ok ([], [])
     | cp :: r =>
         rbind (go r) (fun acc =>
         if negb (is_service_port g cp) then Ok acc else
         rbind (peer_cps g cp) (fun prs =>
         rbind ((fix go2 (ps : list N) : res (list N) :=
                   match ps with
                   | [] => Ok []
                   | q :: r2 =>
                       rbind (go2 r2) (fun acc2 =>
                       if negb (is_service_port g q) then Ok acc2 else
                       rbind (get_parent g q rConnects cNS) (fun o =>
                       match o with
                       | Some ow => if ow =? b then Ok (q :: acc2) else Ok acc2
                       | None => Ok acc2
                       end))
                   end) prs) (fun th =>
         match th with
         | [] => Ok acc
         | _ => Ok (cp :: fst acc, th ++ snd acc)
         end)))
     end) cps)).

Definition remove_if_cp (x : N) : M unit :=
  ex <- ask (fun g => match filter (fun n => (nid n =? x) && (ncls n =? cCP)) (gnodes g) with
                      | [] => Ok false | [_] => Ok true | _ => Err EQuery end) ;;
  if ex then remove_cp_and_links x else ret tt.

Definition op_unpeer (a b : N) : M unit :=
  pr <- ask (fun g => peerings g a b) ;;
  guard (match fst pr with [] => false | _ => true end) ETopology ;;;
  for_each (dedupN (fst pr ++ snd pr)) remove_if_cp.

(* Topology.add_port_mirror_service: two assertions, then the service constructor with the one interface *)
Definition tPortMirror : N := 11.
Definition op_port_mirror (fl : flavour) (name : str) (node_id : option N) (to_if : option iface_h)
           (from_given : bool) (pure : option exn) : M N :=
  match to_if with
  | None => raise EAssert
  | Some i =>
      guard from_given EAssert ;;;
      op_add_service fl name node_id (Some tPortMirror) [i] pure
  end.

(* NetworkService.connect_interface called directly on an existing service.  `rollback`: does the library
   remove the ServicePort again when the link cannot be made (proposed_fixes/C09-7.patch)? *)
Definition connect_interface_rb (fl : flavour) (ns : N) (i : iface_h) : M unit :=
  nsty <- ask (fun g => node_type g ns) ;;
  guardrails nsty i ;;;
  owner <- ask (fun g => iface_owner (owner_fuel g) g (ih_id i)) ;;
  match owner with
  | None => raise ETopology
  | Some on =>
      oname <- ask (fun g => node_name g on) ;;
      peers <- ask (fun g => peer_cps g (ih_id i)) ;;
      guard (match peers with [] => true | _ => false end) ETopology ;;;
      let pname := oname ++ dash ++ ih_name i in
      cps <- ask (fun g => service_iface_names g ns) ;;
      guard (negb (str_in pname cps)) ETopology ;;;
      ltaken <- ask (fun g => Ok (name_taken g cLink (pname ++ suffix_link))) ;;
      guard (negb ltaken) ETopology ;;;
      p <- new_interface fl pname None (Some ns) (Some tServicePort) None ;;
      catch_any
        (ity <- ask (fun g => node_type g (ih_id i)) ;;
         let lty := if ity =? tSharedPort then tL2Path else tPatch in
         _ <- new_link fl (pname ++ suffix_link) None (Some lty) (Some [i; mkIface p pname]) None ;;
         ret tt)
        (fun e => remove_cp_and_links p ;;; raise e)
  end.

Definition op_connect (rollback : bool) (fl : flavour) (ns : N) (i : iface_h) : M unit :=
  if rollback then connect_interface_rb fl ns i else connect_interface fl ns i.

(* Interface.add_child_interface on a handle made just now: type assertion, name uniqueness among the child
   interfaces, the vlan/local_name checks on labels (`label_verdict`: their outcome, computed by the harness from
   the labels it reads through the API), then the Interface constructor (SubInterface under this interface) *)
Definition op_add_child (fl : flavour) (x : N) (name : str) (node_id : option N)
           (label_verdict : option exn) (pure : option exn) : M N :=
  t <- ask (fun g => node_type g x) ;;
  guard (t =? tDedicatedPort) EAssert ;;;
  names <- ask (fun g => rbind (node_cls g x) (fun c => if c =? cCP
                          then rbind (first_neighbor g x rConnects cCP) (fun l => Ok (names_of g l))
                          else Err EQuery)) ;;
  guard (negb (str_in name names)) ETopology ;;;
  opt_raise label_verdict ;;;
  new_interface fl name node_id (Some x) (Some tSubInterface) pure.

(* ---------------------------------------------------------------- one call of the history *)
Inductive call :=
| CAddNode (name : str) (node_id : option N) (ntype : option N) (pure : option exn)
| CAddService (name : str) (node_id : option N) (nstype : option N) (ifs : list iface_h) (pure : option exn)
| CAddNodeService (pn : N) (name : str) (node_id : option N) (nstype : option N) (pure : option exn)
| CAddInterface (parent_check : bool) (ns : N) (cached : list str) (name : str) (node_id : option N) (itype : option N) (pure : option exn)
| CAddLink (name : str) (node_id : option N) (ltype : option N) (ifs : option (list iface_h)) (pure : option exn)
| CAddComponent (precheck : bool) (pn : N) (name : str) (node_id : option N) (spec_given nic_ctype sub_ids_given : bool)
                (cat : res comp_spec) (pure : option exn)
| CAddFacility (name : str) (node_id : option N) (d_ns d_int : N) (d_intk : list N) (nstype : N)
               (pure_ns : option exn) (ports : option (list fac_port)) (pure_single : option exn)
| CAddSwitch (rollback : bool) (name : str) (node_id : option N) (d_ns : N) (d_intk : list N) (nstype : N)
             (pure_ns : option exn) (nports : nat) (pure_port : option exn)
| CPeer (parent_check : bool) (a : N) (an : str) (ca : list str) (b : N) (bn : str) (cb : list str) (pure : option exn)
| CPeerForeign (parent_check : bool) (a : N) (an : str) (ca : list str) (bn : str) (cb : list str) (pure : option exn)
| CRename (x kind : N) (new_name : str)
| CSetProps (x : N) (pure : option exn) (new_rest : N)
| CRemoveLink (name : str)
| CUnpeer (a b : N)
| CPortMirror (name : str) (node_id : option N) (to_if : option iface_h) (from_given : bool) (pure : option exn)
| CConnect (rollback : bool) (ns : N) (i : iface_h)
| CAddChild (x : N) (name : str) (node_id : option N) (label_verdict pure : option exn).

Definition run_call (fl : flavour) (c : call) : M unit :=
  match c with
  | CAddNode n i t p => _ <- op_add_node fl n i t p ;; ret tt
  | CAddService n i t l p => _ <- op_add_service fl n i t l p ;; ret tt
  | CAddNodeService pn n i t p => _ <- op_add_node_service fl pn n i t p ;; ret tt
  | CAddInterface pc ns ca n i t p => _ <- add_interface_h pc fl ns ca n i t p ;; ret tt
  | CAddLink n i t l p => _ <- op_add_link fl n i t l p ;; ret tt
  | CAddComponent pc pn n i a b c0 cat p => _ <- op_add_component pc fl pn n i a b c0 cat p ;; ret tt
  | CAddFacility n i a b k t p ports ps => _ <- op_add_facility fl n i a b k t p ports ps ;; ret tt
  | CAddSwitch rb n i a k t p np pp => _ <- op_add_switch rb fl n i a k t p np pp ;; ret tt
  | CPeer pc a an ca b bn cb p => op_peer_h pc fl a an ca b bn cb p
  | CPeerForeign pc a an ca bn cb p => op_peer_foreign pc fl a an ca bn cb p
  | CRename x k n => op_rename x k n
  | CSetProps x p r => op_set_props x p r
  | CRemoveLink n => op_remove_link n
  | CUnpeer a b => op_unpeer a b
  | CPortMirror n i t f p => _ <- op_port_mirror fl n i t f p ;; ret tt
  | CConnect rb ns i => op_connect rb fl ns i
  | CAddChild x n i lv p => _ <- op_add_child fl x n i lv p ;; ret tt
  end.

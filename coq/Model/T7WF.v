(* C07 - the published graph rules and the containment structure as a BOOLEAN checker wf_b over a graph
   (evaluated by the harness on every snapshot of the implementation) and the read-only views.
   Definitions only; the declarative statement WF and the reflection wf_b g = true <-> WF g are in
   Proofs/T7WFRefl.v. *)
From Coq Require Import String List NArith ZArith Bool.
From FIM Require Import Base.Str Gen.Rules Model.T7Graph Model.T7Ops.
Import ListNotations.

Definition class_name (k : cls) : option str :=
  match k with
  | KNode => Some (S "NetworkNode") | KComp => Some (S "Component") | KNS => Some (S "NetworkService")
  | KCP => Some (S "ConnectionPoint") | KLink => Some (S "Link") | KComposite => Some (S "CompositeNode")
  | KOther => None
  end.

Fixpoint assoc_str {V} (k : str) (l : list (str * V)) : option V :=
  match l with [] => None | (k', v) :: r => if str_eqb k k' then Some v else assoc_str k r end.

(* rule 1: id, class, type and name present (the id is always present in this representation) *)
Definition fields_ok (n : node) : bool :=
  match ntyp n, nname n with Some _, Some _ => true | _, _ => false end.
(* rules 3-8 of the file: class and type from the published vocabularies *)
Definition vocab_ok_in (classes : list str) (types : list (str * list str)) (n : node) : bool :=
  match class_name (ncls n) with
  | None => false
  | Some c =>
      mem_str c classes &&
      match assoc_str c types, ntyp n with
      | Some v, Some t => mem_str t v
      | _, _ => true
      end
  end.
Definition vocab_ok := vocab_ok_in rule_classes rule_types.

Fixpoint nodup_b (l : list str) : bool :=
  match l with [] => true | x :: r => negb (mem_str x r) && nodup_b r end.

(* edges: both ends exist, one edge per unordered pair *)
Definition edge_ends_ok (g : graph) (e : edge) : bool := has_id g (ea e) && has_id g (eb e).
Fixpoint edges_nodup_b (l : list edge) : bool :=
  match l with [] => true | e :: r => negb (existsb (fun e' => same_ends e' (ea e) (eb e)) r) && edges_nodup_b r end.

Definition sub_shape_ok (g : graph) (x : str) : bool :=
  forallb (fun j => xorb (typ_is g x sSubInterface) (typ_is g j sSubInterface)) (first_nb g x Connects KCP).
(* rule 10: links connect only to interfaces *)
Definition link_ends_ok (g : graph) (l : str) : bool :=
  forallb (fun p => rel_eqb (snd p) Connects && cls_is g (fst p) KCP) (nbrs g l).
(* rule 13: peers of a service port across links *)
Definition peers (g : graph) (x : str) : list str :=
  flat_map (fun l => filter (fun y => negb (str_eqb y x)) (first_nb g l Connects KCP)) (first_nb g x Connects KLink).

Definition node_struct_ok (g : graph) (n : node) : bool :=
  let x := nid n in
  match ncls n with
  | KComp => len_is (comp_owners g x) 1
  | KCP => len_is (cp_owners g x) 1 && sub_shape_ok g x
           && (negb (ostr_eqb (ntyp n) (Some sServicePort)) || len_is (peers g x) 1)
  | KLink => link_ends_ok g x
  | _ => true
  end.

(* name scopes: nodes, links (and anything else) in the topology; components and services under their owner
   (a service without owner is top-level); interfaces under their service / parent interface *)
Definition scope_of (g : graph) (n : node) : list str :=
  match ncls n with
  | KComp => comp_owners g (nid n)
  | KNS => ns_owners g (nid n)
  | KCP => cp_owners g (nid n)
  | _ => []
  end.
Definition name_clash (g : graph) (a b : node) : bool :=
  cls_eqb (ncls a) (ncls b) &&
  match nname a, nname b with Some x, Some y => str_eqb x y | _, _ => false end &&
  list_eqb str_eqb (scope_of g a) (scope_of g b).
Fixpoint names_unique_in (g : graph) (l : list node) : bool :=
  match l with [] => true | a :: r => negb (existsb (name_clash g a) r) && names_unique_in g r end.

Definition wf_b (g : graph) : bool :=
  forallb fields_ok (gnodes g) &&
  forallb vocab_ok (gnodes g) &&
  nodup_b (map nid (gnodes g)) &&
  forallb (edge_ends_ok g) (gedges g) && edges_nodup_b (gedges g) &&
  forallb (node_struct_ok g) (gnodes g) &&
  names_unique_in g (gnodes g).

(* ---- the read-only views (topology.py:453-519, 606-620) -------------------------------------------------- *)
Definition node_ifs (g : graph) (n : str) : list str :=
  map snd (second_nb g n Has KNS KCP) ++
  flat_map (fun c => map snd (second_nb g c Has KNS KCP)) (first_nb g n Has KComp).

(* a view is a dict keyed by name built in graph order: a later element with the same name replaces an earlier one *)
Fixpoint dict_set (k : option str) (v : str) (d : list (option str * str)) : list (option str * str) :=
  match d with
  | [] => [(k, v)]
  | (k', v') :: r => if ostr_eqb k k' then (k, v) :: r else (k', v') :: dict_set k v r
  end.
Definition dict_view (l : list node) : list str :=
  map snd (fold_left (fun d n => dict_set (nname n) (nid n) d) l []).

Definition of_class (k : cls) (g : graph) : list node := filter (fun n => cls_eqb (ncls n) k) (gnodes g).
Definition view_nodes (g : graph) : list str := dict_view (nodes_view g).
Definition view_facilities (g : graph) : list str := dict_view (facilities_view g).
Definition view_links (g : graph) : list str := dict_view (of_class KLink g).
Definition view_services (g : graph) : list str := dict_view (of_class KNS g).
Definition view_interface_list (g : graph) : list str := flat_map (node_ifs g) (view_nodes g).

(* ---- the declarative statement ------------------------------------------------------------------------ *)
(* rule 1 *)
Definition fields_P (n : node) : Prop := exists t nm, ntyp n = Some t /\ nname n = Some nm.
(* class and type from the published vocabularies *)
Definition vocab_P (n : node) : Prop :=
  exists c, class_name (ncls n) = Some c /\ In c rule_classes /\
            forall v t, assoc_str c rule_types = Some v -> ntyp n = Some t -> In t v.
Definition edge_ends_P (g : graph) (e : edge) : Prop :=
  (exists n, In n (gnodes g) /\ nid n = ea e) /\ (exists n, In n (gnodes g) /\ nid n = eb e).
Definition edges_distinct (l : list edge) : Prop :=
  ForallOrdPairs (fun e e' => same_ends e' (ea e) (eb e) = false) l.
(* containment structure of one element *)
Definition struct_P (g : graph) (n : node) : Prop :=
  (ncls n = KComp -> length (comp_owners g (nid n)) = 1) /\
  (ncls n = KCP ->
     length (cp_owners g (nid n)) = 1 /\
     (forall j, In j (first_nb g (nid n) Connects KCP) -> typ_is g (nid n) sSubInterface <> typ_is g j sSubInterface) /\
     (ntyp n = Some sServicePort -> length (peers g (nid n)) = 1)) /\
  (ncls n = KLink -> forall j r, In (j, r) (nbrs g (nid n)) -> r = Connects /\ cls_is g j KCP = true).
(* no two elements of one class and one scope carry the same name *)
Definition names_P (g : graph) : Prop := ForallOrdPairs (fun a b => name_clash g a b = false) (gnodes g).

Record WF (g : graph) : Prop := mkWF {
  wf_fields : forall n, In n (gnodes g) -> fields_P n;
  wf_vocab : forall n, In n (gnodes g) -> vocab_P n;
  wf_ids : NoDup (map nid (gnodes g));
  wf_edge_ends : forall e, In e (gedges g) -> edge_ends_P g e;
  wf_edges_distinct : edges_distinct (gedges g);
  wf_struct : forall n, In n (gnodes g) -> struct_P g n;
  wf_names : names_P g }.

(* C10 model: what Topology.validate() does on an experiment topology (fim/user/topology.py:622-680),
   Node.validate_constraints (fim/user/node.py:203-223), NetworkService.validate_constraints and
   __validate_nstype_constraints (fim/user/network_service.py:226-303) and the connect-time guardrail
   (__service_guardrails, :305-318), over an ABSTRACT SLICE, interpreting the constraint tables passed
   as a parameter (the check instantiates them with the tables regenerated from the source).
   Definitions only; the declarative specification `allowed` and all lemmas are in Proofs/Validate10*.v. *)
From Coq Require Import List ZArith String Bool NArith.
From FIM Require Import Base.C10Types Gen.Constraints.
Import ListNotations.
Open Scope Z_scope.

(* ---------- abstract slice ---------- *)
Definition site := N.                         (* site names, interned by the harness *)
Definition osite := option site.              (* a site-valued property: None = unset / falsy *)
Definition owner := option osite.             (* owner node of an interface: None = no owning node,
                                                 Some None = node whose site is unset, Some (Some a) *)

Record endpoint := mk_ep { ep_type : string; ep_owner : owner }.       (* a node-side interface *)
Record iface := mk_if {                       (* an interface of a service (s.interface_list) *)
  i_type : string;
  i_owner : owner;                            (* topo.get_owner_node(i) *)
  i_peers : option (list endpoint) }.         (* i.get_peers(): None or the list of peers *)
Record anode := mk_anode {
  n_type : string;
  n_set : list string }.                      (* names of the properties holding a truthy value, of: site,
                                                 image_type, image_ref, management_ip, attached_components_info *)
Record asvc := mk_asvc {
  s_type : string;
  s_site : osite;                             (* the declared / recorded site *)
  s_set : list string;                        (* other properties holding a truthy value *)
  s_ifaces : list iface }.
Record slice := mk_slice {
  sl_nodes : list anode;                      (* all network nodes, facilities included *)
  sl_services : list asvc }.                  (* all network services, in topology.network_services order *)

Inductive exn := ETopology | EAttribute | EKey | EUnmodelled.
Inductive result := Ok | Err (e : exn).

Definition result_eqb (a b : result) : bool :=
  match a, b with
  | Ok, Ok => true
  | Err ETopology, Err ETopology | Err EAttribute, Err EAttribute
  | Err EKey, Err EKey | Err EUnmodelled, Err EUnmodelled => true
  | _, _ => false
  end.

(* ---------- helpers ---------- *)
Definition mem (x : string) (l : list string) : bool := existsb (String.eqb x) l.

Fixpoint assoc {A} (k : string) (l : list (string * A)) : option A :=
  match l with
  | [] => None
  | (k', v) :: r => if String.eqb k k' then Some v else assoc k r
  end.

Fixpoint check_all {A} (f : A -> result) (l : list A) : result :=      (* first failure wins *)
  match l with
  | [] => Ok
  | x :: r => match f x with Ok => check_all f r | e => e end
  end.

Definition osite_eq_dec (a b : osite) : {a = b} + {a <> b}.
Proof. decide equality. apply N.eq_dec. Defined.

Definition S_ServicePort : string := "ServicePort".
Definition S_Facility : string := "Facility".
Definition S_site : string := "site".

Section WithTables.
Variable T : tables.
Variable chk_fac : bool.        (* does Topology.validate look at facility nodes (current code: no) *)
Variable enforce_site : bool.   (* is a declared site compared with the inferred one (current code: no) *)

Definition NL : Z := t_no_limit T.

(* ----- Node.validate_constraints ----- *)
Definition validate_node (n : anode) : result :=
  match assoc (n_type n) (t_nodes T) with
  | None => Err EKey
  | Some r =>
      if forallb (fun p => mem p node_getters && mem p (n_set n)) (nc_required r)
      then if existsb (fun p => mem p (n_set n)) (nc_forbidden r) then Err ETopology else Ok
      else Err ETopology
  end.

(* topology.nodes hides Facility nodes *)
Definition visible (n : anode) : bool := chk_fac || negb (String.eqb (n_type n) S_Facility).

(* ----- Topology.validate: ServicePort -> its single peer ----- *)
Definition node_side (i : iface) : option endpoint :=
  if String.eqb (i_type i) S_ServicePort
  then match i_peers i with Some [p] => Some p | _ => None end
  else Some (mk_ep (i_type i) (i_owner i)).

Fixpoint node_ifaces (l : list iface) : option (list endpoint) :=      (* None = TopologyException *)
  match l with
  | [] => Some []
  | i :: r => match node_side i, node_ifaces r with
              | Some e, Some r' => Some (e :: r')
              | _, _ => None
              end
  end.

(* owner.site of every interface; None = AttributeError (no owner node) *)
Fixpoint owner_sites (l : list endpoint) : option (list osite) :=
  match l with
  | [] => Some []
  | e :: r => match ep_owner e, owner_sites r with
              | Some a, Some r' => Some (a :: r')
              | _, _ => None
              end
  end.

Definition is_some {A} (o : option A) : bool := match o with Some _ => true | None => false end.

(* truthiness of a service property after the site inference *)
Definition svc_has (s : asvc) (site' : osite) (p : string) : bool :=
  if String.eqb p S_site then is_some site' else mem p (s_set s).

Definition check_required (s : asvc) (site' : osite) (p : string) : result :=
  if mem p ns_getters then (if svc_has s site' p then Ok else Err ETopology) else Err EAttribute.
Definition check_forbidden (s : asvc) (site' : osite) (p : string) : result :=
  if mem p ns_getters then (if svc_has s site' p then Err ETopology else Ok) else Err EAttribute.

Definition check_props (r : svc_rec) (s : asvc) (eps : list endpoint) (site' : osite) : result :=
  match check_all (check_required s site') (sc_required r) with
  | Ok => match check_all (check_forbidden s site') (sc_forbidden r) with
          | Ok => match sc_itypes r with
                  | [] => Ok
                  | rit => if forallb (fun e => mem (ep_type e) rit) eps then Ok else Err ETopology
                  end
          | e => e
          end
  | e => e
  end.

(* s.validate_constraints(node_interfaces) preceded by the peer substitution; returns the site
   property of the service afterwards (it is written before the property checks) and the outcome *)
Definition validate_service (s : asvc) : osite * result :=
  match assoc (s_type s) (t_services T) with
  | None => (s_site s, Err EKey)
  | Some r =>
    match node_ifaces (s_ifaces s) with
    | None => (s_site s, Err ETopology)
    | Some eps =>
      let n := Z.of_nat (List.length eps) in
      if negb (sc_min_interfaces r =? NL) && (n <? sc_min_interfaces r) then (s_site s, Err ETopology)
      else if negb (sc_num_interfaces r =? NL) && (n >? sc_num_interfaces r) then (s_site s, Err ETopology)
      else
        match (if sc_num_sites r =? NL then Some [] else option_map (nodup osite_eq_dec) (owner_sites eps)) with
        | None => (s_site s, Err EAttribute)
        | Some sites =>
          if negb (sc_num_sites r =? NL) && (Z.of_nat (List.length sites) >? sc_num_sites r)
          then (s_site s, Err ETopology)
          else
          match sites with
          | [] => (s_site s, check_props r s eps (s_site s))
          | [a] =>
              match s_site s with
              | None => (a, check_props r s eps a)
              | Some d => if enforce_site && negb (if osite_eq_dec a (Some d) then true else false)
                          then (s_site s, Err ETopology)
                          else (s_site s, check_props r s eps (s_site s))
              end
          | _ => match s_site s with
                 | Some _ => (s_site s, Err ETopology)
                 | None => (None, check_props r s eps None)
                 end
          end
        end
    end
  end.

Fixpoint validate_services (l : list asvc) : list osite * result :=
  match l with
  | [] => ([], Ok)
  | s :: r => let '(st, res) := validate_service s in
              match res with
              | Ok => let '(sts, res') := validate_services r in (st :: sts, res')
              | Err e => (st :: map s_site r, Err e)
              end
  end.

(* the per-site instance count (topology.py:659-680) is dead code for every table whose num_instances
   are all NO_LIMIT; it is NOT modelled: a slice that would reach it gets the explicit outcome
   EUnmodelled, excluded in the theorems by the table condition `table_ok`. *)
Definition instance_limited (s : asvc) : bool :=
  match assoc (s_type s) (t_services T) with
  | Some r => negb (sc_num_instances r =? NL)
  | None => false
  end.

Definition validate (sl : slice) : list osite * result :=
  match check_all validate_node (filter visible (sl_nodes sl)) with
  | Ok => let '(sts, res) := validate_services (sl_services sl) in
          match res with
          | Ok => if existsb instance_limited (sl_services sl) then (sts, Err EUnmodelled) else (sts, Ok)
          | e => (sts, e)
          end
  | e => (map s_site (sl_services sl), e)
  end.

(* ----- connect time ----- *)
Definition guard (st it : string) : result :=
  if existsb (fun p => String.eqb (fst p) st && String.eqb (snd p) it) (t_guardrails T) then Err ETopology else Ok.

End WithTables.

(* ---------- the CURRENT code ---------- *)
Definition cur_checks_facilities : bool := true.      (* topology.py: validate() also iterates self.facilities *)
Definition cur_enforces_declared_site : bool := true.  (* network_service.py: old_site is compared with the inferred site *)
Definition cur_connect_interface_guarded : bool := true.   (* connect_interface() runs the guardrail *)

Definition validate_cur (sl : slice) : list osite * result :=
  validate gen_tables cur_checks_facilities cur_enforces_declared_site sl.

(* refusal "at once": constructor path (interfaces=[...]) and NetworkService.connect_interface *)
Definition connect_ctor (T : tables) (st it : string) : result := guard T st it.
Definition connect_method (T : tables) (guarded : bool) (st it : string) : result :=
  if guarded then guard T st it else Ok.

(* ---------- correspondence ---------- *)
Fixpoint osites_eqb (a b : list osite) : bool :=
  match a, b with
  | [], [] => true
  | x :: a', y :: b' => (if osite_eq_dec x y then true else false) && osites_eqb a' b'
  | _, _ => false
  end.

(* one case = the abstract slice extracted from the built topology + what validate() did + the site
   property of every service afterwards *)
Definition check_slice (c : slice * (result * list osite)) : bool :=
  let '(sl, (res, sites)) := c in
  let '(msites, mres) := validate_cur sl in
  result_eqb mres res && osites_eqb msites sites.

(* one case = (service type, interface type, via constructor?, refused at once?) *)
Definition check_connect (c : string * string * bool * bool) : bool :=
  let '(st, it, ctor, refused) := c in
  let r := if ctor then connect_ctor gen_tables st it
           else connect_method gen_tables cur_connect_interface_guarded st it in
  Bool.eqb (negb (result_eqb r Ok)) refused.

(* the same comparisons against the model with all three repairs switched on (proposed_fixes/C10-1..3);
   selected by the harness with VERIF_C10_REPAIRED=1 when run against a patched copy of the repository *)
Definition check_slice_repaired (c : slice * (result * list osite)) : bool :=
  let '(sl, (res, sites)) := c in
  let '(msites, mres) := validate gen_tables true true sl in
  result_eqb mres res && osites_eqb msites sites.

Definition check_connect_repaired (c : string * string * bool * bool) : bool :=
  let '(st, it, ctor, refused) := c in
  let r := if ctor then connect_ctor gen_tables st it else connect_method gen_tables true st it in
  Bool.eqb (negb (result_eqb r Ok)) refused.

(* a recipe with several validations: every validation is compared on the slice AS IT IS AT THAT MOMENT *)
Definition check_phases (c : list (slice * (result * list osite))) : bool := forallb check_slice c.
Definition check_phases_repaired (c : list (slice * (result * list osite))) : bool := forallb check_slice_repaired c.

(* C15 model: Capacities arithmetic / comparison / printing, parameterised by the per-field
   operator bodies regenerated from fim/slivers/capacities_labels.py (Gen/CapsGen.v).
   Definitions only; proofs are in Proofs/CapsAlg.v. *)
From Coq Require Import List ZArith String Bool NArith.
From FIM Require Import Base.Str Base.Corr Gen.CapsGen.
Import ListNotations.
Open Scope Z_scope.

Definition caps := list Z.                         (* one value per field, in __init__ order *)
Definition nfields : nat := List.length cap_fields.
Definition wf (c : caps) : Prop := List.length c = nfields.
Definition wfb (c : caps) : bool := Nat.eqb (List.length c) nfields.
Definition constructible (c : caps) : bool := wfb c && forallb (fun x => negb (set_reject x)) c.

Fixpoint map2 {A B C} (f : A -> B -> C) (a : list A) (b : list B) : list C :=
  match a, b with
  | x :: a', y :: b' => f x y :: map2 f a' b'
  | _, _ => []
  end.

Fixpoint exists2b {A B} (f : A -> B -> bool) (a : list A) (b : list B) : bool :=
  match a, b with
  | x :: a', y :: b' => f x y || exists2b f a' b'
  | _, _ => false
  end.

Definition cadd (a b : caps) : caps := map2 add_f a b.        (* __add__ *)
Definition csub (a b : caps) : caps := map2 sub_f a b.        (* __sub__ *)
Definition cgt (a b : caps) : bool := negb (exists2b gt_reject a b).   (* __gt__ : "b fits within a" *)
Definition clt (a b : caps) : bool := negb (exists2b lt_reject a b).   (* __lt__ : "a fits within b" *)
Definition ceq (a b : caps) : bool := negb (exists2b eq_reject a b).   (* __eq__ (other not None) *)
Definition cfree (total alloc : caps) : caps := map2 free_f total alloc.  (* FreeCapacity.free *)

Definition named (c : caps) : list (string * Z) := combine cap_fields c.
Definition negative_fields (c : caps) : list string :=
  map fst (filter (fun fv => neg_test (snd fv)) (named c)).
Definition getf (f : string) (c : caps) : option Z :=
  match find (fun fv => String.eqb (fst fv) f) (named c) with Some fv => Some (snd fv) | None => None end.
Fixpoint positive_fields (c : caps) (fs : list string) : option bool :=   (* None = KeyError; stops at the first non-positive field *)
  match fs with
  | [] => Some true
  | f :: r => match getf f c with
              | None => None
              | Some v => if pos_reject v then Some false else positive_fields c r
              end
  end.

(* -------- printing -------- *)
Definition kept (c : caps) : list (string * Z) := filter (fun fv => negb (drop_test (snd fv))) (named c).

Definition json_member (fv : str * Z) : str := S"""" ++ fst fv ++ S""": " ++ str_of_Z (snd fv).

Definition to_json (c : caps) : str :=
  match kept c with
  | [] => []
  | l => S"{" ++ join (S", ") (map json_member (sort_kv (map (fun fv => (of_string (fst fv), snd fv)) l))) ++ S"}"
  end.

(* f'{v:,}' : sign, then digits grouped by three from the right *)
Fixpoint group3 (n : nat) (revdigits : list N) : list N :=
  match revdigits with
  | [] => []
  | d :: r => match r with
              | [] => [d]
              | _ => if Nat.eqb n 2 then d :: 44%N :: group3 0 r else d :: group3 (Datatypes.S n) r
              end
  end.
Definition commas (z : Z) : str :=
  (if z <? 0 then [45%N] else []) ++ rev (group3 0 (rev (str_of_Z (Z.abs z)))).

Definition unit_of (f : string) : str :=
  match find (fun u => String.eqb (fst u) f) cap_units with Some u => of_string (snd u) | None => [] end.

Definition to_str (c : caps) : str :=
  match kept c with
  | [] => []
  | l => let body := List.concat (map (fun fv => of_string (fst fv) ++ S": " ++ commas (snd fv) ++ S" " ++ unit_of (fst fv) ++ S", ") l) in
         S"{ " ++ firstn (List.length body - 2) body ++ S"}"
  end.

(* -------- FreeCapacity beyond its constructor; allocation histories -------- *)
Definition czero : caps := cap_defaults.                       (* Capacities() *)
Definition cfree_none (total : caps) : caps := cfree total czero.   (* FreeCapacity(total=t, allocated=None) *)
Definition free_get (f : string) (total alloc : caps) : option Z := getf f (cfree total alloc).  (* __getattr__ *)
Definition alloc_all (allocs : list caps) : caps := fold_left cadd allocs czero.   (* acc = Capacities(); acc = acc + x ... *)

(* FreeCapacity.__str__ : "f: free/total unit" for every field unless both are dropped by the generated test *)
Definition fnamed (total alloc : caps) : list (string * (Z * Z)) := combine cap_fields (combine (cfree total alloc) total).
Definition fkept (total alloc : caps) : list (string * (Z * Z)) :=
  filter (fun e => negb (fdrop_test (fst (snd e)) (snd (snd e)))) (fnamed total alloc).
Definition free_str (total alloc : caps) : str :=
  match fkept total alloc with
  | [] => []
  | l => let body := List.concat (map (fun e => of_string (fst e) ++ S": " ++ commas (fst (snd e)) ++ S"/" ++
                                       commas (snd (snd e)) ++ S" " ++ unit_of (fst e) ++ S", ") l) in
         S"{ " ++ firstn (List.length body - 2) body ++ S"}"
  end.

(* -------- what the harness compares: all observables of a triple -------- *)
Definition of_s (s : string) : val := VS (of_string s).
Definition observe3 (a b c : caps) : val :=
  VL [ VLZ (cadd a b); VLZ (csub a b); VLZ (csub (cadd a b) b); VLZ (cadd b a);
       VLZ (cadd (cadd a b) c); VLZ (cadd a (cadd b c));
       VB (cgt a b); VB (clt a b); VB (ceq a b); VB (ceq b a); VB (ceq a a);
       VL (map of_s (negative_fields (csub b a)));
       VL (map of_s (negative_fields (csub a b)));
       VLZ (cfree a b); VLZ (cadd (cfree a b) b);
       VS (to_json (csub a b)); VS (to_str (csub a b)); VS (to_json a); VS (to_str a);
       VOpt VB (positive_fields (csub a b) cap_fields);
       VB (constructible a);
       VS (free_str a b); VLZ (cfree_none a);
       VL (map (fun f => VOpt VZ (free_get f a b)) cap_fields);
       VLZ (alloc_all [a; b; c]); VLZ (alloc_all [c; a; b]);
       VLZ (cfree (alloc_all [a; b; c]) (alloc_all [b; c]));
       VLZ (cadd (csub a b) b); VLZ (csub a a);
       VOpt VB (positive_fields a (firstn 2 cap_fields));
       VOpt VB (positive_fields a (firstn 1 cap_fields ++ ["no_such_field"%string]));
       VOpt VB (positive_fields a ("no_such_field"%string :: firstn 1 cap_fields));
       (* sums that stay negative: a negative result is a value like any other *)
       VLZ (cadd (csub a b) (csub a b)); VLZ (cadd (csub a b) czero); VLZ (csub (csub a b) c);
       VLZ (cadd czero (csub a b)) ].

Definition check3 (x : (caps * caps * caps) * val) : bool :=
  let '((a, b, c), o) := x in val_eqb (observe3 a b c) o.

(* C03 model, part 2: Path / PathInfo / ERO (fim/slivers/path_info.py), MaintenanceInfo /
   MaintenanceEntry (maintenance_mode.py) and the legacy typed tuples (fim/graph/typed_tuples.py).
   Definitions only. *)
From Coq Require Import String List NArith ZArith Bool.
From FIM Require Import Base.Str Base.Json Gen.CodecGen Model.CodecField.
Import ListNotations.
Open Scope N_scope.

(* ---------------------------------------------------------------- PathInfo / ERO *)
Inductive ptype := PTPath | PTGraph.
Definition ptype_names : list string := ["Path"; "Graph"]%string.   (* must equal Gen path_type_names *)

(* payload: a Path object (two JSON values, normally lists or None) or anything else (graph id str, None) *)
Inductive payload := PLRaw (j : json) | PLPath (a2z z2a : json).

Record pinfo := {
  pi_type : option ptype;        (* None: PathInfo(None), reachable through from_json with an unknown type *)
  pi_payload : payload;          (* PLRaw JNull = nothing set *)
  pi_strict : option bool        (* Some for ERO, None for a plain PathInfo *)
}.

Definition ptype_str (t : option ptype) : str :=
  match t with Some PTPath => S"Path" | Some PTGraph => S"Graph" | None => S"None" end.
Definition k_type : str := S"type".
Definition k_payload : str := S"payload".
Definition k_strict : str := S"strict".
Definition k_a2z : str := S"a2z".
Definition k_z2a : str := S"z2a".

Definition payload_unset (pl : payload) : bool := match pl with PLRaw JNull => true | _ => false end.

Definition pi_to_json (p : pinfo) : res str :=
  if payload_unset (pi_payload p) then Ok [] else      (* nothing set: '' (9b14727) *)
  let pj : res json :=
      match pi_type p with
      | Some PTGraph => match pi_payload p with
                        | PLRaw j => Ok j
                        | PLPath _ _ => Err e_type          (* Path object is not JSON serializable *)
                        end
      | _ => match pi_payload p with
             | PLPath a z => Ok (JObj [(k_a2z, a); (k_z2a, z)])
             | PLRaw _ => Err e_attr                        (* no to_dict on None / str *)
             end
      end in
  match pj with
  | Err e => Err e
  | Ok j =>
    Ok (jprint (JObj ((k_type, JStr (ptype_str (pi_type p)))
                      :: match pi_strict p with
                         | Some b => [(k_strict, JStr (if b then S"True" else S"False"))]
                         | None => []
                         end ++ [(k_payload, j)])))
  end.

Definition type_from_str (v : json) : option ptype :=
  match v with
  | JStr s => if str_eqb s (S"Path") then Some PTPath else if str_eqb s (S"Graph") then Some PTGraph else None
  | _ => None
  end.

Definition pi_of_jv (ero : bool) (j : json) : res (option pinfo) :=
  match j with
  | JObj d =>
    match aget k_type d with
    | None | Some JNull => Ok None
    | Some tv =>
      let pt := type_from_str tv in
      let pl : res payload :=
          match aget k_payload d with
          | None => Err e_key
          | Some pv =>
            match pt with
            | Some PTGraph => Ok (PLRaw pv)
            | _ => match pv with
                   | JObj pd => match aget k_a2z pd, aget k_z2a pd with
                                | Some a, Some z => Ok (PLPath a z)
                                | _, _ => Err e_assert
                                end
                   | _ => Err e_assert
                   end
            end
          end in
      match pl with
      | Err e => Err e
      | Ok p =>
        Ok (Some {| pi_type := pt; pi_payload := p;
                    pi_strict := if ero
                                 then Some (match aget k_strict d with
                                            | Some (JStr s) => existsb (str_eqb s) ero_strict_true
                                            | _ => false end)
                                 else None |})
      end
    end
  | _ => Err e_attr                                           (* no .get *)
  end.

Definition pi_from_json (ero : bool) (t : option str) : res (option pinfo) :=
  match t with
  | None => Ok None
  | Some s => if Nat.eqb (List.length s) 0 then Ok None
              else match jparse s with None => Err e_decode | Some j => pi_of_jv ero j end
  end.

(* ---------------------------------------------------------------- MaintenanceInfo *)
Inductive mstate := MActive | MPreMaint | MMaint | MUnknown.
Definition mstate_names : list string := ["Active"; "PreMaint"; "Maint"; "Unknown"]%string.  (* = Gen maint_state_names *)
Definition mstate_str (m : mstate) : str :=
  match m with MActive => S"Active" | MPreMaint => S"PreMaint" | MMaint => S"Maint" | MUnknown => S"Unknown" end.
Definition mstate_of_str (s : str) : option mstate :=
  if str_eqb s (S"Active") then Some MActive else if str_eqb s (S"PreMaint") then Some MPreMaint
  else if str_eqb s (S"Maint") then Some MMaint else if str_eqb s (S"Unknown") then Some MUnknown else None.

(* datetimes are represented by their isoformat() text *)
Record mentry := { me_state : option mstate; me_deadline : option str; me_end : option str }.
Record minfo := { mi_nodes : list (str * mentry); mi_lock : bool }.

Definition mentry_eqb (a b : mentry) : bool :=
  opt_eqb (fun x y => str_eqb (mstate_str x) (mstate_str y)) (me_state a) (me_state b)
  && opt_eqb str_eqb (me_deadline a) (me_deadline b) && opt_eqb str_eqb (me_end a) (me_end b).

Definition e_maint : str := S"MaintenanceModeException".
Definition mi_empty : minfo := {| mi_nodes := []; mi_lock := false |}.

Inductive mop := MAdd (n : str) (e : mentry) | MRem (n : str) | MPop (n : str) | MGet (n : str) | MFinalize.
Inductive mret := RNone | REntry (e : mentry) | RErr (cls : str).

Fixpoint adel {V} (k : str) (m : list (str * V)) : list (str * V) :=
  match m with
  | [] => []
  | (k', v) :: r => if str_eqb k k' then r else (k', v) :: adel k r
  end.

Definition mstep (m : minfo) (o : mop) : minfo * mret :=
  match o with
  | MAdd n e => if mi_lock m then (m, RErr e_maint)
                else ({| mi_nodes := aset n e (mi_nodes m); mi_lock := mi_lock m |}, RNone)
  | MRem n => if mi_lock m then (m, RErr e_maint)
              else match aget n (mi_nodes m) with
                   | None => (m, RErr e_key)
                   | Some _ => ({| mi_nodes := adel n (mi_nodes m); mi_lock := mi_lock m |}, RNone)
                   end
  | MPop n => if mi_lock m then (m, RErr e_maint)
              else match aget n (mi_nodes m) with
                   | None => (m, RErr e_key)
                   | Some e => ({| mi_nodes := adel n (mi_nodes m); mi_lock := mi_lock m |}, REntry e)
                   end
  | MGet n => (m, match aget n (mi_nodes m) with Some e => REntry e | None => RNone end)
  | MFinalize => ({| mi_nodes := mi_nodes m; mi_lock := true |}, RNone)
  end.

Definition mutating (o : mop) : bool := match o with MAdd _ _ | MRem _ | MPop _ => true | _ => false end.

Fixpoint mrun (m : minfo) (ops : list mop) : minfo * list mret :=
  match ops with
  | [] => (m, [])
  | o :: r => let '(m1, x) := mstep m o in let '(m2, xs) := mrun m1 r in (m2, x :: xs)
  end.

(* copy(): an independent, unfinalized record with the same entries.  Histories over the original and (at most)
   one copy of it: operations on the original, copy() of the original, operations on the copy. *)
Inductive mop2 := M2Orig (o : mop) | M2Copy | M2OnCopy (o : mop).
Definition mstate2 : Type := minfo * option minfo.
Definition mi_copy (m : minfo) : minfo := {| mi_nodes := mi_nodes m; mi_lock := false |}.

Definition mstep2 (s : mstate2) (o : mop2) : mstate2 * mret :=
  match o with
  | M2Orig op => let '(m, r) := mstep (fst s) op in ((m, snd s), r)
  | M2Copy => ((fst s, Some (mi_copy (fst s))), RNone)
  | M2OnCopy op => match snd s with
                   | Some c => let '(c', r) := mstep c op in ((fst s, Some c'), r)
                   | None => (s, RNone)
                   end
  end.

Fixpoint mrun2 (s : mstate2) (ops : list mop2) : mstate2 * list mret :=
  match ops with
  | [] => (s, [])
  | o :: r => let '(s1, x) := mstep2 s o in let '(s2, xs) := mrun2 s1 r in (s2, x :: xs)
  end.

Definition on_original (o : mop2) : bool := match o with M2Orig _ => true | _ => false end.

Definition k_state : str := S"state".
Definition k_deadline : str := S"deadline".
Definition k_end : str := S"expected_end".
Definition jopt_str (o : option str) : json := match o with Some s => JStr s | None => JNull end.

(* dataclasses.asdict + EnhancedJSONEncoder *)
Definition mentry_json (e : mentry) : json :=
  JObj [(k_state, match me_state e with Some s => JStr (mstate_str s) | None => JNull end);
        (k_deadline, jopt_str (me_deadline e)); (k_end, jopt_str (me_end e))].

Definition mi_to_json (m : minfo) : res str :=
  if mi_lock m then Ok (jprint (JObj (map (fun ne => (fst ne, mentry_json (snd ne))) (mi_nodes m))))
  else Err e_maint.

Definition truthy (v : json) : bool :=
  match v with
  | JNull => false | JBool b => b | JInt z => negb (Z.eqb z 0)
  | JFloat t => negb (str_eqb t (S"0.0") || str_eqb t (S"-0.0"))
  | JStr s => negb (Nat.eqb (List.length s) 0)
  | JArr l => negb (Nat.eqb (List.length l) 0)
  | JObj l => negb (Nat.eqb (List.length l) 0)
  end.

Section WithIso.
  (* datetime.fromisoformat accepts the text *)
  Variable VISO : str -> bool.

  Definition iso_arg (o : option json) : res (option str) :=
    match o with
    | None => Ok None
    | Some v => if truthy v
                then match v with
                     | JStr s => if VISO s then Ok (Some s) else Err e_value
                     | _ => Err e_type
                     end
                else Ok None
    end.

  (* MaintenanceEntry( known part of v ) for a decoded JSON value v *)
  Definition mentry_of_jv (v : json) : res mentry :=
    match v with
    | JObj d =>
      (* only the dataclass fields are passed on (9153c3e); the constructor reads these three *)
      match aget k_state d with
           | None => Err e_type                               (* missing required argument *)
           | Some sv =>
             let st := match sv with JStr s => mstate_of_str s | _ => None end in
             match iso_arg (aget k_deadline d) with
             | Err e => Err e
             | Ok dl => match iso_arg (aget k_end d) with
                        | Err e => Err e
                        | Ok en => Ok {| me_state := st; me_deadline := dl; me_end := en |}
                        end
             end
      end
    | _ => Err e_attr                                            (* no .items *)
    end.

  Fixpoint mentries_of (d : list (str * json)) : res (list (str * mentry)) :=
    match d with
    | [] => Ok []
    | (n, v) :: r => match mentry_of_jv v with
                     | Err e => Err e
                     | Ok e => match mentries_of r with Ok l => Ok ((n, e) :: l) | Err x => Err x end
                     end
    end.

  Definition mi_of_jv (j : json) : res (option minfo) :=
    match j with
    | JObj d => match mentries_of d with
                | Ok l => Ok (Some {| mi_nodes := l; mi_lock := true |})
                | Err e => Err e
                end
    | _ => Err e_attr                                          (* no .items *)
    end.

  Definition mi_from_json (t : option str) : res (option minfo) :=
    match t with
    | None => Ok None
    | Some s => if Nat.eqb (List.length s) 0 then Ok None
                else match jparse s with None => Err e_decode | Some j => mi_of_jv j end
    end.
End WithIso.

(* ---------------------------------------------------------------- typed tuples "type:value" *)
Inductive tval := TVStr (s : str) | TVInt (z : Z).
Record ttuple := { tt_type : str; tt_val : tval }.
Definition e_reject : str := S"Reject".     (* TypedTupleException; the harness maps the TypeError that the
                                               error path of __init__ currently raises to the same name *)

Definition types_of (cat : str) : list str :=
  match find (fun ct => str_eqb (fst ct) cat) tuple_types with Some ct => snd ct | None => [] end.

Definition tt_make (cat : str) (atype : str) (aval : tval) : res ttuple :=
  if existsb (str_eqb atype) (types_of cat) then Ok {| tt_type := atype; tt_val := aval |} else Err e_reject.

Definition tval_str (v : tval) : str := match v with TVStr s => s | TVInt z => str_of_Z z end.
Definition tt_string (t : ttuple) : str := tt_type t ++ tuple_separator ++ tval_str (tt_val t).

Definition py_space (c : N) : bool := existsb (N.eqb c) py_space_points.
Fixpoint lstrip (s : str) : str := match s with c :: r => if py_space c then lstrip r else s | [] => [] end.
Definition py_strip (s : str) : str := rev (lstrip (rev (lstrip s))).

(* s.split(sep, 1) for a one-character separator: None when sep does not occur *)
Fixpoint split1 (sep : N) (s : str) : option (str * str) :=
  match s with
  | [] => None
  | c :: r => if c =? sep then Some ([], r)
              else match split1 sep r with Some (a, b) => Some (c :: a, b) | None => None end
  end.
Definition sep_char : N := match tuple_separator with c :: _ => c | [] => 58 end.

Definition tt_fromstring (cat : str) (s : str) : res ttuple :=
  match split1 sep_char (py_strip s) with
  | None => Err e_value                                       (* not enough values to unpack *)
  | Some (a, b) => tt_make cat a (TVStr b)
  end.

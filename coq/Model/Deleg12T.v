(* C12 model, part 5: the TEXT level and the decode side of Delegations.  to_json as text (json.dumps of the
   dictionary Model/Deleg12.v builds) and from_json on ANY text: the special inputs None / '' / "None", json.loads
   (Base/Json.v: whitespace, duplicate keys with "last one wins", every JSON kind), then the loop of from_json on a JSON
   value of any shape: top level / entries that are not objects, unknown keys, details that are not dictionaries,
   detail values of every kind (null, float, nested), pool names that are null.  Definitions only.
   Outside the modelled domain (explicit EUnmodelled): pool_id / pool values that are numbers, booleans, lists or
   objects (the code accepts them as pool "names"), booleans as capacity values (a Python bool is an int). *)
From Coq Require Import List ZArith NArith Bool String.
From FIM Require Import Base.Str Base.Corr Base.Json Gen.DelegGen Model.Deleg12.
Import ListNotations.

Definition e_attribute : exn := EOther (S"AttributeError").     (* x.items() / x.keys() on a non-dict *)
Definition e_jsondecode : exn := EOther (S"JSONDecodeError").

(* ---------------------------------------------------------------- encoder *)
Definition json_of_dval (v : dval) : json :=
  match v with DInt z => JInt z | DStr s => JStr s | DList l => JArr (map JStr l) end.
Definition json_of_ddict (d : ddict) : json := JObj (map (fun kv => (fst kv, json_of_dval (snd kv))) d).

Definition opt_member (k : str) (o : option json) : list (str * json) :=
  match o with Some v => [(k, v)] | None => [] end.

(* inner dictionary, keys in the order to_json inserts them *)
Definition json_of_entry (j : jentry) : json :=
  JObj (opt_member field_pool_id (option_map JStr (j_pool_id j)) ++
        opt_member field_pool (option_map JStr (j_pool j)) ++
        opt_member field_capacities (option_map json_of_ddict (j_caps j)) ++
        opt_member field_labels (option_map json_of_ddict (j_labs j))).

Definition json_of_doc (doc : jdoc) : json := JObj (map (fun kj => (fst kj, json_of_entry (snd kj))) doc).

(* Delegations.to_json, as text *)
Definition to_json_text (ds : delegations) : res str :=
  bind (to_json ds) (fun doc => Ok (jprint (json_of_doc doc))).

(* ---------------------------------------------------------------- decoder *)
Section WithValidators.
Variable lab_check : str -> dval -> option exn.

Fixpoint all_strs (l : list json) : option (list str) :=
  match l with
  | [] => Some []
  | JStr s :: r => match all_strs r with Some t => Some (s :: t) | None => None end
  | _ :: _ => None
  end.

(* one iteration of _set_fields on a JSON value of any kind: Ok (Some v) = field set to v, Ok None = field set to None *)
Definition check_xitem (ty : dtype) (k : str) (v : json) : res (option dval) :=
  match ty with
  | TCap =>
      match v with
      | JNull => if is_field TCap k then Ok None else Err ECapacity      (* None skips both asserts *)
      | JInt z => if (z <? 0)%Z then Err EAssertion
                  else if is_field TCap k then Ok (Some (DInt z)) else Err ECapacity
      | JFloat _ => Err EAssertion                 (* v >= 0 fails, or isinstance(v, int) does *)
      | JBool _ => Err EUnmodelled
      | JStr _ | JArr _ | JObj _ => Err EType        (* v >= 0 *)
      end
  | TLab =>
      let settle (d : dval) : res (option dval) :=
          if is_field TLab k then match lab_check k d with None => Ok (Some d) | Some e => Err e end
          else Err ELabel in
      match v with
      | JStr s => settle (DStr s)
      | JArr l => match all_strs l with Some t => settle (DList t) | None => Err EAssertion end
      | _ => Err EAssertion                         (* not None, a str or a list of str *)
      end
  end.

Fixpoint first_xerror (ty : dtype) (m : list (str * json)) : option exn :=
  match m with
  | [] => None
  | (k, v) :: r => match check_xitem ty k v with Err e => Some e | Ok _ => first_xerror ty r end
  end.

(* Capacities(kwargs v) / Labels(kwargs v) for the JSON value under the details key *)
Definition xobj_of_json (ty : dtype) (v : json) : res det :=
  match v with
  | JObj m =>
      match first_xerror ty m with
      | Some e => Err e
      | None => Ok (mkDet ty (map (fun f => match aget f m with
                                             | Some x => match check_xitem ty f x with Ok o => o | Err _ => default_of ty end
                                             | None => default_of ty
                                             end) (fields_of ty)))
      end
  | _ => Err EType                                   (* argument after ** must be a mapping *)
  end.

(* a pool name read from the document: a string, null (-> None), anything else is outside the model *)
Definition pool_name (v : json) : res (option str) :=
  match v with JStr s => Ok (Some s) | JNull => Ok None | _ => Err EUnmodelled end.

Definition xentry_of_json (ty : dtype) (id : str) (inner : json) : res deleg :=
  match inner with
  | JObj im =>
      let own := match ty with TCap => field_capacities | TLab => field_labels end in
      let other := match ty with TCap => field_labels | TLab => field_capacities end in
      match aget field_pool_id im with
      | Some pv =>
          bind (pool_name pv) (fun po =>
          let single := match po with Some p => str_eqb p single_pool_name | None => false end in
          if ahas other im then Err EDelegation
          else match aget own im with
               | None => Err EKey
               | Some dv => bind (xobj_of_json ty dv) (fun x =>
                            bind (new_deleg ty id (if single then FSingle else FDef) (if single then None else po))
                                 (fun d => set_details d x))
               end)
      | None =>
          match aget field_pool im with
          | Some pv =>
              if ahas field_capacities im || ahas field_labels im then Err EDelegation
              else bind (pool_name pv) (fun po => new_deleg ty id FRef po)
          | None => Err EDelegation
          end
      end
  | _ => Err e_attribute                             (* v.keys() *)
  end.

Fixpoint xfrom_items (ty : dtype) (m : list (str * json)) (ds : delegations) : res delegations :=
  match m with
  | [] => Ok ds
  | (k, inner) :: r => bind (xentry_of_json ty k inner) (fun d =>
                       bind (add_delegation ds d) (fun ds' => xfrom_items ty r ds'))
  end.

(* the loop of from_json on what json.loads returned *)
Definition from_json_value (ty : dtype) (v : json) : res delegations :=
  match v with
  | JObj m => xfrom_items ty m (mkDs ty [])
  | _ => Err e_attribute                             (* json_dict.items() *)
  end.

(* Delegations.from_json on any input: None / '' / "None" give no Delegations at all *)
Definition from_json_text (ty : dtype) (t : option str) : res (option delegations) :=
  match t with
  | None => Ok None
  | Some [] => Ok None
  | Some s => if str_eqb s neo4j_none then Ok None
              else match jparse s with
                   | None => Err e_jsondecode
                   | Some v => bind (from_json_value ty v) (fun ds => Ok (Some ds))
                   end
  end.

End WithValidators.

(* no null among the capacity values of any entry (such a field decodes to None and is dropped when re-encoded) *)
Definition no_null_values (v : json) : bool :=
  match v with JObj m => forallb (fun kv => match snd kv with JNull => false | _ => true end) m | _ => true end.
Definition no_null_capacities (v : json) : bool :=
  match v with
  | JObj m => forallb (fun kv => match snd kv with
                                 | JObj im => match aget field_capacities im with Some dv => no_null_values dv | None => true end
                                 | _ => true
                                 end) m
  | _ => true
  end.

(* stream "text" *)
Definition observe_text (t : verdicts) (ty : dtype) (txt : option str) : val :=
  let lc := check_of t in
  let dec := from_json_text lc ty txt in
  VL [ v_res (VOpt v_delegations) dec;
       match dec with
       | Ok (Some ds) =>
           let enc := to_json_text ds in
           VL [ v_res VS enc;
                match enc with Ok s => v_res (VOpt v_delegations) (from_json_text lc ty (Some s)) | Err _ => VNone end ]
       | _ => VNone
       end ].

Definition check_text (c : (verdicts * dtype * option str) * val) : bool :=
  let '((t, ty, txt), o) := c in val_eqb (observe_text t ty txt) o.

(* C07 - correspondence check evaluated by Coq on the histories the harness ran through the real API.
   For every call: the model's step, started from the implementation's snapshot BEFORE the call, must give
   the recorded outcome and the implementation's snapshot AFTER the call (one-step refinement at every
   step); wf_b evaluated on the implementation's snapshot must agree with the verdict of the independent
   Python oracle; the model's views of the snapshot must be the ids the real views listed.
   Definitions only. *)
From Coq Require Import String List NArith ZArith Bool.
From FIM Require Import Base.Str Gen.Rules Model.T7Graph Model.T7Ops Model.T7WF.
Import ListNotations.

Definition snode := (N * N * option N * option N * bool)%type.   (* id, class code, type, name, Labels present *)
Definition sedge := (N * N * N)%type.                             (* a, b, relation code *)
Definition snap := (list snode * list sedge)%type.
Definition sviews := (list N * list N * list N * list N * list N)%type.  (* nodes facilities links services interface_list *)

Record stepc := mkStep {
  s_op : op; s_drawn : list str; s_hint : list str; s_out : option exn; s_snap : snap; s_views : option sviews; s_pyviol : bool }.

(* substrate flavour?, string table, steps (strings referenced through the table) *)
Definition tcase := ((bool * flags) * list str * ((N -> str) -> list stepc))%type.

Definition cls_of_code (c : N) : cls :=
  match c with 0 => KNode | 1 => KComp | 2 => KNS | 3 => KCP | 4 => KLink | 5 => KComposite | _ => KOther end%N.
Definition rel_of_code (c : N) : rel := match c with 0 => Has | 1 => Connects | _ => ROther end%N.

Definition decode (tb : N -> str) (s : snap) : graph :=
  mkG (map (fun n => match n with (i, c, t, nm, lab) =>
                       mkNode (tb i) (cls_of_code c) (option_map tb t) (option_map tb nm) lab end) (fst s))
      (map (fun e => match e with (a, b, r) => mkEdge (tb a) (tb b) (rel_of_code r) end) (snd s)).

Definition sub_list {A} (eqb : A -> A -> bool) (l1 l2 : list A) : bool := forallb (fun x => existsb (eqb x) l2) l1.
Definition same_set {A} (eqb : A -> A -> bool) (l1 l2 : list A) : bool :=
  Nat.eqb (length l1) (length l2) && sub_list eqb l1 l2 && sub_list eqb l2 l1.
Definition graph_eqb (g1 g2 : graph) : bool :=
  same_set node_eqb (gnodes g1) (gnodes g2) && same_set edge_eqb (gedges g1) (gedges g2).

Definition oexn_eqb (a b : option exn) : bool := opt_eqb exn_eqb a b.

Definition names_distinct (l : list node) : bool :=
  (fix go (l : list node) := match l with [] => true | a :: r => negb (existsb (fun b => ostr_eqb (nname a) (nname b)) r) && go r end) l.

(* a name-keyed view against the ids the implementation listed: exact when the names are distinct, otherwise
   only the number of entries is determined (which element survives depends on creation order) *)
Definition view_agrees (tb : N -> str) (src : list node) (model : list str) (impl : list N) : bool :=
  if names_distinct src then same_set str_eqb model (map tb impl)
  else Nat.eqb (length model) (length impl).

Definition comp_names_distinct (g : graph) : bool :=
  forallb (fun n => names_distinct (flat_map (fun c => find_nodes g c) (first_nb g (nid n) Has KComp))) (nodes_view g).

Definition views_agree (tb : N -> str) (g : graph) (v : option sviews) : bool :=
  match v with
  | None => true
  | Some (vn, vf, vl, vs, vi) =>
      view_agrees tb (nodes_view g) (view_nodes g) vn &&
      view_agrees tb (facilities_view g) (view_facilities g) vf &&
      view_agrees tb (of_class KLink g) (view_links g) vl &&
      view_agrees tb (of_class KNS g) (view_services g) vs &&
      (if names_distinct (nodes_view g) && comp_names_distinct g
       then same_set str_eqb (view_interface_list g) (map tb vi) else true)
  end.

(* codes of the checks that fail at one step: 1 outcome, 2 post-state, 3 wf_b vs Python oracle, 4 views *)
Definition step_failures (cf : bool * flags) (tb : N -> str) (pre : graph) (s : stepc) : list N :=
  let post := decode tb (s_snap s) in
  let '(g', out) := step (fst cf) (snd cf) pre (s_op s) (s_drawn s) (s_hint s) in
  let ambiguous := oexn_eqb out (Some EAmbiguous) in
  (if ambiguous || oexn_eqb out (s_out s) then [] else [1%N]) ++
  (if ambiguous || graph_eqb g' post then [] else [2%N]) ++
  (if Bool.eqb (wf_b post) (negb (s_pyviol s)) then [] else [3%N]) ++
  (if views_agree tb post (s_views s) then [] else [4%N]).

Fixpoint run_steps (cf : bool * flags) (tb : N -> str) (pre : graph) (l : list stepc) (k : N) : list (N * list N) :=
  match l with
  | [] => []
  | s :: r =>
      let f := step_failures cf tb pre s in
      (match f with [] => [] | _ => [(k, f)] end) ++ run_steps cf tb (decode tb (s_snap s)) r (N.succ k)
  end.

Definition table (l : list str) : N -> str := fun k => nth (N.to_nat k) l [].

Definition diag (c : tcase) : list (N * list N) :=
  match c with (sub, tbl, steps) => run_steps sub (table tbl) empty_graph (steps (table tbl)) 0%N end.

(* the model's own account of a step, for debugging a disagreement *)
Definition explain (c : tcase) (k : nat) : option (option exn * graph) :=
  match c with (sub, tbl, steps) =>
    let tb := table tbl in
    let l := steps tb in
    let pre := match k with O => empty_graph | Datatypes.S j => match nth_error l j with Some s => decode tb (s_snap s) | None => empty_graph end end in
    match nth_error l k with
    | Some s => let '(g', out) := step (fst sub) (snd sub) pre (s_op s) (s_drawn s) (s_hint s) in Some (out, g')
    | None => None
    end
  end.

Definition check_history (c : tcase) : bool := match diag c with [] => true | _ => false end.

(* rule violations alone: does wf_b hold on every snapshot of the history? *)
Definition wf_all (c : tcase) : bool :=
  match c with (sub, tbl, steps) => forallb (fun s => wf_b (decode (table tbl) (s_snap s))) (steps (table tbl)) end.

(* C12 model, part 3: ONE Pools object as a state machine.  Pool objects are mutable and shared: the registry
   pool_by_id and the by-delegation index pools_by_delegation both hold REFERENCES to them, so the state is a heap
   of Pool objects, a registry pool id -> object, and an index delegation id -> objects.  A history is any
   sequence of: Pool(...) (+ setters), a setter on an existing object, add_pool, build_index_by_delegation_id,
   generate_delegations_by_node_id, incorporate_delegation into the object itself, and "regroup" (generate, then
   incorporate everything into a fresh Pools).
   Definitions only. *)
From Coq Require Import List ZArith NArith Bool String.
From FIM Require Import Base.Str Base.Corr Gen.DelegGen Model.Deleg12 Model.Pools12.
Import ListNotations.

Definition hindex := list (str * list nat).           (* delegation id -> Pool objects (heap positions) *)

Record pstate := mkSt { st_type : dtype;
                        st_heap : list pool;          (* every Pool object created so far *)
                        st_reg : list (str * nat);    (* pool_by_id, insertion ordered *)
                        st_index : option hindex }.   (* pools_by_delegation (None until first built) *)

Definition init_state (ty : dtype) : pstate := mkSt ty [] [] None.

Fixpoint set_nth {A} (k : nat) (x : A) (l : list A) : list A :=
  match l, k with
  | [], _ => []
  | _ :: r, O => x :: r
  | y :: r, Datatypes.S k' => y :: set_nth k' x r
  end.

Definition deref (h : list pool) (ks : list nat) : list pool :=
  flat_map (fun k => match nth_error h k with Some p => [p] | None => [] end) ks.

(* the index / the registry as the Pool values they currently point to *)
Definition resolve (h : list pool) (idx : hindex) : index := map (fun e => (fst e, deref h (snd e))) idx.
Definition reg_pools (st : pstate) : list pool := deref (st_heap st) (map snd (st_reg st)).

(* pool_by_id[pid] = object k *)
Fixpoint put_reg (pid : str) (k : nat) (reg : list (str * nat)) : list (str * nat) :=
  match reg with
  | [] => [(pid, k)]
  | (q, j) :: r => if str_eqb q pid then (q, k) :: r else (q, j) :: put_reg pid k r
  end.

(* build_index_by_delegation_id: the dictionary is reset, then filled from the CURRENT registry; a pool that does
   not validate raises and leaves the part built so far *)
Fixpoint index_from (h : list pool) (ks : list nat) (acc : hindex) : hindex * option exn :=
  match ks with
  | [] => (acc, None)
  | k :: r => match nth_error h k with
              | None => (acc, Some EUnmodelled)       (* the registry only holds existing objects *)
              | Some p => match validate_pool p, p_deleg p with
                          | Some e, _ => (acc, Some e)
                          | None, Some did => index_from h r (group_add did k acc)
                          | None, None => (acc, Some EPool)
                          end
              end
  end.

(* the read-only queries of Pools / Pool *)
Inductive hquery :=
| QNodeIds (did : str)             (* Pools.get_node_ids *)
| QDelegIds                        (* Pools.get_delegation_ids *)
| QPoolsBy (did : str)             (* Pools.get_pools_by_delegation_id *)
| QGetStrict (pid : str)           (* Pools.get_pool_by_id(strict=True) *)
| QValidate                        (* Pools.validate_pools *)
| QType                            (* Pools.get_type *)
| QPoolGet (k : nat).              (* the getters of Pool object k: type, id, delegation id, on, for, details *)

Inductive hop :=
| HNew (s : pspec)                 (* Pool(...) and the setter calls of s: a new object *)
| HPool (k : nat) (o : pool_op)    (* a setter on object k (registered, indexed or neither) *)
| HAdd (k : nat)                   (* add_pool(object k) *)
| HIndex                           (* build_index_by_delegation_id *)
| HInc (node : str) (dty : dtype) (items : list deleg)
                                   (* incorporate_delegation(node, a Delegations of type dty) INTO this object *)
| HQuery (q : hquery)              (* a read-only query: the state does not change *)
| HGetPool (pid : str)             (* get_pool_by_id (non strict): creates and registers an empty pool if absent *)
| HGenerate                        (* generate_delegations_by_node_id *)
| HRegroup.                        (* generate, then incorporate everything into a fresh Pools *)

(* get_pool_by_id (non strict): the registered object, or a new empty Pool that is registered at once *)
Definition get_or_create (st : pstate) (pn : str) : pstate * nat :=
  match lookup pn (st_reg st) with
  | Some k => (st, k)
  | None => let k := List.length (st_heap st) in
            (mkSt (st_type st) (st_heap st ++ [fresh_pool (st_type st) pn]) (st_reg st ++ [(pn, k)]) (st_index st), k)
  end.

Definition upd_obj (st : pstate) (k : nat) (p : pool) : pstate :=
  mkSt (st_type st) (set_nth k p (st_heap st)) (st_reg st) (st_index st).

(* one delegation of incorporate_delegation, on the shared objects; what was done before an exception stays *)
Definition hinc_one (st : pstate) (node : str) (d : deleg) : pstate * option exn :=
  match d_fmt d with
  | FSingle => (st, None)
  | fmt =>
      match d_pool d with
      | None => (st, Some EAssertion)
      | Some pn =>
          let '(st1, k) := get_or_create st pn in
          match nth_error (st_heap st1) k with
          | None => (st1, Some EUnmodelled)
          | Some p =>
              match fmt with
              | FDef =>
                  match p_on p with
                  | Some _ => (st1, Some EPool)
                  | None =>
                      match d_details d with
                      | None => (upd_obj st1 k (mkP (p_type p) (p_id p) (p_deleg p) (Some node) (p_for p) (p_details p)),
                                 Some EAssertion)
                      | Some x => (upd_obj st1 k (mkP (p_type p) (p_id p) (Some (d_id d)) (Some node) (p_for p) (Some x)), None)
                      end
                  end
              | _ => (upd_obj st1 k (mkP (p_type p) (p_id p) (Some (d_id d)) (p_on p) (set_add node (p_for p)) (p_details p)), None)
              end
          end
      end
  end.

Fixpoint hinc_items (st : pstate) (node : str) (items : list deleg) : pstate * option exn :=
  match items with
  | [] => (st, None)
  | d :: r => match hinc_one st node d with
              | (st1, None) => hinc_items st1 node r
              | (st1, Some e) => (st1, Some e)
              end
  end.

(* generate reads the index keys and the CURRENT contents of the objects *)
Definition hgenerate (st : pstate) : res gmap :=
  generate (st_type st) (match st_index st with Some i => Some (resolve (st_heap st) i) | None => None end).

Definition hregroup (st : pstate) : res (list pool) :=
  bind (hgenerate st) (fun g => incorporate_all (st_type st) g []).

Fixpoint first_invalid (l : list pool) : option exn :=
  match l with
  | [] => None
  | p :: r => match validate_pool p with Some e => Some e | None => first_invalid r end
  end.

Definition hanswer (st : pstate) (q : hquery) : val :=
  match q with
  | QNodeIds did =>
      match st_index st with
      | None => VErr (exn_name EPool)
      | Some idx => match lookup did idx with
                    | None => VL []
                    | Some ks => VL (map VS (sort_strs (set_of (flat_map p_for (deref (st_heap st) ks)))))
                    end
      end
  | QDelegIds =>
      match st_index st with
      | None => VErr (exn_name EPool)
      | Some idx => VL (map VS (sort_strs (map fst idx)))
      end
  | QPoolsBy did =>
      match st_index st with
      | None => VErr (exn_name EPool)
      | Some idx => match lookup did idx with
                    | None => VNone
                    | Some ks => VL (map (fun p => VS (p_id p)) (deref (st_heap st) ks))
                    end
      end
  | QGetStrict pid =>
      match lookup pid (st_reg st) with
      | Some k => VOpt v_pool (nth_error (st_heap st) k)
      | None => VNone
      end
  | QValidate => match first_invalid (reg_pools st) with Some e => VErr (exn_name e) | None => VB true end
  | QType => v_dtype (st_type st)
  | QPoolGet k => VOpt v_pool (nth_error (st_heap st) k)
  end.

Definition hstep (st : pstate) (o : hop) : pstate * val :=
  match o with
  | HNew s =>
      let '(p, os) := pool_apply_all (new_pool (ps_ptype s) (ps_pid s) (ps_did s) (ps_on s) (ps_for s)) (ps_ops s) in
      (mkSt (st_type st) (st_heap st ++ [p]) (st_reg st) (st_index st), VL os)
  | HPool k op =>
      match nth_error (st_heap st) k with
      | None => (st, VNone)
      | Some p => match pool_apply p op with
                  | Ok p' => (mkSt (st_type st) (set_nth k p' (st_heap st)) (st_reg st) (st_index st), VB true)
                  | Err e => (st, VErr (exn_name e))
                  end
      end
  | HAdd k =>
      match nth_error (st_heap st) k with
      | None => (st, VNone)
      | Some p => if dtype_eqb (p_type p) (st_type st)
                  then (mkSt (st_type st) (st_heap st) (put_reg (p_id p) k (st_reg st)) (st_index st), VB true)
                  else (st, VErr (exn_name EPool))
      end
  | HIndex =>
      let '(idx, oe) := index_from (st_heap st) (map snd (st_reg st)) [] in
      (mkSt (st_type st) (st_heap st) (st_reg st) (Some idx),
       match oe with None => VL [v_index (resolve (st_heap st) idx)] | Some e => VErr (exn_name e) end)
  | HInc node dty items =>
      if dtype_eqb dty (st_type st)
      then let '(st1, oe) := hinc_items st node items in
           (st1, match oe with None => VB true | Some e => VErr (exn_name e) end)
      else (st, VErr (exn_name EPool))
  | HQuery q => (st, hanswer st q)
  | HGetPool pid =>
      let '(st1, k) := get_or_create st pid in (st1, VOpt v_pool (nth_error (st_heap st1) k))
  | HGenerate => (st, v_res v_gmap (hgenerate st))
  | HRegroup => (st, v_res v_pools (hregroup st))
  end.

Fixpoint hrun (st : pstate) (ops : list hop) : pstate * list val :=
  match ops with
  | [] => (st, [])
  | o :: r => let '(st1, v) := hstep st o in
              let '(st2, vs) := hrun st1 r in (st2, v :: vs)
  end.

Definition hfinal (st : pstate) (ops : list hop) : pstate := fst (hrun st ops).

(* every object the registry names exists *)
Definition reg_valid (st : pstate) : Prop :=
  Forall (fun e => exists p, nth_error (st_heap st) (snd e) = Some p /\ p_id p = fst e) (st_reg st).

(* stream "hist" *)
Definition observe_hist (ty : dtype) (ops : list hop) : val :=
  let '(st, vs) := hrun (init_state ty) ops in
  VL [VL vs; v_pools (reg_pools st)].

Definition check_hist (c : (dtype * list hop) * val) : bool :=
  let '((ty, ops), o) := c in val_eqb (observe_hist ty ops) o.

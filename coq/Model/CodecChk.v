(* C03 correspondence: what the harness (harness/c03.py) compares.  For every case the model's
   observation is computed as one JSON value and compared with the observation recorded from the
   implementation.  The validators (label regexes, tag pattern, datetime.fromisoformat) are instantiated
   with "accept": the generators only produce values the implementation's validators accept (what they
   accept is property C16's subject).  Definitions only. *)
From Coq Require Import String List NArith ZArith Bool.
From FIM Require Import Base.Str Base.Json Gen.CodecGen Model.CodecField Model.CodecMisc.
Import ListNotations.
Open Scope N_scope.

Definition VA : str -> json -> bool := fun _ _ => true.
Definition VTA : str -> bool := fun _ => true.

Definition jerr (e : str) : json := JObj [(S"err", JStr e)].
Definition jres {A} (f : A -> json) (r : res A) : json := match r with Ok a => f a | Err e => jerr e end.
Definition jopt {A} (f : A -> json) (o : option A) : json := match o with Some a => f a | None => JNull end.
Definition jid (j : json) : json := j.

(* ---- stream json : Base/Json.v against json.dumps / json.loads ---- *)
Inductive pexp := PReject | PAccept | PValue (v : json).
Definition jcase : Type := (json * bool * str) * list (str * pexp).

Definition check_parse (tp : str * pexp) : bool :=
  match snd tp, jparse (fst tp) with
  | PReject, None => true
  | PAccept, Some _ => true
  | PValue x, Some y => json_eqb x y
  | _, _ => false
  end.

Definition check_json (c : jcase) : bool :=
  let '((v, srt, text), ps) := c in
  str_eqb (jdumps srt v) text && forallb check_parse ps.

(* ---- stream field : the JSONField family ---- *)
(* fg: the constructor was called with forgiving=True among its keyword arguments (it is passed on to _set_fields) *)
Definition fcase : Type := (nat * bool * obj * str * obj) * json.

Definition obs_field (c : jclass) (fg : bool) (kw : obj) (textx : str) (ukw : obj) : json :=
  match set_fields VA c fg kw (defaults c) with
  | Err e => JArr [jerr e]
  | Ok x =>
    let t := to_json c x in
    let dec := from_json VA c (Some t) in
    JArr [ JObj x; JStr t; jopt JObj (to_dict c x);
           jres (jopt JObj) dec;
           match dec with Ok (Some y) => JStr (to_json c y) | _ => JNull end;
           jres (jopt JObj) (from_json VA c (Some textx));
           jres JObj (update VA c x ukw);
           (* the original after the marker "ZZ" was appended in place to every list-valued field of the result *)
           match update VA c x ukw with
           | Ok _ => let x' := orig_after_result_lists_grow x ukw (JStr (S"ZZ")) in JArr [JObj x'; JStr (to_json c x')]
           | Err _ => JNull
           end;
           (* decode(T) depends only on T: the same text decoded a second time, after every list of the first result
              was grown in place *)
           jres (jopt JObj) dec ]
  end.

Definition check_field (c : fcase) : bool :=
  let '((i, fg, kw, textx, ukw), o) := c in
  match nth_error gen_classes i with
  | Some cl => json_eqb (obs_field cl fg kw textx ukw) o
  | None => false
  end.

(* ---- stream misc : Tags, JSONData, Gateway, PathInfo/ERO, typed tuples ---- *)
Inductive mcase :=
| MCTags (ok : list str) (args : list json) (textx : option str)   (* ok: the strings Tags._check accepts *)
| MCJData (idx : nat) (inp : jd_input)
| MCGateway (kw : option obj) (textx : option str)
| MCPath (ero : bool) (p : pinfo) (textx : option str)
| MCTuple (cat atype : str) (aval : tval) (s2 : str).

Definition jstrs (l : list str) : json := JArr (map JStr l).

Definition obs_tags (ok : list str) (args : list json) (textx : option str) : json :=
  let VTA := fun s => existsb (str_eqb s) ok in
  match tags_make VTA args with
  | Err e => JArr [jerr e]
  | Ok t =>
    let s := tags_to_json t in
    JArr [ jstrs t; JStr s; jres (jopt jstrs) (tags_from_json VTA (Some s));
           jres (jopt jstrs) (tags_from_json VTA textx) ]
  end.

Definition obs_jdata (idx : nat) (inp : jd_input) : json :=
  match nth_error jsondata_classes idx with
  | None => JNull
  | Some (_, mx, exn) =>
    match jd_make mx exn inp with
    | Err e => JArr [jerr e]
    | Ok t => JArr [ JStr (jd_json t); jopt jid (jd_data t); jres JStr (jd_make mx exn (JDText t)) ]
    end
  end.

Definition obs_gateway (kw : option obj) (textx : option str) : json :=
  let lab : res (option obj) :=
      match kw with
      | None => Ok None
      | Some k => match construct VA cls_Labels k with Ok l => Ok (Some l) | Err e => Err e end
      end in
  match lab with
  | Err e => JArr [jerr e]
  | Ok l =>
    match gw_make VA l with
    | Err e => JArr [jerr e]
    | Ok g =>
      let t := gw_to_json g in
      let gview := jopt (fun g' : option obj => JArr [JStr (S"gw"); jopt JObj g']) in    (* absent = JNull *)
      JArr [ jopt JObj g; jopt JStr t; jres gview (gw_from_json VA t); jres gview (gw_from_json VA textx) ]
    end
  end.

Definition payload_json (p : payload) : json :=
  match p with PLRaw j => JArr [JStr (S"raw"); j] | PLPath a z => JArr [JStr (S"path"); a; z] end.
Definition pinfo_json (p : pinfo) : json :=
  JArr [ JStr (ptype_str (pi_type p)); payload_json (pi_payload p); jopt JBool (pi_strict p) ].

Definition obs_path (ero : bool) (p : pinfo) (textx : option str) : json :=
  let t := pi_to_json p in
  let dec := match t with Ok s => Some (pi_from_json ero (Some s)) | Err _ => None end in
  JArr [ jres JStr t;
         jopt (jres (jopt pinfo_json)) dec;
         match dec with Some (Ok (Some q)) => jres JStr (pi_to_json q) | _ => JNull end;
         jres (jopt pinfo_json) (pi_from_json ero textx) ].

Definition tt_json (t : ttuple) : json :=
  JArr [ JStr (tt_type t); match tt_val t with TVStr s => JStr s | TVInt z => JInt z end ].

Definition obs_tuple (cat atype : str) (aval : tval) (s2 : str) : json :=
  match tt_make cat atype aval with
  | Err e => JArr [jerr e; jres tt_json (tt_fromstring cat s2)]
  | Ok t =>
    let s := tt_string t in
    JArr [ JStr s; jres tt_json (tt_fromstring cat s);
           match tt_fromstring cat s with Ok u => JStr (tt_string u) | Err _ => JNull end;
           jres tt_json (tt_fromstring cat s2) ]
  end.

Definition obs_misc (c : mcase) : json :=
  match c with
  | MCTags ok a t => obs_tags ok a t
  | MCJData i inp => obs_jdata i inp
  | MCGateway k t => obs_gateway k t
  | MCPath e p t => obs_path e p t
  | MCTuple c a v s => obs_tuple c a v s
  end.

Definition check_misc (c : mcase * json) : bool := json_eqb (obs_misc (fst c)) (snd c).

(* ---- stream maint : MaintenanceInfo operation sequences + codec ---- *)
Definition VISOA : str -> bool := fun _ => true.

Definition mret_json (r : mret) : json :=
  match r with RNone => JNull | REntry e => mentry_json e | RErr c => jerr c end.
Definition minfo_json (m : minfo) : json :=
  JArr [ JArr (map (fun ne => JArr [JStr (fst ne); mentry_json (snd ne)]) (mi_nodes m)); JBool (mi_lock m) ].

Definition obs_maint (ops : list mop2) (textx : option str) : json :=
  let '((m, cp), rets) := mrun2 (mi_empty, None) ops in
  let t := mi_to_json m in
  let dec := match t with Ok s => Some (mi_from_json VISOA (Some s)) | Err _ => None end in
  JArr [ JArr (map mret_json rets); minfo_json m; jres JStr t;
         jopt (jres (jopt minfo_json)) dec;
         match dec with Some (Ok (Some q)) => jres JStr (mi_to_json q) | _ => JNull end;
         jres (jopt minfo_json) (mi_from_json VISOA textx);
         jopt minfo_json cp ].

Definition check_maint (c : (list mop2 * option str) * json) : bool :=
  let '((ops, textx), o) := c in json_eqb (obs_maint ops textx) o.

(* ---- stream foreign : texts NOT produced by the encoders, through every decoder; then re-encode and decode again ---- *)
Inductive fkind :=
| FKField (i : nat) | FKTags (ok : list str) | FKGateway | FKPath (ero : bool) | FKMaint | FKJData (idx : nat).

Definition fobs {A} (view : A -> json) (decode : option str -> res (option A)) (encode : A -> res (option str))
           (t : str) : json :=
  match decode (Some t) with
  | Ok (Some y) => match encode y with
                   | Ok ot => JArr [view y; jopt JStr ot; jres (jopt view) (decode ot)]
                   | Err e => JArr [view y; jerr e]
                   end
  | Ok None => JArr [JNull]
  | Err e => JArr [jerr e]
  end.

Definition res_some (r : res str) : res (option str) := match r with Ok s => Ok (Some s) | Err e => Err e end.

Definition obs_foreign (k : fkind) (t : str) : json :=
  match k with
  | FKField i => match nth_error gen_classes i with
                 | Some c => fobs JObj (from_json VA c) (fun y => Ok (Some (to_json c y))) t
                 | None => JNull
                 end
  | FKTags ok => let VT := fun s => existsb (str_eqb s) ok in
                 fobs jstrs (tags_from_json VT) (fun l => Ok (Some (tags_to_json l))) t
  | FKGateway => fobs (fun g : option obj => JArr [JStr (S"gw"); jopt JObj g]) (gw_from_json VA)
                      (fun g => Ok (gw_to_json g)) t
  | FKPath ero => fobs pinfo_json (pi_from_json ero) (fun p => res_some (pi_to_json p)) t
  | FKMaint => fobs minfo_json (mi_from_json VISOA) (fun m => res_some (mi_to_json m)) t
  | FKJData idx => match nth_error jsondata_classes idx with
                   | Some (_, mx, exn) =>
                     fobs (fun x : str => JArr [JStr x; jopt jid (jd_data x)])
                          (fun ot => match ot with
                                     | Some s => match jd_make mx exn (JDText s) with Ok x => Ok (Some x) | Err e => Err e end
                                     | None => Ok None end)
                          (fun x => Ok (Some (jd_json x))) t
                   | None => JNull
                   end
  end.

Definition check_foreign (c : (fkind * str) * json) : bool := json_eqb (obs_foreign (fst (fst c)) (snd (fst c))) (snd c).

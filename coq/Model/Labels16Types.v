(* C16: data types shared by the regenerated tables (Gen/LabelValidators.v) and the model. *)
From Coq Require Import ZArith NArith List.
Import ListNotations.

Inductive cmp := CLt | CLe.

(* lo <c1> x <c2> hi *)
Record bounds := mkbounds { b_lo : Z; b_lc : cmp; b_hc : cmp; b_hi : Z }.

(* the two shapes of Labels.LAMBDA_VALIDATORS entries *)
Inductive rangek :=
| RInt (b : bounds)                               (* lambda v: lo <c1> int(v) <c2> hi *)
| RSplit (sep : N) (b0 b1 : bounds) (c : cmp).    (* b0 on int(v.split(sep)[0]), b1 on int(v.split(sep)[1]), then [0] <c> [1] *)

(* exception classes that the validation paths can raise *)
Inductive exn := ELabel | EValue | EIndex | EAssert | EType | ETag | ECapacity | EData | ETopology | EOther.

Definition exn_eqb (a b : exn) : bool :=
  match a, b with
  | ELabel, ELabel | EValue, EValue | EIndex, EIndex | EAssert, EAssert | EType, EType
  | ETag, ETag | ECapacity, ECapacity | EData, EData | ETopology, ETopology | EOther, EOther => true
  | _, _ => false
  end.

(* how an entry point treats a label value on its way into a Labels object / an element (regenerated table
   Gen/LabelValidators.v label_entry_points) *)
Inductive ep_sem :=
| EP_set_fields (forgiving fresh : bool)   (* through Labels._set_fields of a fresh (constructor) or copied (update) object *)
| EP_unchecked                             (* written without any validation (plain attribute assignment) *)
| EP_attach (revalidates : bool).          (* an object whose field was assigned directly is attached to a sliver / element *)

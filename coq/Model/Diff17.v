(* C17 - sliver comparison.  Executable transcription of
     BaseSliver.prop_diff / _dict_diff / _dict_common        fim/slivers/base_sliver.py:241-279
     InterfaceSliver.diff                                      fim/slivers/interface_info.py:85-134
     NetworkServiceSliver.diff                                 fim/slivers/network_service.py:366-420
     NodeSliver.diff                                           fim/slivers/network_node.py:164-247
     Labels.__eq__ / Capacities.__eq__ / JSONData.__eq__       capacities_labels.py:201,479  json_data.py:111
   and the declarative specification [*_expected] the theorems compare it with.
   Definitions only (no proofs): the correspondence runs this file even when a proof is broken.

   Representation.
   * Names, node ids, label values and user-data VALUES are interned to N by the harness (equality only;
     node id 0 = None).  Capacities keep their integer values.
   * A Labels object is the association list of its non-None fields, a Capacities object the association
     list of its non-zero fields (the code reads a missing field as None / 0: `other.__dict__.get(f)`,
     `other.__dict__.get(f, 0)`).
   * A Python dict {resource_name: sliver} (AttachedComponentsInfo.devices, NetworkServiceInfo.network_services,
     InterfaceInfo.interfaces) is the list of its values in insertion order; the key of an entry IS its
     resource_name (the only writers are add_device / add_network_service / add_interface, which key by
     resource_name).  Distinct keys = [wf_*] below.
   * The containers define neither __len__ nor __bool__, so `if self.interface_info` is "is not None":
     option, with [Some []] (an empty container) distinct from [None].
   * WhatsModifiedFlag is a record of four booleans; [flag_val] is Flag.value. *)
From Coq Require Import List NArith ZArith Bool.
Import ListNotations.

(* ------------------------------------------------------------------------------------------- *)
(* tracked property values and Python's `!=` on them                                            *)
(* ------------------------------------------------------------------------------------------- *)

Definition lfields := list (N * N).      (* Labels: field id -> interned value, non-None fields *)
Definition cfields := list (N * Z).      (* Capacities: field id -> value, non-zero fields *)

Fixpoint getL (f : N) (l : lfields) : option N :=
  match l with
  | [] => None
  | (k, v) :: r => if N.eqb k f then Some v else getL f r
  end.

Fixpoint getC (f : N) (l : cfields) : Z :=
  match l with
  | [] => 0%Z
  | (k, v) :: r => if N.eqb k f then v else getC f r
  end.

Definition optN_eqb (x y : option N) : bool :=
  match x, y with
  | None, None => true
  | Some a, Some b => N.eqb a b
  | _, _ => false
  end.

(* Labels.__eq__(self, other), other a Labels:  for f, v in self.__dict__.items(): if v != other.__dict__.get(f): False.
   Both objects carry the constructor's field list; a field outside both association lists is None on
   both sides, so running over the fields of either list is the same loop. *)
Definition labels_eqb (a b : lfields) : bool :=
  forallb (fun f => optN_eqb (getL f a) (getL f b)) (map fst a ++ map fst b).

(* Capacities.__eq__: v != other.__dict__.get(f, 0) *)
Definition caps_eqb (a b : cfields) : bool :=
  forallb (fun f => Z.eqb (getC f a) (getC f b)) (map fst a ++ map fst b).

(* x != y for x, y in {None} + objects whose __eq__ answers False for a falsy/foreign operand and which
   define no __ne__ (Labels, Capacities, JSONData):  None != None is False;  obj != None is
   `not obj.__eq__(None)` = True;  None != obj falls to the reflected obj.__ne__(None) = True. *)
Definition py_ne {A} (eqb : A -> A -> bool) (x y : option A) : bool :=
  match x, y with
  | None, None => false
  | Some a, Some b => negb (eqb a b)
  | _, _ => true
  end.

Record props := mkProps {
  p_labels : option lfields;
  p_caps : option cfields;
  p_udata : option N          (* UserData: interned JSON value (JSONData.__eq__ compares the parsed .data) *)
}.

Record flags := mkFlags { f_lab : bool; f_cap : bool; f_ud : bool; f_sub : bool }.

Definition flag_none : flags := mkFlags false false false false.
Definition is_none (f : flags) : bool := negb (f_lab f || f_cap f || f_ud f || f_sub f).
Definition set_sub (f : flags) : flags := mkFlags (f_lab f) (f_cap f) (f_ud f) true.   (* flag |= SUB_INTERFACES *)
Definition flag_val (f : flags) : N :=
  ((if f_lab f then 1 else 0) + (if f_cap f then 2 else 0) + (if f_ud f then 4 else 0) + (if f_sub f then 8 else 0))%N.

(* BaseSliver.prop_diff *)
Definition prop_diff (p q : props) : flags :=
  mkFlags (py_ne labels_eqb (p_labels p) (p_labels q))
          (py_ne caps_eqb (p_caps p) (p_caps q))
          (py_ne N.eqb (p_udata p) (p_udata q))
          false.

(* ------------------------------------------------------------------------------------------- *)
(* sliver trees                                                                                 *)
(* ------------------------------------------------------------------------------------------- *)

Record subif := mkSub { sub_name : N; sub_id : N; sub_props : props }.
Record iface := mkIf { if_name : N; if_id : N; if_props : props;
                       if_dedicated : bool;                    (* get_type() == InterfaceType.DedicatedPort *)
                       if_subs : option (list subif) }.        (* interface_info *)
Record svc := mkSvc { sv_name : N; sv_id : N; sv_props : props;
                      sv_ifs : option (list iface) }.          (* interface_info *)
Record comp := mkComp { c_name : N; c_id : N; c_props : props;
                        c_smartnic : bool;                     (* get_type() == ComponentType.SmartNIC *)
                        c_svcs : option (list svc) }.          (* network_service_info *)
Record node := mkNode { n_name : N; n_id : N; n_props : props;
                        n_comps : option (list comp);          (* attached_components_info *)
                        n_svcs : option (list svc) }.          (* network_service_info *)

(* ------------------------------------------------------------------------------------------- *)
(* dictionaries keyed by resource_name                                                          *)
(* ------------------------------------------------------------------------------------------- *)

Section Dict.
  Context {E : Type} (nm : E -> N).

  Definition has (k : N) (d : list E) : bool := existsb (fun e => N.eqb (nm e) k) d.
  Definition dget (k : N) (d : list E) : option E := find (fun e => N.eqb (nm e) k) d.

  (* _dict_diff(a, b)['added']   = {k: b[k] for k in set(b) - set(a)}   (values)
     _dict_diff(a, b)['removed'] = {k: a[k] for k in set(a) - set(b)} *)
  Definition dict_added (a b : list E) : list E := filter (fun e => negb (has (nm e) a)) b.
  Definition dict_removed (a b : list E) : list E := filter (fun e => negb (has (nm e) b)) a.

  (* for xA in _dict_common(a, b).values(): xB = other....get(xA.resource_name)  -- the pairs (xA, xB) *)
  Definition dict_common (a b : list E) : list (E * E) :=
    flat_map (fun e => match dget (nm e) b with Some e' => [(e, e')] | None => [] end) a.

  (* the three `if A and B / if not A and B / if A and not B` blocks of every diff method *)
  Definition kids_added (oa ob : option (list E)) : list E :=
    match oa, ob with
    | Some a, Some b => dict_added a b
    | None, Some b => b
    | _, None => []
    end.
  Definition kids_removed (oa ob : option (list E)) : list E :=
    match oa, ob with
    | Some a, Some b => dict_removed a b
    | Some a, None => a
    | None, _ => []
    end.
  Definition kids_common (oa ob : option (list E)) : list (E * E) :=
    match oa, ob with
    | Some a, Some b => dict_common a b
    | _, _ => []
    end.
End Dict.

Definition isSome {A} (o : option A) : bool := match o with Some _ => true | None => false end.
Definition isnil {A} (l : list A) : bool := match l with [] => true | _ => false end.

(* self_modified: [] or [(self, flags)] *)
Definition self_mod (p q : props) : list flags :=
  let f := prop_diff p q in if is_none f then [] else [f].

(* ------------------------------------------------------------------------------------------- *)
(* InterfaceSliver.diff                                                                         *)
(* ------------------------------------------------------------------------------------------- *)

Record idiff := mkIdiff {
  i_added : list subif;                 (* added.interfaces *)
  i_removed : list subif;               (* removed.interfaces *)
  i_self : list flags;                  (* modified.services (sic: the port itself is listed there) *)
  i_mod : list (subif * flags)          (* modified.interfaces *)
}.

Definition sub_mods (oa ob : option (list subif)) : list (subif * flags) :=
  flat_map (fun p : subif * subif =>
              let f := prop_diff (sub_props (fst p)) (sub_props (snd p)) in
              if is_none f then [] else [(fst p, f)])
           (kids_common sub_name oa ob).

Definition iface_diff (a b : iface) : option idiff :=
  let d := mkIdiff (kids_added sub_name (if_subs a) (if_subs b))
                   (kids_removed sub_name (if_subs a) (if_subs b))
                   (self_mod (if_props a) (if_props b))
                   (sub_mods (if_subs a) (if_subs b)) in
  if isnil (i_self d) && isnil (i_added d) && isnil (i_removed d) && isnil (i_mod d) then None else Some d.

(* ------------------------------------------------------------------------------------------- *)
(* NetworkServiceSliver.diff                                                                    *)
(* ------------------------------------------------------------------------------------------- *)

Record sdiff := mkSdiff {
  s_added : list iface;
  s_removed : list iface;
  s_self : list flags;                  (* modified.services *)
  s_mod : list (iface * flags)          (* modified.interfaces *)
}.

(* flag = iA.prop_diff(iB); if iA.get_type() == DedicatedPort: if iA.diff(iB): flag |= SUB_INTERFACES
   (a TopologyDiff is a plain dataclass: truthy whenever it is not None) *)
Definition if_flag (a b : iface) : flags :=
  let f := prop_diff (if_props a) (if_props b) in
  if if_dedicated a then (if isSome (iface_diff a b) then set_sub f else f) else f.

Definition if_mods (oa ob : option (list iface)) : list (iface * flags) :=
  flat_map (fun p : iface * iface =>
              let f := if_flag (fst p) (snd p) in
              if is_none f then [] else [(fst p, f)])
           (kids_common if_name oa ob).

Definition svc_diff (a b : svc) : option sdiff :=
  let d := mkSdiff (kids_added if_name (sv_ifs a) (sv_ifs b))
                   (kids_removed if_name (sv_ifs a) (sv_ifs b))
                   (self_mod (sv_props a) (sv_props b))
                   (if_mods (sv_ifs a) (sv_ifs b)) in
  if isnil (s_self d) && isnil (s_added d) && isnil (s_removed d) && isnil (s_mod d) then None else Some d.

(* The same method with proposed_fixes/C17-1.patch applied:
     sub_diff = iA.diff(iB)
     if sub_diff and (sub_diff.added.interfaces or sub_diff.removed.interfaces or sub_diff.modified.interfaces):
         flag |= SUB_INTERFACES
   The harness probes the implementation with the witness of finding C17-1 and compares the service stream
   with [svc_diff] (finding present) or [svc_diff_fixed] (repaired); NodeSliver.diff only tests whether a
   service comparison is None, which is the same for both (Proofs: svc_diff_fixed_some). *)
Definition subs_changed (d : idiff) : bool := negb (isnil (i_added d) && isnil (i_removed d) && isnil (i_mod d)).

Definition if_flag_fixed (a b : iface) : flags :=
  let f := prop_diff (if_props a) (if_props b) in
  if if_dedicated a then
    match iface_diff a b with
    | Some d => if subs_changed d then set_sub f else f
    | None => f
    end
  else f.

Definition if_mods_fixed (oa ob : option (list iface)) : list (iface * flags) :=
  flat_map (fun p : iface * iface =>
              let f := if_flag_fixed (fst p) (snd p) in
              if is_none f then [] else [(fst p, f)])
           (kids_common if_name oa ob).

Definition svc_diff_fixed (a b : svc) : option sdiff :=
  let d := mkSdiff (kids_added if_name (sv_ifs a) (sv_ifs b))
                   (kids_removed if_name (sv_ifs a) (sv_ifs b))
                   (self_mod (sv_props a) (sv_props b))
                   (if_mods_fixed (sv_ifs a) (sv_ifs b)) in
  if isnil (s_self d) && isnil (s_added d) && isnil (s_removed d) && isnil (s_mod d) then None else Some d.

(* ------------------------------------------------------------------------------------------- *)
(* NodeSliver.diff  (can raise)                                                                 *)
(* ------------------------------------------------------------------------------------------- *)

Inductive exn := EAttribute | EIndex.
Inductive res (A : Type) := Ok (a : A) | Err (e : exn).
Arguments Ok {A} _.
Arguments Err {A} _.

(* list(c.network_service_info.network_services.values())[0] *)
Definition first_svc (c : comp) : res svc :=
  match c_svcs c with
  | None => Err EAttribute               (* 'NoneType' object has no attribute 'network_services' *)
  | Some [] => Err EIndex                (* list index out of range *)
  | Some (s :: _) => Ok s
  end.

Definition comp_flag (a b : comp) : res flags :=
  let f := prop_diff (c_props a) (c_props b) in
  if c_smartnic a then
    match first_svc a with
    | Err e => Err e
    | Ok sa =>
        match first_svc b with
        | Err e => Err e
        | Ok sb => Ok (if isSome (svc_diff sa sb) then set_sub f else f)
        end
    end
  else Ok f.

Fixpoint comp_mods_pairs (l : list (comp * comp)) : res (list (comp * flags)) :=
  match l with
  | [] => Ok []
  | (a, b) :: r =>
      match comp_flag a b with
      | Err e => Err e
      | Ok f =>
          match comp_mods_pairs r with
          | Err e => Err e
          | Ok m => Ok (if is_none f then m else (a, f) :: m)
          end
      end
  end.

Definition comp_mods (oa ob : option (list comp)) : res (list (comp * flags)) :=
  comp_mods_pairs (kids_common c_name oa ob).

(* node-level services: flag = nsA.prop_diff(nsB) only *)
Definition nsvc_mods (oa ob : option (list svc)) : list (svc * flags) :=
  flat_map (fun p : svc * svc =>
              let f := prop_diff (sv_props (fst p)) (sv_props (snd p)) in
              if is_none f then [] else [(fst p, f)])
           (kids_common sv_name oa ob).

Record ndiff := mkNdiff {
  n_added_c : list comp;  n_removed_c : list comp;
  n_added_s : list svc;   n_removed_s : list svc;
  n_self : list flags;                  (* modified.nodes *)
  n_mod_c : list (comp * flags);        (* modified.components *)
  n_mod_s : list (svc * flags)          (* modified.services *)
}.

Definition ndiff_empty (d : ndiff) : bool :=
  isnil (n_added_c d) && isnil (n_removed_c d) && isnil (n_removed_s d) && isnil (n_added_s d) &&
  isnil (n_mod_c d) && isnil (n_mod_s d) && isnil (n_self d).

Definition node_diff (a b : node) : res (option ndiff) :=
  match comp_mods (n_comps a) (n_comps b) with
  | Err e => Err e
  | Ok cm =>
      let d := mkNdiff (kids_added c_name (n_comps a) (n_comps b))
                       (kids_removed c_name (n_comps a) (n_comps b))
                       (kids_added sv_name (n_svcs a) (n_svcs b))
                       (kids_removed sv_name (n_svcs a) (n_svcs b))
                       (self_mod (n_props a) (n_props b))
                       cm
                       (nsvc_mods (n_svcs a) (n_svcs b)) in
      Ok (if ndiff_empty d then None else Some d)
  end.

(* `if not other_sliver: return None` (a sliver is falsy only when it is None) *)
Definition iface_diff_opt (a : iface) (ob : option iface) : option idiff :=
  match ob with None => None | Some b => iface_diff a b end.
Definition svc_diff_opt (a : svc) (ob : option svc) : option sdiff :=
  match ob with None => None | Some b => svc_diff a b end.
Definition node_diff_opt (a : node) (ob : option node) : res (option ndiff) :=
  match ob with None => Ok None | Some b => node_diff a b end.

(* ------------------------------------------------------------------------------------------- *)
(* SPECIFICATION: what the comparison should report, written without the comparison             *)
(* ------------------------------------------------------------------------------------------- *)

Definition dflt {A} (o : option (list A)) : list A := match o with Some l => l | None => [] end.

(* "same tracked values" *)
Definition labels_same (p q : props) : bool := negb (py_ne labels_eqb (p_labels p) (p_labels q)).
Definition caps_same (p q : props) : bool := negb (py_ne caps_eqb (p_caps p) (p_caps q)).
Definition udata_same (p q : props) : bool := negb (py_ne N.eqb (p_udata p) (p_udata q)).
Definition props_same (p q : props) : bool := labels_same p q && caps_same p q && udata_same p q.

Section SpecDict.
  Context {E : Type} (nm : E -> N).
  (* key sets equal and every pair under a common key related by [same]; an absent container = an empty one *)
  Definition kids_same (same : E -> E -> bool) (oa ob : option (list E)) : bool :=
    forallb (fun e => match dget nm (nm e) (dflt ob) with Some e' => same e e' | None => false end) (dflt oa)
    && forallb (fun e => has nm (nm e) (dflt oa)) (dflt ob).
  (* key-set differences *)
  Definition exp_added (oa ob : option (list E)) : list E :=
    filter (fun e => negb (has nm (nm e) (dflt oa))) (dflt ob).
  Definition exp_removed (oa ob : option (list E)) : list E :=
    filter (fun e => negb (has nm (nm e) (dflt ob))) (dflt oa).
  (* entries present in both whose flag set is not empty, with exactly that flag set *)
  Definition exp_mod (fl : E -> E -> flags) (oa ob : option (list E)) : list (E * flags) :=
    flat_map (fun e => match dget nm (nm e) (dflt ob) with
                       | Some e' => if is_none (fl e e') then [] else [(e, fl e e')]
                       | None => []
                       end) (dflt oa).
End SpecDict.

Definition exp_self (p q : props) : list flags :=
  if props_same p q then [] else [mkFlags (negb (labels_same p q)) (negb (caps_same p q)) (negb (udata_same p q)) false].

Definition sub_same (x y : subif) : bool := props_same (sub_props x) (sub_props y).
Definition subs_same (x y : iface) : bool := kids_same sub_name sub_same (if_subs x) (if_subs y).
Definition iface_same (x y : iface) : bool := props_same (if_props x) (if_props y) && subs_same x y.
Definition svc_same (x y : svc) : bool :=
  props_same (sv_props x) (sv_props y) && kids_same if_name iface_same (sv_ifs x) (sv_ifs y).

Definition sub_flags (x y : subif) : flags :=
  mkFlags (negb (labels_same (sub_props x) (sub_props y))) (negb (caps_same (sub_props x) (sub_props y)))
          (negb (udata_same (sub_props x) (sub_props y))) false.

(* THE specification of an interface's flags inside a service: SUB_INTERFACES exactly when the set of
   sub-interfaces or a tracked property of one of them changed *)
Definition if_flags_spec (x y : iface) : flags :=
  mkFlags (negb (labels_same (if_props x) (if_props y))) (negb (caps_same (if_props x) (if_props y)))
          (negb (udata_same (if_props x) (if_props y))) (negb (subs_same x y)).

(* what the code computes today (known finding C17-1): on a DedicatedPort SUB_INTERFACES is ALSO raised when
   only the port's own labels/capacities/user data changed *)
Definition if_flags_code (x y : iface) : flags :=
  mkFlags (negb (labels_same (if_props x) (if_props y))) (negb (caps_same (if_props x) (if_props y)))
          (negb (udata_same (if_props x) (if_props y))) (if_dedicated x && negb (iface_same x y)).

(* what the repaired code computes: the specified flag, restricted to dedicated ports (the only ones with children) *)
Definition if_flags_dedicated (x y : iface) : flags :=
  mkFlags (negb (labels_same (if_props x) (if_props y))) (negb (caps_same (if_props x) (if_props y)))
          (negb (udata_same (if_props x) (if_props y))) (if_dedicated x && negb (subs_same x y)).

Definition mk_opt {D} (empty : D -> bool) (d : D) : option D := if empty d then None else Some d.

Definition idiff_empty (d : idiff) : bool :=
  isnil (i_self d) && isnil (i_added d) && isnil (i_removed d) && isnil (i_mod d).
Definition sdiff_empty (d : sdiff) : bool :=
  isnil (s_self d) && isnil (s_added d) && isnil (s_removed d) && isnil (s_mod d).

Definition iface_expected (a b : iface) : option idiff :=
  mk_opt idiff_empty
    (mkIdiff (exp_added sub_name (if_subs a) (if_subs b)) (exp_removed sub_name (if_subs a) (if_subs b))
             (exp_self (if_props a) (if_props b)) (exp_mod sub_name sub_flags (if_subs a) (if_subs b))).

Definition svc_expected_with (fl : iface -> iface -> flags) (a b : svc) : option sdiff :=
  mk_opt sdiff_empty
    (mkSdiff (exp_added if_name (sv_ifs a) (sv_ifs b)) (exp_removed if_name (sv_ifs a) (sv_ifs b))
             (exp_self (sv_props a) (sv_props b)) (exp_mod if_name fl (sv_ifs a) (sv_ifs b))).
Definition svc_expected := svc_expected_with if_flags_spec.
Definition svc_expected_code := svc_expected_with if_flags_code.

(* a SmartNIC carries exactly one network service (its ports hang off it) *)
Definition the_svc (c : comp) : option svc :=
  match c_svcs c with Some [s] => Some s | _ => None end.
Definition osvc_same (x y : option svc) : bool :=
  match x, y with
  | Some a, Some b => svc_same a b
  | None, None => true
  | _, _ => false
  end.
(* SUB_INTERFACES on a component: it is a SmartNIC and what hangs off it (its service, the ports, their
   sub-interfaces) differs in a tracked respect *)
Definition comp_flags_spec (x y : comp) : flags :=
  mkFlags (negb (labels_same (c_props x) (c_props y))) (negb (caps_same (c_props x) (c_props y)))
          (negb (udata_same (c_props x) (c_props y)))
          (c_smartnic x && negb (osvc_same (the_svc x) (the_svc y))).
Definition nsvc_flags (x y : svc) : flags :=
  mkFlags (negb (labels_same (sv_props x) (sv_props y))) (negb (caps_same (sv_props x) (sv_props y)))
          (negb (udata_same (sv_props x) (sv_props y))) false.

Definition node_expected (a b : node) : option ndiff :=
  mk_opt ndiff_empty
    (mkNdiff (exp_added c_name (n_comps a) (n_comps b)) (exp_removed c_name (n_comps a) (n_comps b))
             (exp_added sv_name (n_svcs a) (n_svcs b)) (exp_removed sv_name (n_svcs a) (n_svcs b))
             (exp_self (n_props a) (n_props b))
             (exp_mod c_name comp_flags_spec (n_comps a) (n_comps b))
             (exp_mod sv_name nsvc_flags (n_svcs a) (n_svcs b))).

(* "identical in every respect the node comparison tracks" *)
Definition comp_same (x y : comp) : bool :=
  props_same (c_props x) (c_props y) && (negb (c_smartnic x) || osvc_same (the_svc x) (the_svc y)).
Definition nsvc_same (x y : svc) : bool := props_same (sv_props x) (sv_props y).
Definition node_same (a b : node) : bool :=
  props_same (n_props a) (n_props b) && kids_same c_name comp_same (n_comps a) (n_comps b)
  && kids_same sv_name nsvc_same (n_svcs a) (n_svcs b).

(* ------------------------------------------------------------------------------------------- *)
(* well-formedness (boolean; what every sliver the library builds satisfies)                    *)
(* ------------------------------------------------------------------------------------------- *)

Fixpoint nodupb (l : list N) : bool :=
  match l with
  | [] => true
  | x :: r => negb (existsb (N.eqb x) r) && nodupb r
  end.

(* keys of a dict are distinct; only a DedicatedPort has child interfaces (Interface.add_child_interface asserts it) *)
Definition wf_iface (i : iface) : bool :=
  nodupb (map sub_name (dflt (if_subs i))) && (if_dedicated i || isnil (dflt (if_subs i))).
Definition wf_svc (s : svc) : bool :=
  nodupb (map if_name (dflt (sv_ifs s))) && forallb wf_iface (dflt (sv_ifs s)).
Definition wf_comp (c : comp) : bool :=
  nodupb (map sv_name (dflt (c_svcs c))) && forallb wf_svc (dflt (c_svcs c))
  && (negb (c_smartnic c) || isSome (the_svc c)).
Definition wf_node (n : node) : bool :=
  nodupb (map c_name (dflt (n_comps n))) && forallb wf_comp (dflt (n_comps n))
  && nodupb (map sv_name (dflt (n_svcs n))) && forallb wf_svc (dflt (n_svcs n)).

(* the two versions agree on WHICH entries are dedicated ports / SmartNICs (no edit changes the type of an
   existing element; a replaced element has another name) *)
Definition compat_svc (a b : svc) : bool :=
  forallb (fun p : iface * iface => Bool.eqb (if_dedicated (fst p)) (if_dedicated (snd p)))
          (kids_common if_name (sv_ifs a) (sv_ifs b)).
Definition compat_comp (x y : comp) : bool :=
  Bool.eqb (c_smartnic x) (c_smartnic y) &&
  match the_svc x, the_svc y with Some s, Some s' => compat_svc s s' | _, _ => true end.
Definition compat_node (a b : node) : bool :=
  forallb (fun p : comp * comp => compat_comp (fst p) (snd p)) (kids_common c_name (n_comps a) (n_comps b)).

(* signature of known finding C17-1: a dedicated port present in both versions whose own tracked properties
   changed while its sub-interfaces did not *)
Definition port_only_change (x y : iface) : bool :=
  if_dedicated x && negb (props_same (if_props x) (if_props y)) && subs_same x y.
Definition no_port_only_change (a b : svc) : bool :=
  forallb (fun p : iface * iface => negb (port_only_change (fst p) (snd p)))
          (kids_common if_name (sv_ifs a) (sv_ifs b)).

(* the added / removed parts of a result (empty when the comparison returned None) *)
Definition id_added (o : option idiff) := match o with Some d => i_added d | None => [] end.
Definition id_removed (o : option idiff) := match o with Some d => i_removed d | None => [] end.
Definition sd_added (o : option sdiff) := match o with Some d => s_added d | None => [] end.
Definition sd_removed (o : option sdiff) := match o with Some d => s_removed d | None => [] end.
Definition nd_added_c (o : option ndiff) := match o with Some d => n_added_c d | None => [] end.
Definition nd_removed_c (o : option ndiff) := match o with Some d => n_removed_c d | None => [] end.
Definition nd_added_s (o : option ndiff) := match o with Some d => n_added_s d | None => [] end.
Definition nd_removed_s (o : option ndiff) := match o with Some d => n_removed_s d | None => [] end.

(* witness of finding C17-1 (replayed on the implementation by harness/c17.py: witness_case):
   service svc1 with dedicated port p1 (labels vlan=100 -> vlan=101) and an unchanged sub-interface s1 *)
Definition w_sub : subif := mkSub 3 3 (mkProps (Some [(9, 5)]%N) None None).
Definition w_port (vlan : N) : iface := mkIf 2 2 (mkProps (Some [(9%N, vlan)]) None None) true (Some [w_sub]).
Definition w_old : svc := mkSvc 1 1 (mkProps None None None) (Some [w_port 100]).
Definition w_new : svc := mkSvc 1 1 (mkProps None None None) (Some [w_port 101]).

(* ------------------------------------------------------------------------------------------- *)
(* edits (a way to produce the second version)                                                  *)
(* ------------------------------------------------------------------------------------------- *)

Definition add_comp (c : comp) (n : node) : node :=
  mkNode (n_name n) (n_id n) (n_props n) (Some (dflt (n_comps n) ++ [c])) (n_svcs n).
Definition remove_comp (k : N) (n : node) : node :=
  mkNode (n_name n) (n_id n) (n_props n)
         (match n_comps n with Some l => Some (filter (fun c => negb (N.eqb (c_name c) k)) l) | None => None end)
         (n_svcs n).
Definition add_nsvc (s : svc) (n : node) : node :=
  mkNode (n_name n) (n_id n) (n_props n) (n_comps n) (Some (dflt (n_svcs n) ++ [s])).
Definition remove_nsvc (k : N) (n : node) : node :=
  mkNode (n_name n) (n_id n) (n_props n) (n_comps n)
         (match n_svcs n with Some l => Some (filter (fun s => negb (N.eqb (sv_name s) k)) l) | None => None end).
Definition set_node_props (p : props) (n : node) : node :=
  mkNode (n_name n) (n_id n) p (n_comps n) (n_svcs n).

(* ------------------------------------------------------------------------------------------- *)
(* correspondence: the harness records the TopologyDiff the implementation returned            *)
(* ------------------------------------------------------------------------------------------- *)

Definition ident := (N * N)%type.        (* (resource_name, node_id) - what __eq__/__hash__ of a sliver use *)

Inductive obs :=
| ORaised (cls : N)                      (* 1 = AttributeError, 2 = IndexError, 0 = anything else *)
| ONone
| ODiff (added removed : list (list ident))          (* nodes, components, services, interfaces *)
        (modified : list (list (ident * N))).         (* nodes, components, services, interfaces; flag value *)

(* sets / lists are compared sorted by interned name (unique inside one container) *)
Fixpoint ins_id (x : ident) (l : list ident) : list ident :=
  match l with
  | [] => [x]
  | y :: r => if N.leb (fst x) (fst y) then x :: l else y :: ins_id x r
  end.
Definition sort_ids (l : list ident) : list ident := fold_right ins_id [] l.
Fixpoint ins_idf (x : ident * N) (l : list (ident * N)) : list (ident * N) :=
  match l with
  | [] => [x]
  | y :: r => if N.leb (fst (fst x)) (fst (fst y)) then x :: l else y :: ins_idf x r
  end.
Definition sort_idfs (l : list (ident * N)) : list (ident * N) := fold_right ins_idf [] l.

Definition ident_eqb (x y : ident) : bool := N.eqb (fst x) (fst y) && N.eqb (snd x) (snd y).
Fixpoint list_eqb {A} (eqb : A -> A -> bool) (x y : list A) : bool :=
  match x, y with
  | [], [] => true
  | a :: x', b :: y' => eqb a b && list_eqb eqb x' y'
  | _, _ => false
  end.
Definition idf_eqb (x y : ident * N) : bool := ident_eqb (fst x) (fst y) && N.eqb (snd x) (snd y).

Definition obs_eqb (x y : obs) : bool :=
  match x, y with
  | ORaised a, ORaised b => N.eqb a b
  | ONone, ONone => true
  | ODiff a r m, ODiff a' r' m' =>
      list_eqb (list_eqb ident_eqb) (map sort_ids a) (map sort_ids a')
      && list_eqb (list_eqb ident_eqb) (map sort_ids r) (map sort_ids r')
      && list_eqb (list_eqb idf_eqb) (map sort_idfs m) (map sort_idfs m')
  | _, _ => false
  end.

Definition sub_ident (x : subif) : ident := (sub_name x, sub_id x).
Definition if_ident (x : iface) : ident := (if_name x, if_id x).
Definition sv_ident (x : svc) : ident := (sv_name x, sv_id x).
Definition c_ident (x : comp) : ident := (c_name x, c_id x).
Definition n_ident (x : node) : ident := (n_name x, n_id x).

Definition idf {E} (idt : E -> ident) (p : E * flags) : ident * N := (idt (fst p), flag_val (snd p)).

Definition obs_of_idiff (self : iface) (o : option idiff) : obs :=
  match o with
  | None => ONone
  | Some d => ODiff [[]; []; []; map sub_ident (i_added d)] [[]; []; []; map sub_ident (i_removed d)]
                    [[]; []; map (fun f => (if_ident self, flag_val f)) (i_self d); map (idf sub_ident) (i_mod d)]
  end.
Definition obs_of_sdiff (self : svc) (o : option sdiff) : obs :=
  match o with
  | None => ONone
  | Some d => ODiff [[]; []; []; map if_ident (s_added d)] [[]; []; []; map if_ident (s_removed d)]
                    [[]; []; map (fun f => (sv_ident self, flag_val f)) (s_self d); map (idf if_ident) (s_mod d)]
  end.
Definition exn_code (e : exn) : N := match e with EAttribute => 1 | EIndex => 2 end.
Definition obs_of_ndiff (self : node) (r : res (option ndiff)) : obs :=
  match r with
  | Err e => ORaised (exn_code e)
  | Ok None => ONone
  | Ok (Some d) =>
      ODiff [[]; map c_ident (n_added_c d); map sv_ident (n_added_s d); []]
            [[]; map c_ident (n_removed_c d); map sv_ident (n_removed_s d); []]
            [map (fun f => (n_ident self, flag_val f)) (n_self d); map (idf c_ident) (n_mod_c d);
             map (idf sv_ident) (n_mod_s d); []]
  end.

(* one case = two versions + what the implementation returned for  a.diff(b), b.diff(a), a.diff(copy of a),
   a.diff(None) *)
Definition check_iface (c : (iface * iface) * (obs * obs * obs * obs)) : bool :=
  let '((a, b), (oab, oba, oaa, oan)) := c in
  obs_eqb (obs_of_idiff a (iface_diff a b)) oab && obs_eqb (obs_of_idiff b (iface_diff b a)) oba
  && obs_eqb (obs_of_idiff a (iface_diff a a)) oaa && obs_eqb (obs_of_idiff a (iface_diff_opt a None)) oan.
Definition check_svc (c : (svc * svc) * (obs * obs * obs * obs)) : bool :=
  let '((a, b), (oab, oba, oaa, oan)) := c in
  obs_eqb (obs_of_sdiff a (svc_diff a b)) oab && obs_eqb (obs_of_sdiff b (svc_diff b a)) oba
  && obs_eqb (obs_of_sdiff a (svc_diff a a)) oaa && obs_eqb (obs_of_sdiff a (svc_diff_opt a None)) oan.
Definition check_svc_fixed (c : (svc * svc) * (obs * obs * obs * obs)) : bool :=
  let '((a, b), (oab, oba, oaa, oan)) := c in
  obs_eqb (obs_of_sdiff a (svc_diff_fixed a b)) oab && obs_eqb (obs_of_sdiff b (svc_diff_fixed b a)) oba
  && obs_eqb (obs_of_sdiff a (svc_diff_fixed a a)) oaa && obs_eqb (obs_of_sdiff a (svc_diff_opt a None)) oan.
Definition check_node (c : (node * node) * (obs * obs * obs * obs)) : bool :=
  let '((a, b), (oab, oba, oaa, oan)) := c in
  obs_eqb (obs_of_ndiff a (node_diff a b)) oab && obs_eqb (obs_of_ndiff b (node_diff b a)) oba
  && obs_eqb (obs_of_ndiff a (node_diff a a)) oaa && obs_eqb (obs_of_ndiff a (node_diff_opt a None)) oan.

(* histories: the comparison is a function of its two operands only; a history of comparisons on long-lived
   slivers is the list of the comparisons of the successive states *)
Definition run_history (h : list (node * node)) : list (res (option ndiff)) :=
  map (fun p => node_diff (fst p) (snd p)) h.
Definition check_node_history (h : list ((node * node) * (obs * obs * obs * obs))) : bool := forallb check_node h.

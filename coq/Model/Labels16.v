(* C16 model: what the validation code of fim/slivers DOES, as total functions.
     - Python int(str) as far as the range lambdas need it (py_int)
     - Labels._set_fields (capacities_labels.py:411-460) with its exception classes and its partial
       effects, the constructor, JSONField.update, from_json (forgiving), to_dict/encode
     - Tags.__init__/_check/from_json (tags.py), BaseSliver.set_name per sliver class and
       set_boot_script (base_sliver.py), JSONData.__init__ (json_data.py), Capacities._set_fields
   All tables (regexes, range lambdas, call idioms, limits, comparison operators, Unicode classes) come
   from Gen/LabelValidators.v and Gen/UnicodeClasses.v, regenerated from the source on every run.
   Definitions only; the proofs are in Proofs/Validate16*.v. *)
From Coq Require Import List ZArith NArith Bool String.
From FIM Require Import Base.Str Base.Corr Base.Regex Model.Labels16Types Gen.UnicodeClasses Gen.LabelValidators.
From FIM Require Gen.CapsGen.
Import ListNotations.

(* ------------------------------------------------------------------------------------------ *)
(* character classes of the running interpreter                                                 *)
(* ------------------------------------------------------------------------------------------ *)

(* ascending, disjoint range table *)
Fixpoint in_rng (t : list (N * N)) (c : N) : bool :=
  match t with
  | [] => false
  | (lo, hi) :: r => if N.ltb c lo then false else if N.leb c hi then true else in_rng r c
  end.

Definition is_re_digit (c : N) : bool := in_rng re_digit_ranges c.
Definition is_re_word (c : N) : bool := in_rng re_word_ranges c.
Definition is_re_space (c : N) : bool := in_rng re_space_ranges c.

(* sre category id -> code point -> bool *)
Definition catf (k c : N) : bool :=
  if N.eqb k cat_digit then is_re_digit c
  else if N.eqb k cat_not_digit then negb (is_re_digit c)
  else if N.eqb k cat_space then is_re_space c
  else if N.eqb k cat_not_space then negb (is_re_space c)
  else if N.eqb k cat_word then is_re_word c
  else if N.eqb k cat_not_word then negb (is_re_word c)
  else false.

Definition re_match := py_match catf.
Definition re_lang := lang catf.

(* ------------------------------------------------------------------------------------------ *)
(* int(str)                                                                                     *)
(* ------------------------------------------------------------------------------------------ *)

Definition is_int_space (c : N) : bool := in_rng int_space_ranges c.

(* each block of the table is a run of ten decimal digits 0..9 *)
Fixpoint digit_val_in (t : list (N * N)) (c : N) : option N :=
  match t with
  | [] => None
  | (lo, hi) :: r => if N.ltb c lo then None else if N.leb c hi then Some (c - lo)%N else digit_val_in r c
  end.
Definition digit_val (c : N) : option N := digit_val_in int_digit_ranges c.

Fixpoint drop_while (p : N -> bool) (s : str) : str :=
  match s with
  | [] => []
  | c :: r => if p c then drop_while p r else s
  end.

Definition strip_ws (s : str) : str := rev (drop_while is_int_space (rev (drop_while is_int_space s))).

(* digits with single underscores between them; returns the digit values (most significant first) *)
Fixpoint digits_loop (s : str) (prev_us : bool) : option (list N) :=
  match s with
  | [] => if prev_us then None else Some []
  | c :: r =>
      if N.eqb c 95 then (if prev_us then None else digits_loop r true)
      else match digit_val c with
           | Some d => match digits_loop r false with Some l => Some (d :: l) | None => None end
           | None => None
           end
  end.

Definition parse_digits (s : str) : option (list N) :=
  match s with
  | [] => None
  | c :: _ => if N.eqb c 95 then None else digits_loop s false
  end.

Definition dec_value (ds : list N) : N := fold_left (fun acc d => (10 * acc + d)%N) ds 0%N.

(* int(s) for a str s, base 10: None = ValueError.  The digit-count limit (sys.get_int_max_str_digits) is
   tested before the value is computed, as in CPython. *)
Definition py_int (s : str) : option Z :=
  let s1 := strip_ws s in
  let '(neg, s2) := match s1 with
                    | c :: r => if N.eqb c 43 then (false, r)            (* '+' *)
                                else if N.eqb c 45 then (true, r)        (* '-' *)
                                else (false, s1)
                    | [] => (false, s1)
                    end in
  match parse_digits s2 with
  | None => None
  | Some ds =>
      if negb (N.eqb int_max_str_digits 0) && N.ltb int_max_str_digits (N.of_nat (List.length ds)) then None
      else let n := dec_value ds in Some (if neg then (- Z.of_N n)%Z else Z.of_N n)
  end.

(* str.split(sep) for a one-character separator *)
Fixpoint split_on (sep : N) (s : str) : list str :=
  match s with
  | [] => [[]]
  | c :: r => if N.eqb c sep then [] :: split_on sep r
              else match split_on sep r with
                   | h :: t => (c :: h) :: t
                   | [] => [[c]]
                   end
  end.

Definition cmpb (c : cmp) (a b : Z) : bool := match c with CLt => Z.ltb a b | CLe => Z.leb a b end.
Definition in_bounds (b : bounds) (z : Z) : bool := cmpb (b_lc b) (b_lo b) z && cmpb (b_hc b) z (b_hi b).

(* one LAMBDA_VALIDATORS entry applied to one string: None = passes, Some e = raises e
   (ELabel: the lambda returned False; EValue: int() raised; EIndex: split(..)[1] out of range) *)
Definition range_check (k : rangek) (s : str) : option exn :=
  match k with
  | RInt b => match py_int s with
              | None => Some EValue
              | Some z => if in_bounds b z then None else Some ELabel
              end
  | RSplit sep b0 b1 c =>
      let parts := split_on sep s in
      match py_int (hd [] parts) with
      | None => Some EValue
      | Some x => if negb (in_bounds b0 x) then Some ELabel
                  else match nth_error parts 1 with
                       | None => Some EIndex
                       | Some p1 => match py_int p1 with
                                    | None => Some EValue
                                    | Some y => if negb (in_bounds b1 y) then Some ELabel
                                                else if cmpb c x y then None else Some ELabel
                                    end
                       end
      end
  end.

(* ------------------------------------------------------------------------------------------ *)
(* Labels                                                                                       *)
(* ------------------------------------------------------------------------------------------ *)

Inductive lval :=
| LStr (s : str)
| LList (l : list str)
| LNone              (* None *)
| LOther.            (* neither str nor list (int, dict, ...) *)

Definition lval_eqb (a b : lval) : bool :=
  match a, b with
  | LStr x, LStr y => str_eqb x y
  | LList x, LList y => list_eqb str_eqb x y
  | LNone, LNone => true
  | LOther, LOther => true
  | _, _ => false
  end.

Definition elems (v : lval) : list str :=
  match v with LStr s => [s] | LList l => l | _ => [] end.

Fixpoint lookup {V} (k : str) (t : list (str * V)) : option V :=
  match t with
  | [] => None
  | (k', v) :: r => if str_eqb k k' then Some v else lookup k r
  end.

Definition mem_str (k : str) (l : list str) : bool := existsb (str_eqb k) l.

(* a Labels object: every field of __init__, in order, None or a value *)
Definition lobj := list (str * option lval).
Definition labels_init : lobj := map (fun f => (f, None)) label_fields.

Fixpoint lset (st : lobj) (k : str) (v : lval) : lobj :=
  match st with
  | [] => []
  | (k', v') :: r => if str_eqb k k' then (k', Some v) :: r else (k', v') :: lset r k v
  end.

Definition lget (st : lobj) (k : str) : option lval :=
  match lookup k st with Some (Some v) => Some v | _ => None end.

Definition regex_phase (k : str) (v : lval) : option exn :=
  match lookup k label_validators with
  | None => None
  | Some r =>
      match v with
      | LStr s => if re_match label_scalar_mode r s then None else Some ELabel
      | LList l => if forallb (re_match label_list_mode r) l then None else Some ELabel
      | _ => None
      end
  end.

Fixpoint first_err (f : str -> option exn) (l : list str) : option exn :=
  match l with
  | [] => None
  | x :: r => match f x with Some e => Some e | None => first_err f r end
  end.

Definition range_phase (k : str) (v : lval) : option exn :=
  match lookup k label_lambdas with
  | None => None
  | Some rk => first_err (range_check rk) (elems v)
  end.

(* one iteration of the loop of Labels._set_fields *)
Definition set_one (forgiving : bool) (st : lobj) (kv : str * lval) : lobj * option exn :=
  let '(k, v) := kv in
  match v with
  | LNone | LOther => (st, Some EAssert)
  | _ =>
      if negb (mem_str k label_fields) then (st, if forgiving then None else Some ELabel)
      else match regex_phase k v with
           | Some e => (st, Some e)
           | None => match range_phase k v with
                     | Some e => (st, Some e)
                     | None => (lset st k v, None)
                     end
           end
  end.

(* Labels._set_fields: the state reached (fields set before a raise stay set) and the exception *)
Fixpoint set_fields (forgiving : bool) (st : lobj) (kws : list (str * lval)) : lobj * option exn :=
  match kws with
  | [] => (st, None)
  | kv :: r => match set_one forgiving st kv with
               | (st', None) => set_fields forgiving st' r
               | (st', Some e) => (st', Some e)
               end
  end.

Inductive result (A : Type) := Ok (a : A) | Err (e : exn).
Arguments Ok {A} a.
Arguments Err {A} e.

Definition as_result (p : lobj * option exn) : result lobj :=
  match p with (st, None) => Ok st | (_, Some e) => Err e end.

Definition labels_ctor (kws : list (str * lval)) : result lobj := as_result (set_fields false labels_init kws).
(* JSONField.update: a new object with every attribute of lab copied, then _set_fields of the new keyword arguments *)
Definition labels_update (lab : lobj) (kws : list (str * lval)) : result lobj := as_result (set_fields false lab kws).
(* from_json after json.loads: a fresh object, forgiving; when the source pre-filters (from_json_prefilters), keys that
   are not fields of the fresh object are dropped before _set_fields sees their values *)
Definition from_json_keys (d : list (str * lval)) : list (str * lval) :=
  if from_json_prefilters then filter (fun kv => mem_str (fst kv) label_fields) d else d.
Definition labels_from_dict (d : list (str * lval)) : result lobj :=
  as_result (set_fields true labels_init (from_json_keys d)).

(* to_dict / to_json: the fields that are not None (a str or list is never == 0) *)
Definition labels_encode (st : lobj) : list (str * lval) :=
  flat_map (fun kv => match snd kv with Some v => [(fst kv, v)] | None => [] end) st.

Definition labels_recode (st : lobj) : result lobj := labels_from_dict (labels_encode st).

Inductive lentry :=
| E_ctor (kws : list (str * lval))
| E_update (base kws : list (str * lval))     (* Labels.update(Labels( **base ), **kws) *)
| E_from_json (d : list (str * lval)).

Definition run_entry (e : lentry) : result lobj :=
  match e with
  | E_ctor kws => labels_ctor kws
  | E_update base kws => match labels_ctor base with
                         | Ok lab => labels_update lab kws
                         | Err e => Err e
                         end
  | E_from_json d => labels_from_dict d
  end.

(* ---- entry points, uniformly (one value for one field arriving through entry point sem) ---- *)

(* labels_object.field = value : there is no __setattr__ on Labels / JSONField (the translator fails closed if one appears) *)
Definition attr_assign (st : lobj) (k : str) (v : lval) : lobj := lset st k v.

(* BaseSliver.set_labels, when the source re-validates: lab._set_fields( every non-None field of lab ) *)
Definition revalidate (st : lobj) : option exn := snd (set_fields false labels_init (labels_encode st)).

Definition attach_labels (revalidates : bool) (st : lobj) : result lobj :=
  if revalidates then match revalidate st with None => Ok st | Some e => Err e end else Ok st.

Definition ep_apply (sem : ep_sem) (cur : lobj) (kv : str * lval) : lobj * option exn :=
  match sem with
  | EP_set_fields fg fresh => set_one fg (if fresh then labels_init else cur) kv
  | EP_unchecked => (attr_assign cur (fst kv) (snd kv), None)
  | EP_attach r => match attach_labels r (attr_assign cur (fst kv) (snd kv)) with
                   | Ok st => (st, None)
                   | Err e => (cur, Some e)
                   end
  end.

Definition ep_checked (sem : ep_sem) : bool :=
  match sem with EP_set_fields _ _ => true | EP_unchecked => false | EP_attach r => r end.

(* ---- a list value with elements that are not strings ---- *)
Inductive lelem :=
| LE_str (s : str)
| LE_int (z : Z)        (* int, bool, float: z is what int(element) returns *)
| LE_bad.               (* None, list, dict: int(element) raises TypeError *)

Definition lelem_is_str (e : lelem) : bool := match e with LE_str _ => true | _ => false end.

Inductive kw_outcome := KW_stored | KW_skipped | KW_err (e : exn).

Fixpoint mixed_regex (r : re) (l : list lelem) : option exn :=
  match l with
  | [] => None
  | LE_str s :: t => if re_match label_list_mode r s then mixed_regex r t else Some ELabel
  | _ :: _ => Some EType                         (* re.fullmatch(pattern, non-str) *)
  end.

Definition mixed_range_one (rk : rangek) (e : lelem) : option exn :=
  match e with
  | LE_str s => range_check rk s
  | LE_int z => match rk with RInt b => if in_bounds b z then None else Some ELabel | RSplit _ _ _ _ => Some ELabel end
  | LE_bad => Some EType
  end.

Fixpoint mixed_range (rk : rangek) (l : list lelem) : option exn :=
  match l with
  | [] => None
  | e :: t => match mixed_range_one rk e with Some x => Some x | None => mixed_range rk t end
  end.

(* one keyword whose value is a list with at least one non-string element *)
Definition mixed_outcome (forgiving : bool) (k : str) (l : list lelem) : kw_outcome :=
  if label_list_elements_typechecked then KW_err EAssert
  else if negb (mem_str k label_fields) then (if forgiving then KW_skipped else KW_err ELabel)
  else match (match lookup k label_validators with Some r => mixed_regex r l | None => None end) with
       | Some e => KW_err e
       | None => match (match lookup k label_lambdas with Some rk => mixed_range rk l | None => None end) with
                 | Some e => KW_err e
                 | None => KW_stored
                 end
       end.

(* the same through from_json: a key that is not a field is dropped before _set_fields when the source pre-filters *)
Definition mixed_outcome_from_json (k : str) (l : list lelem) : kw_outcome :=
  if from_json_prefilters && negb (mem_str k label_fields) then KW_skipped else mixed_outcome true k l.

(* one keyword whose NAME is an attribute of the object (method, class table) but not a field; value a str *)
Definition nonfield_attr_outcome (forgiving : bool) : kw_outcome :=
  if label_field_test_is_dict then (if forgiving then KW_skipped else KW_err ELabel) else KW_stored.
Definition nonfield_attr_outcome_from_json : kw_outcome :=
  if from_json_prefilters then KW_skipped else nonfield_attr_outcome true.
Definition caps_nonfield_attr_outcome (forgiving : bool) : kw_outcome :=
  if caps_field_test_is_dict then (if forgiving then KW_skipped else KW_err ECapacity) else KW_stored.

(* ------------------------------------------------------------------------------------------ *)
(* Tags                                                                                         *)
(* ------------------------------------------------------------------------------------------ *)

Inductive tagv := TStr (s : str) | TNonStr.
Inductive targ := TA_one (t : tagv) | TA_many (l : list tagv).     (* a list/tuple argument, or anything else *)

Definition tag_accepts (s : str) : bool := re_match tag_mode tag_re s.

Definition tag_check (t : tagv) : option str :=
  match t with TStr s => if tag_accepts s then Some s else None | TNonStr => None end.

Fixpoint tag_check_all (l : list tagv) : option (list str) :=
  match l with
  | [] => Some []
  | t :: r => match tag_check t with
              | None => None
              | Some s => match tag_check_all r with Some l' => Some (s :: l') | None => None end
              end
  end.

Definition targ_items (a : targ) : list tagv := match a with TA_one t => [t] | TA_many l => l end.

(* Tags( *args ): None = TagException, Some l = the stored list *)
Definition tags_ctor (args : list targ) : option (list str) := tag_check_all (flat_map targ_items args).

(* ------------------------------------------------------------------------------------------ *)
(* names, boot script                                                                           *)
(* ------------------------------------------------------------------------------------------ *)

Inductive sval := SStr (s : str) | SNone | SOther.

(* BaseSliver.set_name on a sliver of class cls *)
Definition set_name (cls : str) (v : sval) : result str :=
  match v with
  | SOther => Err EAssert
  | SNone => Err EType                      (* re.fullmatch(pattern, None) *)
  | SStr s => match lookup cls name_rules with
              | None => Err EOther
              | Some (r, m) => if re_match m r s then Ok s else Err EValue
              end
  end.

Definition set_boot_script (v : sval) : result (option str) :=
  match v with
  | SNone => Ok None
  | SOther => Err EAssert
  | SStr s => if boot_script_ok (Z.of_nat (List.length s)) boot_script_max then Ok (Some s) else Err EAssert
  end.

(* ModelElement.name setter and rename (fim/user/model_element.py rename / name setter, and the element
   classes' set_property) on an element whose sliver class is cls and whose name in the graph is old.
   taken = another element of the same scope already carries s (an observed input: the scope walk of
   _check_name_unique is not modelled).  Order in the code: [cache in handle, if the setter caches first]
   -> uniqueness test (TopologyException, if the source has it) -> sliver validation (ValueError) -> write.
   When the setter caches the new value BEFORE set_property (name_setter_validates_first = false), a rejected
   assignment leaves the rejected string in the handle while the graph keeps the old name.
   Result: ((handle name, graph name), exception) *)
Definition elem_set_name (cls : str) (old : str) (s : str) (taken : bool) : (str * str) * option exn :=
  let rejected e := ((if name_setter_validates_first then old else s, old), Some e) in
  if name_set_checks_unique && taken then rejected ETopology
  else match set_name cls (SStr s) with
       | Ok _ => ((s, s), None)
       | Err e => rejected e
       end.

(* ------------------------------------------------------------------------------------------ *)
(* JSONData                                                                                     *)
(* ------------------------------------------------------------------------------------------ *)

Inductive jdin :=
| JD_str (s : str) (valid : bool)      (* a str; valid = json.loads accepts it *)
| JD_obj (dumped : option str)         (* any other object; json.dumps result, None = TypeError *)
| JD_none.

Definition empty_obj_text : str := [123; 125]%N.     (* "{}" *)

Definition jd_new (cls : str) (d : jdin) : result str :=
  match lookup cls jd_max with
  | None => Err EOther
  | Some mx =>
      match d with
      | JD_str s valid => if jd_str_reject (Z.of_nat (List.length s)) mx then Err EData
                          else if valid then Ok s else Err EData
      | JD_obj None => Err EData
      | JD_obj (Some t) => if jd_obj_reject (Z.of_nat (List.length t)) mx then Err EData else Ok t
      | JD_none => Ok empty_obj_text
      end
  end.

(* ------------------------------------------------------------------------------------------ *)
(* Capacities._set_fields (the non-negative int check)                                          *)
(* ------------------------------------------------------------------------------------------ *)

Inductive cval :=
| CV_int (z : Z)
| CV_bool (b : bool)
| CV_none
| CV_float (nonneg : bool)      (* a float; only its sign matters to the checks *)
| CV_str.

Definition cval_eqb (a b : cval) : bool :=
  match a, b with
  | CV_int x, CV_int y => Z.eqb x y
  | CV_bool x, CV_bool y => Bool.eqb x y
  | CV_none, CV_none => true
  | CV_float x, CV_float y => Bool.eqb x y
  | CV_str, CV_str => true
  | _, _ => false
  end.

Definition cobj := list (str * cval).
Definition cap_field_names : list str := map of_string CapsGen.cap_fields.
Definition caps_init : cobj := combine cap_field_names (map CV_int CapsGen.cap_defaults).

Fixpoint cset (st : cobj) (k : str) (v : cval) : cobj :=
  match st with
  | [] => []
  | (k', v') :: r => if str_eqb k k' then (k', v) :: r else (k', v') :: cset r k v
  end.

(* the two asserts: `assert v >= 0` then `assert isinstance(v, int)` *)
Definition cap_asserts (v : cval) : option exn :=
  match v with
  | CV_none => None
  | CV_str => Some EType                                   (* str >= int *)
  | CV_int z => if CapsGen.set_reject z then Some EAssert else None
  | CV_bool b => if CapsGen.set_reject (if b then 1 else 0)%Z then Some EAssert else None
  | CV_float _ => Some EAssert                             (* negative: first assert; otherwise the isinstance one *)
  end.

Definition cap_set_one (forgiving : bool) (st : cobj) (kv : str * cval) : cobj * option exn :=
  let '(k, v) := kv in
  match cap_asserts v with
  | Some e => (st, Some e)
  | None => if mem_str k cap_field_names then (cset st k v, None)
            else (st, if forgiving then None else Some ECapacity)
  end.

Fixpoint cap_set_fields (forgiving : bool) (st : cobj) (kws : list (str * cval)) : cobj * option exn :=
  match kws with
  | [] => (st, None)
  | kv :: r => match cap_set_one forgiving st kv with
               | (st', None) => cap_set_fields forgiving st' r
               | (st', Some e) => (st', Some e)
               end
  end.

Definition caps_ctor (forgiving : bool) (kws : list (str * cval)) : result cobj :=
  match cap_set_fields forgiving caps_init kws with (st, None) => Ok st | (_, Some e) => Err e end.

(* ------------------------------------------------------------------------------------------ *)
(* correspondence: recorded implementation observation vs model                                 *)
(* ------------------------------------------------------------------------------------------ *)

Definition lobj_eqb (a b : lobj) : bool :=
  list_eqb (fun x y => str_eqb (fst x) (fst y) && opt_eqb lval_eqb (snd x) (snd y)) a b.

(* observation of a Labels entry point: outcome; the object's non-None fields in field order; and what
   from_json(to_json(obj)) gave (same shape, None if not applicable) *)
Inductive lobs :=
| LO_err (e : exn)
| LO_ok (fields : list (str * lval)) (recoded : option (list (str * lval))).

Definition kvs_eqb (a b : list (str * lval)) : bool :=
  list_eqb (fun x y => str_eqb (fst x) (fst y) && lval_eqb (snd x) (snd y)) a b.

Definition check_labels (x : lentry * lobs) : bool :=
  let '(e, o) := x in
  match run_entry e, o with
  | Err a, LO_err b => exn_eqb a b
  | Ok st, LO_ok fs rc =>
      kvs_eqb (labels_encode st) fs &&
      match labels_recode st, rc with
      | Ok st', Some fs' => kvs_eqb (labels_encode st') fs'
      | _, _ => false
      end
  | _, _ => false
  end.

(* primitives: the regex engine in its three call idioms, and int() *)
Inductive prim :=
| P_re (which : N) (s : str) (full dollar prefix : bool)     (* which: index into all_regexes *)
| P_int (s : str) (r : option Z)
| P_split (sep : N) (s : str) (parts : list str).

Definition all_regexes : list re :=
  map snd label_validators ++ [tag_re] ++ map (fun x => fst (snd x)) name_rules.

Definition check_prim (p : prim) : bool :=
  match p with
  | P_re i s f d px =>
      match nth_error all_regexes (N.to_nat i) with
      | None => false
      | Some r => Bool.eqb (re_match Full r s) f && Bool.eqb (re_match Dollar r s) d && Bool.eqb (re_match Prefix r s) px
      end
  | P_int s r => opt_eqb Z.eqb (py_int s) r
  | P_split sep s parts => list_eqb str_eqb (split_on sep s) parts
  end.

(* tags, names, boot script, JSON data, capacities *)
Inductive misc :=
| M_tags (args : list targ) (r : option (list str))
| M_name (cls : str) (v : sval) (r : result str)
| M_boot (v : sval) (r : result (option str))
| M_jd (cls : str) (d : jdin) (r : result str) (reaccepted : bool)
| M_caps (forgiving : bool) (kws : list (str * cval)) (r : result (list (str * cval))).

Definition result_eqb {A} (eqb : A -> A -> bool) (a b : result A) : bool :=
  match a, b with
  | Ok x, Ok y => eqb x y
  | Err x, Err y => exn_eqb x y
  | _, _ => false
  end.

Definition ckvs_eqb (a b : list (str * cval)) : bool :=
  list_eqb (fun x y => str_eqb (fst x) (fst y) && cval_eqb (snd x) (snd y)) a b.

Definition check_misc (m : misc) : bool :=
  match m with
  | M_tags args r => opt_eqb (list_eqb str_eqb) (tags_ctor args) r
  | M_name cls v r => result_eqb str_eqb (set_name cls v) r
  | M_boot v r => result_eqb (opt_eqb str_eqb) (set_boot_script v) r
  | M_jd cls d r re_ok =>
      result_eqb str_eqb (jd_new cls d) r &&
      match jd_new cls d with
      | Ok t => Bool.eqb re_ok true      (* the model: whatever was accepted is accepted again as text *)
      | Err _ => true
      end
  | M_caps fg kws r => result_eqb ckvs_eqb (caps_ctor fg kws) r
  end.

(* a Tags object whose list was changed directly (tags.tags.append(x)), a Capacities object whose fields were assigned
   directly, attached to a sliver / element: BaseSliver.set_tags / set_capacities *)
Definition attach_tags (revalidates : bool) (l : list tagv) : bool :=        (* true = attached (written into the model) *)
  if revalidates then match tag_check_all l with Some _ => true | None => false end else true.

Definition attach_caps (revalidates : bool) (st : cobj) : bool :=
  if revalidates then match snd (cap_set_fields false st st) with None => true | Some _ => false end else true.

(* round 4: non-string list elements, attribute-name keywords, direct assignment then attach *)
Inductive extra :=
| X_mixed (entry : N) (k : str) (l : list lelem) (o : kw_outcome)      (* entry 0 ctor, 1 update, 2 from_json *)
| X_attr (entry : N) (o : kw_outcome)
| X_caps_attr (forgiving : bool) (o : kw_outcome)
| X_assign_attach (base : list (str * lval)) (k : str) (v : lval) (wrote : bool)    (* Labels( base ); l.k = v; element.labels = l *)
| X_tags_attach (l : list tagv) (wrote : bool)
| X_caps_attach (st : list (str * cval)) (wrote : bool).

Definition kw_outcome_eqb (a b : kw_outcome) : bool :=
  match a, b with
  | KW_stored, KW_stored | KW_skipped, KW_skipped => true
  | KW_err x, KW_err y => exn_eqb x y
  | _, _ => false
  end.

Definition check_extra (x : extra) : bool :=
  match x with
  | X_mixed e k l o => kw_outcome_eqb (if N.eqb e 2 then mixed_outcome_from_json k l else mixed_outcome false k l) o
  | X_attr e o => kw_outcome_eqb (if N.eqb e 2 then nonfield_attr_outcome_from_json else nonfield_attr_outcome false) o
  | X_caps_attr fg o => kw_outcome_eqb (caps_nonfield_attr_outcome fg) o
  | X_assign_attach base k v wrote =>
      match labels_ctor base with
      | Ok st => match attach_labels set_labels_revalidates (attr_assign st k v) with
                 | Ok _ => Bool.eqb wrote true
                 | Err _ => Bool.eqb wrote false
                 end
      | Err _ => false
      end
  | X_tags_attach l wrote => Bool.eqb (attach_tags set_tags_revalidates l) wrote
  | X_caps_attach st wrote => Bool.eqb (attach_caps set_capacities_revalidates st) wrote
  end.

(* the same values arriving through the topology API *)
Inductive topo :=
| T_labels (x : lentry * lobs)
| T_misc (m : misc)
| T_setname (cls old s : str) (taken : bool) (handle graph : str) (e : option exn)
| T_extra (x : extra).

Definition check_topo (t : topo) : bool :=
  match t with
  | T_labels x => check_labels x
  | T_misc m => check_misc m
  | T_setname cls old s taken h g e =>
      let '((h', g'), e') := elem_set_name cls old s taken in
      str_eqb h h' && str_eqb g g' && opt_eqb exn_eqb e e'
  | T_extra x => check_extra x
  end.


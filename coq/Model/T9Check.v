(* C09 - correspondence check: the model is run on the implementation's PRE-state snapshot and must predict
   the outcome class and the POST-state snapshot of the call (compared up to order of nodes/edges and
   orientation of edges).  Definitions only. *)
From Coq Require Import List NArith Bool.
From FIM Require Import Base.Str Gen.T9Names Model.T9Graph Model.T9Ops.
Import ListNotations.
Open Scope N_scope.

Definition node_eqb (a b : node) : bool :=
  (nid a =? nid b) && (ncls a =? ncls b) && str_eqb (nname a) (nname b) && (ntype a =? ntype b)
  && (nrest a =? nrest b).

Definition edge_equiv (a b : edge) : bool := same_pair (ea a) (eb a) b && (erel a =? erel b).

Definition graph_equiv (a b : graph) : bool :=
  Nat.eqb (length (gnodes a)) (length (gnodes b))
  && forallb (fun n => existsb (node_eqb n) (gnodes b)) (gnodes a)
  && forallb (fun n => existsb (node_eqb n) (gnodes a)) (gnodes b)
  && Nat.eqb (length (gedges a)) (length (gedges b))
  && forallb (fun e => existsb (edge_equiv e) (gedges b)) (gedges a)
  && forallb (fun e => existsb (edge_equiv e) (gedges a)) (gedges b).

Definition outcome_eqb (r : res unit) (o : option exn) : bool :=
  match r, o with
  | Ok _, None => true
  | Err e, Some e' => exn_eqb e e'
  | _, _ => false
  end.

Record case := mkCase {
  c_flavour : flavour;
  c_pre : graph;
  c_fresh : list N;
  c_call : call;
  c_outcome : option exn;      (* the exception class the implementation raised, None = returned *)
  c_post : graph }.

Definition model_run (c : case) : st * res unit :=
  run_call (c_flavour c) (c_call c) (mkSt (c_pre c) (c_fresh c)).

Definition check_case (c : case) : bool :=
  t9_gen_ok && wf_graph (c_pre c) && wf_graph (c_post c) &&
  let '(s', r) := model_run c in
  outcome_eqb r (c_outcome c) && graph_equiv (sg s') (c_post c).

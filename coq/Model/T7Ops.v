(* C07 - the topology-building API (fim/user/topology.py, node.py, component.py, network_service.py,
   interface.py, link.py, model_element.py) and the sliver-level graph programs it calls
   (fim/graph/abc_property_graph.py:1086-1301, fim/graph/slices/abc_asm.py) as programs in the
   state/exception monad of T7Graph.v.  Each program keeps the order of the checks and of the primitive
   graph mutations of the code, so that effects made before a raise stay in the state.
   Definitions only.  Handles are fresh (obtained through the views right before the call). *)
From Coq Require Import String List NArith ZArith Bool.
From FIM Require Import Base.Str Gen.Rules Model.T7Graph.
Import ListNotations.

(* ---- constants ---------------------------------------------------------------------------------- *)
Definition sFacility := S "Facility".
Definition sSwitch := S "Switch".
Definition sServicePort := S "ServicePort".
Definition sSubInterface := S "SubInterface".
Definition sDedicatedPort := S "DedicatedPort".
Definition sSharedPort := S "SharedPort".
Definition sFacilityPort := S "FacilityPort".
Definition sSmartNIC := S "SmartNIC".
Definition sSharedNIC := S "SharedNIC".
Definition sFPGA := S "FPGA".
Definition sStorage := S "Storage".
Definition sNAS := S "NAS".
Definition sOVS := S "OVS".
Definition sP4 := S "P4".
Definition sVLAN := S "VLAN".
Definition sL2PTP := S "L2PTP".
Definition sL2Path := S "L2Path".
Definition sPatch := S "Patch".
Definition sPortMirror := S "PortMirror".
Definition sL2Multisite := S "L2Multisite".
Definition dash := S "-".

(* ---- owners (used by the rules of T7WF.v and by the scope of a rename) -------------------------------- *)
Definition nb_where (g : graph) (x : str) (P : str -> rel -> bool) : list str :=
  map fst (filter (fun p => P (fst p) (snd p)) (nbrs g x)).

(* rule 9: the owning node(s) of a component *)
Definition comp_owners (g : graph) (x : str) : list str :=
  nb_where g x (fun j r => rel_eqb r Has && (cls_is g j KNode || cls_is g j KComposite)).
(* the owner(s) of a network service: node, composite node or component *)
Definition ns_owners (g : graph) (x : str) : list str :=
  nb_where g x (fun j r => rel_eqb r Has && (cls_is g j KNode || cls_is g j KComposite || cls_is g j KComp)).
(* the owner(s) of an interface: a service, or for a sub-interface its parent interface *)
Definition cp_owners (g : graph) (x : str) : list str :=
  nb_where g x (fun j r => rel_eqb r Connects &&
                           (cls_is g j KNS || (typ_is g x sSubInterface && cls_is g j KCP && negb (typ_is g j sSubInterface)))).

(* ---- name syntax: BaseSliver.set_name with the NAME_REGEX of each sliver class (ASCII inputs) --------- *)
Definition is_word (c : N) : bool :=
  ((48 <=? c) && (c <=? 57) || (65 <=? c) && (c <=? 90) || (97 <=? c) && (c <=? 122) || (c =? 95))%N.
Definition extra_char (k : cls) (c : N) : bool :=
  match k with
  | KNode => (c =? 45) || (c =? 46)                                   (* [\w\-\.] *)
  | KComp => (c =? 45) || (c =? 46) || (c =? 32)                      (* [\w\-_\.\ ] *)
  | KNS => (c =? 45) || (c =? 46)                                     (* [\w\-_\.] *)
  | KCP | KLink => (c =? 45) || (c =? 43) || (c =? 47) || (c =? 46) || (c =? 32) || (c =? 58)   (* [\w\-+_/\.\ :] *)
  | _ => false
  end%N.
Definition min_len (k : cls) : nat := match k with KCP => 1 | _ => 2 end.
Definition name_ok (k : cls) (s : str) : bool :=
  Nat.leb (min_len k) (length s) && Nat.leb (length s) 255 && forallb (fun c => is_word c || extra_char k c) s.
Definition check_name (k : cls) (s : str) : M unit := guard (name_ok k s) EValue.

(* ---- monadic list helpers --------------------------------------------------------------------------- *)
Fixpoint mapM {A B} (f : A -> M B) (l : list A) : M (list B) :=
  match l with [] => ret [] | x :: r => y <- f x ;; ys <- mapM f r ;; ret (y :: ys) end.
Fixpoint filterM {A} (f : A -> M bool) (l : list A) : M (list A) :=
  match l with [] => ret [] | x :: r => b <- f x ;; ys <- filterM f r ;; ret (if b then x :: ys else ys) end.
Definition concatM {A B} (f : A -> M (list B)) (l : list A) : M (list B) :=
  ls <- mapM f l ;; ret (concat ls).
Definition len_is {A} (l : list A) (n : nat) : bool := Nat.eqb (length l) n.

(* ---- handles ------------------------------------------------------------------------------------ *)
Inductive handle := HNode (id name : str) | HComp (id name : str) | HNS (id name : str) | HIface (id name : str).
Definition hid (h : handle) := match h with HNode i _ | HComp i _ | HNS i _ | HIface i _ => i end.
Definition hname (h : handle) := match h with HNode _ n | HComp _ n | HNS _ n | HIface _ n => n end.

(* get_parent (abc_property_graph.py:1357): exactly one neighbour of that class over that relation *)
Definition get_parent (x : str) (r : rel) (k : cls) : M (option (str * str)) :=
  ps <- q_first_nb x r k ;;
  match ps with
  | [p] => n <- props p ;; nm <- name_prop n ;; ret (Some (nm, p))
  | _ => ret None
  end.

Definition type_of_handle (x : str) : M (option str) := n <- props x ;; ret (ntyp n).
Definition type_is (x t : str) : M bool :=
  o <- type_of_handle x ;; ret (match o with Some u => str_eqb u t | None => false end).

(* Topology.get_parent_element for an Interface (topology.py:110-124) *)
Definition parent_of_iface (i : str) : M handle :=
  sub <- type_is i sSubInterface ;;
  if sub then
    p <- get_parent i Connects KCP ;;
    match p with Some (nm, id) => ret (HIface id nm) | None => raise ETopology end
  else
    p <- get_parent i Connects KNS ;;
    match p with Some (nm, id) => ret (HNS id nm) | None => raise ETopology end.
(* ... for a Component (:127-133) *)
Definition parent_of_comp (c : str) : M handle :=
  p <- get_parent c Has KNode ;;
  match p with Some (nm, id) => ret (HNode id nm) | None => raise ETopology end.
(* ... for a NetworkService (:136-155) *)
Definition parent_of_ns (s : str) : M (option handle) :=
  p <- get_parent s Has KComp ;;
  match p with
  | Some (nm, id) => ret (Some (HComp id nm))
  | None =>
      p <- get_parent s Has KNode ;;
      match p with
      | Some (nm, id) => ret (Some (HNode id nm))
      | None =>
          p <- get_parent s Has KComposite ;;
          match p with Some (nm, id) => ret (Some (HNode id nm)) | None => ret None end
      end
  end.
(* Topology.get_owner_node (:159-185) *)
Definition owner_of_ns (s : str) : M (option handle) :=
  pe <- parent_of_ns s ;;
  match pe with
  | None => ret None
  | Some (HNode id nm) => ret (Some (HNode id nm))
  | Some h => o <- parent_of_comp (hid h) ;; ret (Some o)
  end.
Fixpoint owner_of_iface (fuel : nat) (i : str) : M (option handle) :=
  match fuel with
  | O => raise EOtherExn
  | Datatypes.S f =>
      pe <- parent_of_iface i ;;
      match pe with
      | HIface id _ => owner_of_iface f id
      | h => owner_of_ns (hid h)
      end
  end.

(* find_peer_connection_points (:1402): None when there is no peer over a Link *)
Definition find_peers (i : str) : M (option (list str)) :=
  c <- q_second_nb i Connects KLink KCP ;;
  ret (match c with [] => None | _ => Some (map snd c) end).
(* Interface.get_peers(itype) (interface.py:243): handles of the peers, optionally of one type *)
Definition get_peers (i : str) (itype : option str) : M (option (list str)) :=
  ps <- find_peers i ;;
  match ps with
  | None => ret None
  | Some l =>
      l' <- filterM (fun p => n <- props p ;;
                              guard (match nname n with Some _ => true | None => false end) EAssert ;;;
                              guard (cls_eqb (ncls n) KCP) EAssert ;;;
                              ret (match itype with
                                   | None => true
                                   | Some t => match ntyp n with Some u => str_eqb u t | None => false end
                                   end)) l ;;
      ret (Some l')
  end.

(* ---- removal programs (abc_property_graph.py:1086-1202) ------------------------------------------------ *)
Definition remove_cp_and_links (x : str) (delete_parent : bool) : M unit :=
  parents <- q_first_nb x Connects KCP ;;
  extra <- filterM (fun p => ch <- q_first_nb p Connects KCP ;; ret (len_is ch 1 && delete_parent)) parents ;;
  let ifs := dedup (x :: extra) in
  links <- concatM (fun i =>
             ls <- q_first_nb i Connects KLink ;;
             filterM (fun l => ci <- q_first_nb l Connects KCP ;; ret (len_is ci 2)) ls) ifs ;;
  for_each (dedup (ifs ++ links)) delete_node.

Definition check_class (x : str) (ks : list cls) : M unit :=
  n <- props x ;; guard (existsb (cls_eqb (ncls n)) ks) EQuery.

Definition remove_ns_with_cps_and_links (s : str) : M unit :=
  check_class s [KNS] ;;;
  ifs <- q_first_nb s Connects KCP ;;
  delete_node s ;;;
  for_each ifs (fun i => remove_cp_and_links i true).

Definition remove_component_with_nss (c : str) : M unit :=
  check_class c [KComp] ;;;
  nss <- q_first_nb c Has KNS ;;
  delete_node c ;;;
  for_each nss remove_ns_with_cps_and_links.

Definition remove_network_node (n : str) : M unit :=
  check_class n [KNode] ;;;
  comps <- q_first_nb n Has KComp ;;
  for_each comps remove_component_with_nss ;;;
  nss <- q_first_nb n Has KNS ;;
  delete_node n ;;;
  for_each nss remove_ns_with_cps_and_links.

Definition remove_network_link (l : str) : M unit :=
  check_class l [KLink] ;;; delete_node l.

(* ---- sliver-level additions (:1204-1301) ------------------------------------------------------------ *)
Definition add_interface_sliver (parent : str) (n : node) : M unit :=
  add_node n ;;; add_link parent Connects (nid n).

(* ---- views used by the programs ---------------------------------------------------------------------- *)
Definition is_facility (n : node) : bool := match ntyp n with Some t => str_eqb t sFacility | None => false end.
Definition nodes_view (g : graph) : list node :=
  filter (fun n => cls_eqb (ncls n) KNode && negb (is_facility n)) (gnodes g).
Definition facilities_view (g : graph) : list node :=
  filter (fun n => cls_eqb (ncls n) KNode && is_facility n) (gnodes g).
Definition has_name (name : str) (n : node) : bool := ostr_eqb (nname n) (Some name).
Definition names_of_ids (g : graph) (l : list str) : list (option str) := map (name_of g) l.
Definition name_in (g : graph) (name : str) (l : list str) : bool :=
  existsb (fun x => ostr_eqb (name_of g x) (Some name)) l.
Definition id_by_name (g : graph) (name : str) (l : list str) : option str :=
  find (fun x => ostr_eqb (name_of g x) (Some name)) l.

(* get_all_node_or_component_connection_points (:1334) *)
Definition conn_points_of (x : str) : M (list str) :=
  check_class x [KNode; KComp; KComposite] ;;;
  p <- q_second_nb x Has KNS KCP ;; ret (map snd p).
(* get_all_network_node_components (abc_asm.py:128) *)
Definition components_of (x : str) : M (list str) :=
  check_class x [KNode] ;;; q_first_nb x Has KComp.
(* get_all_network_node_or_component_nss (abc_asm.py:142) *)
Definition nss_of (x : str) : M (list str) :=
  check_class x [KNode; KComp] ;;; q_first_nb x Has KNS.
(* get_all_ns_or_link_connection_points (:1304) *)
Definition cps_of_ns_or_link (x : str) : M (list str) :=
  check_class x [KLink; KNS] ;;; q_first_nb x Connects KCP.
(* get_all_child_connection_points (:1319) *)
Definition child_cps (x : str) : M (list str) :=
  check_class x [KCP] ;;; q_first_nb x Connects KCP.
(* Node.interface_list (node.py:487) *)
Definition node_interface_list (n : str) : M (list str) :=
  d <- conn_points_of n ;;
  cs <- components_of n ;;
  ci <- concatM conn_points_of cs ;;
  ret (d ++ ci).

(* NetworkService.disconnect_interface (network_service.py:352): only the service-side port is removed (fix 13b815d) *)
Definition disconnect_interface (i : str) : M unit :=
  ps <- get_peers i (Some sServicePort) ;;
  match ps with
  | None | Some [] => ret tt
  | Some [p] => remove_cp_and_links p true
  | Some _ => raise ETopology
  end.

(* Topology._disconnect_from_services (topology.py:228, fix edd75a8): every interface of the list AND each of its
   sub-interfaces that has a ServicePort peer is disconnected from the service owning that port.  The handles (and the
   child lists of DedicatedPorts, interface.py:84-93) are made before the loop. *)
Definition children_of_handle (i : str) : M (list str) :=
  ded <- type_is i sDedicatedPort ;;
  if ded then child_cps i else ret [].
Definition disconnect_one (i : str) : M unit :=
  ps <- get_peers i (Some sServicePort) ;;
  match ps with
  | None | Some [] => ret tt
  | Some [p] =>
      h <- parent_of_iface p ;;
      match h with
      | HNS _ _ => disconnect_interface i
      | _ => raise EAttribute
      end
  | Some _ => raise ETopology
  end.
(* The interface list is walked in the iteration order of Python sets, which the snapshot does not determine;
   the harness records the order the implementation's (flattened) list had right before the call and the
   model walks ITS list in that order (elements the hint does not mention keep their place at the end). *)
Definition order_by (hint l : list str) : list str :=
  filter (fun x => mem_str x l) (dedup_keep hint) ++ filter (fun x => negb (mem_str x hint)) l.
(* node_exists(node_id, label=ConnectionPoint) (networkx_property_graph.py:559) *)
Definition cp_exists (x : str) : M bool :=
  g <- getg ;;
  match filter (fun n => cls_eqb (ncls n) KCP) (find_nodes g x) with
  | [] => ret false | [_] => ret true | _ => raise EQuery
  end.
Definition disconnect_loop (fl : flags) (hint ifs : list str) : M unit :=
  all <- concatM (fun i => ch <- children_of_handle i ;; ret (i :: ch)) ifs ;;
  for_each (order_by hint all) (fun i =>
    if fl_skip_gone fl then (ex <- cp_exists i ;; if ex then disconnect_one i else ret tt)
    else disconnect_one i).

(* ---- element constructors ------------------------------------------------------------------------ *)
Definition mk (id : str) (k : cls) (t : option str) (name : str) (lab : bool) : node := mkNode id k t (Some name) lab.

(* Node(NEW) (node.py:82-104) behind Topology.add_node (topology.py:187) *)
Definition t_add_node (sub : bool) (name : str) (nid : option str) (ntype : str) : M str :=
  g <- getg ;;
  guard (negb (existsb (has_name name) (nodes_view g))) ETopology ;;;
  guard (negb (sub && match nid with None => true | _ => false end)) ETopology ;;;
  id <- id_or_draw nid ;;
  check_name KNode name ;;;
  u <- check_node_unique KNode name ;;
  guard u EQuery ;;;
  add_node (mk id KNode (Some ntype) name false) ;;;
  ret id.

(* NetworkService(NEW) without interfaces (network_service.py:80-98) *)
Definition new_service (name : str) (sid : option str) (nstype : str) (parent : option str) : M str :=
  id <- id_or_draw sid ;;
  check_name KNS name ;;;
  (match parent with
   | None => u <- check_node_unique KNS name ;; guard u EQuery
   | Some _ => ret tt
   end) ;;;
  add_node (mk id KNS (Some nstype) name false) ;;;
  (match parent with Some p => add_link p Has id | None => ret tt end) ;;;
  ret id.

(* Node.add_network_service (node.py:324) *)
Definition node_add_ns (n : str) (name : str) (sid : option str) (nstype : str) : M str :=
  ss <- nss_of n ;;
  g <- getg ;;
  guard (negb (name_in g name ss)) ETopology ;;;
  new_service name sid nstype (Some n).

(* Interface(NEW) (interface.py:62-80) *)
Definition new_interface (sub : bool) (name : str) (iid : option str) (parent : str) (itype : str) (lab : bool) : M str :=
  guard (negb (sub && match iid with None => true | _ => false end)) ETopology ;;;
  id <- id_or_draw iid ;;
  check_name KCP name ;;;
  add_interface_sliver parent (mk id KCP (Some itype) name lab) ;;;
  ret id.

(* ... with add_interface_sliver looking the parent up first (a4fc126): differs from new_interface only when the parent is
   not in the graph *)
Definition new_interface_pf (sub : bool) (name : str) (iid : option str) (parent : str) (itype : str) (lab : bool) : M str :=
  guard (negb (sub && match iid with None => true | _ => false end)) ETopology ;;;
  id <- id_or_draw iid ;;
  check_name KCP name ;;;
  props parent ;;;
  add_interface_sliver parent (mk id KCP (Some itype) name lab) ;;;
  ret id.

(* NetworkService.add_interface (network_service.py:373) on a handle whose cached interface list is
   `cache` (names): loaded when the handle is made, extended by every add_interface (fix 18a115a). *)
Definition ns_add_interface (sub : bool) (s : str) (cache : list (option str)) (name : str) (iid : option str)
           (itype : str) (lab : bool) : M str :=
  guard (negb (existsb (fun o => ostr_eqb o (Some name)) cache)) ETopology ;;;
  new_interface sub name iid s itype lab.

(* the cached names of a fresh NetworkService handle (network_service.py:127-133) *)
Definition fresh_ns_cache (s : str) : M (list (option str)) :=
  l <- cps_of_ns_or_link s ;;
  mapM (fun i => n <- props i ;; nm <- name_prop n ;; ret (Some nm)) l.

(* Link(NEW) (link.py:66-92) *)
Definition new_link (sub : bool) (name : str) (lid : option str) (ltype : str) (ifs : list str) : M str :=
  guard (negb (sub && match lid with None => true | _ => false end)) ETopology ;;;
  id <- id_or_draw lid ;;
  guard (negb (len_is ifs 0)) ETopology ;;;
  check_name KLink name ;;;
  (* add_network_link_sliver: every interface must be in the graph before the Link node is added (fix b5829c4) *)
  for_each ifs (fun i => props i ;;; ret tt) ;;;
  add_node (mk id KLink (Some ltype) name false) ;;;
  for_each ifs (fun i => add_link id Connects i) ;;;
  ret id.

(* NetworkService.connect_interface (network_service.py:319); i is a fresh Interface handle *)
Definition connect_interface (fl : flags) (sub : bool) (s : str) (i : str) : M unit :=
  ni <- props i ;;
  iname <- name_prop ni ;;
  (* the same guardrails as for interfaces passed to the constructor (fix 7b9c57b) *)
  l2ptp <- type_is s sL2PTP ;;
  shared0 <- type_is i sSharedPort ;;
  guard (negb (l2ptp && shared0)) ETopology ;;;
  o <- owner_of_iface 4 i ;;
  match o with
  | None => raise ETopology
  | Some parent =>
      ps <- find_peers i ;;
      guard (match ps with None => true | Some _ => false end) ETopology ;;;
      let pname := hname parent ++ dash ++ iname in
      (* proposed C07-6: the derived names must be free *)
      (if fl_connect_names fl then
         cps <- cps_of_ns_or_link s ;;
         g <- getg ;;
         guard (negb (name_in g pname cps)) ETopology ;;;
         u <- check_node_unique KLink (pname ++ S "-link") ;;
         guard u ETopology
       else ret tt) ;;;
      pid <- new_interface sub pname None s sServicePort false ;;
      shared <- type_is i sSharedPort ;;
      (* port and link are made as a unit (fix 7b7379b): any failure of the Link construction takes the port away *)
      (if fl_connect_undo fl then
         try_any (new_link sub (pname ++ S "-link") None (if shared then sL2Path else sPatch) [i; pid] ;;; ret tt)
                 (fun e => remove_cp_and_links pid true ;;; raise e)
       else new_link sub (pname ++ S "-link") None (if shared then sL2Path else sPatch) [i; pid] ;;; ret tt)
  end.

(* NetworkService(NEW) with interfaces: guardrails, connect, rollback on any exception (:100-119, fix 16ce105) *)
Fixpoint connect_all (fl : flags) (sub : bool) (s : str) (nstype : str) (todo done : list str) : M unit :=
  match todo with
  | [] => ret tt
  | i :: r =>
      try_any
        (shared <- type_is i sSharedPort ;;
         guard (negb (str_eqb nstype sL2PTP && shared)) ETopology ;;;
         connect_interface fl sub s i)
        (fun e =>
         for_each done disconnect_interface ;;;
         remove_ns_with_cps_and_links s ;;;
         raise e) ;;;
      connect_all fl sub s nstype r (done ++ [i])
  end.

Definition t_add_ns (fl : flags) (sub : bool) (name : str) (sid : option str) (nstype : str) (ifs : list str) : M unit :=
  s <- new_service name sid nstype None ;;
  connect_all fl sub s nstype ifs [].

(* ---- component generation (component_catalog.py:65-185) -------------------------------------------------- *)
Definition cat_entry := (str * list str * str * option (list str))%type.
Definition cat_match (model ctype : str) (c : cat_entry) : bool :=
  match c with (m, also, t, _) => (str_eqb model m || mem_str model also) && str_eqb ctype t end.
Definition catalog_lookup (model ctype : str) : option cat_entry := find (cat_match model ctype) catalog.

Fixpoint zip_ids (ports : list str) (ids : list str) : list (str * option str) :=
  match ports, ids with
  | p :: pr, i :: ir => (p, Some i) :: zip_ids pr ir
  | p :: pr, [] => (p, None) :: zip_ids pr []
  | [], _ => []
  end.

(* add_component_sliver (fix 94aa751): the ids the call is going to add -- component, its service, the interfaces --
   must be pairwise distinct and none of them may be the id of a node of the graph (get_node_properties succeeds) *)
Fixpoint distinct_b (l : list str) : bool :=
  match l with [] => true | x :: r => negb (mem_str x r) && distinct_b r end.
Definition comp_precheck (fl : flags) (id : str) (gen : option (node * list node)) : M unit :=
  if fl_comp_precheck fl then
    let ids := id :: match gen with Some (ns, ifs) => nid ns :: map nid ifs | None => [] end in
    guard (distinct_b ids) EQuery ;;;
    for_each ids (fun x => g <- getg ;; guard (negb (len_is (find_nodes g x) 1)) EQuery)
  else ret tt.

(* Component(NEW) (component.py:78-113) + ComponentCatalog.generate_component + add_component_sliver *)
Definition new_component (fl : flags) (sub : bool) (parent : str) (name : str) (cid : option str) (ctype model : str)
           (nsid : option str) (ifids : option (list str)) (lab : bool) : M unit :=
  guard (negb (sub && match cid with None => true | _ => false end)) ETopology ;;;
  id <- id_or_draw cid ;;
  guard (negb (sub && (str_eqb ctype sSharedNIC || str_eqb ctype sSmartNIC)
               && (match nsid with None => true | _ => false end || match ifids with None => true | _ => false end)))
        ETopology ;;;
  pn <- props parent ;;
  match catalog_lookup model ctype with
  | None => raise ECatalog
  | Some (cmodel, _, ctype', ports) =>
      check_name KComp name ;;;
      (* interfaces and the network service of the component are generated before anything is added *)
      gen <- (match ports with
              | None => ret None
              | Some ps =>
                  guard (match ifids with Some l => Nat.eqb (length l) (length ps) | None => true end) ERuntime ;;;
                  let itype := if str_eqb ctype' sSmartNIC || str_eqb ctype' sFPGA then Some sDedicatedPort
                               else if str_eqb ctype' sSharedNIC then Some sSharedPort else None in
                  let plan := match ifids with Some l => zip_ids ps l | None => map (fun p => (p, None)) ps end in
                  ifs <- mapM (fun pi => check_name KCP (name ++ dash ++ fst pi) ;;;
                                         i <- id_or_draw (snd pi) ;;
                                         ret (mkNode i KCP itype (Some (name ++ dash ++ fst pi)) true)) plan ;;
                  sid <- id_or_draw nsid ;;
                  let fpga := str_eqb ctype' sFPGA in
                  let sname := (match nname pn with Some p => p ++ dash | None => [] end)
                               ++ name ++ (if fpga then S "-l2p4" else S "-l2ovs") in
                  check_name KNS sname ;;;
                  ret (Some (mkNode sid KNS (Some (if fpga then sP4 else sOVS)) (Some sname) false, ifs))
              end) ;;
      comp_precheck fl id gen ;;;
      add_node (mk id KComp (Some ctype') name lab) ;;;
      add_link parent Has id ;;;
      match gen with
      | None => ret tt
      | Some (ns, ifs) =>
          add_node ns ;;;
          add_link id Has (nid ns) ;;;
          for_each ifs (fun i => add_interface_sliver (nid ns) i)
      end
  end.

(* Node.add_component (node.py:272) *)
Definition node_add_component (fl : flags) (sub : bool) (n : str) (name : str) (cid : option str) (ctype model : str)
           (nsid : option str) (ifids : option (list str)) : M unit :=
  cs <- components_of n ;;
  g <- getg ;;
  guard (negb (name_in g name cs)) ETopology ;;;
  new_component fl sub n name cid ctype model nsid ifids false.

(* Node.add_storage (node.py:303) *)
Definition node_add_storage (fl : flags) (sub : bool) (n : str) (name : str) (cid : option str) : M unit :=
  guard (negb sub) ETopology ;;;
  cs <- components_of n ;;
  g <- getg ;;
  guard (negb (name_in g name cs)) ETopology ;;;
  new_component fl sub n name cid sStorage sNAS None None true.

(* find_component_by_name / find_ns_by_name / find_child_connection_point_by_name (abc_asm.py:152-200) *)
Definition find_by_name (l : list str) (name : str) : M str :=
  g <- getg ;;
  r <- mapM (fun x => n <- props x ;; nm <- name_prop n ;; ret (x, nm)) l ;;
  match find (fun p => str_eqb (snd p) name) r with
  | Some p => ret (fst p)
  | None => raise EQuery
  end.
(* the loops stop at the first match: properties of later elements are not read *)
Fixpoint find_by_name_lazy (l : list str) (name : str) : M str :=
  match l with
  | [] => raise EQuery
  | x :: r => n <- props x ;; nm <- name_prop n ;; if str_eqb nm name then ret x else find_by_name_lazy r name
  end.

(* Node.remove_component (node.py:340) *)
Definition node_remove_component (fl : flags) (hint : list str) (n : str) (name : str) : M unit :=
  cs <- components_of n ;;
  c <- find_by_name_lazy cs name ;;
  (* self.components[name]: the handle found through the name-keyed view *)
  ifs <- conn_points_of c ;;
  disconnect_loop fl hint ifs ;;;
  remove_component_with_nss c.

(* Topology.remove_node (topology.py:214) *)
Definition t_remove_node (fl : flags) (hint : list str) (name : str) : M unit :=
  g <- getg ;;
  match find (has_name name) (nodes_view g) with
  | None => raise ETopology
  | Some n =>
      ifs <- node_interface_list (nid n) ;;
      disconnect_loop fl hint ifs ;;;
      x <- find_node_by_name name KNode ;;
      remove_network_node x
  end.

(* Topology.remove_facility (topology.py:274) *)
Definition t_remove_facility (fl : flags) (hint : list str) (name : str) : M unit :=
  x <- find_node_by_name name KNode ;;
  fac <- type_is x sFacility ;;
  guard fac ETopology ;;;
  g <- getg ;;
  match find (has_name name) (facilities_view g) with
  | None => raise EKey
  | Some n =>
      ifs <- node_interface_list (nid n) ;;
      disconnect_loop fl hint ifs ;;;
      x <- find_node_by_name name KNode ;;
      remove_network_node x
  end.

(* Topology.remove_switch (topology.py:329) *)
Definition t_remove_switch (fl : flags) (hint : list str) (name : str) : M unit :=
  x <- find_node_by_name name KNode ;;
  sw <- type_is x sSwitch ;;
  guard sw ETopology ;;;
  t_remove_node fl hint name.

Fixpoint seq_from (start len : nat) : list nat :=
  match len with O => [] | Datatypes.S l => start :: seq_from (Datatypes.S start) l end.
Definition nat_str (n : nat) : str := str_of_Z (Z.of_nat n).
Definition opt_app (o : option str) (suffix : str) : option str :=
  match o with Some x => Some (x ++ suffix) | None => None end.

(* Topology.add_facility (topology.py:236).  The interfaces are added through ONE service handle whose cached list
   add_interface now keeps current (fix 18a115a): a repeated name is refused; the facility is a single construct,
   a rejected later step removes what was built (fix 2982a89). *)
Fixpoint add_ifaces (sub : bool) (s : str) (cache : list (option str)) (l : list (str * option str * str)) : M unit :=
  match l with
  | [] => ret tt
  | (name, iid, itype) :: r =>
      ns_add_interface sub s cache name iid itype true ;;;
      add_ifaces sub s (cache ++ [Some name]) r
  end.
Fixpoint number_from {A} (k : nat) (l : list A) : list (nat * A) :=
  match l with [] => [] | x :: r => (k, x) :: number_from (Datatypes.S k) r end.
Definition t_add_facility (sub : bool) (name : str) (nid : option str) (ifnames : option (list str)) : M unit :=
  n <- t_add_node sub name nid sFacility ;;
  try_any (
  s <- node_add_ns n (name ++ S "-ns") (opt_app nid (S "-ns")) sVLAN ;;
  match ifnames with
  | None | Some [] => add_ifaces sub s [] [(name ++ S "-int", opt_app nid (S "-int"), sFacilityPort)]
  | Some l =>
      add_ifaces sub s [] (map (fun kx => (snd kx, opt_app nid (S "-int" ++ nat_str (fst kx)), sFacilityPort)) (number_from 0 l))
  end) (fun e => remove_network_node n ;;; raise e).

(* Topology.add_switch (topology.py:296), with the same rollback (fix bf534cb) *)
Definition t_add_switch (sub : bool) (name : str) (nid : option str) (nports : nat) : M unit :=
  n <- t_add_node sub name nid sSwitch ;;
  try_any (
  s <- node_add_ns n (name ++ S "-ns") (opt_app nid (S "-ns")) sP4 ;;
  add_ifaces sub s [] (map (fun k => (S "p" ++ nat_str k, opt_app nid (S "-int" ++ nat_str k), sDedicatedPort)) (seq_from 1 nports)))
  (fun e => remove_network_node n ;;; raise e).

(* Topology.add_link (topology.py:339) *)
Definition t_add_link (fl : flags) (sub : bool) (name : str) (lid : option str) (ltype : str) (ifs : list str) : M unit :=
  g <- getg ;;
  guard (negb (existsb (has_name name) (filter (fun n => cls_eqb (ncls n) KLink) (gnodes g)))) ETopology ;;;
  (* proposed C07-9: the arguments are Interface handles (the graph layer only looks whether the ids exist) *)
  guard (negb (fl_link_cp_only fl) || forallb (fun i => cls_is g i KCP) ifs) ETopology ;;;
  new_link sub name lid ltype ifs ;;; ret tt.

(* Topology.remove_link (topology.py:361) *)
Definition t_remove_link (fl : flags) (name : str) : M unit :=
  l <- find_node_by_name name KLink ;;
  cps <- cps_of_ns_or_link l ;;
  (* proposed C07-4: a link made by connect_interface / peer is not removed on its own *)
  g <- getg ;;
  guard (negb (fl_link_refuse fl && existsb (fun c => typ_is g c sServicePort) cps)) ETopology ;;;
  remove_network_link l.

(* Topology.remove_network_service (topology.py:385) *)
Definition t_remove_ns (fl : flags) (hint : list str) (name : str) : M unit :=
  s <- find_node_by_name name KNS ;;
  fresh_ns_cache s ;;;
  (* disconnect what the service's own ports are connected to or peered with (fix 18b6247) *)
  ifs <- cps_of_ns_or_link s ;;
  disconnect_loop fl hint ifs ;;;
  remove_ns_with_cps_and_links s.

(* Node.remove_network_service (node.py:362) *)
Definition node_remove_ns (fl : flags) (hint : list str) (n : str) (name : str) : M unit :=
  ss <- nss_of n ;;
  s <- find_by_name_lazy ss name ;;
  fresh_ns_cache s ;;;
  ifs <- cps_of_ns_or_link s ;;
  disconnect_loop fl hint ifs ;;;
  remove_ns_with_cps_and_links s.

(* NetworkService.peer (network_service.py:408): both handles are fresh *)
Definition ns_peer (fl : flags) (sub : bool) (a b : str) : M unit :=
  na <- props a ;; an <- name_prop na ;;
  nb <- props b ;; bn <- name_prop nb ;;
  (* proposed C07-7: not with itself (the second handle's cached interface list would not see the first port), and the
     derived link name must be free *)
  (if fl_peer_checks fl then
     guard (negb (str_eqb a b)) ETopology ;;;
     u <- check_node_unique KLink (an ++ dash ++ bn ++ S "-link") ;;
     guard u ETopology
   else ret tt) ;;;
  ca <- fresh_ns_cache a ;;
  cb <- fresh_ns_cache b ;;
  ia <- ns_add_interface sub a ca (an ++ dash ++ bn) None sServicePort false ;;
  (* peering is all or nothing (fix 1e03994) *)
  try_any
    (ib <- ns_add_interface sub b cb (bn ++ dash ++ an) None sServicePort false ;;
     try_any (new_link sub (an ++ dash ++ bn ++ S "-link") None sL2Path [ia; ib] ;;; ret tt)
             (fun e => remove_cp_and_links ib true ;;; raise e))
    (fun e => remove_cp_and_links ia true ;;; raise e).

(* NetworkService.unpeer (network_service.py, fix 24d5e04): the peerings are found from this service's own service
   ports -- such a port, its link, and at the other end a service port owned by the other service; every peering
   between the two services is removed (both ports, hence the link); no peering: TopologyException *)
Definition peerings (a b : str) : M (list (str * str)) :=
  cps <- cps_of_ns_or_link a ;;
  concatM (fun cp =>
    t <- type_is cp sServicePort ;;
    if negb t then ret [] else
    ps <- find_peers cp ;;
    concatM (fun p =>
      tp <- type_is p sServicePort ;;
      if negb tp then ret [] else
      o <- get_parent p Connects KNS ;;
      ret (match o with Some (_, id) => if str_eqb id b then [(cp, p)] else [] | None => [] end))
      (match ps with Some l => l | None => [] end)) cps.
Definition ns_unpeer (a b : str) : M unit :=
  pairs <- peerings a b ;;
  guard (negb (len_is pairs 0)) ETopology ;;;
  for_each (dedup (map fst pairs ++ map snd pairs)) (fun cp =>
    ex <- cp_exists cp ;; if ex then remove_cp_and_links cp true else ret tt).

(* Interface.add_child_interface (interface.py:103); fresh handle: cache = names of the children *)
Definition iface_add_child (sub : bool) (i : str) (name : str) (cid : option str) (has_vlan : bool) : M unit :=
  ded <- type_is i sDedicatedPort ;;
  guard ded EAssert ;;;
  ch <- child_cps i ;;
  names <- mapM (fun c => n <- props c ;; nm <- name_prop n ;; ret (Some nm)) ch ;;
  guard (negb (existsb (fun o => ostr_eqb o (Some name)) names)) ETopology ;;;
  guard has_vlan ETopology ;;;
  ni <- props i ;;
  guard (nlab ni) ETopology ;;;
  new_interface sub name cid i sSubInterface true ;;; ret tt.

(* Interface.remove_child_interface (interface.py:146) *)
Definition iface_remove_child (i : str) (name : str) : M unit :=
  ded <- type_is i sDedicatedPort ;;
  guard ded EAssert ;;;
  ch <- child_cps i ;;
  c <- find_by_name_lazy ch name ;;
  (* disconnect the sub-interface from a service it is connected to (fix edd75a8) *)
  disconnect_one c ;;;
  remove_cp_and_links c false.

(* ---- rename / set_property / unset_property (model_element.py:69-93 and the set_property of each class) ---- *)
Inductive eref := RNode (id : str) | RComp (id : str) | RNS (id : str) | RLink (id : str) | RIface (id : str).
Definition ref_id (r : eref) := match r with RNode i | RComp i | RNS i | RLink i | RIface i => i end.
Definition ref_cls (r : eref) := match r with RNode _ => KNode | RComp _ => KComp | RNS _ => KNS | RLink _ => KLink | RIface _ => KCP end.

(* PNames: the name given to the PLURAL entry point set_properties(name=...) *)
Inductive pname := PName | PSite | PCapacities | PLabels | PDetails | PTypeNode | PNames.
Inductive uname := UName | UType | USite | UCapacities | ULabels | UDetails | UNoSuch.

(* proposed C07-3: the elements among which a new name of x must be free (the scopes the constructors check) *)
Definition rename_siblings (g : graph) (x : str) : list str :=
  match get_node g x with
  | None => []
  | Some n =>
      match ncls n with
      | KNode => ids_of_class g KNode
      | KLink => ids_of_class g KLink
      | KComp => flat_map (fun o => first_nb g o Has KComp) (comp_owners g x)
      | KNS => match ns_owners g x with
               | [] => ids_of_class g KNS
               | os => flat_map (fun o => first_nb g o Has KNS) os
               end
      | KCP => flat_map (fun o => first_nb g o Connects KCP) (cp_owners g x)
      | _ => []
      end
  end.
Definition name_taken (g : graph) (x : str) (new : str) : bool :=
  existsb (fun j => negb (str_eqb j x) && ostr_eqb (name_of g j) (Some new)) (rename_siblings g x).

Definition elem_set_property (fl : flags) (r : eref) (p : pname) (v : str) : M unit :=
  let x := ref_id r in
  match p with
  | PName =>
      (if fl_rename_check fl then find1 x ;;; g <- getg ;; guard (negb (name_taken g x v)) ETopology else ret tt) ;;;
      check_name (ref_cls r) v ;;; update_node x (set_name v)
  | PSite => match r with RNode _ | RNS _ => update_node x (fun n => n) | _ => raise EAttribute end
  | PCapacities | PDetails => update_node x (fun n => n)
  | PLabels => update_node x (set_lab true)
  | PTypeNode => update_node x (set_typ v)
  | PNames =>
      (* <Element>.set_properties(name=v): the sliver's set_name checks the syntax; the uniqueness check of 6648cd3 is
         not on this path (proposed C07-8 puts it there, before anything is written) *)
      (if fl_props_check fl then find1 x ;;; g <- getg ;; guard (negb (name_taken g x v)) ETopology else ret tt) ;;;
      check_name (ref_cls r) v ;;; update_node x (set_name v)
  end.

Definition elem_rename (fl : flags) (r : eref) (new : str) : M unit :=
  elem_set_property fl r PName new ;;; update_node (ref_id r) (set_name new).

Definition elem_unset_property (r : eref) (p : uname) : M unit :=
  let x := ref_id r in
  match p with
  | UNoSuch => ret tt
  | UName | UType => raise EQuery
  | ULabels => update_node x (set_lab false)
  | USite | UCapacities | UDetails => update_node x (fun n => n)
  end.

(* ---- handle resolution as the harness does it (through the views, by node id) ------------------------------ *)
Definition resolve (g : graph) (k : cls) (x : str) : bool :=
  match get_node g x with
  | Some n => cls_eqb (ncls n) k && match nname n with Some _ => true | None => false end
  | None => false
  end.
Definition need (k : cls) (x : str) : M unit := g <- getg ;; guard (resolve g k x) ENoRef.
(* a handle of whatever class the element has (the harness hands add_link handles of any class) *)
Definition need_elem (x : str) : M unit :=
  g <- getg ;; guard (match get_node g x with Some n => match nname n with Some _ => true | None => false end | None => false end) ENoRef.

(* the public entry point NetworkService.disconnect_interface (proposed C07-10): a peering port is not disconnected on
   its own -- its peer would go and leave it without peer *)
Definition public_disconnect (fl : flags) (i : str) : M unit :=
  (if fl_disc_peering fl then
     t <- type_is i sServicePort ;;
     ps <- get_peers i (Some sServicePort) ;;
     guard (negb (t && match ps with Some (_ :: _) => true | _ => false end)) ETopology
   else ret tt) ;;;
  disconnect_interface i.

(* ---- the calls ------------------------------------------------------------------------------------ *)
Inductive op :=
| OAddNode (name : str) (nid : option str) (ntype : str)
| ORemoveNode (name : str)
| OAddComponent (node name : str) (cid : option str) (ctype model : str) (nsid : option str) (ifids : option (list str))
| OAddStorage (node name : str) (cid : option str)
| ORemoveComponent (node name : str)
| OAddFacility (name : str) (nid : option str) (ifnames : option (list str))
| ORemoveFacility (name : str)
| OAddSwitch (name : str) (nid : option str) (nports : nat)
| ORemoveSwitch (name : str)
| OAddNS (name : str) (sid : option str) (nstype : str) (ifs : list str)
| OAddPM (name : str) (sid : option str) (to : str)
| ORemoveNS (name : str)
| ONodeAddNS (node name : str) (sid : option str) (nstype : str)
| ONodeRemoveNS (node name : str)
| OAddLink (name : str) (lid : option str) (ltype : str) (ifs : list str)
| ORemoveLink (name : str)
| OConnect (s i : str)
| ODisconnect (s i : str)
| OPeer (a b : str)
| OUnpeer (a b : str)
| OStaleAddIface (s name : str) (iid : option str) (itype : str)
| OAddSub (i name : str) (cid : option str) (has_vlan : bool)
| ORemoveSub (i name : str)
| ORename (r : eref) (new : str)
| OSetProp (r : eref) (p : pname) (v : str)
| OUnsetProp (r : eref) (p : uname).

Definition run_op (sub : bool) (fl : flags) (hint : list str) (o : op) : M unit :=
  match o with
  | OAddNode name nid ntype => t_add_node sub name nid ntype ;;; ret tt
  | ORemoveNode name => t_remove_node fl hint name
  | OAddComponent n name cid ctype model nsid ifids =>
      need KNode n ;;; node_add_component fl sub n name cid ctype model nsid ifids
  | OAddStorage n name cid => need KNode n ;;; node_add_storage fl sub n name cid
  | ORemoveComponent n name => need KNode n ;;; node_remove_component fl hint n name
  | OAddFacility name nid ifnames => t_add_facility sub name nid ifnames
  | ORemoveFacility name => t_remove_facility fl hint name
  | OAddSwitch name nid nports => t_add_switch sub name nid nports
  | ORemoveSwitch name => t_remove_switch fl hint name
  | OAddNS name sid nstype ifs => for_each ifs (need KCP) ;;; t_add_ns fl sub name sid nstype ifs
  | OAddPM name sid to =>
      (* add_port_mirror_service exists on ExperimentTopology only (topology.py:794) *)
      need KCP to ;;; guard (negb sub) EAttribute ;;; t_add_ns fl sub name sid sPortMirror [to]
  | ORemoveNS name => t_remove_ns fl hint name
  | ONodeAddNS n name sid nstype => need KNode n ;;; node_add_ns n name sid nstype ;;; ret tt
  | ONodeRemoveNS n name => need KNode n ;;; node_remove_ns fl hint n name
  | OAddLink name lid ltype ifs => for_each ifs need_elem ;;; t_add_link fl sub name lid ltype ifs
  | ORemoveLink name => t_remove_link fl name
  | OConnect s i => need KNS s ;;; need KCP i ;;; connect_interface fl sub s i
  | ODisconnect s i => need KNS s ;;; need KCP i ;;; public_disconnect fl i
  (* NetworkService.add_interface through the handle of a service that has been removed since (no resolution: the
     harness kept the handle); the name is new to the handle's cached list *)
  | OStaleAddIface s name iid itype =>
      (if fl_parent_first fl then new_interface_pf sub name iid s itype false else new_interface sub name iid s itype false) ;;; ret tt
  | OPeer a b => need KNS a ;;; need KNS b ;;; ns_peer fl sub a b
  | OUnpeer a b => need KNS a ;;; need KNS b ;;; ns_unpeer a b
  | OAddSub i name cid v => need KCP i ;;; iface_add_child sub i name cid v
  | ORemoveSub i name => need KCP i ;;; iface_remove_child i name
  | ORename r new => need (ref_cls r) (ref_id r) ;;; elem_rename fl r new
  | OSetProp r p v => need (ref_cls r) (ref_id r) ;;; elem_set_property fl r p v
  | OUnsetProp r p => need (ref_cls r) (ref_id r) ;;; elem_unset_property r p
  end.

(* one call: the graph after it and its outcome (None = returned normally); `drawn` are the ids the
   implementation drew from uuid4 during the call, the model must consume exactly these *)
Definition step (sub : bool) (fl : flags) (g : graph) (o : op) (drawn hint : list str) : graph * option exn :=
  match run_op sub fl hint o (mkSt g drawn) with
  | (s, Ok _) => (sg s, match sdr s with [] => None | _ => Some ENoDraw end)
  | (s, Err e) => (sg s, Some e)
  end.

(* C03 model, part 1: the JSONField family (fim/slivers/capacities_labels.py:38-120 and the seven
   subclasses), Gateway (gateway.py), Tags (tags.py) and JSONData (json_data.py), over Base/Json.v.
   Every class-specific fact (field list, defaults, assertions, drop rules, overrides, exception names,
   size limits) comes from the REGENERATED table Gen/CodecGen.v.  Definitions only.

   An instance is its __dict__: an association list field -> JSON value in __init__ order (None = JNull).
   Exceptions are `Err <class name>`; messages are not modelled. *)
From Coq Require Import String List NArith ZArith Bool.
From FIM Require Import Base.Str Base.Json Gen.CodecGen.
Import ListNotations.
Open Scope N_scope.

Inductive res (A : Type) := Ok (a : A) | Err (cls : str).
Arguments Ok {A} a.
Arguments Err {A} cls.

Definition obj := list (str * json).

Definition e_assert : str := S"AssertionError".
Definition e_type : str := S"TypeError".
Definition e_label : str := S"LabelException".
Definition e_decode : str := S"JSONDecodeError".
Definition e_attr : str := S"AttributeError".
Definition e_key : str := S"KeyError".
Definition e_value : str := S"ValueError".

Definition is_null (v : json) : bool := match v with JNull => true | _ => false end.

(* Python `v == 0` for a JSON-able v *)
Definition is_zero (v : json) : bool :=
  match v with
  | JInt z => Z.eqb z 0
  | JBool b => negb b
  | JFloat t => str_eqb t (S"0.0") || str_eqb t (S"-0.0")
  | _ => false
  end.

Definition float_ge0 (t : str) : bool :=
  if str_eqb t lit_nan then false
  else match t with 45 :: _ => str_eqb t (S"-0.0") | _ => true end.

Definition is_inst (k : kind) (v : json) : bool :=
  match k, v with
  | KInt, JInt _ | KInt, JBool _ | KBool, JBool _ | KFloat, JFloat _ | KStr, JStr _ | KList, JArr _ => true
  | _, _ => false
  end.

(* one `assert` of the _set_fields loop; Some e = the exception it raises *)
Definition run_assert (a : assertion) (v : json) : option str :=
  match a with
  | ANotNone => if is_null v then Some e_assert else None
  | AGe0 => match v with
            | JInt z => if Z.leb 0 z then None else Some e_assert
            | JBool _ => None
            | JFloat t => if float_ge0 t then None else Some e_assert
            | JNull | JStr _ | JArr _ | JObj _ => Some e_type       (* '>=' not supported *)
            end
  | AIsInst ks => if existsb (fun k => is_inst k v) ks then None else Some e_assert
  | AStrOrStrList => match v with
                     | JStr _ => None
                     | JArr l => if forallb (fun x => match x with JStr _ => true | _ => false end) l then None
                                 else Some e_assert
                     | _ => Some e_assert
                     end
  end.

Fixpoint run_asserts (l : list assertion) (v : json) : option str :=
  match l with
  | [] => None
  | a :: r => match run_assert a v with Some e => Some e | None => run_asserts r v end
  end.

Definition check_value (c : jclass) (v : json) : option str :=
  if jc_skip_none c && is_null v then None else run_asserts (jc_asserts c) v.

Definition defaults (c : jclass) : obj := jc_fields c.

Definition dropped (r : drop_rule) (v : json) : bool :=
  match r with
  | DropNothing => false
  | DropNone => is_null v
  | DropNoneZero => is_null v || is_zero v
  end.

Definition kept (r : drop_rule) (o : obj) : obj := filter (fun kv => negb (dropped r (snd kv))) o.

(* JSONField.to_dict (or the class's override): None when nothing is left *)
Definition to_dict (c : jclass) (o : obj) : option obj :=
  match kept (jc_dict_drop c) o with [] => None | d => Some d end.

(* to_json: json.dumps(d, skipkeys=True, sort_keys=True), '' when nothing is left (unless overridden) *)
Definition to_json (c : jclass) (o : obj) : str :=
  match kept (jc_json_drop c) o with
  | [] => if jc_json_blank c then [] else jprint (JObj [])
  | d => jprint (jsort (JObj d))
  end.

Definition absent_text (s : str) : bool := Nat.eqb (List.length s) 0 || str_eqb s neo4j_none.

Definition known_key (c : jclass) (kv : str * json) : bool := ahas (fst kv) (jc_fields c).

Section WithValidators.
  (* Labels.VALIDATORS / LAMBDA_VALIDATORS applied to known field k and value v (property C16 is about
     WHICH values they accept; C03 only needs that the same test is applied on construction and decoding) *)
  Variable V : str -> json -> bool.
  (* Tags._check on a str *)
  Variable VT : str -> bool.

  Fixpoint set_fields (c : jclass) (forgiving : bool) (kw : obj) (o : obj) : res obj :=
    match kw with
    | [] => Ok o
    | (k, v) :: r =>
      match check_value c v with
      | Some e => Err e
      | None =>
        if ahas k o then
          if jc_validated c && negb (V k v) then Err e_label
          else set_fields c forgiving r (aset k v o)
        else if forgiving then set_fields c forgiving r o
        else Err (jc_exn c)
      end
    end.

  (* the constructor K(kw) *)
  Definition construct (c : jclass) (kw : obj) : res obj := set_fields c false kw (defaults c).

  (* JSONField.update(lab, kw): a new instance with lab's attributes, then _set_fields *)
  Definition update (c : jclass) (o : obj) (kw : obj) : res obj := set_fields c false kw o.

  (* update() gives the new instance its own copies of list-valued fields (2623e10): what the original looks like
     after `marker` was appended in place to every list-valued field of the RESULT -- unchanged.  (A pure model has no
     aliasing; the definition only names the observable that the field stream re-reads from the implementation.) *)
  Definition orig_after_result_lists_grow (o kw : obj) (marker : json) : obj := o.

  (* the JSON-value half of from_json: keys that are not fields of a fresh instance are skipped BEFORE
     _set_fields looks at their values (a836d08); then cls()._set_fields(forgiving=True, known) *)
  Definition of_dict (c : jclass) (d : obj) : res obj := set_fields c true d (defaults c).

  Definition of_jv (c : jclass) (j : json) : res (option obj) :=
    match j with
    | JObj d => match of_dict c (filter (known_key c) d) with Ok o => Ok (Some o) | Err e => Err e end
    | _ => Err e_attr                                                   (* no .items *)
    end.

  Definition from_json (c : jclass) (t : option str) : res (option obj) :=
    match t with
    | None => Ok None
    | Some s =>
      if absent_text s then Ok None
      else match jparse s with
           | None => Err e_decode
           | Some j => of_jv c j
           end
    end.

  (* ---------------- Gateway (over Labels) ---------------- *)
  Definition fld (k : str) (o : obj) : json := match aget k o with Some v => v | None => JNull end.
  Definition k_v4s : str := S"ipv4_subnet".
  Definition k_v4 : str := S"ipv4".
  Definition k_v6s : str := S"ipv6_subnet".
  Definition k_v6 : str := S"ipv6".
  Definition k_mac : str := S"mac".

  Definition gw_make (lab : option obj) : res (option obj) :=
    match lab with
    | None => Ok None
    | Some l =>
      let build (a b : str) :=
          match construct cls_Labels [(a, fld a l); (b, fld b l)] with
          | Ok o => Ok (Some (if is_null (fld k_mac l) then o else aset k_mac (fld k_mac l) o))
          | Err e => Err e
          end in
      if negb (is_null (fld k_v4s l)) && negb (is_null (fld k_v4 l)) then build k_v4s k_v4
      else if negb (is_null (fld k_v6s l)) && negb (is_null (fld k_v6 l)) then build k_v6s k_v6
      else Err (S"GatewayException")
    end.

  (* None (Python None, not '') when there is no Labels object *)
  Definition gw_to_json (g : option obj) : option str :=
    match g with None => None | Some l => Some (to_json cls_Labels l) end.

  (* Gateway.from_json: None = ABSENT (no labels recorded, 450b7bb); Some g = a Gateway whose .lab is g *)
  Definition gw_from_json (t : option str) : res (option (option obj)) :=
    match from_json cls_Labels t with
    | Ok None => Ok None
    | Ok (Some l) => match gw_make (Some l) with Ok g => Ok (Some g) | Err e => Err e end
    | Err e => Err e
    end.

  (* ---------------- Tags ---------------- *)
  Definition e_tag : str := S"TagException".
  Definition tag_check (v : json) : res str :=
    match v with JStr s => if VT s then Ok s else Err e_tag | _ => Err e_tag end.

  Fixpoint tags_each (l : list json) : res (list str) :=
    match l with
    | [] => Ok []
    | v :: r => match tag_check v with
                | Err e => Err e
                | Ok s => match tags_each r with Ok t => Ok (s :: t) | Err e => Err e end
                end
    end.

  (* Tags( *args ): list/tuple arguments are flattened one level *)
  Fixpoint tags_make (args : list json) : res (list str) :=
    match args with
    | [] => Ok []
    | a :: r =>
      let this := match a with JArr l => tags_each l | _ => tags_each [a] end in
      match this with
      | Err e => Err e
      | Ok t => match tags_make r with Ok t' => Ok (t ++ t') | Err e => Err e end
      end
    end.

  Definition tags_to_json (t : list str) : str := jprint (JArr (map JStr t)).

  Definition tags_from_json (t : option str) : res (option (list str)) :=
    match t with
    | None => Ok None
    | Some s =>
      if Nat.eqb (List.length s) 0 || str_eqb s (S"None") then Ok None
      else match jparse s with
           | None => Err e_decode
           | Some d => match tags_make [d] with Ok l => Ok (Some l) | Err e => Err e end
           end
    end.
End WithValidators.

(* ---------------- JSONData (MeasurementData / UserData / LayoutData) ---------------- *)
Inductive jd_input := JDNone | JDText (s : str) | JDObj (v : json).

(* the stored text (_data); `exn` is the subclass's exception, `max` its MAX_SIZE *)
Definition jd_make (max : N) (exn : str) (i : jd_input) : res str :=
  match i with
  | JDNone => Ok (S"{}")
  | JDText s => if max <? N.of_nat (List.length s) then Err exn
                else match jparse s with None => Err exn | Some _ => Ok s end
  | JDObj v => let t := jprint v in if max <? N.of_nat (List.length t) then Err exn else Ok t
  end.
Definition jd_json (t : str) : str := t.                 (* .json *)
Definition jd_data (t : str) : option json := jparse t.  (* .data *)

(* C07 - the invariant WF relaxed for the inside of a call: `eo` exempts elements whose owner has already been deleted
   (they are about to be deleted themselves) from the structure and name rules, `ep` exempts service ports from the
   "exactly one peer" rule (the port exists, its link does not yet / not any more).  WF is WFr without exemptions.
   Definitions only. *)
From Coq Require Import String List NArith ZArith Bool.
From FIM Require Import Base.Str Gen.Rules Model.T7Graph Model.T7Ops Model.T7WF Model.T7Steps.
Import ListNotations.

Definition no_exempt : str -> bool := fun _ => false.

Definition struct_Pr (ep : str -> bool) (g : graph) (n : node) : Prop :=
  (ncls n = KComp -> length (comp_owners g (nid n)) = 1) /\
  (ncls n = KCP ->
     length (cp_owners g (nid n)) = 1 /\
     (forall j, In j (first_nb g (nid n) Connects KCP) -> typ_is g (nid n) sSubInterface <> typ_is g j sSubInterface) /\
     (ntyp n = Some sServicePort -> ep (nid n) = false -> length (peers g (nid n)) = 1)) /\
  (ncls n = KLink -> forall j r, In (j, r) (nbrs g (nid n)) -> r = Connects /\ cls_is g j KCP = true).

Record WFr (eo ep : str -> bool) (g : graph) : Prop := mkWFr {
  r_fields : forall n, In n (gnodes g) -> fields_P n;
  r_vocab : forall n, In n (gnodes g) -> vocab_P n;
  r_ids : NoDup (map nid (gnodes g));
  r_edge_ends : forall e, In e (gedges g) -> edge_ends_P g e;
  r_edges_distinct : edges_distinct (gedges g);
  r_struct : forall n, In n (gnodes g) -> eo (nid n) = false -> struct_Pr ep g n;
  r_names : ForallOrdPairs (fun a b => eo (nid a) = false -> eo (nid b) = false -> name_clash g a b = false) (gnodes g) }.

(* what a removal must respect for the elements that are NOT exempt afterwards *)
Definition closedR (g : graph) (del eo ep eo' ep' : str -> bool) : Prop :=
  forall n, In n (gnodes g) -> del (nid n) = false -> eo' (nid n) = false ->
    eo (nid n) = false /\
    match ncls n with
    | KComp => forall o, In o (comp_owners g (nid n)) -> del o = false
    | KNS => forall o, In o (ns_owners g (nid n)) -> del o = false
    | KCP => (forall o, In o (cp_owners g (nid n)) -> del o = false) /\
             (ntyp n = Some sServicePort -> ep' (nid n) = false ->
                ep (nid n) = false /\
                forall l, In l (first_nb g (nid n) Connects KLink) ->
                  del l = false /\ forall y, In y (first_nb g l Connects KCP) -> del y = false)
    | _ => True
    end.

(* element + owner edge for ANY interface kind: a new service port is admissible when it is exempt from the peer rule *)
Definition owner_shape_okR (g : graph) (n : node) (a : str) (r : rel) : bool :=
  match ncls n with
  | KComp => rel_eqb r Has && (cls_is g a KNode || cls_is g a KComposite)
  | KNS => rel_eqb r Has && (cls_is g a KNode || cls_is g a KComposite || cls_is g a KComp)
  | KCP => rel_eqb r Connects &&
           (if is_type n sSubInterface then cls_is g a KCP && negb (typ_is g a sSubInterface)
            else cls_is g a KNS)
  | _ => false
  end.
Definition owned_okR (g : graph) (n : node) (a : str) (r : rel) : bool :=
  fresh g (nid n) && new_node_ok n && owner_shape_okR g n a r && sibling_free g a r (ncls n) (nname n).
(* one more interface on a link; service ports involved must be exempt *)
Definition link_edge_okR (ep : str -> bool) (g : graph) (l i : str) : bool :=
  cls_is g l KLink && cls_is g i KCP && (negb (typ_is g i sServicePort) || ep i) && no_edge g l i &&
  forallb (fun y => negb (typ_is g y sServicePort) || ep y) (first_nb g l Connects KCP).
Definition plain_okR := plain_ok.

(* ---- what remove_cp_and_links deletes (abc_property_graph.py:1166), as a function of the graph ------------------ *)
Definition cp_extra (g : graph) (x : str) (dp : bool) : list str :=
  filter (fun p => len_is (first_nb g p Connects KCP) 1 && dp) (first_nb g x Connects KCP).
Definition cp_ifs (g : graph) (x : str) (dp : bool) : list str := dedup (x :: cp_extra g x dp).
Definition cp_links (g : graph) (x : str) (dp : bool) : list str :=
  flat_map (fun i => filter (fun l => len_is (first_nb g l Connects KCP) 2) (first_nb g i Connects KLink)) (cp_ifs g x dp).
Definition D_cp (g : graph) (x : str) (dp : bool) : list str := dedup (cp_ifs g x dp ++ cp_links g x dp).
(* the service ports that lose their peer *)
Definition cp_stranded (g : graph) (x : str) (dp : bool) : str -> bool :=
  fun z => existsb (fun i => mem_str z (peers g i)) (cp_ifs g x dp).


(* C06 correspondence: one case = a store (as read back from the networkx objects), and a list of queries
   each with the implementation's observation.  check_case evaluates the model (Model/Query6.v) on every
   query and compares.  Neighbour results are compared as sorted lists (Python builds them from sets);
   path results through predicates (valid path of the model's length), because WHICH of several shortest
   paths networkx returns is not modelled. *)
From Coq Require Import List NArith ZArith Bool.
From FIM Require Import Model.Query6.
Import ListNotations.
Open Scope N_scope.

Inductive query :=
| QFirst (gid id rel cls : N) (obs : res (list N))
| QSecond (gid id rel1 c1 rel2 c2 : N) (obs : res (list (N * N)))
| QSP (gid a z : N) (rel : option N) (obs : res (list N))
| QHops (gid a z : N) (hops : list N) (cutoff : Z) (obs : res (list N))
| QParent (gid id rel cls : N) (obs : res (option N))
| QPeers (gid id : N) (obs : res (option (list N)))
| QNodeCPs (gid id : N) (obs : res (list N)).

Fixpoint insertN (x : N) (l : list N) : list N :=
  match l with [] => [x] | y :: t => if x <=? y then x :: l else y :: insertN x t end.
Definition sortN (l : list N) : list N := fold_right insertN [] l.

Definition leb2 (p q : N * N) : bool := (fst p <? fst q) || ((fst p =? fst q) && (snd p <=? snd q)).
Fixpoint insert2 (x : N * N) (l : list (N * N)) : list (N * N) :=
  match l with [] => [x] | y :: t => if leb2 x y then x :: l else y :: insert2 x t end.
Definition sort2 (l : list (N * N)) : list (N * N) := fold_right insert2 [] l.

Fixpoint eqlN (a b : list N) : bool :=
  match a, b with [], [] => true | x :: a', y :: b' => (x =? y) && eqlN a' b' | _, _ => false end.
Fixpoint eql2 (a b : list (N * N)) : bool :=
  match a, b with
  | [], [] => true
  | x :: a', y :: b' => (fst x =? fst y) && (snd x =? snd y) && eql2 a' b'
  | _, _ => false
  end.

Definition res_eq {A} (eq : A -> A -> bool) (a b : res A) : bool :=
  match a, b with Ok x, Ok y => eq x y | Err, Err => true | _, _ => false end.
Definition opt_eq {A} (eq : A -> A -> bool) (a b : option A) : bool :=
  match a, b with Some x, Some y => eq x y | None, None => true | _, _ => false end.

(* NodeIDs of an implementation path -> internal keys (every id must name exactly one node of the graph) *)
Fixpoint keys_of (s : store) (gid : N) (ids : list N) : option (list N) :=
  match ids with
  | [] => Some []
  | i :: t => match find_node s gid i, keys_of s gid t with
              | Ok n, Some r => Some (n_int n :: r)
              | _, _ => None
              end
  end.

Definition the_graph (s : store) (gid : N) (rel : option N) : option graph :=
  match extract s gid with
  | Ok G0 => Some (match rel with Some r => drop_edges_not_of_type G0 r | None => G0 end)
  | Err => None
  end.

(* the implementation's path is a path of the (relation-restricted) graph between the end nodes *)
Definition impl_path_ok (s : store) (gid a z : N) (rel : option N) (p : list N) : bool :=
  match the_graph s gid rel, find_node s gid a, find_node s gid z, keys_of s gid p with
  | Some G, Ok na, Ok nz, Some ks => is_path G ks (n_int na) (n_int nz)
  | _, _, _, _ => false
  end.

Definition impl_hops_ok (s : store) (gid a z : N) (hops : list N) (cutoff : Z) (p : list N) : bool :=
  match the_graph s gid None, find_node s gid a, find_node s gid z, keys_of s gid p with
  | Some G, Ok na, Ok nz, Some ks =>
      is_path G ks (n_int na) (n_int nz) && nodupb ks && qualifies G hops ks
      && (Z.of_nat (length ks) <=? cutoff + 1)%Z
  | _, _, _, _ => false
  end.

Definition same_kind_path (ok : list N -> bool) (model impl : res (list N)) : bool :=
  match model, impl with
  | Err, Err => true
  | Ok [], Ok [] => true
  | Ok (x :: m), Ok (y :: i) => Nat.eqb (length m) (length i) && ok (y :: i)
  | _, _ => false
  end.

Definition check_query (V : vocab) (s : store) (q : query) : bool :=
  match q with
  | QFirst gid id rel cls obs =>
      res_eq eqlN (match first_neighbor s gid id rel cls with Ok l => Ok (sortN l) | Err => Err end) obs
  | QSecond gid id r1 c1 r2 c2 obs =>
      res_eq eql2 (match first_and_second_neighbor s gid id r1 c1 r2 c2 with Ok l => Ok (sort2 l) | Err => Err end) obs
  | QSP gid a z rel obs =>
      same_kind_path (impl_path_ok s gid a z rel) (shortest_path s gid a z rel) obs
  | QHops gid a z hops cutoff obs =>
      same_kind_path (impl_hops_ok s gid a z hops cutoff) (path_with_hops s gid a z hops cutoff) obs
  | QParent gid id rel cls obs => res_eq (opt_eq N.eqb) (get_parent s gid id rel cls) obs
  | QPeers gid id obs =>
      res_eq (opt_eq eqlN) (match find_peer_connection_points V s gid id with
                            | Ok (Some l) => Ok (Some (sortN l)) | Ok None => Ok None | Err => Err end) obs
  | QNodeCPs gid id obs =>
      res_eq eqlN (match get_all_node_or_component_connection_points V s gid id with
                   | Ok l => Ok (sortN l) | Err => Err end) obs
  end.

Definition case := (vocab * store * list query)%type.

(* indices (within the case) of the queries on which model and implementation disagree *)
Definition bad_queries (c : case) : list N :=
  let '(V, s, qs) := c in
  (fix go (i : N) (l : list query) : list N :=
     match l with
     | [] => []
     | q :: t => if check_query V s q then go (N.succ i) t else i :: go (N.succ i) t
     end) 0 qs.

Definition check_case (c : case) : bool := match bad_queries c with [] => true | _ => false end.

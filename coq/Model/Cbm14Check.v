(* C14 - correspondence check of the store-level model: replays one recorded history of
   merge / unmerge / snapshot / rollback on the model and compares every step with what the harness
   recorded from the implementation.  Definitions only. *)
From Coq Require Import List NArith Bool.
From FIM Require Import Model.Cbm14Store.
Import ListNotations.
Open Scope N_scope.

Fixpoint leqb {A} (eqb : A -> A -> bool) (a b : list A) : bool :=
  match a, b with
  | [], [] => true
  | x :: a', y :: b' => eqb x y && leqb eqb a' b'
  | _, _ => false
  end.
Definition pair_eqb (x y : N * N) : bool := (fst x =? fst y) && (snd x =? snd y).
Definition dval_eqb (a b : dval) : bool :=
  match a, b with
  | DAbs, DAbs => true | DStr0, DStr0 => true
  | DDict x, DDict y => leqb pair_eqb x y
  | _, _ => false
  end.
Definition sival_eqb (a b : sival) : bool :=
  match a, b with
  | SAbs, SAbs => true
  | SOther x, SOther y => x =? y
  | SIds x, SIds y => leqb N.eqb x y
  | _, _ => false
  end.
Definition vnode_eqb (x y : vnode) : bool :=
  let '(a1, b1, c1, d1, e1, f1) := x in let '(a2, b2, c2, d2, e2, f2) := y in
  (a1 =? a2) && (b1 =? b2) && leqb pair_eqb c1 c2 && sival_eqb d1 d2 && dval_eqb e1 e2 && dval_eqb f1 f2.
Definition vedge_eqb (x y : vedge) : bool :=
  let '(a1, b1, c1, d1, e1) := x in let '(a2, b2, c2, d2, e2) := y in
  (a1 =? a2) && (b1 =? b2) && (c1 =? c2) && leqb pair_eqb d1 d2 && Bool.eqb e1 e2.
Definition view_eqb (a b : view) : bool :=
  match a, b with
  | None, None => true
  | Some (n1, e1), Some (n2, e2) => leqb vnode_eqb n1 n2 && leqb vedge_eqb e1 e2
  | _, _ => false
  end.

Inductive op := OpMerge (adm tmp : N) | OpUnmerge (g : N) | OpSnap (new : N) | OpRollback (sid : N).
(* result code (0 = returned normally), view of the combined graph, every source equals its initial view,
   every live snapshot equals its view at creation, number of nodes in the whole store *)
Definition obs := (N * view * bool * bool * N)%type.

Definition code_of (e : exn) : N := match e with EAssert => 1 | EAttr => 2 | EPGQ => 3 | EKey => 4 end.

Definition step (cbm : N) (o : op) (st : store) : outcome :=
  match o with
  | OpMerge adm tmp => merge_adm cbm adm tmp st
  | OpUnmerge g => unmerge_adm cbm g st
  | OpSnap new => snapshot cbm new st
  | OpRollback sid => rollback cbm sid st
  end.

Definition same_views (l : list (N * view)) (st : store) : bool :=
  forallb (fun gv => view_eqb (view_of (fst gv) st) (snd gv)) l.

Definition check_step (cbm : N) (srcs live : list (N * view)) (o : op) (ob : obs) (rc : N) (st' : store)
  : bool * list (N * view) :=
  let '(orc, vc, ss, sn, cnt) := ob in
  let live1 := match o with
               | OpSnap new => if rc =? 0 then live ++ [(new, view_of new st')] else live
               | _ => live end in
  let live2 := filter (fun gv => gexists (fst gv) st') live1 in
  ((orc =? rc) && view_eqb (view_of cbm st') vc && Bool.eqb ss (same_views srcs st')
   && Bool.eqb sn (same_views live2 st') && (cnt =? N.of_nat (length (s_nodes st'))), live2).

Fixpoint check_hist (cbm : N) (srcs live : list (N * view)) (st : store) (h : list (op * obs)) : bool :=
  match h with
  | [] => true
  | (o, ob) :: r =>
      match step cbm o st with
      | OErrU e => let '(orc, _, _, _, _) := ob in orc =? code_of e     (* state not predicted: stop here *)
      | OOk st' => let '(ok, live') := check_step cbm srcs live o ob 0 st' in
                   ok && check_hist cbm srcs live' st' r
      | OErr e st' => let '(ok, live') := check_step cbm srcs live o ob (code_of e) st' in
                      ok && check_hist cbm srcs live' st' r
      end
  end.

(* one case: the initial store (the family of delegation models), the id of the combined graph, the ids of
   the sources, and several recorded histories, each replayed from the initial store *)
Definition case := (store * N * list N * list (list (op * obs)))%type.
Definition check_case (c : case) : bool :=
  let '(st, cbm, gs, hs) := c in
  let srcs := map (fun g => (g, view_of g st)) gs in
  (* the initial store satisfies the hypothesis of the frame theorems for every source *)
  forallb (fun g => goodb g st) gs &&
  forallb (check_hist cbm srcs [] st) hs.

(* ---- a merge REFUSED in the middle of the loop over the common nodes (two models speak for one resource):
   merge_adm raises at the first offending node it meets; the common nodes met before it are already merged and
   the temporary clone stays in the store.  The order in which the code meets the common nodes is the iteration
   order of a Python set; the harness records it (ord) and the model replays it, so that the partial effects are
   predicted too. ---- *)
Fixpoint merge_partial (cbm tmp adm : N) (ord : list N) (st : store) : store :=
  match ord with
  | [] => st
  | x :: r =>
      match find_node cbm x st, find_node tmp x st with
      | Some c, Some t =>
          if double_speaker c t then st
          else match merge_one cbm tmp adm (Some st) x with
               | Some st' => merge_partial cbm tmp adm r st'
               | None => st
               end
      | _, _ => st
      end
  end.

Definition step_o (cbm : N) (o : op) (ord : list N) (st : store) : outcome :=
  match o, step cbm o st with
  | OpMerge adm tmp, OErrU EPGQ =>
      let st1 := clone adm tmp st in
      match rw_nodes adm tmp (s_nodes st1) with
      | inl ns => OErr EPGQ (merge_partial cbm tmp adm ord
                               (map_gid tmp (set_si (SIds [adm])) (mkStore ns (s_edges st1) (s_next st1))))
      | inr _ => OErrU EPGQ
      end
  | _, r => r
  end.

Fixpoint check_hist_o (cbm : N) (srcs live : list (N * view)) (st : store) (h : list (op * obs)) (os : list (list N))
  : bool :=
  match h with
  | [] => true
  | (o, ob) :: r =>
      let ord := match os with x :: _ => x | [] => [] end in
      let os' := match os with _ :: y => y | [] => [] end in
      match step_o cbm o ord st with
      | OErrU e => let '(orc, _, _, _, _) := ob in orc =? code_of e
      | OOk st' => let '(ok, live') := check_step cbm srcs live o ob 0 st' in
                   ok && check_hist_o cbm srcs live' st' r os'
      | OErr e st' => let '(ok, live') := check_step cbm srcs live o ob (code_of e) st' in
                      ok && check_hist_o cbm srcs live' st' r os'
      end
  end.

(* a case together with, per history and per step, the recorded order of the common nodes ([] when irrelevant) *)
Definition ocase := (case * list (list (list N)))%type.
Fixpoint forallb2 {A B} (f : A -> B -> bool) (l : list A) (l' : list B) : bool :=
  match l, l' with
  | x :: r, y :: r' => f x y && forallb2 f r r'
  | [], _ => true
  | _ :: _, [] => false
  end.
Definition check_ocase (c : ocase) : bool :=
  let '((st, cbm, gs, hs), oss) := c in
  let srcs := map (fun g => (g, view_of g st)) gs in
  forallb (fun g => goodb g st) gs &&
  forallb2 (check_hist_o cbm srcs [] st) hs oss.

(* C14 - correspondence check of the store-level model: replays one recorded history of
   merge / unmerge / snapshot / rollback on the model and compares every step with what the harness
   recorded from the implementation.  Definitions only. *)
From Coq Require Import List NArith Bool.
From FIM Require Import Model.Cbm14Store.
Import ListNotations.
Open Scope N_scope.

Fixpoint leqb {A} (eqb : A -> A -> bool) (a b : list A) : bool :=
  match a, b with
  | [], [] => true
  | x :: a', y :: b' => eqb x y && leqb eqb a' b'
  | _, _ => false
  end.
Definition pair_eqb (x y : N * N) : bool := (fst x =? fst y) && (snd x =? snd y).
Definition dval_eqb (a b : dval) : bool :=
  match a, b with
  | DAbs, DAbs => true | DStr0, DStr0 => true
  | DDict x, DDict y => leqb pair_eqb x y
  | _, _ => false
  end.
Definition sival_eqb (a b : sival) : bool :=
  match a, b with
  | SAbs, SAbs => true
  | SOther x, SOther y => x =? y
  | SIds x, SIds y => leqb N.eqb x y
  | _, _ => false
  end.
Definition vnode_eqb (x y : vnode) : bool :=
  let '(a1, b1, c1, d1, e1, f1) := x in let '(a2, b2, c2, d2, e2, f2) := y in
  (a1 =? a2) && (b1 =? b2) && leqb pair_eqb c1 c2 && sival_eqb d1 d2 && dval_eqb e1 e2 && dval_eqb f1 f2.
Definition vedge_eqb (x y : vedge) : bool :=
  let '(a1, b1, c1, d1, e1) := x in let '(a2, b2, c2, d2, e2) := y in
  (a1 =? a2) && (b1 =? b2) && (c1 =? c2) && leqb pair_eqb d1 d2 && Bool.eqb e1 e2.
Definition view_eqb (a b : view) : bool :=
  match a, b with
  | None, None => true
  | Some (n1, e1), Some (n2, e2) => leqb vnode_eqb n1 n2 && leqb vedge_eqb e1 e2
  | _, _ => false
  end.

Inductive op := OpMerge (adm tmp : N) | OpUnmerge (g : N) | OpSnap (new : N) | OpRollback (sid : N).
(* result code (0 = returned normally), view of the combined graph, every source equals its initial view,
   every live snapshot equals its view at creation, number of nodes in the whole store *)
Definition obs := (N * view * bool * bool * N)%type.

Definition code_of (e : exn) : N := match e with EAssert => 1 | EAttr => 2 | EPGQ => 3 | EKey => 4 end.

Definition step (cbm : N) (o : op) (st : store) : outcome :=
  match o with
  | OpMerge adm tmp => merge_adm cbm adm tmp st
  | OpUnmerge g => unmerge_adm cbm g st
  | OpSnap new => snapshot cbm new st
  | OpRollback sid => rollback cbm sid st
  end.

Definition same_views (l : list (N * view)) (st : store) : bool :=
  forallb (fun gv => view_eqb (view_of (fst gv) st) (snd gv)) l.

Definition check_step (cbm : N) (srcs live : list (N * view)) (o : op) (ob : obs) (rc : N) (st' : store)
  : bool * list (N * view) :=
  let '(orc, vc, ss, sn, cnt) := ob in
  let live1 := match o with
               | OpSnap new => if rc =? 0 then live ++ [(new, view_of new st')] else live
               | _ => live end in
  let live2 := filter (fun gv => gexists (fst gv) st') live1 in
  ((orc =? rc) && view_eqb (view_of cbm st') vc && Bool.eqb ss (same_views srcs st')
   && Bool.eqb sn (same_views live2 st') && (cnt =? N.of_nat (length (s_nodes st'))), live2).

Fixpoint check_hist (cbm : N) (srcs live : list (N * view)) (st : store) (h : list (op * obs)) : bool :=
  match h with
  | [] => true
  | (o, ob) :: r =>
      match step cbm o st with
      | OErrU e => let '(orc, _, _, _, _) := ob in orc =? code_of e     (* state not predicted: stop here *)
      | OOk st' => let '(ok, live') := check_step cbm srcs live o ob 0 st' in
                   ok && check_hist cbm srcs live' st' r
      | OErr e st' => let '(ok, live') := check_step cbm srcs live o ob (code_of e) st' in
                      ok && check_hist cbm srcs live' st' r
      end
  end.

(* one case: the initial store (the family of delegation models), the id of the combined graph, the ids of
   the sources, and several recorded histories, each replayed from the initial store *)
Definition case := (store * N * list N * list (list (op * obs)))%type.
Definition check_case (c : case) : bool :=
  let '(st, cbm, gs, hs) := c in
  let srcs := map (fun g => (g, view_of g st)) gs in
  (* the initial store satisfies the hypothesis of the frame theorems for every source *)
  forallb (fun g => goodb g st) gs &&
  forallb (check_hist cbm srcs [] st) hs.

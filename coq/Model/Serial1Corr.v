(* C01 correspondence: one case = a short history on a fresh store, evaluated by the model and
   compared (inside Coq, harness/c01.py writes the cases) with what the implementation did.
   Definitions only. *)
From Coq Require Import String.
From Coq Require Import List NArith ZArith Bool.
From FIM Require Import Base.Str Base.Json Model.Serial1Text Model.Serial1Graph Model.Serial1Json.
Import ListNotations.

Record case := {
  c_pre : list (bool * str * nxg);   (* graphs loaded first, in order: true = storage.add_graph_direct, false = storage.add_graph *)
  c_src : option str;                (* Some gid: serialize_graph of that stored graph; None: serialize c_raw as it is *)
  c_raw : nxg;
  c_fmt : fmt;
  c_ep : entry;
  c_gid : str;                       (* graph id handed to the two re-stamping entry points *)
  c_watch : list str;                (* graph ids whose content is read back afterwards *)
  c_names : names                    (* the harness's interning table of property names (for the JSON text) *)
}.

(* a GraphML document as an independent parser sees it, with key ids resolved and edge ends named by
   the NodeID text of the end nodes *)
Definition rdata := (pname * vty * str)%type.
Record rdoc := {
  r_keys : list kent;
  r_nodes : list (option str * list rdata);
  r_edges : list (option str * option str * option str * list rdata)    (* end, end, label, data *)
}.
Inductive ser_obs :=
| SAbsent | SErr
| SJsonText                 (* implementation side: a JSON text, not handed over (too large / lone surrogates) *)
| SJsonReal (t : str)       (* implementation side: the real JSON text *)
| SJsonDoc (j : jdoc)       (* model side: what node_link_data builds *)
| SDoc (r : rdoc).

Record obs := {
  o_loads : list res;
  o_ser : ser_obs;
  o_res : option res;                                   (* None: no import attempted *)
  o_graphs : list (option (list props * list cedge));   (* one per c_watch *)
  o_reser : option ser_obs                              (* serialization of the imported graph *)
}.

(* ---- resolving a model document ---- *)
Definition resolve_data (tbl : list kent) (ds : list delem) : option (list rdata) :=
  opt_list (fun d => match nth_error tbl (d_key d) with
                     | Some (n, ty, _) => Some (n, ty, d_text d)
                     | None => None end) ds.
Definition nodeid_text (rd : list rdata) : option str :=
  match find (fun x => N.eqb (fst (fst x)) P_NodeID) rd with Some x => Some (snd x) | None => None end.
Definition resolve_doc (d : doc) : option rdoc :=
  match opt_list (fun n => match resolve_data (d_keys d) (n_data n) with
                           | Some rd => Some (n_id n, (n_labels n, rd)) | None => None end) (d_nodes d) with
  | None => None
  | Some ns =>
      let idtext k := match lookup k ns with Some (_, rd) => nodeid_text rd | None => None end in
      match opt_list (fun e => match resolve_data (d_keys d) (e_data e) with
                               | Some rd => Some (idtext (e_src e), idtext (e_tgt e), e_label e, rd)
                               | None => None end) (d_edges d) with
      | None => None
      | Some es => Some {| r_keys := d_keys d; r_nodes := map snd ns; r_edges := es |}
      end
  end.

Definition ser_obs_of (t : option (option gtext)) : ser_obs :=
  match t with
  | None => SAbsent
  | Some None => SErr
  | Some (Some (TGraphML d)) => match resolve_doc d with Some r => SDoc r | None => SErr end
  | Some (Some (TJson j)) => SJsonDoc j
  | Some (Some TGarbage) => SErr
  end.

(* ---- running a case on the model ---- *)
Definition load (acc : store * list res) (x : bool * str * nxg) : store * list res :=
  let '(direct, gid, g) := x in
  let '(s, rs) := acc in
  let '(s', r) := if direct then add_graph_direct s gid g else add_graph s gid g in
  (s', rs ++ [r]).

Definition run (c : case) : obs :=
  let '(s0, loads) := fold_left load (c_pre c) (empty_store, []) in
  let text := match c_src c with
              | Some gid => serialize_graph s0 gid (c_fmt c)
              | None => Some (serialize (c_fmt c) (c_raw c))
              end in
  match text with
  | Some (Some t) =>
      let '(s1, r) := import_via (c_ep c) s0 t (c_gid c) in
      {| o_loads := loads; o_ser := ser_obs_of text; o_res := Some r;
         o_graphs := map (fun gid => option_map content (extract s1 gid)) (c_watch c);
         o_reser := match r with
                    | ROk g => Some (ser_obs_of (serialize_graph s1 g (c_fmt c)))
                    | _ => None end |}
  | _ => {| o_loads := loads; o_ser := ser_obs_of text; o_res := None;
            o_graphs := map (fun gid => option_map content (extract s0 gid)) (c_watch c);
            o_reser := None |}
  end.

(* ---- comparison: dicts, node lists, edge lists and key tables as multisets; edges unoriented ---- *)
Fixpoint remove_first {A} (eqb : A -> A -> bool) (x : A) (l : list A) : option (list A) :=
  match l with
  | [] => None
  | y :: r => if eqb x y then Some r
              else match remove_first eqb x r with Some r' => Some (y :: r') | None => None end
  end.
Fixpoint perm_eqb {A} (eqb : A -> A -> bool) (a b : list A) : bool :=
  match a with
  | [] => match b with [] => true | _ => false end
  | x :: a' => match remove_first eqb x b with Some b' => perm_eqb eqb a' b' | None => false end
  end.

Definition kv_eqb (a b : pname * pval) : bool := N.eqb (fst a) (fst b) && pval_eqb (snd a) (snd b).
Definition props_eqb (a b : props) : bool := perm_eqb kv_eqb a b.
Definition opval_eqb := opt_eqb pval_eqb.
Definition cedge_eqb (a b : cedge) : bool :=
  let '(a1, a2, ap) := a in let '(b1, b2, bp) := b in
  ((opval_eqb a1 b1 && opval_eqb a2 b2) || (opval_eqb a1 b2 && opval_eqb a2 b1)) && props_eqb ap bp.
Definition content_eqb (a b : list props * list cedge) : bool :=
  perm_eqb props_eqb (fst a) (fst b) && perm_eqb cedge_eqb (snd a) (snd b).

Definition rdata_eqb (a b : rdata) : bool :=
  let '(n1, t1, x1) := a in let '(n2, t2, x2) := b in N.eqb n1 n2 && vty_eqb t1 t2 && str_eqb x1 x2.
Definition ostr_eqb := opt_eqb str_eqb.
Definition rnode_eqb (a b : option str * list rdata) : bool :=
  ostr_eqb (fst a) (fst b) && perm_eqb rdata_eqb (snd a) (snd b).
Definition redge_eqb (a b : option str * option str * option str * list rdata) : bool :=
  let '(a1, a2, al, ad) := a in let '(b1, b2, bl, bd) := b in
  ((ostr_eqb a1 b1 && ostr_eqb a2 b2) || (ostr_eqb a1 b2 && ostr_eqb a2 b1))
  && ostr_eqb al bl && perm_eqb rdata_eqb ad bd.
Definition rdoc_eqb (a b : rdoc) : bool :=
  perm_eqb kent_eqb (r_keys a) (r_keys b)
  && perm_eqb rnode_eqb (r_nodes a) (r_nodes b)
  && perm_eqb redge_eqb (r_edges a) (r_edges b).
(* model side first.  A real JSON text is parsed by Base/Json.v's model of json.loads, decoded through the
   interning table and read by the model of node_link_graph; the graph it denotes must have the content of the
   graph the model's own node-link document denotes *)
Definition ser_obs_eqb (tbl : names) (a b : ser_obs) : bool :=
  match a, b with
  | SAbsent, SAbsent | SErr, SErr => true
  | SJsonDoc _, SJsonText => true
  | SJsonDoc j, SJsonReal t =>
      match jread j, json_read_text tbl t with
      | Some g, Some g' => content_eqb (content g) (content g')
      | _, _ => false
      end
  | SDoc x, SDoc y => rdoc_eqb x y
  | _, _ => false
  end.
(* the model must never answer "not modelled" on a generated case *)
Definition res_eqb (m i : res) : bool :=
  match m, i with
  | ROk x, ROk y => str_eqb x y
  | RErrImport, RErrImport => true
  | _, _ => false
  end.

Definition obs_eqb (tbl : names) (m i : obs) : bool :=
  list_eqb res_eqb (o_loads m) (o_loads i)
  && ser_obs_eqb tbl (o_ser m) (o_ser i)
  && opt_eqb res_eqb (o_res m) (o_res i)
  && list_eqb (opt_eqb content_eqb) (o_graphs m) (o_graphs i)
  && opt_eqb (ser_obs_eqb tbl) (o_reser m) (o_reser i).

Definition check (x : case * obs) : bool := obs_eqb (c_names (fst x)) (run (fst x)) (snd x).

(* models built through the library's own API (topologies, ARM / ADM graphs): besides agreeing with the model,
   every such snapshot must lie in the domain of the theorems - graph_wf, non-empty NodeIDs, no structural JSON
   names - and hold strings only (what the *_sliver_to_graph_properties_dict functions emit), with names and
   strings fit for the JSON text theorem *)
Definition all_strings (g : nxg) : bool :=
  forallb (fun n => forallb (fun kv => match snd kv with PStr _ => true | _ => false end) (snd n)) (g_nodes g)
  && forallb (fun e => forallb (fun kv => match snd kv with PStr _ => true | _ => false end) (snd e)) (g_edges g).
Definition api_graph_ok (tbl : names) (g : nxg) : bool :=
  graph_wf g && graph_ids_ok g && graph_json_ok g && all_strings g && names_ok tbl && graph_json_text_ok tbl g.
Definition check_api (x : case * obs) : bool :=
  forallb (fun p => api_graph_ok (c_names (fst x)) (snd p)) (c_pre (fst x)) && check x.

(* C20 model, part 1: the lock / try / finally / counter IR of the storage methods
   (regenerated into Gen/Locks.v by translator/gen_locks.py), its path semantics, event automata and
   the compositional checker.  Definitions only; proofs are in Proofs/Locks20Sound.v.

   One IR event = one source statement (= one line event of CPython's tracer).
   A *path* is the list of choices taken at the choice points met in execution order:
     - at a fault point: true = the statement raises instead of taking effect
     - at `if`: true = then-branch;  at a loop head: true = one more iteration.
   An exhausted path answers false everywhere.
   Fault points.  In mode AllFaults every statement of a `try` body may raise (FWeak and FDecl); in mode
   DeclFaults only the FDecl ones (statements consuming caller data, node-map reads/inserts); FNever marks
   statements outside any `try` (between acquire and release they are ASSUMED non-raising; listed in the
   evidence and attacked dynamically). *)
From Coq Require Import List NArith Bool String.
Import ListNotations.
Open Scope N_scope.

Inductive cellsel := CGlobal | CArg.          (* the single start_id | graph_node_ids[graph_id] *)
Inductive amount := AOne | AK.                (* +1 | + number of nodes of the imported graph *)

Inductive act :=
| XLocal                         (* no access to store state *)
| XRead                          (* read of the node map (result not modelled) *)
| XTest (c : cellsel)            (* found := the graph graph_id has nodes *)
| XRdBase (c : cellsel)          (* base := counter *)
| XBase1                         (* base := 1   (relabelling from 1) *)
| XBump (c : cellsel) (a : amount)   (* counter := counter + a *)
| XSetCtrLen (c : cellsel)       (* counter := number of nodes of graph_id + 1 *)
| XInsCtr (c : cellsel)          (* insert node (id = counter) into graph_id *)
| XInsBase (c : cellsel)         (* insert node (id = base) *)
| XInsRange (c : cellsel)        (* insert nodes base .. base+k-1 *)
| XDel (c : cellsel)             (* remove all nodes of graph_id *)
| XDelAll                        (* remove all nodes of all graphs *)
| XReplace (c : cellsel)         (* graphs[graph_id] := relabelled graph  (= XDel; XInsRange) *)
| XMutOther                      (* mutation that leaves the node set alone (edges) *)
| XRetCtrM1 (c : cellsel)        (* return counter - 1 *)
| XRetBase                       (* return base *)
| XNewLock                       (* the lock OBJECT is replaced: assignment to self.lock, call of self.__init__ *)
| XBaseLen (c : cellsel)         (* base := number of nodes of graph_id + 1: an id computed from the SIZE of the graph *)
| XSetCtrBase1 (c : cellsel)     (* counter := base + 1 *)
| XRemove (c : cellsel)          (* a caller removes node k of graph_id from the stored graph (delete_node) *)
| XAcqFail                       (* lock.acquire(timeout=..) returned False: the lock was NOT acquired *)
| XDelCtr (c : cellsel).         (* the counter entry of graph_id is deleted (a later read gives the default 1) *)

Inductive cond := CFree | CFound | CNotFound.
Inductive fclass := FNever | FWeak | FDecl | FMay.
(* FMay: a statement KNOWN to raise on some states wherever it stands, also outside any try
   (`del d[k]` / `d.pop(k)` of a possibly absent key): a fault point in both modes *)
Inductive fmode := AllFaults | DeclFaults.

Inductive evkind :=
| KAcq | KRel
| KAct (a : act)
| KIf (a : act) (c : cond) (b : bool)     (* test evaluated (act a), branch b taken *)
| KFault (f : fclass).                    (* the statement raised instead of taking effect *)

Definition event := (N * evkind)%type.      (* source line, kind *)

Inductive stmt :=
| SSkip
| SAcq (ln : N)
| SRel (ln : N)
| SAct (ln : N) (a : act) (f : fclass)
| SSeq (s1 s2 : stmt)
| SIf (ln : N) (a : act) (f : fclass) (c : cond) (s1 s2 : stmt)
| SLoop (ln : N) (f : fclass) (body : stmt)
| STry (ln : N) (body : stmt) (hl : option N) (hs : stmt) (fin : stmt)   (* hl = line of `except Exception` *)
| SReturn (ln : N) (a : act) (f : fclass)
| SRaise (ln : N)
| SWith (ln : N) (body : stmt)    (* `with self.lock:` = acquire at ln; body; release at ln on every exit *)
| SAcqT (ln : N) (onfail : stmt). (* lock.acquire(timeout=..): either acquires, or times out and runs onfail
                                     (`if not self.lock.acquire(..): onfail`; a call whose result is ignored has
                                     onfail = SSkip and simply goes on WITHOUT the lock) *)

Inductive outcome := ONormal | OReturn | ORaise | OFuel.

Definition path := list bool.
Definition pop (p : path) : bool * path := match p with [] => (false, []) | b :: r => (b, r) end.

Definition is_fp (fm : fmode) (f : fclass) : bool :=
  match f, fm with
  | FNever, _ => false
  | FWeak, AllFaults => true
  | FWeak, DeclFaults => false
  | FDecl, _ => true
  | FMay, _ => true
  end.

Definition xres := (outcome * list event * path)%type.

(* a statement that may fault: consult the path only at a fault point *)
Definition guard_fault (fm : fmode) (f : fclass) (ln : N) (p : path) (k : path -> xres) : xres :=
  if is_fp fm f then
    let (b, p') := pop p in
    if b then (ORaise, [(ln, KFault f)], p') else k p'
  else k p.

Definition out_of (r : xres) : outcome := fst (fst r).
Definition evs_of (r : xres) : list event := snd (fst r).
Definition rest_of (r : xres) : path := snd r.

(* sequencing: continue only after a normal end *)
Definition seqx (r1 : xres) (k : path -> xres) : xres :=
  match out_of r1 with
  | ONormal => let r2 := k (rest_of r1) in (out_of r2, evs_of r1 ++ evs_of r2, rest_of r2)
  | _ => r1
  end.
Definition pre (e : event) (r : xres) : xres := (out_of r, e :: evs_of r, rest_of r).

(* `for`: the head line is an event at every test; one more iteration per `true` *)
Fixpoint loop_exec (fm : fmode) (ln : N) (f : fclass) (body : path -> xres) (n : nat) (p : path) {struct n} : xres :=
  match n with
  | O => (OFuel, [], p)
  | S n' =>
      guard_fault fm f ln p (fun p' =>
        let (b, p'') := pop p' in
        if b then pre (ln, KAct XLocal) (seqx (body p'') (loop_exec fm ln f body n'))
        else (ONormal, [(ln, KAct XLocal)], p''))
  end.

(* try / except Exception / finally: handler stage, then finally stage *)
Definition hstage (r1 : xres) (hl : option N) (hs : path -> xres) : xres :=
  match out_of r1, hl with
  | ORaise, Some l => let r := hs (rest_of r1) in (out_of r, evs_of r1 ++ (l, KAct XLocal) :: evs_of r, rest_of r)
  | _, _ => r1
  end.
Definition fstage (r2 : xres) (fin : path -> xres) : xres :=
  match out_of r2 with
  | OFuel => r2
  | _ => let r3 := fin (rest_of r2) in
         (match out_of r3 with ONormal => out_of r2 | o => o end, evs_of r2 ++ evs_of r3, rest_of r3)
  end.
Definition try_exec (ln : N) (body : path -> xres) (hl : option N) (hs : path -> xres) (fin : path -> xres) (p : path) : xres :=
  pre (ln, KAct XLocal)
    (let r1 := body p in
     match out_of r1 with
     | OFuel => r1
     | _ => fstage (hstage r1 hl hs) fin
     end).

Fixpoint exec (fm : fmode) (fuel : nat) (s : stmt) (p : path) {struct s} : xres :=
  match s with
  | SSkip => (ONormal, [], p)
  | SAcq ln => (ONormal, [(ln, KAcq)], p)
  | SRel ln => (ONormal, [(ln, KRel)], p)
  | SAct ln a f => guard_fault fm f ln p (fun p' => (ONormal, [(ln, KAct a)], p'))
  | SSeq s1 s2 => seqx (exec fm fuel s1 p) (exec fm fuel s2)
  | SIf ln a f c s1 s2 =>
      guard_fault fm f ln p (fun p' =>
        let (b, p'') := pop p' in
        pre (ln, KIf a c b) (exec fm fuel (if b then s1 else s2) p''))
  | SLoop ln f body => loop_exec fm ln f (exec fm fuel body) fuel p
  | STry ln body hl hs fin => try_exec ln (exec fm fuel body) hl (exec fm fuel hs) (exec fm fuel fin) p
  | SReturn ln a f => guard_fault fm f ln p (fun p' => (OReturn, [(ln, KAct a)], p'))
  | SRaise ln => (ORaise, [(ln, KAct XLocal)], p)
  | SWith ln body => pre (ln, KAcq) (fstage (exec fm fuel body p) (fun q => (ONormal, [(ln, KRel)], q)))
  | SAcqT ln onfail =>
      let (b, p') := pop p in
      if b then pre (ln, KAct XAcqFail) (exec fm fuel onfail p') else (ONormal, [(ln, KAcq)], p')
  end.

(* enough fuel for any loop: every further iteration consumes one `true` of the path *)
Definition run (fm : fmode) (s : stmt) (p : path) : xres := exec fm (S (List.length p)) s p.


(* ------------------------------------------------------------------------------------------- *)
(* event automata over numbered states; None = the event is not allowed in that state           *)
(* ------------------------------------------------------------------------------------------- *)
Definition auto := N -> evkind -> option N.

Fixpoint accept (tf : auto) (a : N) (evs : list event) : option N :=
  match evs with
  | [] => Some a
  | (_, k) :: r => match tf a k with Some a' => accept tf a' r | None => None end
  end.

(* the lock automaton: 0 = free, 1 = held.  A non-reentrant threading.Lock: acquire while held blocks
   forever, release while free raises RuntimeError. *)
Definition is_relock (k : evkind) : bool :=
  match k with KAct XNewLock => true | KIf XNewLock _ _ => true | _ => false end.

(* generation of the lock object after a trace: it must never change *)
Fixpoint lock_gen (evs : list event) (g : N) : N :=
  match evs with
  | [] => g
  | (_, k) :: r => lock_gen r (if is_relock k then g + 1 else g)
  end.

Definition lockA : auto := fun a k =>
  if is_relock k then None else
  match k with
  | KAcq => if a =? 0 then Some 1 else None
  | KRel => if a =? 1 then Some 0 else None
  | _ => Some a
  end.

(* readable specification of "balanced": every acquire is followed by exactly one release before the next
   acquire and before the end; never a release while free. *)
Fixpoint balanced_from (held : bool) (evs : list event) : bool :=
  match evs with
  | [] => negb held
  | (_, KAcq) :: r => negb held && balanced_from true r
  | (_, KRel) :: r => held && balanced_from false r
  | _ :: r => balanced_from held r
  end.
Definition balanced (evs : list event) : bool := balanced_from false evs.

Definition is_acq (e : event) : bool := match snd e with KAcq => true | _ => false end.
Definition is_rel (e : event) : bool := match snd e with KRel => true | _ => false end.
Definition count_acq (evs : list event) : nat := List.length (filter is_acq evs).
Definition count_rel (evs : list event) : nat := List.length (filter is_rel evs).

(* ------------------------------------------------------------------------------------------- *)
(* compositional checker: abstract interpretation of a statement over an automaton              *)
(* ------------------------------------------------------------------------------------------- *)
Record res := R { ok : bool; rn : list N; rr : list N; rx : list N }.   (* may-exit states: normal, return, raise *)

Definition rbad : res := R false [] [] [].
Definition rempty : res := R true [] [] [].
Definition runion (a b : res) : res := R (ok a && ok b) (rn a ++ rn b) (rr a ++ rr b) (rx a ++ rx b).
Definition dedup (l : list N) : list N := nodup N.eq_dec l.
Definition bindr (l : list N) (f : N -> res) : res := fold_right (fun a acc => runion (f a) acc) rempty (dedup l).

Definition st_n (o : option N) : res := match o with Some a => R true [a] [] [] | None => rbad end.
Definition st_r (o : option N) : res := match o with Some a => R true [] [a] [] | None => rbad end.
Definition st_x (o : option N) : res := match o with Some a => R true [] [] [a] | None => rbad end.

Definition with_fault (tf : auto) (fm : fmode) (f : fclass) (a : N) (r : res) : res :=
  if is_fp fm f then runion (st_x (tf a (KFault f))) r else r.

(* after a finally block: a pending outcome is kept when the block ends normally *)
Definition fin_n (r : res) : res := r.
Definition fin_r (r : res) : res := R (ok r) [] (rn r ++ rr r) (rx r).
Definition fin_x (r : res) : res := R (ok r) [] (rr r) (rn r ++ rx r).

Definition hres (tf : auto) (rb : res) (hl : option N) (H : N -> res) : res :=
  match hl with
  | Some _ =>
      let rh := bindr (rx rb) (fun ax => match tf ax (KAct XLocal) with Some ax' => H ax' | None => rbad end) in
      R (ok rb && ok rh) (rn rb ++ rn rh) (rr rb ++ rr rh) (rx rh)
  | None => rb
  end.
Definition fres (r2 : res) (F : N -> res) : res :=
  let fn := fin_n (bindr (rn r2) F) in
  let fr := fin_r (bindr (rr r2) F) in
  let fx := fin_x (bindr (rx r2) F) in
  R (ok r2 && ok fn && ok fr && ok fx) (rn fn ++ rn fr ++ rn fx) (rr fn ++ rr fr ++ rr fx) (rx fn ++ rx fr ++ rx fx).

Fixpoint ab (tf : auto) (fm : fmode) (s : stmt) (a : N) {struct s} : res :=
  match s with
  | SSkip => R true [a] [] []
  | SAcq _ => st_n (tf a KAcq)
  | SRel _ => st_n (tf a KRel)
  | SAct _ x f => with_fault tf fm f a (st_n (tf a (KAct x)))
  | SSeq s1 s2 =>
      let r1 := ab tf fm s1 a in
      let r2 := bindr (rn r1) (ab tf fm s2) in
      R (ok r1 && ok r2) (rn r2) (rr r1 ++ rr r2) (rx r1 ++ rx r2)
  | SIf _ x f c s1 s2 =>
      with_fault tf fm f a
        (runion (match tf a (KIf x c true) with Some a' => ab tf fm s1 a' | None => rbad end)
                (match tf a (KIf x c false) with Some a' => ab tf fm s2 a' | None => rbad end))
  | SLoop _ f body =>
      (* sufficient condition: the head event and a normally ending body leave the state unchanged *)
      match tf a (KAct XLocal) with
      | Some a1 =>
          let rb := ab tf fm body a in
          with_fault tf fm f a
            (R (N.eqb a1 a && ok rb && forallb (N.eqb a) (rn rb)) [a] (rr rb) (rx rb))
      | None => rbad
      end
  | STry _ body hl hs fin =>
      match tf a (KAct XLocal) with
      | None => rbad
      | Some a0 => fres (hres tf (ab tf fm body a0) hl (ab tf fm hs)) (ab tf fm fin)
      end
  | SReturn _ x f => with_fault tf fm f a (st_r (tf a (KAct x)))
  | SRaise _ => st_x (tf a (KAct XLocal))
  | SWith _ body =>
      match tf a KAcq with
      | None => rbad
      | Some a0 => fres (ab tf fm body a0) (fun a' => st_n (tf a' KRel))
      end
  | SAcqT _ onfail =>
      runion (st_n (tf a KAcq))
             (match tf a (KAct XAcqFail) with Some a' => ab tf fm onfail a' | None => rbad end)
  end.

Definition sel (o : outcome) (r : res) : list N :=
  match o with ONormal => rn r | OReturn => rr r | ORaise => rx r | OFuel => [] end.

(* a method is fine for automaton tf from state a0 when the checker finds no forbidden event and every exit
   (normal, return, raise) is in state a0 again *)
Definition meth_ok (tf : auto) (fm : fmode) (a0 : N) (m : stmt) : bool :=
  let r := ab tf fm m a0 in
  ok r && forallb (N.eqb a0) (rn r ++ rr r ++ rx r).

(* THE lock-discipline checker: all fault points, lock automaton, from free back to free *)
Definition lock_ok (m : stmt) : bool := meth_ok lockA AllFaults 0 m.

(* ------------------------------------------------------------------------------------------- *)
(* witness search (used to print a failing path when a method does not pass): all choice lists of *)
(* length <= n with at most t `true`s                                                           *)
(* ------------------------------------------------------------------------------------------- *)
Fixpoint cands (n t : nat) : list path :=
  match n with
  | O => [[]]
  | S n' => [] :: map (cons false) (cands n' t)
               ++ match t with O => [] | S t' => map (cons true) (cands n' t') end
  end.

Definition trace_ok (tf : auto) (a0 : N) (r : xres) : bool :=
  match out_of r with
  | OFuel => false
  | _ => match accept tf a0 (evs_of r) with Some a => N.eqb a a0 | None => false end
  end.

Definition find_bad (tf : auto) (fm : fmode) (a0 : N) (m : stmt) (n t : nat) : option path :=
  find (fun p => negb (trace_ok tf a0 (run fm m p))) (cands n t).

(* statements in an acquire..release window that are outside any try: the non-raising assumption *)
Fixpoint fnever_lines (s : stmt) : list N :=
  match s with
  | SAct ln _ FNever | SReturn ln _ FNever => [ln]
  | SIf ln _ f _ s1 s2 => (match f with FNever => [ln] | _ => [] end) ++ fnever_lines s1 ++ fnever_lines s2
  | SSeq s1 s2 => fnever_lines s1 ++ fnever_lines s2
  | SLoop ln f b => (match f with FNever => [ln] | _ => [] end) ++ fnever_lines b
  | STry _ b _ hs fin => fnever_lines b ++ fnever_lines hs ++ fnever_lines fin
  | SWith _ b => fnever_lines b
  | SAcqT _ b => fnever_lines b
  | _ => []
  end.

(* codes used by the correspondence: 1 = acquire performed at this line, 2 = release, 0 = any other statement *)
Definition ev_code (e : event) : N * N :=
  (fst e, match snd e with KAcq => 1 | KRel => 2 | _ => 0 end).
Definition out_code (o : outcome) : N := match o with ONormal => 0 | OReturn => 0 | ORaise => 1 | OFuel => 2 end.

(* ------------------------------------------------------------------------------------------- *)
(* the singleton guard of the shell class:  `if not X.storage_instance:` / `if X.storage_instance is None:`  *)
(* followed by  X.storage_instance = X.__Inner(..).   Python truthiness of an instance: __bool__ if the     *)
(* class defines it, else __len__() != 0 if it defines that, else True.                                      *)
(* ------------------------------------------------------------------------------------------- *)
Inductive guard_form := GIsNone | GTruthy.
Record singleton_shape := mkSing { sg_guard : guard_form; sg_has_len : bool; sg_has_bool : bool }.

(* does constructing a new shell (importer, topology) REPLACE the store?  inst = None: no store yet;
   Some n: a store holding n nodes.  With a user-defined __bool__ nothing is known: counted as "may replace". *)
Definition replaces (sh : singleton_shape) (inst : option N) : bool :=
  match inst with
  | None => true
  | Some n =>
      match sg_guard sh with
      | GIsNone => false
      | GTruthy => if sg_has_bool sh then true else if sg_has_len sh then n =? 0 else false
      end
  end.

Definition singleton_ok (sh : singleton_shape) : bool :=
  match sg_guard sh with GIsNone => true | GTruthy => negb (sg_has_len sh || sg_has_bool sh) end.
(* witness for a rejected shape: the size of a store that gets replaced *)
Definition singleton_witness (sh : singleton_shape) : option N :=
  if replaces sh (Some 0) then Some 0 else if replaces sh (Some 1) then Some 1 else None.

(* C20 model, part 2: data semantics of the IR events (counters, node map), interleaving semantics for any
   number of threads (lock holder, shared store state, per-thread program and locals), the data automaton
   whose acceptance is the discipline "counter reads/writes and node-map mutations only while holding the
   lock, in an order that keeps every live id below its counter", and the correspondence check function.
   Definitions only; proofs are in Proofs/Conc20Inv.v. *)
From Coq Require Import List NArith Bool String.
From FIM Require Import Model.Locks20 Gen.Locks.
Import ListNotations.
Open Scope N_scope.

(* ---------------- store state ---------------- *)
(* A node is (cell, internal id, graph id).  The shared store keeps all graphs in ONE networkx graph keyed by
   the internal id (cell 0) and has one counter start_id (cell 0); the disjoint store keeps one networkx graph
   and one counter per graph id (cell = graph id).  `nodes` is the list of live insertions: an insertion
   conses, so a second insertion under a live key (cell, id) -- which networkx would silently merge into the
   existing node, i.e. a lost node -- shows as a duplicate key. *)
Definition node := (N * N * N)%type.
Definition ncell (n : node) : N := fst (fst n).
Definition nid (n : node) : N := snd (fst n).
Definition ngid (n : node) : N := snd n.
Definition nkey (n : node) : N * N := fst n.

Record shst := mkSh { ctrs : list (N * N); nodes : list node }.
Record lost := mkLo { ag : N; ak : N; base : N; found : bool; rets : list N; dv : bool }.

Definition getc (cs : list (N * N)) (c : N) : N :=
  match find (fun kv => fst kv =? c) cs with Some kv => snd kv | None => 1 end.     (* both counters start at 1 *)
Definition setc (cs : list (N * N)) (c v : N) : list (N * N) :=
  (c, v) :: filter (fun kv => negb (fst kv =? c)) cs.

Definition cellof (c : cellsel) (g : N) : N := match c with CGlobal => 0 | CArg => g end.
Definition amt (a : amount) (k : N) : N := match a with AOne => 1 | AK => k end.

Definition range_nodes (cell b k g : N) : list node :=
  map (fun i => (cell, b + N.of_nat i, g)) (seq 0 (N.to_nat k)).

Definition del_pred (c : cellsel) (g : N) (n : node) : bool :=
  match c with CGlobal => ngid n =? g | CArg => ncell n =? g end.
Definition in_cell (cell : N) (n : node) : bool := ncell n =? cell.
Definition count_cell (cell : N) (ns : list node) : N := N.of_nat (List.length (filter (in_cell cell) ns)).

Definition set_nodes (s : shst) (ns : list node) : shst := mkSh (ctrs s) ns.
Definition set_ctr (s : shst) (c v : N) : shst := mkSh (setc (ctrs s) c v) (nodes s).
Definition set_base (l : lost) (b : N) : lost := mkLo (ag l) (ak l) b (found l) (rets l) (dv l).
Definition set_found (l : lost) (b : bool) : lost := mkLo (ag l) (ak l) (base l) b (rets l) (dv l).
Definition add_ret (l : lost) (v : N) : lost := mkLo (ag l) (ak l) (base l) (found l) (rets l ++ [v]) (dv l).
Definition set_dv (l : lost) (b : bool) : lost := mkLo (ag l) (ak l) (base l) (found l) (rets l) b.
Definition set_args (l : lost) (g k : N) : lost := mkLo g k (base l) (found l) (rets l) (dv l).

Definition do_act (a : act) (s : shst) (l : lost) : shst * lost :=
  let g := ag l in let k := ak l in
  match a with
  | XLocal | XRead | XMutOther | XNewLock | XAcqFail => (s, l)   (* XNewLock is rejected by every automaton: never executed by an accepted program *)
  | XTest c => (s, set_found l (existsb (fun n => (ncell n =? cellof c g) && (ngid n =? g)) (nodes s)))
  | XRdBase c => (s, set_base l (getc (ctrs s) (cellof c g)))
  | XBase1 => (s, set_base l 1)
  | XBump c a => (set_ctr s (cellof c g) (getc (ctrs s) (cellof c g) + amt a k), l)
  | XSetCtrLen c => (set_ctr s (cellof c g) (count_cell (cellof c g) (nodes s) + 1), l)
  | XInsCtr c => (set_nodes s ((cellof c g, getc (ctrs s) (cellof c g), g) :: nodes s), l)
  | XInsBase c => (set_nodes s ((cellof c g, base l, g) :: nodes s), l)
  | XInsRange c => (set_nodes s (range_nodes (cellof c g) (base l) k g ++ nodes s), l)
  | XDel c => (set_nodes s (filter (fun n => negb (del_pred c g n)) (nodes s)), l)
  | XDelAll => (set_nodes s [], l)
  | XReplace c => (set_nodes s (range_nodes (cellof c g) (base l) k g ++ filter (fun n => negb (del_pred c g n)) (nodes s)), l)
  | XRetCtrM1 c => (s, add_ret l (getc (ctrs s) (cellof c g) - 1))
  | XRetBase => (s, add_ret l (base l))
  | XBaseLen c => (s, set_base l (count_cell (cellof c g) (nodes s) + 1))
  | XSetCtrBase1 c => (set_ctr s (cellof c g) (base l + 1), l)
  | XDelCtr c => (set_ctr s (cellof c g) 1, l)
  | XRemove c => (set_nodes s (filter (fun n => negb ((ncell n =? cellof c g) && (nid n =? k))) (nodes s)), l)
  end.

Definition cond_mismatch (c : cond) (fnd b : bool) : bool :=
  match c with CFree => false | CFound => negb (Bool.eqb fnd b) | CNotFound => Bool.eqb fnd b end.

(* effect of a non-lock event *)
Definition do_ev (k : evkind) (s : shst) (l : lost) : shst * lost :=
  match k with
  | KAct a => do_act a s l
  | KIf a c b => let (s', l') := do_act a s l in (s', set_dv l' (dv l' || cond_mismatch c (found l') b))
  | _ => (s, l)
  end.

(* ---------------- interleaving semantics ---------------- *)
Inductive instr := ICall (g k : N) | IEv (k : evkind).

Definition thread := (list instr * lost)%type.
Record cst := mkC { holder : option nat; sh : shst; thr : list thread; bad : bool }.

Fixpoint upd {A} (l : list A) (i : nat) (x : A) : list A :=
  match l, i with
  | [], _ => []
  | _ :: r, O => x :: r
  | y :: r, S i' => y :: upd r i' x
  end.

(* one step of thread t; a disabled step (no such thread, program finished, acquire while the lock is held)
   leaves the state unchanged, so that ANY list of thread numbers is a schedule *)
Definition step (S : cst) (t : nat) : cst :=
  match nth_error (thr S) t with
  | Some (i :: rest, l) =>
      match i with
      | ICall g k => mkC (holder S) (sh S) (upd (thr S) t (rest, set_args l g k)) (bad S)
      | IEv KAcq =>
          match holder S with
          | None => mkC (Some t) (sh S) (upd (thr S) t (rest, l)) (bad S)
          | Some _ => S
          end
      | IEv KRel =>
          match holder S with
          | Some _ => mkC None (sh S) (upd (thr S) t (rest, l)) (bad S)
          | None => mkC None (sh S) (upd (thr S) t (rest, l)) true      (* RuntimeError: release unlocked lock *)
          end
      | IEv k => let (s', l') := do_ev k (sh S) l in mkC (holder S) s' (upd (thr S) t (rest, l')) (bad S)
      end
  | _ => S
  end.

Definition run_sched (S : cst) (sched : list nat) : cst := fold_left step sched S.

Definition lo0 : lost := mkLo 0 0 0 false [] false.
Definition sh0 : shst := mkSh [] [].
Definition init (progs : list (list instr)) : cst := mkC None sh0 (map (fun p => (p, lo0)) progs) false.

(* a call of a store method with graph id g and an imported graph of k nodes, along path p *)
Record call := mkCall { c_meth : stmt; c_g : N; c_k : N; c_path : path }.
Definition flatten_call (fm : fmode) (c : call) : list instr :=
  ICall (c_g c) (c_k c) :: map (fun e => IEv (snd e)) (evs_of (run fm (c_meth c) (c_path c))).
Definition flatten (fm : fmode) (cs : list call) : list instr := flat_map (flatten_call fm) cs.

(* ---------------- the data automaton ---------------- *)
(* states: 0 outside the lock; inside: 1 plain, 2 base = counter, 3 counter = base + k (range reserved),
   4 counter = base + 1 (one id reserved), 5 node inserted at the counter (bump pending), 6 base = 1,
   7 base = 1 and the graph's cell is empty, 8 cell holds the new nodes, counter not yet set. *)
Definition csel_eqb (a b : cellsel) : bool :=
  match a, b with CGlobal, CGlobal => true | CArg, CArg => true | _, _ => false end.

Definition neutral_in (c : cellsel) (a : act) : bool :=
  match a with
  | XLocal | XRead | XTest _ | XMutOther | XRetBase | XAcqFail => true
  | XRetCtrM1 c' => csel_eqb c c'
  | _ => false
  end.

Definition free_act (a : act) : bool :=      (* allowed without the lock *)
  match a with XLocal | XRead | XTest _ | XBase1 | XRetBase | XAcqFail => true | _ => false end.

Definition data_act (c : cellsel) (a : N) (x : act) : option N :=
  if a =? 0 then (if free_act x then Some 0 else None)
  else if neutral_in c x then Some a
  else
    match x with
    | XRdBase c' => if csel_eqb c c' && ((a =? 1) || (a =? 2)) then Some 2 else None
    | XBase1 => if (a =? 1) || (a =? 2) || (a =? 6) then Some 6 else None
    | XBump c' am =>
        if negb (csel_eqb c c') then None
        else if a =? 1 then Some 1
        else if a =? 2 then Some (match am with AK => 3 | AOne => 4 end)
        else if a =? 5 then (match am with AOne => Some 1 | AK => None end)
        else None
    | XSetCtrLen c' => if csel_eqb c c' && (a =? 8) then Some 1 else None
    | XInsCtr c' => if csel_eqb c c' && (a =? 1) then Some 5 else None
    | XInsBase c' => if csel_eqb c c' && (a =? 4) then Some 1 else None
    | XInsRange c' =>
        if negb (csel_eqb c c') then None
        else if a =? 3 then Some 1
        else if a =? 7 then Some 8
        else None
    | XDel c' =>
        if negb (csel_eqb c c') then None
        else if (a =? 1) || (a =? 2) || (a =? 3) || (a =? 4) || (a =? 7) then Some a
        else if a =? 6 then Some (match c with CArg => 7 | CGlobal => 6 end)
        else None
    | XDelAll => if (a =? 1) || (a =? 2) || (a =? 3) || (a =? 4) || (a =? 6) || (a =? 7) then Some a else None
    | XReplace c' => if csel_eqb c c' && (a =? 6) then (match c with CArg => Some 8 | CGlobal => None end) else None
    | _ => None
    end.

Definition dataA (c : cellsel) : auto := fun a k =>
  match k with
  | KAcq => if a =? 0 then Some 1 else None
  | KRel => if (a =? 1) || (a =? 2) || (a =? 3) || (a =? 4) || (a =? 6) || (a =? 7) then Some 0 else None
  | KAct x => data_act c a x
  | KIf x _ _ => data_act c a x
  | KFault _ => Some a
  end.

(* the discipline checker for a method of the store whose counter is selected by c *)
Definition data_ok (c : cellsel) (m : stmt) : bool := meth_ok (dataA c) DeclFaults 0 m.

(* acceptance of a flat thread program *)
Fixpoint accepti (tf : auto) (a : N) (p : list instr) : option N :=
  match p with
  | [] => Some a
  | ICall _ _ :: r => if a =? 0 then accepti tf a r else None
  | IEv k :: r => match tf a k with Some a' => accepti tf a' r | None => None end
  end.

(* ---------------- correspondence ---------------- *)
(* one observed call: method name, graph id, node count, path (derived from the observed line trace),
   observed (line, code) events, observed outcome code *)
Definition ocall := (string * N * N * path * list (N * N) * N)%type.
(* a case: store flavour (true = disjoint), per thread the calls, the schedule (thread number per executed
   instruction), observed final counters (cell, value), live nodes, returned ids per thread *)
Definition ccase := (bool * list (list ocall) * list N * (list (N * N) * list node * list (list N)))%type.

Definition methods_of (disj : bool) : list (string * stmt) := if disj then disjoint_methods else shared_methods.
(* actions of callers that are not store methods: removal of node k of graph g from the stored graph, directly
   (`remove_node`) or through NetworkXPropertyGraph.delete_node, which on the disjoint store first goes twice
   through the locked get_graph (receiver and _find_node); run untraced by the harness, hence line 0 *)
Definition ext_methods (disj : bool) : list (string * stmt) :=
  let c := if disj then CArg else CGlobal in
  let rm := SAct 0 (XRemove c) FNever in
  [("new_importer"%string, SSkip);      (* a caller constructs a new importer / property-graph handle: no store event *)
   ("remove_node"%string, rm);
   ("delete_node"%string,
    if disj then SSeq (SAcq 0) (SSeq (SRel 0) (SSeq (SAcq 0) (SSeq (SRel 0) rm))) else rm)].
Definition methods_all (disj : bool) : list (string * stmt) := methods_of disj ++ ext_methods disj.

Definition lookup (ms : list (string * stmt)) (name : string) : option stmt :=
  match find (fun m => String.eqb (fst m) name) ms with Some m => Some (snd m) | None => None end.

Fixpoint list_eqb {A} (eq : A -> A -> bool) (a b : list A) : bool :=
  match a, b with
  | [], [] => true
  | x :: a', y :: b' => eq x y && list_eqb eq a' b'
  | _, _ => false
  end.
Definition pair_eqb (a b : N * N) : bool := (fst a =? fst b) && (snd a =? snd b).
Definition node_eqb (a b : node) : bool := pair_eqb (fst a) (fst b) && (snd a =? snd b).

Definition weak_fault (e : event) : bool := match snd e with KFault FWeak => true | KFault FNever => true | _ => false end.

(* the model's trace of one call agrees with the observed one *)
Definition call_ok (ms : list (string * stmt)) (oc : ocall) : bool :=
  let '(name, g, k, p, oevs, oout) := oc in
  match lookup ms name with
  | None => false
  | Some m =>
      let r := run AllFaults m p in
      list_eqb pair_eqb (map ev_code (evs_of r)) oevs
      && (out_code (out_of r) =? oout)
      && (match rest_of r with [] => true | _ => false end)
      && negb (existsb weak_fault (evs_of r))
  end.

Definition to_call (ms : list (string * stmt)) (oc : ocall) : call :=
  let '(name, g, k, p, _, _) := oc in
  mkCall (match lookup ms name with Some m => m | None => SSkip end) g k p.

Definition same_nodes (a b : list node) : bool :=
  (N.of_nat (List.length a) =? N.of_nat (List.length b))
  && forallb (fun x => existsb (node_eqb x) b) a
  && forallb (fun x => existsb (node_eqb x) a) b.

Definition final_ok (S : cst) (o : list (N * N) * list node * list (list N)) : bool :=
  let '(octrs, onodes, orets) := o in
  negb (bad S)
  && (match holder S with None => true | Some _ => false end)
  && forallb (fun t => match fst t with [] => negb (dv (snd t)) | _ => false end) (thr S)
  && forallb (fun cv => getc (ctrs (sh S)) (fst cv) =? snd cv) octrs
  && same_nodes (nodes (sh S)) onodes
  && list_eqb (list_eqb N.eqb) (map (fun t => rets (snd t)) (thr S)) orets.

Definition check_case (c : ccase) : bool :=
  let '(disj, ths, sched, o) := c in
  let ms := methods_all disj in
  forallb (forallb (call_ok ms)) ths
  && final_ok (run_sched (init (map (fun th => flatten AllFaults (map (to_call ms) th)) ths)) (map N.to_nat sched)) o.

(* what the model computes for a case (printed into replays) *)
Definition model_final (c : ccase) : list (N * N) * list node * list (list N) * bool :=
  let '(disj, ths, sched, _) := c in
  let ms := methods_all disj in
  let S := run_sched (init (map (fun th => flatten AllFaults (map (to_call ms) th)) ths)) (map N.to_nat sched) in
  (ctrs (sh S), nodes (sh S), map (fun t => rets (snd t)) (thr S), bad S).

(* attack stream: (disjoint?, method, line of the last statement executed, lock still held afterwards).
   The IR predicts that a raising statement can leave the lock held only if it is outside every try. *)
Definition attack_ok (c : bool * string * N * bool) : bool :=
  let '(disj, name, ln, locked) := c in
  if locked then
    match lookup (methods_of disj) name with
    | Some m => existsb (N.eqb ln) (fnever_lines m)
    | None => false
    end
  else true.

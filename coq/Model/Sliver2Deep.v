(* C02 model, part 2: sliver trees (node > components > services > interfaces > sub-interfaces,
   node > services), the deep-dictionary form and the JSON form.
     to_dict    = ABCPropertyGraph.sliver_to_dict                         (abc_property_graph.py:662-723)
     from_dict  = build_deep_{node,component,ns,interface,link}_sliver_from_dict (…:898-1084)
                  and the recursive tail of interface_sliver_from_graph_properties_dict (…:852-860)
     JSONSliver = fim/slivers/json.py (json.dumps / json.loads of the deep dictionary; the text level
                  of the json module is not modelled - JSON *values* are)
   Definitions only. *)
From Coq Require Import List String NArith Bool.
From FIM Require Import Base.Str Model.Sliver2Kinds Gen.PropMap Model.Sliver2Map.
Import ListNotations.

(* a sliver with its containment: the three optional child dictionaries are
   attached_components_info.devices, network_service_info.network_services, interface_info.interfaces
   (None = the *_info attribute is None; name-keyed dictionaries in insertion order) *)
Inductive tree :=
| T (k : kind) (nid : option str) (a : attrs) (comps nss ifs : option (list tree)).

(* the deep dictionary: graph properties plus the child lists under 'components' /
   'network_services' / 'interfaces' (one Python dict; no graph property is named like a child key,
   which is an obligation on the regenerated tables) *)
Inductive dd :=
| DD (p : props) (kids : list (string * list dd)).

Definition mapM {A B} (f : A -> res B) : list A -> res (list B) :=
  fix go (l : list A) : res (list B) :=
    match l with
    | [] => Ok []
    | x :: r => bind (f x) (fun y => bind (go r) (fun ys => Ok (y :: ys)))
    end.

Definition k_components : string := "components".
Definition k_services : string := "network_services".
Definition k_interfaces : string := "interfaces".

(* which child dictionaries a sliver class has, under which key, holding which class *)
Definition has_comps (k : kind) : bool := match k with KNode => true | _ => false end.
Definition has_nss (k : kind) : bool := match k with KNode | KComponent => true | _ => false end.
Definition has_ifs (k : kind) : bool := match k with KService | KInterface => true | _ => false end.

Definition kid_entry (b : bool) (key : string) (o : option (list dd)) : list (string * list dd) :=
  match b, o with true, Some l => [(key, l)] | _, _ => [] end.

Definition optM {A B} (f : list A -> res (list B)) (o : option (list A)) : res (option (list B)) :=
  match o with None => Ok None | Some l => bind (f l) (fun r => Ok (Some r)) end.

Fixpoint to_dict (t : tree) : res dd :=
  match t with
  | T k nid a c n i =>
      bind (to_props k a) (fun p =>
      bind (if has_comps k then optM (mapM to_dict) c else Ok None) (fun c' =>
      bind (if has_nss k then optM (mapM to_dict) n else Ok None) (fun n' =>
      bind (if has_ifs k then optM (mapM to_dict) i else Ok None) (fun i' =>
        Ok (DD p (kid_entry true k_components c' ++ kid_entry true k_services n'
                  ++ kid_entry true k_interfaces i'))))))
  end.

Definition t_kind (t : tree) : kind := match t with T k _ _ _ _ _ => k end.
Definition t_attrs (t : tree) : attrs := match t with T _ _ a _ _ _ => a end.
Definition t_nid (t : tree) : option str := match t with T _ n _ _ _ _ => n end.

Definition attr_str (a : attrs) (x : string) : option str :=
  match alookup x a with Some (Some (FStr s)) => Some s | _ => None end.

Definition t_name (t : tree) : option str := attr_str (t_attrs t) "resource_name".

(* info.<dict>[sliver.resource_name] = sliver : replace in place or append *)
Fixpoint dict_add (t : tree) (nm : str) (l : list tree) : list tree :=
  match l with
  | [] => [t]
  | u :: r => match t_name u with
              | Some n' => if str_eqb nm n' then t :: r else u :: dict_add t nm r
              | None => u :: dict_add t nm r
              end
  end.

(* AttachedComponentsInfo.add_device asserts name and type; the other two only key by name *)
Definition add_child (ck : kind) (acc : res (list tree)) (t : tree) : res (list tree) :=
  bind acc (fun l =>
    match t_name t with
    | None => Err ExAssertion
    | Some nm =>
        match ck, alookup "resource_type" (t_attrs t) with
        | KComponent, Some None => Err ExAssertion
        | KComponent, None => Err ExAssertion
        | _, _ => Ok (dict_add t nm l)
        end
    end).

Definition build_info (ck : kind) (ts : list tree) : res (list tree) :=
  fold_left (add_child ck) ts (Ok []).

(* the class of the slivers kept under a child key *)
Definition child_kind (key : string) : kind :=
  if String.eqb key k_components then KComponent
  else if String.eqb key k_services then KService else KInterface.

(* `x = props.get(key); if x is not None and len(x) > 0: info = ...`  (o: the children already
   converted, lazily: an error inside an unused key is never looked at) *)
Definition build_kids (ck : kind) (o : option (res (list tree))) : res (option (list tree)) :=
  match o with
  | None => Ok None
  | Some r => bind r (fun ts => match ts with
                                | [] => Ok None
                                | _ => bind (build_info ck ts) (fun info => Ok (Some info))
                                end)
  end.

Fixpoint from_dict (k : kind) (d : dd) : res tree :=
  match d with
  | DD p kids =>
      let built := map (fun kl => match kl with
                                  | (key, l) => (key, mapM (from_dict (child_kind key)) l)
                                  end) kids in
      bind (from_props k p) (fun a =>
      bind (if has_comps k then build_kids KComponent (alookup k_components built) else Ok None) (fun c =>
      bind (if has_nss k then build_kids KService (alookup k_services built) else Ok None) (fun n =>
      bind (if has_ifs k then build_kids KInterface (alookup k_interfaces built) else Ok None) (fun i =>
        Ok (T k (node_id_of p) a c n i)))))
  end.

(* ---------- JSON values ---------- *)
Inductive jv :=
| JNull
| JStr (s : str)
| JArr (l : list jv)
| JObj (m : list (string * jv)).

Fixpoint dd_to_jv (d : dd) : jv :=
  match d with
  | DD p kids =>
      JObj (map (fun gv => (fst gv, match snd gv with Some s => JStr s | None => JNull end)) p
            ++ map (fun kl => (fst kl, JArr (map dd_to_jv (snd kl)))) kids)
  end.

Definition omap {A B} (f : A -> option B) : list A -> option (list B) :=
  fix go (l : list A) : option (list B) :=
    match l with
    | [] => Some []
    | x :: r => match f x, go r with Some y, Some ys => Some (y :: ys) | _, _ => None end
    end.

(* the Python object json.loads returns, read as a deep dictionary; None = not of that shape *)
Fixpoint jv_to_dd (j : jv) : option dd :=
  match j with
  | JObj m =>
      match
        (fix go (m : list (string * jv)) : option (props * list (string * list dd)) :=
           match m with
           | [] => Some ([], [])
           | (key, v) :: r =>
               match go r with
               | None => None
               | Some (p, kids) =>
                   match v with
                   | JNull => Some ((key, None) :: p, kids)
                   | JStr s => Some ((key, Some s) :: p, kids)
                   | JArr l => match omap jv_to_dd l with
                               | Some ds => Some (p, (key, ds) :: kids)
                               | None => None
                               end
                   | JObj _ => None
                   end
               end
           end) m
      with
      | Some (p, kids) => Some (DD p kids)
      | None => None
      end
  | _ => None
  end.

(* JSONSliver.sliver_to_json / node_sliver_from_json / network_service_sliver_from_json, on JSON values *)
Definition sliver_to_json (t : tree) : res jv := bind (to_dict t) (fun d => Ok (dd_to_jv d)).
Definition sliver_from_json (k : kind) (j : jv) : res tree :=
  match jv_to_dd j with
  | Some d => from_dict k d
  | None => Err ExOther                       (* RuntimeError: not a dict *)
  end.

(* ---------- what the dictionary forms do not carry: node ids ---------- *)
Fixpoint forget_ids (t : tree) : tree :=
  match t with
  | T k _ a c n i => T k None a (option_map (map forget_ids) c) (option_map (map forget_ids) n)
                       (option_map (map forget_ids) i)
  end.

(* ---------- decidable equality, and equality up to the order of siblings ---------- *)
Definition fval_eqb (x y : fval) : bool :=
  match x, y with
  | FStr a, FStr b => str_eqb a b
  | FEnum e a, FEnum f b => String.eqb e f && str_eqb a b
  | FObj c a, FObj d b => String.eqb c d && opt_eqb str_eqb a b
  | FData c a, FData d b => String.eqb c d && str_eqb a b
  | FJson a, FJson b => str_eqb a b
  | FBool a, FBool b => Bool.eqb a b
  | FIp a, FIp b => str_eqb a b
  | _, _ => false
  end.

Definition attrs_eqb (a b : attrs) : bool :=
  list_eqb (fun x y => String.eqb (fst x) (fst y) && opt_eqb fval_eqb (snd x) (snd y)) a b.

Definition props_eqb (a b : props) : bool :=
  list_eqb (fun x y => String.eqb (fst x) (fst y) && opt_eqb str_eqb (snd x) (snd y)) a b.

Fixpoint tree_eqb (x y : tree) : bool :=
  match x, y with
  | T k1 n1 a1 c1 s1 i1, T k2 n2 a2 c2 s2 i2 =>
      let leq := fix go (l1 l2 : list tree) : bool :=
                   match l1, l2 with
                   | [], [] => true
                   | u :: r1, v :: r2 => tree_eqb u v && go r1 r2
                   | _, _ => false
                   end in
      let oeq := fun (o1 o2 : option (list tree)) =>
                   match o1, o2 with
                   | None, None => true
                   | Some l1, Some l2 => leq l1 l2
                   | _, _ => false
                   end in
      kind_eqb k1 k2 && opt_eqb str_eqb n1 n2 && attrs_eqb a1 a2 && oeq c1 c2 && oeq s1 s2 && oeq i1 i2
  end.

(* siblings sorted by name (the info dictionaries are keyed by name; their order is not an observable
   that is compared: the in-memory backend enumerates neighbours through a Python set) *)
Definition name_key (t : tree) : str := match t_name t with Some s => s | None => [] end.

Fixpoint insert_tree (t : tree) (l : list tree) : list tree :=
  match l with
  | [] => [t]
  | u :: r => if str_ltb (name_key t) (name_key u) then t :: l else u :: insert_tree t r
  end.

Fixpoint sort_tree (t : tree) : tree :=
  match t with
  | T k nid a c n i =>
      let srt := fun (o : option (list tree)) =>
                   option_map (fun l => fold_right insert_tree [] (map sort_tree l)) o in
      T k nid a (srt c) (srt n) (srt i)
  end.

Definition tree_eqb_unordered (x y : tree) : bool := tree_eqb (sort_tree x) (sort_tree y).

Fixpoint dd_eqb (x y : dd) : bool :=
  match x, y with
  | DD p1 k1, DD p2 k2 =>
      props_eqb p1 p2 &&
      (fix go (l1 l2 : list (string * list dd)) : bool :=
         match l1, l2 with
         | [], [] => true
         | (a, u) :: r1, (b, v) :: r2 =>
             String.eqb a b &&
             (fix go2 (m1 m2 : list dd) : bool :=
                match m1, m2 with
                | [], [] => true
                | e :: s1, f :: s2 => dd_eqb e f && go2 s1 s2
                | _, _ => false
                end) u v && go r1 r2
         | _, _ => false
         end) k1 k2
  end.

(* C14 - abstraction from the store-level model (Cbm14Store.v) to the abstract combined model (Cbm14Spec.v):
   the nodes of one graph of the shared store, keyed by NodeID, with class, plain properties, contributors read
   from adm_graph_ids and delegations read from the two delegation properties.  Definitions only. *)
From Coq Require Import List NArith Bool.
From FIM Require Import Model.Cbm14Store Model.Cbm14Spec.
Import ListNotations.
Open Scope N_scope.

(* a delegation property of the combined graph: a one-entry dictionary  graph id -> content *)
Definition abs_del (d : dval) : option (N * N) := match d with DDict [(g, c)] => Some (g, c) | _ => None end.
Definition abs_con (s : sival) : list N := match s with SIds l => l | _ => [] end.
Definition absn (n : node) : cnode :=
  mkC (n_cls n) (n_oth n) (abs_con (n_si n)) (abs_del (n_ld n)) (abs_del (n_cd n)).
Definition abs_nodes (g : N) (st : store) : list (N * cnode) := map (fun n => (n_nid n, absn n)) (of_gid g st).

(* a delegation property of a source model: a one-entry dictionary  delegation id -> content *)
Definition src_del (d : dval) : option N := match d with DDict [(_, c)] => Some c | _ => None end.
Definition absa (n : node) : anode := mkA (n_cls n) (n_oth n) (src_del (n_ld n)) (src_del (n_cd n)).
Definition abs_adm_nodes (g : N) (st : store) : list (N * anode) := map (fun n => (n_nid n, absa n)) (of_gid g st).

(* connections of graph g as unordered NodeID pairs *)
Definition abs_edges (g : N) (st : store) : list (ekey * edata) :=
  let ns := of_gid g st in
  flat_map (fun e => match nid_of_int ns (e_a e), nid_of_int ns (e_b e) with
                     | Some a, Some b => [((N.min a b, N.max a b), (e_cls e, e_oth e))]
                     | _, _ => [] end) (s_edges st).
Definition abs_cbm (g : N) (st : store) : cbm := mkCbm (abs_nodes g st) (abs_edges g st).
Definition abs_adm (g : N) (st : store) : adm := mkAdm g (abs_adm_nodes g st) (abs_edges g st).

(* well-formedness of the combined graph's nodes: adm_graph_ids is a list, delegation properties are absent,
   empty or one-entry dictionaries *)
Definition wf_del (d : dval) : bool := match d with DAbs => true | DStr0 => true | DDict [_] => true | _ => false end.
Definition wf_cnode (n : node) : bool :=
  match n_si n with SIds _ => true | _ => false end && wf_del (n_ld n) && wf_del (n_cd n).
Definition key (n : node) : N * N := (n_gid n, n_nid n).
Fixpoint nodupK (l : list (N * N)) : bool :=
  match l with
  | [] => true
  | x :: r => negb (existsb (fun y => (fst x =? fst y) && (snd x =? snd y)) r) && nodupK r
  end.
(* the decidable store invariant of the refinement theorems: internal ids unique and below start_id,
   (GraphID, NodeID) unique, nodes of the combined graph well-formed *)
Definition rgoodb (cbm : N) (st : store) : bool :=
  nodupN (map n_int (s_nodes st)) && forallb (fun n => n_int n <? s_next st) (s_nodes st) &&
  nodupK (map key (s_nodes st)) && forallb wf_cnode (of_gid cbm st).

(* the decidable preconditions of merging source g in store st (full refinement): its abstraction is a well-formed
   model and it has no self-loop *)
Definition noselfb (g : N) (st : store) : bool :=
  forallb (fun n => negb (has_edge (n_int n) (n_int n) (s_edges st))) (of_gid g st).
Definition mergeableb (g : N) (st : store) : bool := wf_admb (abs_adm g st) && noselfb g st.

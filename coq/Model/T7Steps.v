(* C07 - the unit mutations the building calls are made of, as pure functions on the graph, with the boolean
   side condition under which each unit keeps the invariant WF (proved in Proofs/T7Units.v):
     add_plain      a node / top-level service / link element without owner edge
     add_owned      element + owner edge as a unit (component, node-level service, interface, sub-interface)
     add_link_edge  one more interface joined by a link
     add_peering    service port + link to a node interface as a unit (connect_interface)
     add_peering2   two service ports + link as a unit (peer)
     relabel        rename / set_property / unset_property
     remove_set     removal of a set of elements with their edges
   Definitions only. *)
From Coq Require Import String List NArith ZArith Bool.
From FIM Require Import Base.Str Gen.Rules Model.T7Graph Model.T7Ops Model.T7WF.
Import ListNotations.

Definition new_node_ok (n : node) : bool := fields_ok n && vocab_ok n.
Definition fresh (g : graph) (x : str) : bool := negb (has_id g x).
(* no element of class k is called name *)
Definition name_free (g : graph) (k : cls) (name : option str) : bool :=
  forallb (fun m => negb (cls_eqb (ncls m) k && ostr_eqb (nname m) name)) (gnodes g).
(* no neighbour of a over r of class k is called name *)
Definition sibling_free (g : graph) (a : str) (r : rel) (k : cls) (name : option str) : bool :=
  forallb (fun j => negb (ostr_eqb (name_of g j) name)) (first_nb g a r k).
Definition is_type (n : node) (t : str) : bool := ostr_eqb (ntyp n) (Some t).

Definition add_plain (g : graph) (n : node) : graph := g_add_node g n.
Definition plain_ok (g : graph) (n : node) : bool :=
  fresh g (nid n) && new_node_ok n &&
  (cls_eqb (ncls n) KNode || cls_eqb (ncls n) KNS || cls_eqb (ncls n) KLink) &&
  name_free g (ncls n) (nname n).

Definition add_owned (g : graph) (n : node) (a : str) (r : rel) : graph :=
  g_add_edge (g_add_node g n) a r (nid n).
(* which owner an element of this class and type may be attached to, over which relation *)
Definition owner_shape_ok (g : graph) (n : node) (a : str) (r : rel) : bool :=
  match ncls n with
  | KComp => rel_eqb r Has && (cls_is g a KNode || cls_is g a KComposite)
  | KNS => rel_eqb r Has && (cls_is g a KNode || cls_is g a KComposite || cls_is g a KComp)
  | KCP => rel_eqb r Connects && negb (is_type n sServicePort) &&
           (if is_type n sSubInterface then cls_is g a KCP && negb (typ_is g a sSubInterface)
            else cls_is g a KNS)
  | _ => false
  end.
Definition owned_ok (g : graph) (n : node) (a : str) (r : rel) : bool :=
  fresh g (nid n) && new_node_ok n && owner_shape_ok g n a r && sibling_free g a r (ncls n) (nname n).

Definition add_link_edge (g : graph) (l i : str) : graph := g_add_edge g l Connects i.
Definition no_edge (g : graph) (a b : str) : bool := negb (existsb (fun e => same_ends e a b) (gedges g)).
Definition link_edge_ok (g : graph) (l i : str) : bool :=
  cls_is g l KLink && cls_is g i KCP && negb (typ_is g i sServicePort) && no_edge g l i &&
  forallb (fun y => negb (typ_is g y sServicePort)) (first_nb g l Connects KCP).

(* connect_interface: service port sp under service s, link l joining interface i and sp *)
Definition add_peering (g : graph) (s i : str) (sp l : node) : graph :=
  g_add_edge (g_add_edge (g_add_node (g_add_edge (g_add_node g sp) s Connects (nid sp)) l) (nid l) Connects i)
             (nid l) Connects (nid sp).
Definition peering_ok (g : graph) (s i : str) (sp l : node) : bool :=
  fresh g (nid sp) && fresh g (nid l) && negb (str_eqb (nid sp) (nid l)) &&
  new_node_ok sp && new_node_ok l &&
  cls_eqb (ncls sp) KCP && is_type sp sServicePort && cls_eqb (ncls l) KLink &&
  cls_is g s KNS && cls_is g i KCP && negb (typ_is g i sServicePort) &&
  sibling_free g s Connects KCP (nname sp) && name_free g KLink (nname l).

(* peer: service ports pa under a and pb under b, link l joining them *)
Definition add_peering2 (g : graph) (a b : str) (pa pb l : node) : graph :=
  g_add_edge (g_add_edge (g_add_node
     (g_add_edge (g_add_node (g_add_edge (g_add_node g pa) a Connects (nid pa)) pb) b Connects (nid pb)) l)
     (nid l) Connects (nid pa)) (nid l) Connects (nid pb).
Definition peering2_ok (g : graph) (a b : str) (pa pb l : node) : bool :=
  fresh g (nid pa) && fresh g (nid pb) && fresh g (nid l) &&
  negb (str_eqb (nid pa) (nid pb)) && negb (str_eqb (nid pa) (nid l)) && negb (str_eqb (nid pb) (nid l)) &&
  new_node_ok pa && new_node_ok pb && new_node_ok l &&
  cls_eqb (ncls pa) KCP && is_type pa sServicePort && cls_eqb (ncls pb) KCP && is_type pb sServicePort &&
  cls_eqb (ncls l) KLink && cls_is g a KNS && cls_is g b KNS &&
  sibling_free g a Connects KCP (nname pa) && sibling_free g b Connects KCP (nname pb) &&
  (negb (str_eqb a b) || negb (ostr_eqb (nname pa) (nname pb))) &&
  name_free g KLink (nname l).

(* the two ports of a peering alone (the state peer rolls back from when the link cannot be made) *)
Definition ports2_ok (g : graph) (a b : str) (pa pb : node) : bool :=
  fresh g (nid pa) && fresh g (nid pb) && negb (str_eqb (nid pa) (nid pb)) &&
  new_node_ok pa && new_node_ok pb &&
  cls_eqb (ncls pa) KCP && is_type pa sServicePort && cls_eqb (ncls pb) KCP && is_type pb sServicePort &&
  cls_is g a KNS && cls_is g b KNS &&
  sibling_free g a Connects KCP (nname pa) && sibling_free g b Connects KCP (nname pb) &&
  (negb (str_eqb a b) || negb (ostr_eqb (nname pa) (nname pb))).

(* rename / set_property / unset_property: only name, type (of a node element) and "Labels present" change *)
Definition relabel (g : graph) (x : str) (f : node -> node) : graph := g_update g x f.
(* f keeps id and class; the new type stays in the vocabulary; a new name does not clash in the scope of x *)
Definition relabel_ok (g : graph) (x : str) (f : node -> node) : bool :=
  forallb (fun n => negb (str_eqb (nid n) x) ||
     (str_eqb (nid (f n)) (nid n) && cls_eqb (ncls (f n)) (ncls n) && new_node_ok (f n) &&
      (* interface and link types steer the structure rules: unchanged *)
      (ostr_eqb (ntyp (f n)) (ntyp n) || cls_eqb (ncls n) KNode || cls_eqb (ncls n) KNS || cls_eqb (ncls n) KComp) &&
      (ostr_eqb (nname (f n)) (nname n) ||
       forallb (fun m => str_eqb (nid m) x || negb (name_clash g (f n) m)) (gnodes g)))) (gnodes g).

(* removal of the elements whose id satisfies `del`, with every edge touching them *)
Definition remove_set (g : graph) (del : str -> bool) : graph :=
  mkG (filter (fun n => negb (del (nid n))) (gnodes g))
      (filter (fun e => negb (del (ea e)) && negb (del (eb e))) (gedges g)).
(* the set is closed: a removed owner takes its components / interfaces / sub-interfaces along, and a service
   port survives only together with its link and its peer *)
Definition closed_b (g : graph) (del : str -> bool) : bool :=
  forallb (fun n =>
    del (nid n) ||
    match ncls n with
    | KComp => forallb (fun o => negb (del o)) (comp_owners g (nid n))
    | KNS => forallb (fun o => negb (del o)) (ns_owners g (nid n))
    | KCP => forallb (fun o => negb (del o)) (cp_owners g (nid n)) &&
             (negb (is_type n sServicePort) ||
              forallb (fun l => negb (del l) && forallb (fun y => negb (del y)) (first_nb g l Connects KCP))
                      (first_nb g (nid n) Connects KLink))
    | _ => true
    end) (gnodes g).

(* ---- the claim about histories ----------------------------------------------------------------------------- *)
(* the interfaces given to add_link: distinct interfaces, none of them a service port *)
Definition add_link_pre (g : graph) (ifs : list str) : bool :=
  nodup_b ifs && forallb (fun i => cls_is g i KCP && negb (typ_is g i sServicePort)) ifs.
(* the removed link carries no service port (remove_link on a peering link is the recorded finding) *)
Definition remove_link_pre (g : graph) (name : str) : bool :=
  forallb (fun n => negb (cls_eqb (ncls n) KLink && ostr_eqb (nname n) (Some name)) ||
                    forallb (fun y => negb (typ_is g y sServicePort)) (first_nb g (nid n) Connects KCP)) (gnodes g).

(* sub-interfaces hang off DedicatedPorts only (Interface.add_child_interface asserts it): every interface-to-interface
   edge has a DedicatedPort end *)
Definition subs_under_dedicated (g : graph) : bool :=
  forallb (fun e => negb (cls_is g (ea e) KCP && cls_is g (eb e) KCP) ||
                    typ_is g (ea e) sDedicatedPort || typ_is g (eb e) sDedicatedPort) (gedges g).

(* an interface has at most one service-port peer (connect_interface refuses an interface that has a peer, peer makes
   new ports, add_link takes no service port): what _disconnect_from_services relies on *)
Definition one_sp_peer (g : graph) : bool :=
  forallb (fun n => negb (cls_eqb (ncls n) KCP) ||
                    Nat.leb (length (filter (fun p => typ_is g p sServicePort) (map snd (second_nb g (nid n) Connects KLink KCP)))) 1)
          (gnodes g).
(* an interface hangs off a service over a `connects` edge only (conn_points_of looks over any edge class) *)
Definition ns_cp_connects (g : graph) : bool :=
  forallb (fun e => negb ((cls_is g (ea e) KNS && cls_is g (eb e) KCP) || (cls_is g (ea e) KCP && cls_is g (eb e) KNS)) ||
                    rel_eqb (erel e) Connects) (gedges g).

(* peer(a, b) names its link <a>-<b>-link without looking whether that name is free *)
Definition peer_link_free (g : graph) (a b : str) : bool :=
  match name_of g a, name_of g b with
  | Some an, Some bn => name_free g KLink (Some (an ++ dash ++ bn ++ S "-link"))
  | _, _ => true
  end.

(* The calls whose preservation of WF is PROVED, each with its precondition on the state before the call:
   - enum arguments are members of the enum the API takes (regenerated member lists);
   - what excludes exactly the signature of a recorded defect: a new name that
     does not clash in the scope of the renamed element (relabel_ok); remove_link not on a peering link;
   - the documented domain of add_link (distinct interfaces, no service port).
   (The calls that are `false` here are dealt with in op_pre below.) *)
Definition op_pre_basic (g : graph) (o : op) : bool :=
  match o with
  | OAddNode _ _ ntype => mem_str ntype enum_node_types
  | OAddComponent _ _ _ _ _ _ _ => true
  | OAddStorage _ _ _ => true
  | ONodeAddNS _ _ _ nstype => mem_str nstype enum_service_types
  | OAddNS _ _ nstype [] => mem_str nstype enum_service_types
  | OAddLink _ _ ltype ifs => mem_str ltype enum_link_types && add_link_pre g ifs
  | ORemoveLink name => remove_link_pre g name
  | ORename r new => relabel_ok g (ref_id r) (set_name new)
  | OSetProp r PName v | OSetProp r PNames v => relabel_ok g (ref_id r) (set_name v)
  | OSetProp r PTypeNode v => relabel_ok g (ref_id r) (set_typ v)
  | OSetProp _ _ _ => true
  | OUnsetProp _ _ => true
  | OAddSub _ _ _ _ => true
  | _ => false
  end.
(* ... and the calls that make or take away a service port together with its link:
   - connect_interface: for the library that checks the derived names (8b1a93d) and takes the port away again when
     the link cannot be made (7b7379b); the interface is not itself a service port (documented domain);
   - disconnect_interface, unpeer, remove_child_interface: sub-interfaces hang off DedicatedPorts only (what
     add_child_interface enforces); disconnect_interface not on a service port;
   - peer: two different services (peer(a, a) gives two ports of one name) and a free link name -- the two open
     defects of peer -- or a library that checks both itself (proposed C07-7);
   - remove_node / remove_component / remove_facility / remove_switch / remove_network_service (both levels): rem_pre;
   - add_network_service with interfaces, add_port_mirror_service: conn_pre;
   - add_facility, add_switch: none (a rejected later step takes the half-built node away again). *)
(* the removals: the library skips interfaces an earlier disconnection took away (5286851), and the three structural
   side conditions above (they hold of every model the API builds, the rules do not state them) *)
Definition rem_pre (fl : flags) (g : graph) : bool :=
  fl_skip_gone fl && subs_under_dedicated g && ns_cp_connects g && one_sp_peer g.
(* add_network_service with interfaces / the port mirror service: one connect_interface per interface (none of them a
   service port), any failure rolls the call back (16ce105) *)
Definition conn_pre (fl : flags) (g : graph) (ifs : list str) : bool :=
  match ifs with
  | [] => true
  | _ => fl_connect_names fl && fl_connect_undo fl && subs_under_dedicated g && forallb (fun i => negb (typ_is g i sServicePort)) ifs
  end.
Definition op_pre (fl : flags) (g : graph) (o : op) : bool :=
  match o with
  | ORemoveNode _ | ORemoveComponent _ _ | ORemoveFacility _ | ORemoveSwitch _ | ORemoveNS _ | ONodeRemoveNS _ _ => rem_pre fl g
  | OAddNS _ _ nstype ifs => mem_str nstype enum_service_types && conn_pre fl g ifs
  | OAddPM _ _ to => conn_pre fl g [to]
  | OAddFacility _ _ _ | OAddSwitch _ _ _ => true
  | OConnect s i => fl_connect_names fl && fl_connect_undo fl && negb (typ_is g i sServicePort)
  | ODisconnect s i => subs_under_dedicated g && (fl_disc_peering fl || negb (typ_is g i sServicePort))
  | OPeer a b => fl_peer_checks fl || (negb (str_eqb a b) && peer_link_free g a b)
  | OUnpeer a b => subs_under_dedicated g
  | ORemoveSub i name => subs_under_dedicated g
  | _ => op_pre_basic g o
  end.

(* the library as it is at /repo HEAD: none of the proposed repairs C07-3..6 *)
Definition flags_off : flags := mkFlags false false false false false false false false false false false.
(* ... with all of them *)
Definition flags_on : flags := mkFlags true true true true true true true true true true true.

Definition hstep := (op * list str * list str)%type.   (* call, ids drawn from uuid4, iteration-order hint *)
Fixpoint run_hist (sub : bool) (fl : flags) (g : graph) (h : list hstep) : graph :=
  match h with
  | [] => g
  | (o, dr, hi) :: r => run_hist sub fl (fst (step sub fl g o dr hi)) r
  end.
Fixpoint pre_along (sub : bool) (fl : flags) (g : graph) (h : list hstep) : bool :=
  match h with
  | [] => true
  | (o, dr, hi) :: r => op_pre fl g o && pre_along sub fl (fst (step sub fl g o dr hi)) r
  end.

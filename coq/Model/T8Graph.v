(* C08 model, part 1: the typed single-graph state, the primitive queries of the in-memory backend
   (fim/graph/networkx_property_graph.py: _find_node, get_first_neighbor, get_first_and_second_neighbor
   with its ineffective rel2 filter, delete_node) and a state/exception monad whose ONLY mutator is
   delete_node.  The state carries the trace of deleted ids, so that "what was removed" is an
   observable of the model.  Definitions only; lemmas are in Proofs/T8Frame.v, Proofs/T8Exact.v. *)
From Coq Require Import List NArith Bool.
Import ListNotations.

Inductive cls := CNode | CComp | CNS | CCP | CLink | CComposite | COther.
Inductive rel := RHas | RConnects | ROther.

Definition cls_eqb (a b : cls) : bool :=
  match a, b with
  | CNode, CNode | CComp, CComp | CNS, CNS | CCP, CCP | CLink, CLink
  | CComposite, CComposite | COther, COther => true
  | _, _ => false
  end.
Definition rel_eqb (a b : rel) : bool :=
  match a, b with
  | RHas, RHas | RConnects, RConnects | ROther, ROther => true
  | _, _ => false
  end.

(* interned Type property: the values the removal code looks at have fixed codes *)
Definition T_ServicePort : N := 1%N.
Definition T_Facility : N := 2%N.
Definition T_Switch : N := 3%N.
Definition T_DedicatedPort : N := 4%N.
Definition T_SubInterface : N := 5%N.

(* a graph node: NodeID, Class, Type, Name, "reservation state equals the pruned state", and every
   other property folded into one interned value (the removal code never reads them; the frame
   theorem says they are kept) *)
Record node := mkNode { nid : N; ncls : cls; ntyp : N; nname : N; nmark : bool; nrest : N }.
(* an undirected edge with its Class *)
Record edge := mkEdge { ea : N; eb : N; erel : rel }.
Record graph := mkGraph { gnodes : list node; gedges : list edge }.

Definition node_eqb (a b : node) : bool :=
  N.eqb (nid a) (nid b) && cls_eqb (ncls a) (ncls b) && N.eqb (ntyp a) (ntyp b) &&
  N.eqb (nname a) (nname b) && Bool.eqb (nmark a) (nmark b) && N.eqb (nrest a) (nrest b).
Definition edge_eqb (a b : edge) : bool :=
  N.eqb (ea a) (ea b) && N.eqb (eb a) (eb b) && rel_eqb (erel a) (erel b).

Fixpoint list_eqb8 {A} (eqb : A -> A -> bool) (a b : list A) : bool :=
  match a, b with
  | [], [] => true
  | x :: a', y :: b' => eqb x y && list_eqb8 eqb a' b'
  | _, _ => false
  end.
Definition graph_eqb (a b : graph) : bool :=
  list_eqb8 node_eqb (gnodes a) (gnodes b) && list_eqb8 edge_eqb (gedges a) (gedges b).

Definition memN (x : N) (l : list N) : bool := existsb (N.eqb x) l.
Fixpoint dedup (l : list N) : list N :=       (* python set(): duplicates collapse *)
  match l with
  | [] => []
  | x :: r => if memN x r then dedup r else x :: dedup r
  end.
Definition removeN (x : N) (l : list N) : list N := filter (fun y => negb (N.eqb x y)) l.

(* ---- queries ---- *)
Definition find_node (g : graph) (n : N) : option node := find (fun x => N.eqb (nid x) n) (gnodes g).
Definition has_node (g : graph) (n : N) : bool := match find_node g n with Some _ => true | None => false end.
Definition class_of (g : graph) (n : N) : cls := match find_node g n with Some x => ncls x | None => COther end.
Definition type_of (g : graph) (n : N) : N := match find_node g n with Some x => ntyp x | None => 0%N end.
Definition name_of (g : graph) (n : N) : N := match find_node g n with Some x => nname x | None => 0%N end.

(* graph.neighbors(n) with the Class of the connecting edge *)
Definition nbrs (g : graph) (n : N) : list (N * rel) :=
  flat_map (fun e => if N.eqb (ea e) n then [(eb e, erel e)]
                     else if N.eqb (eb e) n then [(ea e, erel e)] else []) (gedges g).

(* get_first_neighbor(node_id, rel, node_label) *)
Definition first_neighbor (g : graph) (n : N) (r : rel) (c : cls) : list N :=
  dedup (map fst (filter (fun p => rel_eqb (snd p) r && cls_eqb (class_of g (fst p)) c) (nbrs g n))).
(* the second hop of get_first_and_second_neighbor: the rel2 filter is ineffective in the code
   (networkx_property_graph.py:529 appends n instead of k), so every neighbour of the class counts *)
Definition nbrs_cls (g : graph) (n : N) (c : cls) : list N :=
  dedup (map fst (filter (fun p => cls_eqb (class_of g (fst p)) c) (nbrs g n))).

(* delete_node: the node and its incident edges *)
Definition delete (g : graph) (n : N) : graph :=
  mkGraph (filter (fun x => negb (N.eqb (nid x) n)) (gnodes g))
          (filter (fun e => negb (N.eqb (ea e) n) && negb (N.eqb (eb e) n)) (gedges g)).

(* the induced subgraph on the nodes not in d *)
Definition restrict (g : graph) (d : list N) : graph :=
  mkGraph (filter (fun x => negb (memN (nid x) d)) (gnodes g))
          (filter (fun e => negb (memN (ea e) d) && negb (memN (eb e) d)) (gedges g)).

(* find_node_by_name(name, label): ids of the nodes of that class with that name *)
Definition by_name (g : graph) (c : cls) (name : N) : list N :=
  map nid (filter (fun x => cls_eqb (ncls x) c && N.eqb (nname x) name) (gnodes g)).
Definition all_of_class (g : graph) (c : cls) : list N :=
  map nid (filter (fun x => cls_eqb (ncls x) c) (gnodes g)).

(* ---- state / exception monad; the trace records every deleted id ---- *)
Inductive exn := ETopology | EQuery | EAssert | EIndex | EAmbig | EType.
Definition exn_eqb (a b : exn) : bool :=
  match a, b with
  | ETopology, ETopology | EQuery, EQuery | EAssert, EAssert | EIndex, EIndex | EAmbig, EAmbig | EType, EType => true
  | _, _ => false
  end.

Definition st : Type := graph * list N.
Definition M (A : Type) : Type := st -> (A + exn) * st.

Definition ret {A} (x : A) : M A := fun s => (inl x, s).
Definition fail {A} (e : exn) : M A := fun s => (inr e, s).
Definition bind {A B} (m : M A) (f : A -> M B) : M B :=
  fun s => match m s with
           | (inl x, s') => f x s'
           | (inr e, s') => (inr e, s')
           end.
Notation "x <- m ;; f" := (bind m (fun x => f)) (at level 61, m at next level, right associativity).
Notation "m1 ;;; m2" := (bind m1 (fun _ => m2)) (at level 61, right associativity).

(* a read of the current graph that may raise *)
Definition m_read {A} (f : graph -> A + exn) : M A := fun s => (f (fst s), s).
Definition m_get {A} (f : graph -> A) : M A := fun s => (inl (f (fst s)), s).
(* the only mutator: delete_node; _find_node raises when the id is not in the graph *)
Definition m_delete (n : N) : M unit :=
  fun s => if has_node (fst s) n then (inl tt, (delete (fst s) n, n :: snd s)) else (inr EQuery, s).

Definition need_node (n : N) : M node :=
  m_read (fun g => match find_node g n with Some x => inl x | None => inr EQuery end).
Definition guard (b : bool) (e : exn) : M unit := if b then ret tt else fail e.
(* get_first_neighbor / get_first_and_second_neighbor / get_nodes_on_shortest_path extract the graph first; when it
   has no node at all they raise PropertyGraphQueryException WITHOUT its required node_id argument: a TypeError *)
Definition m_nonempty : M unit :=
  m_read (fun g => match gnodes g with [] => inr EType | _ => inl tt end).

Fixpoint for_each {A} (f : A -> M unit) (l : list A) : M unit :=
  match l with
  | [] => ret tt
  | x :: r => f x ;;; for_each f r
  end.
(* iteration over a python set (or a list built from one): the order is not modelled.  When the
   body raises part-way through a collection of more than one element the partial effects depend
   on that order: the model answers EAmbig instead of a definite state. *)
Definition for_each_set {A} (f : A -> M unit) (l : list A) : M unit :=
  fun s => match for_each f l s with
           | (inr e, s') => (inr (match l with _ :: _ :: _ => EAmbig | _ => e end), s')
           | r => r
           end.

Definition run {A} (m : M A) (g : graph) : (A + exn) * st := m (g, []).

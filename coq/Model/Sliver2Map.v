(* C02 model, part 1: one sliver <-> flat graph-properties dictionary, INTERPRETING the tables that
   translator/gen_propmap.py regenerates from fim/graph/abc_property_graph.py (Gen/PropMap.v):
     to_props   = <kind>_sliver_to_graph_properties_dict        (abc_property_graph.py:492-660)
     from_props = <kind>_sliver_from_graph_properties_dict      (abc_property_graph.py:725-860)
   and the element-level set/get/unset of fim/user/{node,component,interface,network_service,link}.py.
   Definitions only. *)
From Coq Require Import List String NArith Bool.
From FIM Require Import Base.Str Model.Sliver2Kinds Gen.PropMap.
Import ListNotations.

(* ---------- insertion-ordered dictionaries with string keys (Python dict / __dict__) ---------- *)
Fixpoint alookup {V} (k : string) (l : list (string * V)) : option V :=
  match l with
  | [] => None
  | (k', v) :: r => if String.eqb k k' then Some v else alookup k r
  end.

(* d[k] = v : replace in place when the key exists, append otherwise *)
Fixpoint aset {V} (k : string) (v : V) (l : list (string * V)) : list (string * V) :=
  match l with
  | [] => [(k, v)]
  | (k', v') :: r => if String.eqb k k' then (k', v) :: r else (k', v') :: aset k v r
  end.

Fixpoint aremove {V} (k : string) (l : list (string * V)) : list (string * V) :=
  match l with
  | [] => []
  | (k', v') :: r => if String.eqb k k' then r else (k', v') :: aremove k r
  end.

Definition akeys {V} (l : list (string * V)) : list string := map fst l.

(* d.update(e) *)
Definition aupdate {V} (d e : list (string * V)) : list (string * V) :=
  fold_left (fun acc kv => aset (fst kv) (snd kv) acc) e d.

Definition mem (s : string) (l : list string) : bool := existsb (String.eqb s) l.

(* d.get(P, None): a stored Python None reads like an absent key *)
Definition pget (g : string) (d : props) : option str :=
  match alookup g d with Some (Some s) => Some s | _ => None end.

(* ---------- the tables of one sliver class ---------- *)
Definition to_table (k : kind) : list to_entry := to_base ++ to_specific k.
Definition from_table (k : kind) : list from_entry := from_base ++ from_specific k.

(* attributes that hold structure or identity, not settable data *)
Definition structural_attrs : list string :=
  ["node_id"; "attached_components_info"; "network_service_info"; "interface_info"]%string.

(* the data part of a freshly constructed sliver's __dict__ (stitch_node defaults to False) *)
Definition blank (k : kind) : attrs :=
  map (fun ad => (fst ad, if snd ad : bool then Some (FBool false) else None))
      (filter (fun ad => negb (mem (fst ad) structural_attrs)) (init_attrs k)).

Definition find_setter (k : kind) (kw : string) : option (string * setk) :=
  match find (fun e => String.eqb (fst (fst e)) kw) (setters k) with
  | Some (_, a, s) => Some (a, s)
  | None => None
  end.

Definition find_getter (k : kind) (kw : string) : option (string * getk) :=
  match find (fun e => String.eqb (fst (fst e)) kw) (getters k) with
  | Some (_, a, g) => Some (a, g)
  | None => None
  end.

Definition enum_members (e : string) : list string :=
  match alookup e enums with Some l => l | None => [] end.

Definition is_member (e : string) (m : str) : bool :=
  existsb (fun n => str_eqb (of_string n) m) (enum_members e).

(* ---------- encoders (sliver attribute value -> graph property value) ---------- *)
Definition s_true : str := S"true".
Definition s_false : str := S"false".
Definition s_null : str := S"null".
Definition s_None : str := S"None".
Definition comma : N := 44%N.

(* str(x) *)
Definition py_str (v : fval) : res str :=
  match v with
  | FStr s => Ok s
  | FEnum _ m => Ok m
  | FIp t => Ok t
  | FBool b => Ok (if b then S"True" else S"False")
  | _ => Err ExOther          (* str() of an object token is not modelled *)
  end.

Definition enc_val (e : enc) (v : fval) : res pval :=
  match e with
  | EPlain => match v with FStr s => Ok (Some s) | _ => Err ExOther end   (* non-str stored as is: outside the model *)
  | EStr => bind (py_str v) (fun s => Ok (Some s))
  | EToJson => match v with FObj _ t => Ok t | _ => Err ExAttribute end
  | EDataJson => match v with FData _ j => Ok (Some j) | _ => Err ExAttribute end
  | EJsonDumps | EJsonDumpsAlways =>
      match v with
      | FJson t => Ok (Some t)
      | FBool b => Ok (Some (if b then s_true else s_false))
      | _ => Err ExOther
      end
  | EImagePair _ => Err ExOther   (* handled by to_entry_val *)
  end.

(* the effect of one `if ...: prop_dict[P] = ...` statement: None = guard false, nothing written *)
Definition to_entry_val (a : attrs) (te : to_entry) : res (option pval) :=
  let '(x, _, e) := te in
  match e with
  | EImagePair y =>
      match alookup x a, alookup y a with
      | Some (Some vx), Some (Some vy) =>
          match vx with
          | FStr r => bind (py_str vy) (fun t => Ok (Some (Some (r ++ comma :: t))))
          | _ => Err ExType
          end
      | _, _ => Ok None
      end
  | EJsonDumpsAlways =>
      match alookup x a with
      | Some (Some v) => bind (enc_val e v) (fun p => Ok (Some p))
      | Some None => Ok (Some (Some s_null))      (* json.dumps(None) *)
      | None => Ok None                             (* hasattr false *)
      end
  | _ =>
      match alookup x a with
      | Some (Some v) => bind (enc_val e v) (fun p => Ok (Some p))
      | _ => Ok None
      end
  end.

Fixpoint to_props_entries (T : list to_entry) (a : attrs) (acc : props) : res props :=
  match T with
  | [] => Ok acc
  | te :: r =>
      bind (to_entry_val a te) (fun o =>
        to_props_entries r a (match o with Some p => aset (snd (fst te)) p acc | None => acc end))
  end.

Definition to_props (k : kind) (a : attrs) : res props := to_props_entries (to_table k) a [].

(* ---------- decoders (graph property value -> setter argument) ---------- *)
Fixpoint split_comma (s : str) (cur : str) : list str :=
  match s with
  | [] => [rev cur]
  | c :: r => if N.eqb c comma then rev cur :: split_comma r [] else split_comma r (c :: cur)
  end.

(* s.rsplit(',', 1): the text before and after the LAST comma; None when there is no comma *)
Fixpoint rsplit_comma (s : str) : option (str * str) :=
  match s with
  | [] => None
  | c :: r => match rsplit_comma r with
              | Some (a, b) => Some (c :: a, b)
              | None => if N.eqb c comma then Some ([], r) else None
              end
  end.

Definition dec_val (k : kind) (d : dec) (x : option str) : res (option fval) :=
  match d with
  | DGet => Ok (match x with Some s => Some (FStr s) | None => None end)
  | DFromJson cls nk =>
      let x' := match x with
                | Some s => if str_eqb s [] || str_eqb s s_None then None else Some s
                | None => None end in
      match nk, x' with
      | NKNone, None => Ok None
      | NKNone, Some s => Ok (Some (FObj cls (Some s)))
      | NKWrap, _ => Ok (Some (FObj cls x'))
      end
  | DEnumFromString e =>
      Ok (match x with Some s => if is_member e s then Some (FEnum e s) else None | None => None end)
  | DTypeFromStr =>
      let e := type_enum k in
      Ok (match x with Some s => if is_member e s then Some (FEnum e s) else None | None => None end)
  | DJsonLoads dflt =>
      match x with
      | None => Ok (if dflt then Some (FBool false) else None)
      | Some s => if str_eqb s s_true then Ok (Some (FBool true))
                  else if str_eqb s s_false then Ok (Some (FBool false))
                  else if str_eqb s s_null then Ok None
                  else Ok (Some (FJson s))
      end
  | DCtor cls => Ok (match x with Some s => Some (FData cls s) | None => None end)
  | DSplitComma i =>
      match x with
      | None => Ok None
      | Some s => match split_comma s [] with
                  | [p0; p1] => Ok (Some (FStr (match i with O => p0 | _ => p1 end)))
                  | _ => Err ExValue              (* not exactly two parts to unpack *)
                  end
      end
  | DRSplitComma i =>
      match x with
      | None => Ok None
      | Some s => match rsplit_comma s with
                  | Some (p0, p1) => Ok (Some (FStr (match i with O => p0 | _ => p1 end)))
                  | None => Err ExValue           (* a single part cannot be unpacked into two *)
                  end
      end
  end.

Definition val_class (v : fval) : option string :=
  match v with FObj c _ => Some c | FData c _ => Some c | _ => None end.

(* what set_<kw>(arg) stores in the attribute *)
Definition apply_setter (s : setk) (v : option fval) : res (option fval) :=
  match s with
  | SPlain (Some c) | SFinalize (Some c) =>
      match v with
      | None => Ok None
      | Some w => match val_class w with
                  | Some c' => if String.eqb c c' then Ok v else Err ExAssertion
                  | None => Err ExAssertion
                  end
      end
  | SPlain None | SFinalize None => Ok v
  | SName => match v with
             | Some (FStr _) => Ok v           (* names of the domain match NAME_REGEX (C16's business) *)
             | _ => Err ExType                 (* re.fullmatch(regex, None) *)
             end
  | SIp => match v with
           | None => Ok None
           | Some (FStr t) => Ok (Some (FIp t))  (* texts of the domain are canonical addresses *)
           | Some (FIp t) => Ok (Some (FIp t))
           | _ => Err ExValue
           end
  | STuple => match v with
              | None => Ok None
              | Some (FJson t) => Ok v          (* tuple(list) of the same items *)
              | _ => Err ExAssertion
              end
  end.

(* sliver.set_properties(kw=dec(d.get(P)), ...) : one keyword *)
Definition from_step (k : kind) (d : props) (acc : res attrs) (fe : from_entry) : res attrs :=
  let '(kw, g, dc) := fe in
  bind acc (fun cur =>
    match find_setter k kw with
    | None => Err ExAttribute
    | Some (a, st) =>
        bind (dec_val k dc (pget g d)) (fun v =>
          bind (apply_setter st v) (fun v' => Ok (aset a v' cur)))
    end).

Definition from_props (k : kind) (d : props) : res attrs :=
  fold_left (from_step k d) (from_table k) (Ok (blank k)).

(* conversion hint only (no logical content): unfold these two wrappers before the recursive functions
   they call, otherwise the kernel normalises the table interpreters on symbolic slivers *)
Strategy expand [to_props from_props].

(* sliver.node_id = d.get(NODE_ID, None) *)
Definition node_id_of (d : props) : option str := pget node_id_prop d.

(* ---------- element level: ModelElement.set_property / get_property / unset_property ---------- *)
Definition apply_getter (g : getk) (v : option fval) : option fval := v.   (* tuple(tuple) is the same value *)

(* <Element>.get_property(p): rebuild the flat sliver from the node's properties, call get_<p>() *)
Definition get_property (k : kind) (p : string) (d : props) : res (option fval) :=
  bind (from_props k d) (fun a =>
    match find_getter k p with
    | None => Err ExAttribute
    | Some (x, g) => match alookup x a with
                     | Some v => Ok (apply_getter g v)
                     | None => Err ExAttribute
                     end
    end).

(* ModelElement.unset_property(p) on the in-memory backend (after fix 152c89b an absent property is a no-op) *)
Definition unset_property (p : string) (d : props) : res props :=
  match alookup p sliver_property_to_graph with
  | None => Ok d
  | Some g => if mem g no_unset_properties then Err ExQuery else Ok (aremove g d)
  end.

(* <Element>.set_properties(kw=v, ...): blank sliver, setters, to_props, update_node_properties *)
Fixpoint blank_with (k : kind) (kvs : list (string * option fval)) (a : attrs) : res attrs :=
  match kvs with
  | [] => Ok a
  | (kw, v) :: r =>
      match find_setter k kw with
      | None => Err ExAttribute
      | Some (x, st) => bind (apply_setter st v) (fun v' => blank_with k r (aset x v' a))
      end
  end.

(* Node._complete_image_pair (proposed fix C02-4; present when the regenerated flag
   node_completes_image_pair says so): image_ref and image_type are stored as one graph property, so a
   lone half is completed with the other half read from the graph, and refused when there is none *)
Definition image_pairs : list (string * string) :=
  [("image_ref", "image_type"); ("image_type", "image_ref")]%string.

(* props.get(p): None for a missing keyword and for an explicit None *)
Definition kv_get (p : string) (kvs : list (string * option fval)) : option fval :=
  match alookup p kvs with Some (Some v) => Some v | _ => None end.

Fixpoint complete_pairs (k : kind) (d : props) (pairs : list (string * string))
         (kvs : list (string * option fval)) : res (list (string * option fval)) :=
  match pairs with
  | [] => Ok kvs
  | (one, other) :: r =>
      match kv_get one kvs, kv_get other kvs with
      | Some _, None =>
          bind (get_property k other d) (fun ov =>
            match ov with
            | None => Err ExOther                        (* TopologyException *)
            | Some w => complete_pairs k d r (aset other (Some w) kvs)   (* dict(props, other=oval) *)
            end)
      | _, _ => complete_pairs k d r kvs
      end
  end.

(* the keyword list the blank sliver is built from *)
Definition completed_kvs (complete : bool) (k : kind) (kvs : list (string * option fval)) (d : props)
  : res (list (string * option fval)) :=
  if complete && kind_eqb k KNode then complete_pairs k d image_pairs kvs else Ok kvs.

Definition set_properties_with (complete : bool) (k : kind) (kvs : list (string * option fval)) (d : props)
  : res props :=
  bind (completed_kvs complete k kvs d) (fun kvs' =>
  bind (blank_with k kvs' (blank k)) (fun a =>
    bind (to_props k a) (fun pd => Ok (aupdate d pd)))).

Definition set_properties (k : kind) (kvs : list (string * option fval)) (d : props) : res props :=
  set_properties_with node_completes_image_pair k kvs d.

(* <Element>.set_property(p, v): v = None means unset *)
Definition set_property_with (complete : bool) (k : kind) (p : string) (v : option fval) (d : props) : res props :=
  match v with
  | None => unset_property p d
  | Some w => set_properties_with complete k [(p, Some w)] d
  end.

Definition set_property (k : kind) (p : string) (v : option fval) (d : props) : res props :=
  set_property_with node_completes_image_pair k p v d.

(* C12 model, part 4: ONE Delegations container as a state machine.  Delegation objects are mutable and shared
   (the container holds references; set_details on a delegation that was already added changes what the container
   encodes), so the state is a heap of Delegation objects, the container's dictionary as a list of references, and
   the texts produced so far.  A history is any sequence of: Delegation(...) [+ details], set_details on an existing
   object, add_delegations with 1..n arguments, remove_by_id, the read-only queries, to_json at any point and
   repeatedly, from_json of any earlier text.  Definitions only. *)
From Coq Require Import List ZArith NArith Bool String.
From FIM Require Import Base.Str Base.Corr Gen.DelegGen Model.Deleg12 Model.Pools12.
Import ListNotations.

Record dstate := mkDSt { dst_type : dtype;
                         dst_heap : list deleg;        (* every Delegation object created so far *)
                         dst_refs : list nat;          (* the dict `delegations`, insertion ordered *)
                         dst_texts : list (res jdoc) }.  (* results of the to_json calls so far *)

Definition dinit (ty : dtype) : dstate := mkDSt ty [] [] [].

Definition dderef (h : list deleg) (ks : list nat) : list deleg :=
  flat_map (fun k => match nth_error h k with Some d => [d] | None => [] end) ks.

(* the container as a value: what it holds NOW *)
Definition dcontent (st : dstate) : delegations := mkDs (dst_type st) (dderef (dst_heap st) (dst_refs st)).

Fixpoint dset_nth {A} (k : nat) (x : A) (l : list A) : list A :=
  match l, k with
  | [], _ => []
  | _ :: r, O => x :: r
  | y :: r, Datatypes.S k' => y :: dset_nth k' x r
  end.

Inductive dop :=
| DNew (s : spec)                          (* Delegation(...) [+ Kind(kwargs), set_details]: an object, if accepted *)
| DSet (k : nat) (kind : dtype) (dd : ddict)   (* Kind(kwargs dd), set_details on object k (added or not) *)
| DAdd (ks : list nat)                     (* add_delegations with these objects as arguments, ONE call *)
| DRemove (id : str)                       (* remove_by_id *)
| DGet (id : str)                          (* get_by_delegation_id *)
| DIds                                     (* get_delegation_ids *)
| DAsList                                    (* get_delegations_as_list *)
| DSole                                    (* get_sole_delegation *)
| DFor (id : str)                          (* return_delegations_for_id *)
| DDict (k : nat)                          (* get_details_as_dict of object k *)
| DFields (k : nat)                        (* the getters of object k: type, id, format, pool name, details *)
| DEncode                                  (* to_json *)
| DDecode (j : nat).                       (* from_json of the text the j-th to_json call returned *)

(* the arguments of one add_delegations call, by reference: the first refusal raises, earlier ones stay *)
Fixpoint dadd (h : list deleg) (ty : dtype) (refs : list nat) (ks : list nat) : list nat * option exn :=
  match ks with
  | [] => (refs, None)
  | k :: r => match nth_error h k with
              | None => (refs, Some EUnmodelled)
              | Some d => match add_delegation (mkDs ty (dderef h refs)) d with
                          | Ok _ => dadd h ty (refs ++ [k]) r
                          | Err e => (refs, Some e)
                          end
              end
  end.

Definition has_id_at (h : list deleg) (id : str) (k : nat) : bool :=
  match nth_error h k with Some d => str_eqb (d_id d) id | None => false end.

Section WithValidators.
Variable lc : str -> dval -> option exn.

Definition dstep (st : dstate) (o : dop) : dstate * val :=
  let ty := dst_type st in
  let items := dderef (dst_heap st) (dst_refs st) in
  match o with
  | DNew s =>
      match build_spec lc s with
      | (Some d, v) => (mkDSt ty (dst_heap st ++ [d]) (dst_refs st) (dst_texts st), v)
      | (None, v) => (st, v)
      end
  | DSet k kind dd =>
      match nth_error (dst_heap st) k with
      | None => (st, VNone)
      | Some d =>
          match obj_of_dict lc kind dd with
          | Err e => (st, VL [VErr (exn_name e)])
          | Ok x => match set_details d x with
                    | Ok d' => (mkDSt ty (dset_nth k d' (dst_heap st)) (dst_refs st) (dst_texts st), VL [VB true; VB true])
                    | Err e => (st, VL [VB true; VErr (exn_name e)])
                    end
          end
      end
  | DAdd ks =>
      let '(refs, oe) := dadd (dst_heap st) ty (dst_refs st) ks in
      (mkDSt ty (dst_heap st) refs (dst_texts st),
       VL [ match oe with None => VB true | Some e => VErr (exn_name e) end;
            VL (map (fun d => VS (d_id d)) (dderef (dst_heap st) refs)) ])
  | DRemove id =>
      (mkDSt ty (dst_heap st) (filter (fun k => negb (has_id_at (dst_heap st) id k)) (dst_refs st)) (dst_texts st), VB true)
  | DGet id => (st, VOpt v_deleg (find (fun d => str_eqb (d_id d) id) items))
  | DIds => (st, VL (map VS (sort_strs (map d_id items))))
  | DAsList => (st, VL (map v_deleg items))
  | DSole => (st, match items with
                  | [d] => VL [VS (d_id d); v_deleg d]
                  | _ => VErr (exn_name EDelegation)
                  end)
  | DFor id => (st, match find (fun d => str_eqb (d_id d) id) items with
                    | Some d => v_delegations (mkDs ty [d])
                    | None => VNone
                    end)
  | DDict k => (st, match nth_error (dst_heap st) k with
                    | Some d => VL [VOpt v_ddict (details_as_dict d)]
                    | None => VNone
                    end)
  | DFields k => (st, VOpt v_deleg (nth_error (dst_heap st) k))
  | DEncode =>
      let r := to_json (dcontent st) in
      (mkDSt ty (dst_heap st) (dst_refs st) (dst_texts st ++ [r]), v_res v_jdoc r)
  | DDecode j =>
      (st, match nth_error (dst_texts st) j with
           | Some (Ok doc) => v_res v_delegations (from_json lc ty doc)
           | _ => VNone
           end)
  end.

Fixpoint drun (st : dstate) (ops : list dop) : dstate * list val :=
  match ops with
  | [] => (st, [])
  | o :: r => let '(st1, v) := dstep st o in
              let '(st2, vs) := drun st1 r in (st2, v :: vs)
  end.

Definition dfinal (st : dstate) (ops : list dop) : dstate := fst (drun st ops).

End WithValidators.

(* the read-only operations *)
Definition dop_readonly (o : dop) : bool :=
  match o with
  | DGet _ | DIds | DAsList | DSole | DFor _ | DDict _ | DFields _ | DDecode _ => true
  | _ => false
  end.

(* stream "dhist" *)
Definition observe_dhist (t : verdicts) (ty : dtype) (ops : list dop) : val :=
  let '(st, vs) := drun (check_of t) (dinit ty) ops in
  VL [VL vs; v_delegations (dcontent st)].

Definition check_dhist (c : (verdicts * dtype * list dop) * val) : bool :=
  let '((t, ty, ops), o) := c in val_eqb (observe_dhist t ty ops) o.

(* Reference model of the documented property-graph interface (fim/graph/abc_property_graph.py:133-432):
   executable, per graph id, WITHOUT a store and WITHOUT internal identifiers.  A graph is the list of
   its nodes' property dictionaries (GraphID / NodeID / Class are ordinary entries, as in the
   interface) and a list of links keyed by the NodeIDs of their end points.  A node is addressed by
   its NodeID and must be the only node of the graph carrying it; identity properties cannot be
   unset, Class cannot be changed, a NodeID is added once whatever the class; unsetting an absent
   property is a no-op; link updates require the relation to match.

   Outside the reference model (the lock-step comparison stops there, [in_spec_scope]):
   merge_nodes (cross-graph; own theorems), and operations that REWRITE GraphID or NodeID (re-homing /
   renaming; the interface gives them no meaning).

   Definitions only.  [abs_*] are the abstraction functions from the two storage models. *)
From Coq Require Import List NArith Bool.
From FIM Require Import Base.Assoc Model.Store Model.StoreDisjoint.
Import ListNotations.
Open Scope N_scope.

Definition skey := option N.                      (* NodeID of an end point, if it is a string *)
Definition sedge := (skey * skey * props)%type.
Record sgraph := mkSG { sn : list props; se : list sedge }.
Definition empty_sg : sgraph := mkSG [] [].
Definition spec := assoc sgraph.
Definition sget (sp : spec) (g : N) : sgraph :=
  match aget g sp with Some X => X | None => empty_sg end.
Definition sput (sp : spec) (g : N) (X : sgraph) : spec := aset g X sp.

Definition nid_key (ps : props) : skey :=
  match aget k_nodeid ps with Some (PV n) => Some n | _ => None end.
Definition nid_is (n : N) (ps : props) : bool := has_val ps k_nodeid n.
Definition skey_is (k : skey) (n : N) : bool := match k with Some m => N.eqb m n | None => false end.

Definition sedge_is (a b : N) (e : sedge) : bool :=
  let '(x, y, _) := e in (skey_is x a && skey_is y b) || (skey_is x b && skey_is y a).
Definition sedge_touches (a : N) (e : sedge) : bool :=
  let '(x, y, _) := e in skey_is x a || skey_is y a.

(* exactly one node with this NodeID *)
Definition sp_find (X : sgraph) (n : N) : option props :=
  match filter (nid_is n) (sn X) with [ps] => Some ps | _ => None end.

Definition sp_map_node (X : sgraph) (n : N) (f : props -> props) : sgraph :=
  mkSG (map (fun ps => if nid_is n ps then f ps else ps) (sn X)) (se X).

Definition sp_edge (X : sgraph) (a b : N) : option props :=
  match find (sedge_is a b) (se X) with Some (_, _, ps) => Some ps | None => None end.
Definition sp_map_edge (X : sgraph) (a b : N) (f : props -> props) : sgraph :=
  mkSG (sn X)
       ((fix go (l : list sedge) : list sedge :=
           match l with
           | [] => []
           | e :: r => if sedge_is a b e then (fst (fst e), snd (fst e), f (snd e)) :: r else e :: go r
           end) (se X)).

Fixpoint vals_of (l : list props) : option (list pval) :=
  match l with
  | [] => Some []
  | ps :: r => match aget k_nodeid ps, vals_of r with
               | Some v, Some l' => Some (v :: l')
               | _, _ => None
               end
  end.
Definition vals_result (l : list props) : res :=
  match vals_of l with Some v => Ok (RVals v) | None => Err EKey end.

(* ---------- node operations ---------- *)
Definition sp_get_node (X : sgraph) (n : N) : res :=
  match sp_find X n with
  | None => Err EQuery
  | Some ps => match aget k_class ps with
               | None => Err EKey
               | Some l => Ok (RNode l (aremove k_class ps))
               end
  end.

Definition sp_with_node (X : sgraph) (n : N) (guard : bool) (f : props -> props) : sgraph * res :=
  if guard then (X, Err EQuery) else
  match sp_find X n with
  | None => (X, Err EQuery)
  | Some _ => (sp_map_node X n f, Ok RUnit)
  end.

Definition sp_update_node (X : sgraph) (n p : N) (v : pval) :=
  sp_with_node X n (N.eqb p k_class) (aset p v).
Definition sp_unset_node (X : sgraph) (n p : N) :=
  sp_with_node X n (N.eqb p k_class || memN p no_unset) (aremove p).
Definition sp_update_node_props (X : sgraph) (n : N) (upd : props) :=
  sp_with_node X n (ahas k_class upd) (aupdate upd).

Definition sp_update_nodes (X : sgraph) (p : N) (v : pval) : sgraph * res :=
  match sn X with
  | [] => (X, Err EQuery)
  | _ => if N.eqb p k_class then (X, Err EQuery)
         else (mkSG (map (aset p v) (sn X)) (se X), Ok RUnit)
  end.

Definition sp_add_node (X : sgraph) (g n c : N) (ps : option props) : sgraph * res :=
  match filter (nid_is n) (sn X) with
  | _ :: _ => (X, Err EQuery)
  | [] => let base := blank_attrs g n c in
          (mkSG (sn X ++ [match ps with Some u => aupdate u base | None => base end]) (se X), Ok RUnit)
  end.

Definition sp_delete_node (X : sgraph) (n : N) : sgraph * res :=
  match sp_find X n with
  | None => (X, Err EQuery)
  | Some _ => (mkSG (filter (fun ps => negb (nid_is n ps)) (sn X))
                    (filter (fun e => negb (sedge_touches n e)) (se X)), Ok RUnit)
  end.

(* ---------- link operations ---------- *)
Definition sp_find_link (X : sgraph) (a b : N) : option props :=
  match sp_find X a, sp_find X b with
  | Some _, Some _ => sp_edge X a b
  | _, _ => None
  end.

Definition sp_get_link (X : sgraph) (a b : N) : res :=
  match sp_find_link X a b with
  | None => Err EQuery
  | Some ps => match aget k_class ps with
               | None => Err EQuery
               | Some k => Ok (RLink k (aremove k_class ps))
               end
  end.

Definition sp_with_link (X : sgraph) (a b kind : N) (guard : bool) (f : props -> props) : sgraph * res :=
  if guard then (X, Err EQuery) else
  match sp_find_link X a b with
  | None => (X, Err EQuery)
  | Some ps => if has_val ps k_class kind then (sp_map_edge X a b f, Ok RUnit) else (X, Err EQuery)
  end.

Definition sp_add_link (X : sgraph) (a rel b : N) (ps : option props) : sgraph * res :=
  match sp_find X a, sp_find X b with
  | Some _, Some _ =>
      let go := fun attrs =>
        match sp_edge X a b with
        | Some _ => (sp_map_edge X a b (aupdate attrs), Ok RUnit)
        | None => (mkSG (sn X) (se X ++ [(Some a, Some b, attrs)]), Ok RUnit)
        end in
      match ps with
      | None => go [(k_class, PV rel)]
      | Some upd => if ahas k_class upd then (X, Err EType) else go (aupdate upd [(k_class, PV rel)])
      end
  | _, _ => (X, Err EQuery)
  end.

(* ---------- listings and tests ---------- *)
Definition sp_by (X : sgraph) (preds : list (N * N)) : res :=
  vals_result (filter (matches preds) (sn X)).
Definition sp_list_ids (X : sgraph) : res :=
  match sn X with [] => Err EQuery | l => vals_result l end.
Definition sp_node_exists (X : sgraph) (n c : N) : res :=
  match filter (matches [(k_nodeid, n); (k_class, c)]) (sn X) with
  | [] => Ok (RBool false) | [_] => Ok (RBool true) | _ => Err EQuery end.
Definition sp_unique (X : sgraph) (c name : N) : res :=
  match filter (matches [(k_name, name); (k_class, c)]) (sn X) with
  | [] => Ok (RBool true) | _ => Ok (RBool false) end.
Definition sp_exists (X : sgraph) : bool := match sn X with [] => false | _ => true end.

Definition sp_matching (X Y : sgraph) : res :=
  match sp_list_ids X with
  | Err e => Err e
  | Ok (RVals mine) =>
      if negb (forallb hashable mine) then Err EType else
      matching_result mine (map (fun ps => (0, ps)) (sn Y))
  | Ok _ => Err EOther
  end.

(* ---------- graph-level operations ---------- *)
Definition key_nid (ns : list node) (k : N) : skey :=
  match aget k ns with Some ps => nid_key ps | None => None end.

Definition sp_of_igraph (stampg : option N) (ig : igraph) : sgraph :=
  mkSG (map (fun n => match stampg with Some g => aset k_graphid (PV g) (snd n) | None => snd n end) (inodes ig))
       (map (fun e => let '(a, b, ps) := e in (key_nid (inodes ig) a, key_nid (inodes ig) b, ps)) (iedges ig)).

Definition sp_import (sp : spec) (g : N) (ig : igraph) : spec * res :=
  if existsb node_id_missing (inodes ig) then (sput sp g empty_sg, Err EImport)
  else (sput sp g (sp_of_igraph (Some g) ig), Ok RUnit).

Definition sp_import_direct (sp : spec) (g : N) (ig : igraph) : spec * res :=
  (sput sp g (sp_of_igraph None ig), Ok RUnit).

Definition sp_missing (ps : props) : bool :=
  match aget k_nodeid ps with Some v => negb (truthy v) | None => true end.

(* clone = import of the source's content under the new id (a node without NodeID is refused, after the
   old content of the new id was dropped, exactly as an import would) *)
Definition sp_clone (sp : spec) (g g2 : N) : spec * res :=
  match sn (sget sp g) with
  | [] => (sp, Err EQuery)
  | l => if existsb sp_missing l then (sput sp g2 empty_sg, Err EImport)
         else (sput sp g2 (mkSG (map (aset k_graphid (PV g2)) l) (se (sget sp g))), Ok RUnit)
  end.

Definition splift (sp : spec) (g : N) (x : sgraph * res) : spec * res := (sput sp g (fst x), snd x).

Definition spec_step (sp : spec) (o : op) : spec * res :=
  match o with
  | OImport g ig => sp_import sp g ig
  | OImportDirect g ig => sp_import_direct sp g ig
  | ODelGraph g => (sput sp g empty_sg, Ok RUnit)
  | OClone g g2 => sp_clone sp g g2
  | OAddNode g n c ps => splift sp g (sp_add_node (sget sp g) g n c ps)
  | ODelNode g n => splift sp g (sp_delete_node (sget sp g) n)
  | OAddLink g a r b ps => splift sp g (sp_add_link (sget sp g) a r b ps)
  | OUpdNode g n p v => splift sp g (sp_update_node (sget sp g) n p v)
  | OUnsetNode g n p => splift sp g (sp_unset_node (sget sp g) n p)
  | OUpdNodes g p v => splift sp g (sp_update_nodes (sget sp g) p v)
  | OUpdNodeProps g n ps => splift sp g (sp_update_node_props (sget sp g) n ps)
  | OUpdLink g a b k p v => splift sp g (sp_with_link (sget sp g) a b k (N.eqb p k_class) (aset p v))
  | OUnsetLink g a b k p => splift sp g (sp_with_link (sget sp g) a b k (N.eqb p k_class) (aremove p))
  | OUpdLinkProps g a b k ps => splift sp g (sp_with_link (sget sp g) a b k (ahas k_class ps) (aupdate ps))
  | OGetNode g n => (sp, sp_get_node (sget sp g) n)
  | OGetLink g a b => (sp, sp_get_link (sget sp g) a b)
  | OByClass g c => (sp, sp_by (sget sp g) [(k_class, c)])
  | OByClassType g c t => (sp, sp_by (sget sp g) [(k_class, c); (k_type, t)])
  | OListIds g => (sp, sp_list_ids (sget sp g))
  | ONodeExists g n c => (sp, sp_node_exists (sget sp g) n c)
  | OUnique g c name => (sp, sp_unique (sget sp g) c name)
  | OGraphExists g => (sp, Ok (RBool (sp_exists (sget sp g))))
  | OMatching g g2 => (sp, sp_matching (sget sp g) (sget sp g2))
  | OMerge _ _ _ _ => (sp, Err EOther)                 (* outside the reference model *)
  end.

(* ---------- scope of the reference model ---------- *)
Definition writes_identity (ps : props) : bool := ahas k_graphid ps || ahas k_nodeid ps.
Definition is_identity (p : N) : bool := N.eqb p k_graphid || N.eqb p k_nodeid.

(* nodes handed to a direct import all carry the GraphID being imported (ABCGraphImporter.get_graph_id
   enforces it before the storage is called) *)
Definition direct_ok (g : N) (ig : igraph) : bool :=
  forallb (fun n => has_val (snd n) k_graphid g) (inodes ig).
Fixpoint nodupN (l : list N) : bool :=
  match l with [] => true | x :: r => negb (memN x r) && nodupN r end.
Definition keys_ok (ig : igraph) : bool := nodupN (map fst (inodes ig)) && edges_ok ig && links_distinct ig.

Definition in_spec_scope (o : op) : bool :=
  match o with
  | OMerge _ _ _ _ => false
  | OUpdNode _ _ p _ | OUpdNodes _ p _ => negb (is_identity p)
  | OUpdNodeProps _ _ ps => negb (writes_identity ps)
  | OAddNode _ _ _ (Some ps) => negb (writes_identity ps)
  | OImport _ ig => keys_ok ig
  | OImportDirect g ig => keys_ok ig && direct_ok g ig
  | _ => true
  end.

(* where the two storage flavours are documented to differ: the one-graph-per-id store SKIPS an
   import / clone onto an id that holds nodes (warning only) *)
Definition in_disjoint_scope (sp : spec) (o : op) : bool :=
  match o with
  | OImport g _ => negb (sp_exists (sget sp g))
  | OClone g g2 => negb (sp_exists (sget sp g)) || negb (sp_exists (sget sp g2))
  | _ => true
  end.

(* ---------- abstraction from the storage models ---------- *)
(* the reference graph of what a graph id sees: property dictionaries of its nodes in store order, links
   keyed by the NodeIDs of their end points *)
Definition abs_edge (ns : list node) (e : edge) : sedge :=
  let '(a, b, ps) := e in (key_nid ns a, key_nid ns b, ps).
Definition abs_of_view (v : list node * list edge) : sgraph :=
  mkSG (map snd (fst v)) (map (abs_edge (fst v)) (snd v)).
Definition abs_nxg (G : nxg) (g : N) : sgraph := abs_of_view (view G g).

Definition abs_shared (s : store) (g : N) : sgraph := abs_nxg (sg s) g.
Definition abs_disjoint (d : dstore) (g : N) : sgraph := abs_nxg (dget d g) g.

(* results of a whole history *)
Fixpoint sresults (s : store) (ops : list op) : list res :=
  match ops with [] => [] | o :: r => snd (sstep s o) :: sresults (fst (sstep s o)) r end.
Fixpoint dresults (d : dstore) (ops : list op) : list res :=
  match ops with [] => [] | o :: r => snd (dstep d o) :: dresults (fst (dstep d o)) r end.
Fixpoint spec_results (sp : spec) (ops : list op) : list res :=
  match ops with [] => [] | o :: r => snd (spec_step sp o) :: spec_results (fst (spec_step sp o)) r end.
Definition spec_run (ops : list op) (sp : spec) : spec := fold_left (fun sp o => fst (spec_step sp o)) ops sp.

(* the operations of the C05 quantifier that the reference model covers: node / link / property
   operations, listings, tests, matching, delete graph - not merge, and no rewriting of GraphID / NodeID *)
Definition refine_scope0 (o : op) : bool :=
  match o with
  | OImport _ _ | OImportDirect _ _ | OClone _ _ | OMerge _ _ _ _ => false
  | _ => in_spec_scope o
  end.

(* ... plus the storage operations import / direct import / clone (imported graphs are networkx graphs:
   distinct node keys, links join their own nodes, one link per pair) *)
Definition refine_scope (o : op) : bool :=
  match o with OMerge _ _ _ _ => false | _ => in_spec_scope o end.

(* the steps at which the one-graph-per-id store is in the reference model's domain (see in_disjoint_scope) *)
Fixpoint disjoint_scope_run (sp : spec) (ops : list op) : bool :=
  match ops with
  | [] => true
  | o :: r => in_disjoint_scope sp o && disjoint_scope_run (fst (spec_step sp o)) r
  end.

(* ---------- comparison used by the lock-step cases ---------- *)
Definition skey_eqb (a b : skey) : bool :=
  match a, b with Some x, Some y => N.eqb x y | None, None => true | _, _ => false end.
Definition sedge_eqb (a b : sedge) : bool :=
  let '(a1, b1, p1) := a in let '(a2, b2, p2) := b in
  ((skey_eqb a1 a2 && skey_eqb b1 b2) || (skey_eqb a1 b2 && skey_eqb b1 a2)) && props_eqb p1 p2.
Definition sgraph_eqb (X Y : sgraph) : bool :=
  list_eqb props_eqb (sn X) (sn Y) && perm_eqb sedge_eqb (se X) (se Y).

(* one lock-step step: operation, (result, snapshot) of the shared backend, of the disjoint backend *)
Definition lstep_obs := (op * (res * option nxg) * (res * option dsnap))%type.

Definition gids_of (o : op) : list N :=
  match o with OClone g g2 | OMatching g g2 | OMerge g _ g2 _ => [g; g2] | _ => [target o] end.

(* ------------------------------------------------------------------------------------------ *)
(* the reference model extended by cross-graph links, just enough to follow merge_nodes:          *)
(* a link whose two ends are nodes of DIFFERENT graphs (what merge_nodes leaves between the         *)
(* surviving node and the other graph's neighbours until those are merged or re-homed) is kept     *)
(* beside the per-graph states, its ends named by (graph id, NodeID).  No graph sees it; it        *)
(* matters when a later merge brings both ends into one graph, and it dies with either end.        *)
(* For merge-free histories [xl] stays empty and [xspec_step] is [spec_step].                      *)
(* ------------------------------------------------------------------------------------------ *)
Definition xend := (N * skey)%type.
Definition xlink := (xend * xend * props)%type.
Record xspec := mkX { xs : spec; xl : list xlink }.
Definition init_xspec : xspec := mkX [] [].

Definition xend_eqb (a b : xend) : bool := N.eqb (fst a) (fst b) && skey_eqb (snd a) (snd b).
Definition xlink_touches (e : xend) (l : xlink) : bool :=
  let '(a, b, _) := l in xend_eqb a e || xend_eqb b e.
Definition xlink_in_graph (g : N) (l : xlink) : bool :=
  let '(a, b, _) := l in N.eqb (fst a) g || N.eqb (fst b) g.
Definition xlink_is (a b : xend) (l : xlink) : bool :=
  let '(x, y, _) := l in (xend_eqb x a && xend_eqb y b) || (xend_eqb x b && xend_eqb y a).

Definition is_ok (r : res) : bool := match r with Ok _ => true | Err _ => false end.

(* operations that delete nodes take their cross-graph links along *)
Definition x_maintain (l : list xlink) (o : op) (r : res) : list xlink :=
  match o with
  | ODelNode g n => if is_ok r then filter (fun x => negb (xlink_touches (g, Some n) x)) l else l
  | ODelGraph g | OImport g _ | OImportDirect g _ => filter (fun x => negb (xlink_in_graph g x)) l
  | OClone _ g2 => match r with
                   | Err EQuery => l
                   | _ => filter (fun x => negb (xlink_in_graph g2 x)) l
                   end
  | _ => l
  end.

Definition strip_c (ps : props) : props := drop_key k_contraction ps.

(* one link of the merged node v = (g2, n), re-homed to u = (g, n); [other] is its far end.
   A link the surviving node already has is kept as it is. *)
Definition x_rehome (g n : N) (acc : sgraph * list xlink) (far : xend) (ps : props) : sgraph * list xlink :=
  let '(Xg, l) := acc in
  if N.eqb (fst far) g then
    match snd far with
    | Some y => match sp_edge Xg n y with
                | Some _ => (Xg, l)
                | None => (mkSG (sn Xg) (se Xg ++ [(Some n, Some y, ps)]), l)
                end
    | None => (mkSG (sn Xg) (se Xg ++ [(Some n, None, ps)]), l)
    end
  else if existsb (xlink_is (g, Some n) far) l then (Xg, l)
       else (Xg, l ++ [((g, Some n), far, ps)]).

Definition x_merge (X : xspec) (g n g2 : N) (pol : option (list (N * N))) : xspec * res :=
  let sp := xs X in
  if N.eqb g g2 then (X, Err EOther) else
  if negb (sp_exists (sget sp g2)) then (X, Err EAssert) else
  match sp_find (sget sp g) n, sp_find (sget sp g2) n with
  | Some mine, Some other =>
      let np := match pol with
                | None => Some mine
                | Some p => merge_props p mine other mine
                end in
      match np with
      | None => (X, Err EKey)
      | Some np =>
          let Xg2 := sget sp g2 in
          let v := (g2, Some n) in
          (* the other graph loses the node and the links it had inside that graph *)
          let Xg2' := mkSG (filter (fun ps => negb (nid_is n ps)) (sn Xg2))
                           (filter (fun e => negb (sedge_touches n e)) (se Xg2)) in
          let inside := filter (sedge_touches n) (se Xg2) in
          let crossing := filter (xlink_touches v) (xl X) in
          let l0 := filter (fun x => negb (xlink_touches v x)) (xl X) in
          (* links inside the other graph become links from the survivor into the other graph (or a self-link) *)
          let acc1 := fold_left (fun acc e => let '(a, b, ps) := e in
                                              let y := if skey_is a n then b else a in
                                              let far := if skey_is y n then (g, Some n) else (g2, y) in
                                              x_rehome g n acc far ps) inside (sget sp g, l0) in
          (* its cross-graph links follow *)
          let acc2 := fold_left (fun acc x => let '(a, b, ps) := x in
                                              let far := if xend_eqb a v then b else a in
                                              x_rehome g n acc far ps) crossing acc1 in
          let '(Xg, l2) := acc2 in
          (* the survivor's links lose networkx's bookkeeping, the survivor gets the merged properties *)
          let Xg' := mkSG (map (fun ps => if nid_is n ps then np else ps) (sn Xg))
                          (map (fun e => if sedge_touches n e then (fst (fst e), snd (fst e), strip_c (snd e)) else e) (se Xg)) in
          let l3 := map (fun x => if xlink_touches (g, Some n) x then (fst (fst x), snd (fst x), strip_c (snd x)) else x) l2 in
          (mkX (sput (sput sp g2 Xg2') g Xg') l3, Ok RUnit)
      end
  | _, _ => (X, Err EQuery)
  end.

Definition xspec_step (X : xspec) (o : op) : xspec * res :=
  match o with
  | OMerge g n g2 pol => x_merge X g n g2 pol
  | _ => let '(sp', r) := spec_step (xs X) o in (mkX sp' (x_maintain (xl X) o r), r)
  end.

Definition xscope (o : op) : bool :=
  match o with
  | OMerge _ _ _ None => true
  | OMerge _ _ _ (Some pol) => negb (ahas k_graphid pol) && negb (ahas k_nodeid pol)
  | _ => in_spec_scope o
  end.

(* the cross-graph links of a store, ends named by (graph id, NodeID) *)
Definition node_gid (G : nxg) (i : N) : option N :=
  match nx_node G i with
  | Some ps => match aget k_graphid ps with Some (PV g) => Some g | _ => None end
  | None => None
  end.
Definition node_nidkey (G : nxg) (i : N) : skey :=
  match nx_node G i with Some ps => nid_key ps | None => None end.
Fixpoint abs_cross_from (G : nxg) (l : list edge) : list xlink :=
  match l with
  | [] => []
  | (a, b, ps) :: r =>
      match node_gid G a, node_gid G b with
      | Some ga, Some gb => if N.eqb ga gb then abs_cross_from G r
                            else ((ga, node_nidkey G a), (gb, node_nidkey G b), ps) :: abs_cross_from G r
      | _, _ => abs_cross_from G r
      end
  end.
Definition abs_cross (G : nxg) : list xlink := abs_cross_from G (ge G).
Definition xlink_eqb (a b : xlink) : bool :=
  let '(a1, b1, p1) := a in let '(a2, b2, p2) := b in
  ((xend_eqb a1 a2 && xend_eqb b1 b2) || (xend_eqb a1 b2 && xend_eqb b1 a2)) && props_eqb p1 p2.

(* models vs their implementations at every step; the (extended) reference model vs the shared store as
   long as the history stays inside [xscope], vs the one-graph-per-id store as long as it stays inside
   [in_spec_scope] and [in_disjoint_scope] (a merge ends that): results equal, the abstraction of the
   store equals the reference state on every graph id seen so far, the store's cross-graph links are
   the reference's *)
Fixpoint check_lock_from (s : store) (d : dstore) (X : xspec) (live_s live_d : bool) (seen : list N)
         (ls : nxg) (ld : dsnap) (l : list lstep_obs) : bool :=
  match l with
  | [] => true
  | (o, (rs, ss), (rd, sd)) :: rest =>
      let '(s', rs') := sstep s o in
      let '(d', rd') := dstep d o in
      let cs := match ss with Some x => x | None => ls end in
      let cd := match sd with Some x => x | None => ld end in
      let live_s' := live_s && xscope o in
      let live_d' := live_d && in_spec_scope o && in_disjoint_scope (xs X) o in
      let '(X', rsp) := xspec_step X o in
      let seen' := gids_of o ++ seen in
      res_eqb rs' rs && nxg_eqb (sg s') cs && res_eqb rd' rd && dsnap_eqb d' cd &&
      (if live_s' then
         res_eqb rsp rs && forallb (fun g => sgraph_eqb (abs_shared s' g) (sget (xs X') g)) seen' &&
         perm_eqb xlink_eqb (abs_cross (sg s')) (xl X')
       else true) &&
      (if live_d' then
         res_eqb rsp rd && forallb (fun g => sgraph_eqb (abs_disjoint d' g) (sget (xs X') g)) seen'
       else true) &&
      check_lock_from s' d' X' live_s' live_d' seen' cs cd rest
  end.

Definition check_lock (l : list lstep_obs) : bool :=
  check_lock_from init_store init_dstore init_xspec true true [] empty_nxg [] l.

(* Reference model of the documented property-graph interface (fim/graph/abc_property_graph.py:133-432):
   executable, per graph id, WITHOUT a store and WITHOUT internal identifiers.  A graph is the list of
   its nodes' property dictionaries (GraphID / NodeID / Class are ordinary entries, as in the
   interface) and a list of links keyed by the NodeIDs of their end points.  A node is addressed by
   its NodeID and must be the only node of the graph carrying it; identity properties cannot be
   unset, Class cannot be changed, a NodeID is added once whatever the class; unsetting an absent
   property is a no-op; link updates require the relation to match.

   Outside the reference model (the lock-step comparison stops there, [in_spec_scope]):
   merge_nodes (cross-graph; own theorems), and operations that REWRITE GraphID or NodeID (re-homing /
   renaming; the interface gives them no meaning).

   Definitions only.  [abs_*] are the abstraction functions from the two storage models. *)
From Coq Require Import List NArith Bool.
From FIM Require Import Base.Assoc Model.Store Model.StoreDisjoint.
Import ListNotations.
Open Scope N_scope.

Definition skey := option N.                      (* NodeID of an end point, if it is a string *)
Definition sedge := (skey * skey * props)%type.
Record sgraph := mkSG { sn : list props; se : list sedge }.
Definition empty_sg : sgraph := mkSG [] [].
Definition spec := assoc sgraph.
Definition sget (sp : spec) (g : N) : sgraph :=
  match aget g sp with Some X => X | None => empty_sg end.
Definition sput (sp : spec) (g : N) (X : sgraph) : spec := aset g X sp.

Definition nid_key (ps : props) : skey :=
  match aget k_nodeid ps with Some (PV n) => Some n | _ => None end.
Definition nid_is (n : N) (ps : props) : bool := has_val ps k_nodeid n.
Definition skey_is (k : skey) (n : N) : bool := match k with Some m => N.eqb m n | None => false end.

Definition sedge_is (a b : N) (e : sedge) : bool :=
  let '(x, y, _) := e in (skey_is x a && skey_is y b) || (skey_is x b && skey_is y a).
Definition sedge_touches (a : N) (e : sedge) : bool :=
  let '(x, y, _) := e in skey_is x a || skey_is y a.

(* exactly one node with this NodeID *)
Definition sp_find (X : sgraph) (n : N) : option props :=
  match filter (nid_is n) (sn X) with [ps] => Some ps | _ => None end.

Definition sp_map_node (X : sgraph) (n : N) (f : props -> props) : sgraph :=
  mkSG (map (fun ps => if nid_is n ps then f ps else ps) (sn X)) (se X).

Definition sp_edge (X : sgraph) (a b : N) : option props :=
  match find (sedge_is a b) (se X) with Some (_, _, ps) => Some ps | None => None end.
Definition sp_map_edge (X : sgraph) (a b : N) (f : props -> props) : sgraph :=
  mkSG (sn X)
       ((fix go (l : list sedge) : list sedge :=
           match l with
           | [] => []
           | e :: r => if sedge_is a b e then (fst (fst e), snd (fst e), f (snd e)) :: r else e :: go r
           end) (se X)).

Fixpoint vals_of (l : list props) : option (list pval) :=
  match l with
  | [] => Some []
  | ps :: r => match aget k_nodeid ps, vals_of r with
               | Some v, Some l' => Some (v :: l')
               | _, _ => None
               end
  end.
Definition vals_result (l : list props) : res :=
  match vals_of l with Some v => Ok (RVals v) | None => Err EKey end.

(* ---------- node operations ---------- *)
Definition sp_get_node (X : sgraph) (n : N) : res :=
  match sp_find X n with
  | None => Err EQuery
  | Some ps => match aget k_class ps with
               | None => Err EKey
               | Some l => Ok (RNode l (aremove k_class ps))
               end
  end.

Definition sp_with_node (X : sgraph) (n : N) (guard : bool) (f : props -> props) : sgraph * res :=
  if guard then (X, Err EQuery) else
  match sp_find X n with
  | None => (X, Err EQuery)
  | Some _ => (sp_map_node X n f, Ok RUnit)
  end.

Definition sp_update_node (X : sgraph) (n p : N) (v : pval) :=
  sp_with_node X n (N.eqb p k_class) (aset p v).
Definition sp_unset_node (X : sgraph) (n p : N) :=
  sp_with_node X n (N.eqb p k_class || memN p no_unset) (aremove p).
Definition sp_update_node_props (X : sgraph) (n : N) (upd : props) :=
  sp_with_node X n (ahas k_class upd) (aupdate upd).

Definition sp_update_nodes (X : sgraph) (p : N) (v : pval) : sgraph * res :=
  match sn X with
  | [] => (X, Err EQuery)
  | _ => if N.eqb p k_class then (X, Err EQuery)
         else (mkSG (map (aset p v) (sn X)) (se X), Ok RUnit)
  end.

Definition sp_add_node (X : sgraph) (g n c : N) (ps : option props) : sgraph * res :=
  match filter (nid_is n) (sn X) with
  | _ :: _ => (X, Err EQuery)
  | [] => let base := blank_attrs g n c in
          (mkSG (sn X ++ [match ps with Some u => aupdate u base | None => base end]) (se X), Ok RUnit)
  end.

Definition sp_delete_node (X : sgraph) (n : N) : sgraph * res :=
  match sp_find X n with
  | None => (X, Err EQuery)
  | Some _ => (mkSG (filter (fun ps => negb (nid_is n ps)) (sn X))
                    (filter (fun e => negb (sedge_touches n e)) (se X)), Ok RUnit)
  end.

(* ---------- link operations ---------- *)
Definition sp_find_link (X : sgraph) (a b : N) : option props :=
  match sp_find X a, sp_find X b with
  | Some _, Some _ => sp_edge X a b
  | _, _ => None
  end.

Definition sp_get_link (X : sgraph) (a b : N) : res :=
  match sp_find_link X a b with
  | None => Err EQuery
  | Some ps => match aget k_class ps with
               | None => Err EQuery
               | Some k => Ok (RLink k (aremove k_class ps))
               end
  end.

Definition sp_with_link (X : sgraph) (a b kind : N) (guard : bool) (f : props -> props) : sgraph * res :=
  if guard then (X, Err EQuery) else
  match sp_find_link X a b with
  | None => (X, Err EQuery)
  | Some ps => if has_val ps k_class kind then (sp_map_edge X a b f, Ok RUnit) else (X, Err EQuery)
  end.

Definition sp_add_link (X : sgraph) (a rel b : N) (ps : option props) : sgraph * res :=
  match sp_find X a, sp_find X b with
  | Some _, Some _ =>
      let go := fun attrs =>
        match sp_edge X a b with
        | Some _ => (sp_map_edge X a b (aupdate attrs), Ok RUnit)
        | None => (mkSG (sn X) (se X ++ [(Some a, Some b, attrs)]), Ok RUnit)
        end in
      match ps with
      | None => go [(k_class, PV rel)]
      | Some upd => if ahas k_class upd then (X, Err EType) else go (aupdate upd [(k_class, PV rel)])
      end
  | _, _ => (X, Err EQuery)
  end.

(* ---------- listings and tests ---------- *)
Definition sp_by (X : sgraph) (preds : list (N * N)) : res :=
  vals_result (filter (matches preds) (sn X)).
Definition sp_list_ids (X : sgraph) : res :=
  match sn X with [] => Err EQuery | l => vals_result l end.
Definition sp_node_exists (X : sgraph) (n c : N) : res :=
  match filter (matches [(k_nodeid, n); (k_class, c)]) (sn X) with
  | [] => Ok (RBool false) | [_] => Ok (RBool true) | _ => Err EQuery end.
Definition sp_unique (X : sgraph) (c name : N) : res :=
  match filter (matches [(k_name, name); (k_class, c)]) (sn X) with
  | [] => Ok (RBool true) | _ => Ok (RBool false) end.
Definition sp_exists (X : sgraph) : bool := match sn X with [] => false | _ => true end.

Definition sp_matching (X Y : sgraph) : res :=
  match sp_list_ids X with
  | Err e => Err e
  | Ok (RVals mine) =>
      if negb (forallb hashable mine) then Err EType else
      matching_result mine (map (fun ps => (0, ps)) (sn Y))
  | Ok _ => Err EOther
  end.

(* ---------- graph-level operations ---------- *)
Definition key_nid (ns : list node) (k : N) : skey :=
  match aget k ns with Some ps => nid_key ps | None => None end.

Definition sp_of_igraph (stampg : option N) (ig : igraph) : sgraph :=
  mkSG (map (fun n => match stampg with Some g => aset k_graphid (PV g) (snd n) | None => snd n end) (inodes ig))
       (map (fun e => let '(a, b, ps) := e in (key_nid (inodes ig) a, key_nid (inodes ig) b, ps)) (iedges ig)).

Definition sp_import (sp : spec) (g : N) (ig : igraph) : spec * res :=
  if existsb node_id_missing (inodes ig) then (sput sp g empty_sg, Err EImport)
  else (sput sp g (sp_of_igraph (Some g) ig), Ok RUnit).

Definition sp_import_direct (sp : spec) (g : N) (ig : igraph) : spec * res :=
  (sput sp g (sp_of_igraph None ig), Ok RUnit).

Definition sp_clone (sp : spec) (g g2 : N) : spec * res :=
  match sn (sget sp g) with
  | [] => (sp, Err EAttr)
  | l => (sput sp g2 (mkSG (map (aset k_graphid (PV g2)) l) (se (sget sp g))), Ok RUnit)
  end.

Definition splift (sp : spec) (g : N) (x : sgraph * res) : spec * res := (sput sp g (fst x), snd x).

Definition spec_step (sp : spec) (o : op) : spec * res :=
  match o with
  | OImport g ig => sp_import sp g ig
  | OImportDirect g ig => sp_import_direct sp g ig
  | ODelGraph g => (sput sp g empty_sg, Ok RUnit)
  | OClone g g2 => sp_clone sp g g2
  | OAddNode g n c ps => splift sp g (sp_add_node (sget sp g) g n c ps)
  | ODelNode g n => splift sp g (sp_delete_node (sget sp g) n)
  | OAddLink g a r b ps => splift sp g (sp_add_link (sget sp g) a r b ps)
  | OUpdNode g n p v => splift sp g (sp_update_node (sget sp g) n p v)
  | OUnsetNode g n p => splift sp g (sp_unset_node (sget sp g) n p)
  | OUpdNodes g p v => splift sp g (sp_update_nodes (sget sp g) p v)
  | OUpdNodeProps g n ps => splift sp g (sp_update_node_props (sget sp g) n ps)
  | OUpdLink g a b k p v => splift sp g (sp_with_link (sget sp g) a b k (N.eqb p k_class) (aset p v))
  | OUnsetLink g a b k p => splift sp g (sp_with_link (sget sp g) a b k (N.eqb p k_class) (aremove p))
  | OUpdLinkProps g a b k ps => splift sp g (sp_with_link (sget sp g) a b k (ahas k_class ps) (aupdate ps))
  | OGetNode g n => (sp, sp_get_node (sget sp g) n)
  | OGetLink g a b => (sp, sp_get_link (sget sp g) a b)
  | OByClass g c => (sp, sp_by (sget sp g) [(k_class, c)])
  | OByClassType g c t => (sp, sp_by (sget sp g) [(k_class, c); (k_type, t)])
  | OListIds g => (sp, sp_list_ids (sget sp g))
  | ONodeExists g n c => (sp, sp_node_exists (sget sp g) n c)
  | OUnique g c name => (sp, sp_unique (sget sp g) c name)
  | OGraphExists g => (sp, Ok (RBool (sp_exists (sget sp g))))
  | OMatching g g2 => (sp, sp_matching (sget sp g) (sget sp g2))
  | OMerge _ _ _ _ => (sp, Err EOther)                 (* outside the reference model *)
  end.

(* ---------- scope of the reference model ---------- *)
Definition writes_identity (ps : props) : bool := ahas k_graphid ps || ahas k_nodeid ps.
Definition is_identity (p : N) : bool := N.eqb p k_graphid || N.eqb p k_nodeid.

(* nodes handed to a direct import all carry the GraphID being imported (ABCGraphImporter.get_graph_id
   enforces it before the storage is called) *)
Definition direct_ok (g : N) (ig : igraph) : bool :=
  forallb (fun n => has_val (snd n) k_graphid g) (inodes ig).
Fixpoint nodupN (l : list N) : bool :=
  match l with [] => true | x :: r => negb (memN x r) && nodupN r end.
Definition keys_ok (ig : igraph) : bool := nodupN (map fst (inodes ig)) && edges_ok ig.

Definition in_spec_scope (o : op) : bool :=
  match o with
  | OMerge _ _ _ _ => false
  | OUpdNode _ _ p _ | OUpdNodes _ p _ => negb (is_identity p)
  | OUpdNodeProps _ _ ps => negb (writes_identity ps)
  | OAddNode _ _ _ (Some ps) => negb (writes_identity ps)
  | OImport _ ig => keys_ok ig
  | OImportDirect g ig => keys_ok ig && direct_ok g ig
  | _ => true
  end.

(* where the two storage flavours are documented to differ: the one-graph-per-id store SKIPS an
   import / clone onto an id that holds nodes (warning only) and treats a graph without nodes as an
   existing empty graph (clone source) *)
Definition in_disjoint_scope (sp : spec) (o : op) : bool :=
  match o with
  | OImport g _ => negb (sp_exists (sget sp g))
  | OClone g g2 => sp_exists (sget sp g) && negb (sp_exists (sget sp g2))
  | _ => true
  end.

(* ---------- abstraction from the storage models ---------- *)
(* the reference graph of what a graph id sees: property dictionaries of its nodes in store order, links
   keyed by the NodeIDs of their end points *)
Definition abs_edge (ns : list node) (e : edge) : sedge :=
  let '(a, b, ps) := e in (key_nid ns a, key_nid ns b, ps).
Definition abs_of_view (v : list node * list edge) : sgraph :=
  mkSG (map snd (fst v)) (map (abs_edge (fst v)) (snd v)).
Definition abs_nxg (G : nxg) (g : N) : sgraph := abs_of_view (view G g).

Definition abs_shared (s : store) (g : N) : sgraph := abs_nxg (sg s) g.
Definition abs_disjoint (d : dstore) (g : N) : sgraph := abs_nxg (dget d g) g.

(* results of a whole history *)
Fixpoint sresults (s : store) (ops : list op) : list res :=
  match ops with [] => [] | o :: r => snd (sstep s o) :: sresults (fst (sstep s o)) r end.
Fixpoint dresults (d : dstore) (ops : list op) : list res :=
  match ops with [] => [] | o :: r => snd (dstep d o) :: dresults (fst (dstep d o)) r end.
Fixpoint spec_results (sp : spec) (ops : list op) : list res :=
  match ops with [] => [] | o :: r => snd (spec_step sp o) :: spec_results (fst (spec_step sp o)) r end.
Definition spec_run (ops : list op) (sp : spec) : spec := fold_left (fun sp o => fst (spec_step sp o)) ops sp.

(* the operations of the C05 quantifier that the reference model covers: node / link / property
   operations, listings, tests, matching, delete graph - not merge, not import / clone (C04), and no
   rewriting of GraphID / NodeID *)
Definition refine_scope (o : op) : bool :=
  match o with
  | OImport _ _ | OImportDirect _ _ | OClone _ _ | OMerge _ _ _ _ => false
  | _ => in_spec_scope o
  end.

(* ---------- comparison used by the lock-step cases ---------- *)
Definition skey_eqb (a b : skey) : bool :=
  match a, b with Some x, Some y => N.eqb x y | None, None => true | _, _ => false end.
Definition sedge_eqb (a b : sedge) : bool :=
  let '(a1, b1, p1) := a in let '(a2, b2, p2) := b in
  ((skey_eqb a1 a2 && skey_eqb b1 b2) || (skey_eqb a1 b2 && skey_eqb b1 a2)) && props_eqb p1 p2.
Definition sgraph_eqb (X Y : sgraph) : bool :=
  list_eqb props_eqb (sn X) (sn Y) && perm_eqb sedge_eqb (se X) (se Y).

(* one lock-step step: operation, (result, snapshot) of the shared backend, of the disjoint backend *)
Definition lstep_obs := (op * (res * option nxg) * (res * option dsnap))%type.

Definition gids_of (o : op) : list N :=
  match o with OClone g g2 | OMatching g g2 | OMerge g _ g2 _ => [g; g2] | _ => [target o] end.

(* models vs their implementations at every step; the reference model vs both as long as the history
   stays inside its scope ([live]): results equal and the abstraction of both stores equals the
   reference state on every graph id seen so far *)
Fixpoint check_lock_from (s : store) (d : dstore) (sp : spec) (live : bool) (seen : list N)
         (ls : nxg) (ld : dsnap) (l : list lstep_obs) : bool :=
  match l with
  | [] => true
  | (o, (rs, ss), (rd, sd)) :: rest =>
      let '(s', rs') := sstep s o in
      let '(d', rd') := dstep d o in
      let cs := match ss with Some x => x | None => ls end in
      let cd := match sd with Some x => x | None => ld end in
      let live' := live && in_spec_scope o && in_disjoint_scope sp o in
      let '(sp', rsp) := spec_step sp o in
      let seen' := gids_of o ++ seen in
      res_eqb rs' rs && nxg_eqb (sg s') cs && res_eqb rd' rd && dsnap_eqb d' cd &&
      (if live' then
         res_eqb rsp rs && res_eqb rsp rd &&
         forallb (fun g => sgraph_eqb (abs_shared s' g) (sget sp' g) &&
                           sgraph_eqb (abs_disjoint d' g) (sget sp' g)) seen'
       else true) &&
      check_lock_from s' d' sp' live' seen' cs cd rest
  end.

Definition check_lock (l : list lstep_obs) : bool :=
  check_lock_from init_store init_dstore [] true [] empty_nxg [] l.

(* Shared in-memory store of FIM property graphs: executable model (definitions only).

   Mirrors fim/graph/networkx_property_graph.py
     - NetworkXGraphStorage.__NetworkXGraphStorage   (one nx.Graph for all graphs, start_id allocator)
     - NetworkXPropertyGraph                         (the graph-object methods)
   and fim/graph/networkx_mixin.py (_find_node, _find_all_nodes, _collect_nodeids).

   Conventions
     * every Python string (graph id, node id, class, relation, property name, property value) is
       interned to N by the harness with ONE injective table, so Python `==` on strings is N.eqb;
       the names the code treats specially are fixed:  GraphID=0 NodeID=1 Class=2 Type=3 Name=4
       'contraction'=5 and the merge policies discard=70 overwrite=71 combine=72.
     * a property value is a [pval]: an interned string, None, a Python list (merge 'combine') or
       the dictionary networkx stores under 'contraction' on an edge that absorbed another edge.
     * a property dictionary is an [assoc] kept in key order (Base/Assoc.v); key order of a dict
       is never behaviourally relevant in this code.
     * [nxg] is one nx.Graph: nodes in insertion order (observable through relabelling on import
       and through the order of listings), edges as an unordered collection of unordered pairs.
     * exceptions are values ([Err e]); effects that happen before a raise stay in the state.
   The graph-object methods are written once over [nxg] ("pg_*") and used by both storage
   flavours (Model/StoreDisjoint.v instantiates them per graph id), as the Python class
   NetworkXPropertyGraphDisjoint inherits them from NetworkXPropertyGraph. *)
From Coq Require Import List NArith Bool.
From FIM Require Import Base.Assoc.
Import ListNotations.
Open Scope N_scope.

(* ------------------------------------------------------------------------------------------ *)
(* values, property dictionaries, exceptions, results                                          *)
(* ------------------------------------------------------------------------------------------ *)

Inductive pval :=
| PV (n : N)                                   (* interned str *)
| PNone                                        (* None *)
| PL (l : list pval)                           (* list *)
| PC (l : list (N * N * list (N * pval))).     (* {(prev_w, prev_x): edge dict}, sorted by key *)

Definition props := assoc pval.

Definition k_graphid : N := 0.
Definition k_nodeid  : N := 1.
Definition k_class   : N := 2.     (* NetworkXMixin.NETWORKX_LABEL = 'Class' *)
Definition k_type    : N := 3.
Definition k_name    : N := 4.
Definition k_contraction : N := 5.
Definition s_discard : N := 70.
Definition s_overwrite : N := 71.
Definition s_combine : N := 72.

(* ABCPropertyGraph.NO_UNSET_PROPERTIES; Gen/PGConst.v regenerates the list from the source and
   Proofs/ checks that it is this one *)
Definition no_unset : list N := [k_graphid; k_nodeid; k_type; k_class; k_name].

(* Python `stored_value == "some string"` *)
Definition is_pv (v : pval) (n : N) : bool :=
  match v with PV m => N.eqb m n | _ => false end.
Definition has_val (ps : props) (k v : N) : bool :=
  match aget k ps with Some x => is_pv x v | None => false end.
(* Python truthiness of a stored value (only `not d.get(NodeID, None)` uses it) *)
Definition truthy (v : pval) : bool :=
  match v with PV _ => true | PNone => false | PL [] => false | PL _ => true
             | PC [] => false | PC _ => true end.
Definition hashable (v : pval) : bool :=
  match v with PV _ => true | PNone => true | _ => false end.

Inductive exn := EQuery | EImport | EKey | EAssert | EAttr | ERuntime | EType | EOther.

Inductive rval :=
| RUnit
| RBool (b : bool)
| RVals (l : list pval)                 (* list / set of node ids *)
| RNode (label : pval) (ps : props)     (* ([label], props) *)
| RLink (kind : pval) (ps : props).     (* (kind, props) *)

Inductive res := Ok (r : rval) | Err (e : exn).

(* ------------------------------------------------------------------------------------------ *)
(* nx.Graph                                                                                    *)
(* ------------------------------------------------------------------------------------------ *)

Definition node := (N * props)%type.
Definition edge := (N * N * props)%type.
Record nxg := mkG { gn : list node; ge : list edge }.
Definition empty_nxg : nxg := mkG [] [].

Definition nx_node (G : nxg) (id : N) : option props := aget id (gn G).
Definition nx_has_node (G : nxg) (id : N) : bool := ahas id (gn G).

(* replace the attribute dict of node id (in place, position kept) *)
Fixpoint set_node (id : N) (ps : props) (l : list node) : list node :=
  match l with
  | [] => []
  | (i, q) :: r => if N.eqb i id then (i, ps) :: r else (i, q) :: set_node id ps r
  end.
Definition nx_set_node (G : nxg) (id : N) (ps : props) : nxg := mkG (set_node id ps (gn G)) (ge G).

(* G.add_node(id, **attrs): a new node is appended; an existing one gets its attributes updated *)
Definition nx_add_node (G : nxg) (id : N) (attrs : props) : nxg :=
  match nx_node G id with
  | Some q => nx_set_node G id (aupdate attrs q)
  | None => mkG (gn G ++ [(id, attrs)]) (ge G)
  end.

Definition edge_is (a b : N) (e : edge) : bool :=
  let '(x, y, _) := e in (N.eqb x a && N.eqb y b) || (N.eqb x b && N.eqb y a).
Definition edge_touches (a : N) (e : edge) : bool :=
  let '(x, y, _) := e in N.eqb x a || N.eqb y a.

Definition nx_edge (G : nxg) (a b : N) : option props :=
  match find (edge_is a b) (ge G) with Some (_, _, ps) => Some ps | None => None end.

Fixpoint set_edge (a b : N) (ps : props) (l : list edge) : list edge :=
  match l with
  | [] => []
  | e :: r => if edge_is a b e then (fst (fst e), snd (fst e), ps) :: r else e :: set_edge a b ps r
  end.
Definition nx_set_edge (G : nxg) (a b : N) (ps : props) : nxg := mkG (gn G) (set_edge a b ps (ge G)).

(* G.add_edge(a, b, **attrs) (both end points exist at every call site) *)
Definition nx_add_edge (G : nxg) (a b : N) (attrs : props) : nxg :=
  match nx_edge G a b with
  | Some q => nx_set_edge G a b (aupdate attrs q)
  | None => mkG (gn G) (ge G ++ [(a, b, attrs)])
  end.

(* G.remove_node(id): the node and its incident edges *)
Definition nx_remove_node (G : nxg) (id : N) : nxg :=
  mkG (filter (fun n => negb (N.eqb (fst n) id)) (gn G))
      (filter (fun e => negb (edge_touches id e)) (ge G)).

Definition memN (x : N) (l : list N) : bool := existsb (N.eqb x) l.

Definition nx_remove_nodes (G : nxg) (ids : list N) : nxg :=
  mkG (filter (fun n => negb (memN (fst n) ids)) (gn G))
      (filter (fun e => let '(x, y, _) := e in negb (memN x ids || memN y ids)) (ge G)).

(* networkx_query.search_nodes(G, {'and': [{'eq': [k, v]} ...]}): ids in node order *)
Definition matches (preds : list (N * N)) (ps : props) : bool :=
  forallb (fun kv => has_val ps (fst kv) (snd kv)) preds.
Definition search (G : nxg) (preds : list (N * N)) : list N :=
  map fst (filter (fun n => matches preds (snd n)) (gn G)).

(* ------------------------------------------------------------------------------------------ *)
(* NetworkXMixin                                                                               *)
(* ------------------------------------------------------------------------------------------ *)

(* _find_node: exactly one node with this NodeID and GraphID *)
Definition find_node (G : nxg) (g n : N) : option N :=
  match search G [(k_nodeid, n); (k_graphid, g)] with
  | [x] => Some x
  | _ => None                      (* PropertyGraphQueryException: none / multiple matches *)
  end.

(* _find_all_nodes: raises when the graph has no node *)
Definition find_all (G : nxg) (g : N) : option (list N) :=
  match search G [(k_graphid, g)] with
  | [] => None
  | l => Some l
  end.

(* [graph.nodes[n][NODE_ID] for n in ids]  (None = KeyError) *)
Fixpoint node_ids_of (G : nxg) (ids : list N) : option (list pval) :=
  match ids with
  | [] => Some []
  | i :: r =>
      match nx_node G i with
      | Some ps => match aget k_nodeid ps, node_ids_of G r with
                   | Some v, Some l => Some (v :: l)
                   | _, _ => None
                   end
      | None => None
      end
  end.

(* ------------------------------------------------------------------------------------------ *)
(* NetworkXPropertyGraph methods over one nx.Graph  (G = storage.get_graph(graph_id))          *)
(* ------------------------------------------------------------------------------------------ *)

Definition pg_get_node (G : nxg) (g n : N) : res :=
  match find_node G g n with
  | None => Err EQuery
  | Some id =>
      match nx_node G id with
      | None => Err EOther
      | Some ps => match aget k_class ps with
                   | None => Err EKey                       (* node_props.pop('Class') *)
                   | Some l => Ok (RNode l (aremove k_class ps))
                   end
      end
  end.

(* common prefix of the link methods: both end points, then the edge *)
Definition find_link (G : nxg) (g a b : N) : option (N * N * props) :=
  match find_node G g a with
  | None => None
  | Some ia => match find_node G g b with
               | None => None
               | Some ib => match nx_edge G ia ib with
                            | None => None
                            | Some ps => Some (ia, ib, ps)
                            end
               end
  end.

Definition pg_get_link (G : nxg) (g a b : N) : res :=
  match find_link G g a b with
  | None => Err EQuery
  | Some (_, _, ps) => match aget k_class ps with
                       | None => Err EQuery
                       | Some k => Ok (RLink k (aremove k_class ps))
                       end
  end.

Definition pg_update_node (G : nxg) (g n p : N) (v : pval) : nxg * res :=
  if N.eqb p k_class then (G, Err EQuery) else
  match find_node G g n with
  | None => (G, Err EQuery)
  | Some id => match nx_node G id with
               | None => (G, Err EOther)
               | Some ps => (nx_set_node G id (aset p v ps), Ok RUnit)
               end
  end.

Definition pg_unset_node (G : nxg) (g n p : N) : nxg * res :=
  if N.eqb p k_class then (G, Err EQuery) else
  if memN p no_unset then (G, Err EQuery) else
  match find_node G g n with
  | None => (G, Err EQuery)
  | Some id => match nx_node G id with
               | None => (G, Err EOther)
               | Some ps => (nx_set_node G id (aremove p ps), Ok RUnit)   (* absent: no-op *)
               end
  end.

Definition upd_nodes (ids : list N) (p : N) (v : pval) (l : list node) : list node :=
  map (fun n => if memN (fst n) ids then (fst n, aset p v (snd n)) else n) l.

Definition pg_update_nodes (G : nxg) (g p : N) (v : pval) : nxg * res :=
  match find_all G g with
  | None => (G, Err EQuery)                              (* looked up before the Class guard *)
  | Some ids =>
      if N.eqb p k_class then (G, Err EQuery)
      else (mkG (upd_nodes ids p v (gn G)) (ge G), Ok RUnit)
  end.

(* update_node_properties / update_link_properties: node_props.update(props).  A None value in the dictionary is
   STORED as None ([PNone]) - it never clears a property, so identity properties cannot be removed this way either
   (C05_identity_kept covers it: [aupdate] keeps every key).  The single-value setters refuse None by
   `assert prop_val is not None` before anything is looked at; the harness checks that on the real code (raises,
   store unchanged) and does not pass such calls to the model. *)
Definition pg_update_node_props (G : nxg) (g n : N) (upd : props) : nxg * res :=
  if ahas k_class upd then (G, Err EQuery) else
  match find_node G g n with
  | None => (G, Err EQuery)
  | Some id => match nx_node G id with
               | None => (G, Err EOther)
               | Some ps => (nx_set_node G id (aupdate upd ps), Ok RUnit)
               end
  end.

(* the three link mutators share: guard, end points, edge, kind check *)
Definition with_link (G : nxg) (g a b kind : N) (guard : bool) (f : props -> props) : nxg * res :=
  if guard then (G, Err EQuery) else
  match find_link G g a b with
  | None => (G, Err EQuery)
  | Some (ia, ib, ps) =>
      if has_val ps k_class kind then (nx_set_edge G ia ib (f ps), Ok RUnit)
      else (G, Err EQuery)
  end.

Definition pg_update_link (G : nxg) (g a b kind p : N) (v : pval) : nxg * res :=
  with_link G g a b kind (N.eqb p k_class) (aset p v).
Definition pg_unset_link (G : nxg) (g a b kind p : N) : nxg * res :=
  with_link G g a b kind (N.eqb p k_class) (aremove p).
Definition pg_update_link_props (G : nxg) (g a b kind : N) (upd : props) : nxg * res :=
  with_link G g a b kind (ahas k_class upd) (aupdate upd).

Definition ids_result (G : nxg) (ids : list N) : res :=
  match node_ids_of G ids with Some l => Ok (RVals l) | None => Err EKey end.

Definition pg_by_class (G : nxg) (g c : N) : res :=
  ids_result G (search G [(k_graphid, g); (k_class, c)]).
Definition pg_by_class_type (G : nxg) (g c t : N) : res :=
  ids_result G (search G [(k_graphid, g); (k_class, c); (k_type, t)]).
Definition pg_list_ids (G : nxg) (g : N) : res :=
  match find_all G g with None => Err EQuery | Some ids => ids_result G ids end.

Definition pg_graph_exists (G : nxg) (g : N) : bool :=
  match search G [(k_graphid, g)] with [] => false | _ => true end.

Definition pg_node_exists (G : nxg) (g n c : N) : res :=
  match search G [(k_graphid, g); (k_nodeid, n); (k_class, c)] with
  | [] => Ok (RBool false)
  | [_] => Ok (RBool true)
  | _ => Err EQuery
  end.

Definition pg_unique (G : nxg) (g c name : N) : res :=
  match search G [(k_graphid, g); (k_name, name); (k_class, c)] with
  | [] => Ok (RBool true) | _ => Ok (RBool false) end.

Definition pg_delete_node (G : nxg) (g n : N) : nxg * res :=
  match find_node G g n with
  | None => (G, Err EQuery)
  | Some id => (nx_remove_node G id, Ok RUnit)
  end.

(* add_node: the existence test (any class); then storage.add_blank_node_to_graph(graph_id,
   Class=label, NodeID=node_id) with the internal id [newid] drawn by the storage; then
   nodes[int_id].update(props).  Returns None when nothing was allocated. *)
Definition blank_attrs (g n c : N) : props :=
  aset k_graphid (PV g) (aset k_class (PV c) (aset k_nodeid (PV n) [])).

Definition pg_add_node (G : nxg) (g newid n c : N) (ps : option props) : option nxg :=
  match search G [(k_graphid, g); (k_nodeid, n)] with
  | _ :: _ => None
  | [] =>
      let G1 := nx_add_node G newid (blank_attrs g n c) in
      match ps with
      | None => Some G1
      | Some upd => match nx_node G1 newid with
                    | Some q => Some (nx_set_node G1 newid (aupdate upd q))
                    | None => Some G1
                    end
      end
  end.

(* add_link: add_edge(a, b, Class=rel, **props); a 'Class' key in props is a TypeError
   (duplicate keyword argument) *)
Definition pg_add_link (G : nxg) (g a rel b : N) (ps : option props) : nxg * res :=
  match find_node G g a with
  | None => (G, Err EQuery)
  | Some ia =>
      match find_node G g b with
      | None => (G, Err EQuery)
      | Some ib =>
          match ps with
          | None => (nx_add_edge G ia ib [(k_class, PV rel)], Ok RUnit)
          | Some upd =>
              if ahas k_class upd then (G, Err EType)
              else (nx_add_edge G ia ib (aupdate upd [(k_class, PV rel)]), Ok RUnit)
          end
      end
  end.

(* ------------------------------------------------------------------------------------------ *)
(* import: nx.convert_node_labels_to_integers(graph, first_label) + stamping                   *)
(* ------------------------------------------------------------------------------------------ *)

(* the graph handed to add_graph: arbitrary node keys (they may collide with stored internal
   ids), node order is the order of graph.nodes() *)
Record igraph := mkI { inodes : list node; iedges : list edge }.

Fixpoint index_of (k : N) (l : list node) (i : N) : option N :=
  match l with
  | [] => None
  | (k', _) :: r => if N.eqb k k' then Some i else index_of k r (N.succ i)
  end.

Fixpoint relabel_nodes (l : list node) (i : N) : list node :=
  match l with
  | [] => []
  | (_, ps) :: r => (i, ps) :: relabel_nodes r (N.succ i)
  end.

Definition relabel_edge (ns : list node) (first : N) (e : edge) : edge :=
  let '(a, b, ps) := e in
  let f := fun k => match index_of k ns first with Some i => i | None => k end in
  (f a, f b, ps).

Definition relabel (ig : igraph) (first : N) : igraph :=
  mkI (relabel_nodes (inodes ig) first) (map (relabel_edge (inodes ig) first) (iedges ig)).

Definition node_id_missing (n : node) : bool :=
  match aget k_nodeid (snd n) with Some v => negb (truthy v) | None => true end.

Definition stamp (g : N) (l : list node) : list node :=
  map (fun n => (fst n, aset k_graphid (PV g) (snd n))) l.

(* every link of an nx.Graph joins two of its nodes (a structural fact of networkx: add_edge creates
   missing end points) - the well-formedness of the graphs handed to add_graph *)
Definition edges_ok (ig : igraph) : bool :=
  forallb (fun e => let '(a, b, _) := e in ahas a (inodes ig) && ahas b (inodes ig)) (iedges ig).

(* ... and holds at most one link per unordered pair of nodes *)
Definition same_pair (p q : N * N) : bool :=
  (N.eqb (fst p) (fst q) && N.eqb (snd p) (snd q)) || (N.eqb (fst p) (snd q) && N.eqb (snd p) (fst q)).
Fixpoint pdistb (l : list (N * N)) : bool :=
  match l with
  | [] => true
  | p :: r => forallb (fun q => negb (same_pair p q)) r && pdistb r
  end.
Definition links_distinct (ig : igraph) : bool := pdistb (map fst (iedges ig)).

(* G.add_nodes_from(nodes(data=True)); G.add_edges_from(edges(data=True)) *)
Definition nx_add_all (G : nxg) (ns : list node) (es : list edge) : nxg :=
  let G1 := fold_left (fun acc n => nx_add_node acc (fst n) (snd n)) ns G in
  fold_left (fun acc e => let '(a, b, ps) := e in nx_add_edge acc a b ps) es G1.

(* ------------------------------------------------------------------------------------------ *)
(* the shared storage: one nx.Graph + start_id                                                 *)
(* ------------------------------------------------------------------------------------------ *)

Record store := mkS { sg : nxg; snext : N }.
Definition init_store : store := mkS empty_nxg 1.

Definition s_del_graph (s : store) (g : N) : store :=
  mkS (nx_remove_nodes (sg s) (search (sg s) [(k_graphid, g)])) (snext s).

(* add_graph: replace an existing graph of this id, relabel from start_id, refuse (after the
   delete) a node without NodeID, stamp GraphID, bump start_id, add *)
Definition s_add_graph (s : store) (g : N) (ig : igraph) : store * res :=
  let s1 := s_del_graph s g in
  let t := relabel ig (snext s1) in
  if existsb node_id_missing (inodes t) then (s1, Err EImport)
  else (mkS (nx_add_all (sg s1) (stamp g (inodes t)) (iedges t))
            (snext s1 + N.of_nat (length (inodes t))), Ok RUnit).

Definition s_add_graph_direct (s : store) (g : N) (ig : igraph) : store * res :=
  let s1 := s_del_graph s g in
  let t := relabel ig (snext s1) in
  (mkS (nx_add_all (sg s1) (inodes t) (iedges t))
       (snext s1 + N.of_nat (length (inodes t))), Ok RUnit).

(* extract_graph: None when the graph has no node; else its nodes (store order) and the edges
   with both ends in it *)
Definition in_ids (ids : list N) (e : edge) : bool :=
  let '(a, b, _) := e in memN a ids && memN b ids.
Definition s_extract (G : nxg) (g : N) : option igraph :=
  match search G [(k_graphid, g)] with
  | [] => None
  | ids => Some (mkI (filter (fun n => memN (fst n) ids) (gn G)) (filter (in_ids ids) (ge G)))
  end.

Definition s_clone (s : store) (g g2 : N) : store * res :=
  match s_extract (sg s) g with
  | None => (s, Err EQuery)                  (* a graph without nodes cannot be cloned (fix fdc67eb) *)
  | Some ig => s_add_graph s g2 ig
  end.

(* ------------------------------------------------------------------------------------------ *)
(* what a graph id can see of one nx.Graph: its nodes (internal ids included) and the links whose   *)
(* two ends are among them -- the content extract_graph returns and every query filters on          *)
(* ------------------------------------------------------------------------------------------ *)
Definition in_g (g : N) (n : node) : bool := has_val (snd n) k_graphid g.
Definition ids_in (G : nxg) (g : N) : list N := map fst (filter (in_g g) (gn G)).
Definition view (G : nxg) (g : N) : list node * list edge :=
  (filter (in_g g) (gn G), filter (in_ids (ids_in G g)) (ge G)).

(* ------------------------------------------------------------------------------------------ *)
(* merge_nodes (shared store only): nx.contracted_nodes(G, u, v, copy=False), removal of the      *)
(* 'contraction' bookkeeping from the survivor's links, property policy                          *)
(* ------------------------------------------------------------------------------------------ *)

Definition pair_ltb (a b : N * N) : bool :=
  N.ltb (fst a) (fst b) || (N.eqb (fst a) (fst b) && N.ltb (snd a) (snd b)).
Fixpoint pc_insert (k : N * N) (d : props) (l : list (N * N * props)) : list (N * N * props) :=
  match l with
  | [] => [(fst k, snd k, d)]
  | (a, b, d') :: r =>
      if N.eqb a (fst k) && N.eqb b (snd k) then (a, b, d) :: r
      else if pair_ltb k (a, b) then (fst k, snd k, d) :: l
      else (a, b, d') :: pc_insert k d r
  end.

(* one edge (v, x, d) of the contracted node re-homed to u *)
Definition remap_edge (u v : N) (G : nxg) (e : edge) : nxg :=
  let '(p, q, d) := e in
  let x0 := if N.eqb p v then q else p in        (* the neighbour as seen from v *)
  let x := if N.eqb x0 v then u else x0 in
  match nx_edge G u x with
  | None => mkG (gn G) (ge G ++ [(u, x, d)])
  | Some ps =>
      let c := match aget k_contraction ps with Some (PC l) => l | _ => [] end in
      nx_set_edge G u x (aset k_contraction (PC (pc_insert (v, x0) d c)) ps)
  end.

Definition contract (G : nxg) (u v : N) : nxg :=
  let es := filter (edge_touches v) (ge G) in
  fold_left (remap_edge u v) es (nx_remove_node G v).

(* merge_nodes then pops networkx's 'contraction' bookkeeping from every link of the surviving node
   (for nbr in adj[real_node]: edges[real_node, nbr].pop('contraction', None)) *)
Definition drop_key (k : N) (ps : props) : props := filter (fun kv => negb (N.eqb (fst kv) k)) ps.
Definition strip_edge (u : N) (e : edge) : edge :=
  if edge_touches u e then (fst (fst e), snd (fst e), drop_key k_contraction (snd e)) else e.
Definition strip_contraction (u : N) (G : nxg) : nxg := mkG (gn G) (map (strip_edge u) (ge G)).

Definition policy_value (pol : N) (mine : pval) (other : option pval) : option pval :=  (* None = KeyError *)
  if N.eqb pol s_discard then Some mine
  else if N.eqb pol s_overwrite then other
  else if N.eqb pol s_combine then match other with Some o => Some (PL [mine; o]) | None => None end
  else Some PNone.

Fixpoint merge_props (pol : list (N * N)) (mine other : props) (todo : props) : option props :=
  match todo with
  | [] => Some []
  | (k, v) :: r =>
      let nv := match aget k pol with
                | None => Some v
                | Some p => policy_value p v (aget k other)
                end in
      match nv, merge_props pol mine other r with
      | Some x, Some rest => Some ((k, x) :: rest)
      | _, _ => None
      end
  end.

Definition s_merge (G : nxg) (g n g2 : N) (pol : option (list (N * N))) : nxg * res :=
  if N.eqb g g2 then (G, Err EOther) else              (* outside the model: see notes *)
  if negb (pg_graph_exists G g2) then (G, Err EAssert) else
  match find_node G g n with
  | None => (G, Err EQuery)
  | Some u =>
      match find_node G g2 n with
      | None => (G, Err EQuery)
      | Some v =>
          match nx_node G u, nx_node G v with
          | Some mine, Some other =>
              (* the merged properties are computed first (fix e66ee73): a policy that needs a property
                 the other node lacks raises KeyError before anything is modified *)
              let G1 := strip_contraction u (contract G u v) in
              match pol with
              | None => (nx_set_node G1 u mine, Ok RUnit)
              | Some p =>
                  match merge_props p mine other mine with
                  | Some np => (nx_set_node G1 u np, Ok RUnit)
                  | None => (G, Err EKey)
                  end
              end
          | _, _ => (G, Err EOther)
          end
      end
  end.

(* find_matching_nodes: set(list_all_node_ids()) & _collect_nodeids(extract_graph(other)) *)
Definition inter_vals (a b : list pval) : list pval :=
  filter (fun x => existsb (fun y => match x, y with
                                     | PV m, PV k => N.eqb m k
                                     | PNone, PNone => true
                                     | _, _ => false end) b) a.
Fixpoint dedup_vals (l : list pval) : list pval :=
  match l with
  | [] => []
  | x :: r => if existsb (fun y => match x, y with
                                   | PV m, PV k => N.eqb m k
                                   | PNone, PNone => true
                                   | _, _ => false end) r then dedup_vals r else x :: dedup_vals r
  end.

(* _collect_nodeids: nodeids.add(graph.nodes[n][NODE_ID]) node by node *)
Fixpoint collect_nodeids (l : list node) : option (list pval) + exn :=
  match l with
  | [] => inl (Some [])
  | n :: r =>
      match aget k_nodeid (snd n) with
      | None => inr EKey
      | Some v => if hashable v
                  then match collect_nodeids r with
                       | inl (Some l') => inl (Some (v :: l'))
                       | x => x
                       end
                  else inr EType
      end
  end.

Definition matching_result (mine : list pval) (other : list node) : res :=
  match collect_nodeids other with
  | inl (Some o) => Ok (RVals (dedup_vals (inter_vals mine o)))
  | inl None => Err EOther
  | inr e => Err e
  end.

Definition s_matching (G : nxg) (g g2 : N) : res :=
  match pg_list_ids G g with
  | Err e => Err e
  | Ok (RVals mine) =>
      if negb (forallb hashable mine) then Err EType else     (* set(list) *)
      match s_extract G g2 with
      | None => matching_result mine []               (* no nodes: nothing matches (fix 6383c41) *)
      | Some ig => matching_result mine (inodes ig)
      end
  | Ok _ => Err EOther
  end.

(* ------------------------------------------------------------------------------------------ *)
(* operations and the step function of the shared store                                        *)
(* ------------------------------------------------------------------------------------------ *)

Inductive op :=
| OImport (g : N) (ig : igraph)
| OImportDirect (g : N) (ig : igraph)
| ODelGraph (g : N)
| OClone (g g2 : N)
| OAddNode (g n c : N) (ps : option props)
| ODelNode (g n : N)
| OAddLink (g a r b : N) (ps : option props)
| OUpdNode (g n p : N) (v : pval)
| OUnsetNode (g n p : N)
| OUpdNodes (g p : N) (v : pval)
| OUpdNodeProps (g n : N) (ps : props)
| OUpdLink (g a b k p : N) (v : pval)
| OUnsetLink (g a b k p : N)
| OUpdLinkProps (g a b k : N) (ps : props)
| OGetNode (g n : N)
| OGetLink (g a b : N)
| OByClass (g c : N)
| OByClassType (g c t : N)
| OListIds (g : N)
| ONodeExists (g n c : N)
| OUnique (g c name : N)
| OGraphExists (g : N)
| OMatching (g g2 : N)
| OMerge (g n g2 : N) (pol : option (list (N * N))).

Definition lift (s : store) (x : nxg * res) : store * res := (mkS (fst x) (snext s), snd x).

Definition sstep (s : store) (o : op) : store * res :=
  let G := sg s in
  match o with
  | OImport g ig => s_add_graph s g ig
  | OImportDirect g ig => s_add_graph_direct s g ig
  | ODelGraph g => (s_del_graph s g, Ok RUnit)
  | OClone g g2 => s_clone s g g2
  | OAddNode g n c ps =>
      match pg_add_node G g (snext s) n c ps with
      | None => (s, Err EQuery)
      | Some G' => (mkS G' (snext s + 1), Ok RUnit)
      end
  | ODelNode g n => lift s (pg_delete_node G g n)
  | OAddLink g a r b ps => lift s (pg_add_link G g a r b ps)
  | OUpdNode g n p v => lift s (pg_update_node G g n p v)
  | OUnsetNode g n p => lift s (pg_unset_node G g n p)
  | OUpdNodes g p v => lift s (pg_update_nodes G g p v)
  | OUpdNodeProps g n ps => lift s (pg_update_node_props G g n ps)
  | OUpdLink g a b k p v => lift s (pg_update_link G g a b k p v)
  | OUnsetLink g a b k p => lift s (pg_unset_link G g a b k p)
  | OUpdLinkProps g a b k ps => lift s (pg_update_link_props G g a b k ps)
  | OGetNode g n => (s, pg_get_node G g n)
  | OGetLink g a b => (s, pg_get_link G g a b)
  | OByClass g c => (s, pg_by_class G g c)
  | OByClassType g c t => (s, pg_by_class_type G g c t)
  | OListIds g => (s, pg_list_ids G g)
  | ONodeExists g n c => (s, pg_node_exists G g n c)
  | OUnique g c name => (s, pg_unique G g c name)
  | OGraphExists g => (s, Ok (RBool (pg_graph_exists G g)))
  | OMatching g g2 => (s, s_matching G g g2)
  | OMerge g n g2 pol => lift s (s_merge G g n g2 pol)
  end.

Definition srun (ops : list op) (s : store) : store := fold_left (fun s o => fst (sstep s o)) ops s.

(* the graph id an operation is addressed to *)
Definition target (o : op) : N :=
  match o with
  | OImport g _ | OImportDirect g _ | ODelGraph g | OAddNode g _ _ _ | ODelNode g _
  | OAddLink g _ _ _ _ | OUpdNode g _ _ _ | OUnsetNode g _ _ | OUpdNodes g _ _
  | OUpdNodeProps g _ _ | OUpdLink g _ _ _ _ _ | OUnsetLink g _ _ _ _ | OUpdLinkProps g _ _ _ _
  | OGetNode g _ | OGetLink g _ _ | OByClass g _ | OByClassType g _ _ | OListIds g
  | ONodeExists g _ _ | OUnique g _ _ | OGraphExists g | OMatching g _ | OMerge g _ _ _ => g
  | OClone _ g2 => g2                 (* clone writes the NEW id; it only reads its source *)
  end.

(* operations inside the frame statement of C04: everything except merge_nodes (cross-graph by
   contract) and the operations that REWRITE the GraphID property of nodes (the deliberate re-homing
   that the property text excludes); imported graphs are networkx graphs (every link joins two of
   their nodes) and a direct import carries the graph id it is stored under on every node *)
Definition frame_scope (o : op) : bool :=
  match o with
  | OMerge _ _ _ _ => false
  | OUpdNode _ _ p _ | OUpdNodes _ p _ => negb (N.eqb p k_graphid)
  | OUpdNodeProps _ _ ps => negb (ahas k_graphid ps)
  | OAddNode _ _ _ (Some ps) => negb (ahas k_graphid ps)
  | OImport _ ig => edges_ok ig
  | OImportDirect g ig => edges_ok ig && forallb (fun n => has_val (snd n) k_graphid g) (inodes ig)
  | _ => true
  end.

(* ------------------------------------------------------------------------------------------ *)
(* observation: what the harness records and the comparison used by the cases files            *)
(* ------------------------------------------------------------------------------------------ *)

Fixpoint pval_eqb (a b : pval) : bool :=
  match a, b with
  | PV x, PV y => N.eqb x y
  | PNone, PNone => true
  | PL x, PL y =>
      (fix go (x y : list pval) : bool :=
         match x, y with
         | [], [] => true
         | u :: x', w :: y' => pval_eqb u w && go x' y'
         | _, _ => false
         end) x y
  | PC x, PC y =>
      (fix go (x y : list (N * N * list (N * pval))) : bool :=
         match x, y with
         | [], [] => true
         | (a1, b1, d1) :: x', (a2, b2, d2) :: y' =>
             N.eqb a1 a2 && N.eqb b1 b2 &&
             (fix gd (p q : list (N * pval)) : bool :=
                match p, q with
                | [], [] => true
                | (k1, v1) :: p', (k2, v2) :: q' => N.eqb k1 k2 && pval_eqb v1 v2 && gd p' q'
                | _, _ => false
                end) d1 d2 && go x' y'
         | _, _ => false
         end) x y
  | _, _ => false
  end.

Fixpoint list_eqb {A} (eqb : A -> A -> bool) (a b : list A) : bool :=
  match a, b with
  | [], [] => true
  | x :: a', y :: b' => eqb x y && list_eqb eqb a' b'
  | _, _ => false
  end.

Definition props_eqb (a b : props) : bool :=
  list_eqb (fun x y => N.eqb (fst x) (fst y) && pval_eqb (snd x) (snd y)) a b.
Definition node_eqb (a b : node) : bool := N.eqb (fst a) (fst b) && props_eqb (snd a) (snd b).
Definition edge_eqb (a b : edge) : bool :=
  let '(a1, b1, p1) := a in let '(a2, b2, p2) := b in
  ((N.eqb a1 a2 && N.eqb b1 b2) || (N.eqb a1 b2 && N.eqb b1 a2)) && props_eqb p1 p2.

(* nodes in exact order, edges as a multiset of unordered pairs *)
Definition nxg_eqb (a b : nxg) : bool :=
  list_eqb node_eqb (gn a) (gn b) && perm_eqb edge_eqb (ge a) (ge b).

Definition exn_eqb (a b : exn) : bool :=
  match a, b with
  | EQuery, EQuery | EImport, EImport | EKey, EKey | EAssert, EAssert | EAttr, EAttr
  | ERuntime, ERuntime | EType, EType | EOther, EOther => true
  | _, _ => false
  end.

Definition rval_eqb (a b : rval) : bool :=
  match a, b with
  | RUnit, RUnit => true
  | RBool x, RBool y => Bool.eqb x y
  | RVals x, RVals y => perm_eqb pval_eqb x y            (* listings are compared as multisets *)
  | RNode l p, RNode l' p' => pval_eqb l l' && props_eqb p p'
  | RLink l p, RLink l' p' => pval_eqb l l' && props_eqb p p'
  | _, _ => false
  end.
Definition res_eqb (a b : res) : bool :=
  match a, b with
  | Ok x, Ok y => rval_eqb x y
  | Err x, Err y => exn_eqb x y
  | _, _ => false
  end.

(* one recorded step: the operation, the implementation's result, and the implementation's
   whole-store snapshot after the step (None = identical to the previous snapshot) *)
Definition sstep_obs := (op * res * option nxg)%type.

Fixpoint check_shared_from (s : store) (last : nxg) (l : list sstep_obs) : bool :=
  match l with
  | [] => true
  | (o, r, snap) :: rest =>
      let '(s', r') := sstep s o in
      let cur := match snap with Some x => x | None => last end in
      res_eqb r' r && nxg_eqb (sg s') cur && check_shared_from s' cur rest
  end.

Definition check_shared (l : list sstep_obs) : bool := check_shared_from init_store empty_nxg l.

(* index of the first disagreeing step (diagnosis only) *)
Fixpoint first_bad_shared (s : store) (last : nxg) (i : N) (l : list sstep_obs) : option (N * res * nxg) :=
  match l with
  | [] => None
  | (o, r, snap) :: rest =>
      let '(s', r') := sstep s o in
      let cur := match snap with Some x => x | None => last end in
      if res_eqb r' r && nxg_eqb (sg s') cur then first_bad_shared s' cur (N.succ i) rest
      else Some (i, r', sg s')
  end.

(* ------------------------------------------------------------------------------------------ *)
(* C04's correspondence: only what isolation is about.  Every step starts from the              *)
(* implementation's own previous store (state injection), so that a difference INSIDE the       *)
(* addressed graph (C05's business, checked by C05's lock-step stream on the same model) neither *)
(* alarms here nor cascades.  Compared: for the storage operations (import, direct import,     *)
(* delete graph, clone) the whole store and start_id (not the result class); for every other operation what every  *)
(* graph id the operation is not addressed to sees (nodes, internal ids, properties, links);    *)
(* and, on the implementation's own transition, the allocator discipline (new internal ids are  *)
(* at or above the previous start_id, all ids below the new one, no id twice).                  *)
(* ------------------------------------------------------------------------------------------ *)
Definition view_eqb (a b : list node * list edge) : bool :=
  list_eqb node_eqb (fst a) (fst b) && perm_eqb edge_eqb (snd a) (snd b).

Fixpoint gids_of_nodes (l : list node) : list N :=
  match l with
  | [] => []
  | n :: r => match aget k_graphid (snd n) with Some (PV g) => g :: gids_of_nodes r | _ => gids_of_nodes r end
  end.

Definition storage_op (o : op) : bool :=
  match o with OImport _ _ | OImportDirect _ _ | ODelGraph _ | OClone _ _ => true | _ => false end.
Definition writes_gid (o : op) (g : N) : bool :=
  N.eqb (target o) g || match o with OMerge _ _ g2 _ => N.eqb g2 g | _ => false end.

Fixpoint nodupN_b (l : list N) : bool :=
  match l with [] => true | x :: r => negb (memN x r) && nodupN_b r end.

Definition alloc_ok (prev : nxg) (pn : N) (cur : nxg) (cn : N) : bool :=
  let pids := map fst (gn prev) in
  let cids := map fst (gn cur) in
  forallb (fun i => memN i pids || N.leb pn i) cids && forallb (fun i => N.ltb i cn) cids && nodupN_b cids.

Definition iso_obs := (op * res * option nxg * N)%type.

Fixpoint check_iso_shared_from (prev : nxg) (pn : N) (l : list iso_obs) : bool :=
  match l with
  | [] => true
  | (o, r, snap, cn) :: rest =>
      let cur := match snap with Some x => x | None => prev end in
      let '(s', r') := sstep (mkS prev pn) o in
      alloc_ok prev pn cur cn &&
      (if storage_op o then nxg_eqb (sg s') cur && N.eqb (snext s') cn
       else (negb (frame_scope o) && match o with OMerge _ _ _ _ => false | _ => true end) ||   (* re-homing by rewriting GraphID: no isolation claim *)
            forallb (fun g => writes_gid o g || view_eqb (view (sg s') g) (view cur g))
                    (gids_of_nodes (gn prev) ++ gids_of_nodes (gn cur) ++ gids_of_nodes (gn (sg s')))) &&
      check_iso_shared_from cur cn rest
  end.
Definition check_iso_shared (l : list iso_obs) : bool := check_iso_shared_from empty_nxg 1 l.

(* C12 model, part 2: Pool / Pools of fim/slivers/delegations.py (lines 302-597) and
   annotate_delegations_and_pools / get_delegations of fim/graph/resources/abc_arm.py (lines 215-262) with the
   graph reduced to what they touch: one JSON-valued property per node.  Definitions only. *)
From Coq Require Import List ZArith NArith Bool String Permutation.
From FIM Require Import Base.Str Base.Corr Gen.DelegGen Model.Deleg12.
Import ListNotations.

(* ---------------------------------------------------------------------------------------------- *)
(* Pool                                                                                             *)
(* ---------------------------------------------------------------------------------------------- *)
(* for_ is a Python set of node ids: a duplicate-free list (iteration order is never relied on by the
   statements; the correspondence compares it sorted) *)
Record pool := mkP { p_type : dtype; p_id : str; p_deleg : option str; p_on : option str;
                     p_for : list str; p_details : option det }.

Definition set_add (x : str) (l : list str) : list str := if str_mem x l then l else l ++ [x].
Definition set_of (l : list str) : list str := fold_left (fun acc x => set_add x acc) l [].
Fixpoint set_remove (x : str) (l : list str) : list str :=
  match l with [] => [] | y :: r => if str_eqb y x then set_remove x r else y :: set_remove x r end.

(* Pool.__init__ (lines 308-331): defined_on is removed from defined_for *)
Definition new_pool (ty : dtype) (id : str) (did on : option str) (for_ : list str) : pool :=
  mkP ty id did on (match on with Some o => set_remove o (set_of for_) | None => set_of for_ end) None.

Inductive pool_op :=
| PSetDeleg (did : str)          (* set_delegation_id *)
| PSetOn (n : str)               (* set_defined_on *)
| PSetFor (l : list str)         (* set_defined_for: replaces, does NOT remove defined_on *)
| PAddFor1 (n : str)             (* add_defined_for(str) *)
| PAddForL (l : list str)        (* add_defined_for(list) *)
| PSetDetails (x : det).         (* set_pool_details: no type check *)

Definition pool_apply (p : pool) (o : pool_op) : res pool :=
  match o with
  | PSetDeleg did => Ok (mkP (p_type p) (p_id p) (Some did) (p_on p) (p_for p) (p_details p))
  | PSetOn n => Ok (mkP (p_type p) (p_id p) (p_deleg p) (Some n) (p_for p) (p_details p))
  | PSetFor l => match l with
                 | [] => Err EAssertion             (* assert len(node_id_list) != 0 *)
                 | _ => Ok (mkP (p_type p) (p_id p) (p_deleg p) (p_on p) (set_of l) (p_details p))
                 end
  | PAddFor1 n => Ok (mkP (p_type p) (p_id p) (p_deleg p) (p_on p) (set_add n (p_for p)) (p_details p))
  | PAddForL l => Ok (mkP (p_type p) (p_id p) (p_deleg p) (p_on p)
                          (fold_left (fun acc x => set_add x acc) l (p_for p)) (p_details p))
  | PSetDetails x => Ok (mkP (p_type p) (p_id p) (p_deleg p) (p_on p) (p_for p) (Some x))
  end.

(* validate_pool (lines 417-429): None = valid *)
Definition validate_pool (p : pool) : option exn :=
  match p_deleg p, p_on p, p_for p, p_details p with
  | Some _, Some _, _ :: _, Some _ => None
  | _, _, _, _ => Some EPool
  end.

(* ---------------------------------------------------------------------------------------------- *)
(* Pools: pool_by_id (dict pool id -> Pool, in insertion order) and the by-delegation index         *)
(* ---------------------------------------------------------------------------------------------- *)
Fixpoint find_pool (id : str) (l : list pool) : option pool :=
  match l with [] => None | p :: r => if str_eqb (p_id p) id then Some p else find_pool id r end.

(* pool_by_id[p.pool_id] = p : overwrite in place or append *)
Fixpoint put_pool (p : pool) (l : list pool) : list pool :=
  match l with
  | [] => [p]
  | q :: r => if str_eqb (p_id q) (p_id p) then p :: r else q :: put_pool p r
  end.

(* add_pool (lines 491-502) *)
Definition add_pool (ty : dtype) (l : list pool) (p : pool) : res (list pool) :=
  if dtype_eqb (p_type p) ty then Ok (put_pool p l) else Err EPool.

Definition index := list (str * list pool).          (* pools_by_delegation *)

Fixpoint group_add {A} (k : str) (x : A) (m : list (str * list A)) : list (str * list A) :=
  match m with
  | [] => [(k, [x])]
  | (k', xs) :: r => if str_eqb k' k then (k', xs ++ [x]) :: r else (k', xs) :: group_add k x r
  end.

(* build_index_by_delegation_id (lines 466-477): validate every pool, group by delegation id *)
Fixpoint build_index_from (l : list pool) (idx : index) : res index :=
  match l with
  | [] => Ok idx
  | p :: r => match validate_pool p, p_deleg p with
              | Some e, _ => Err e
              | None, Some did => build_index_from r (group_add did p idx)
              | None, None => Err EPool              (* validate_pool's first test *)
              end
  end.
Definition build_index (l : list pool) : res index := build_index_from l [].

(* ---------------------------------------------------------------------------------------------- *)
(* incorporate_delegation (lines 504-532)                                                           *)
(* ---------------------------------------------------------------------------------------------- *)
Definition fresh_pool (ty : dtype) (id : str) : pool := mkP ty id None None [] None.

Definition inc_one (ty : dtype) (node : str) (l : list pool) (d : deleg) : res (list pool) :=
  match d_fmt d with
  | FSingle => Ok l                                   (* single element pools are ignored *)
  | fmt =>
      match d_pool d with
      | None => Err EAssertion                        (* get_pool_by_id: assert pool_id is not None *)
      | Some pn =>
          let p := match find_pool pn l with Some p => p | None => fresh_pool ty pn end in
          match fmt with
          | FDef =>
              match p_on p with
              | Some _ => Err EPool                   (* has already been defined *)
              | None =>
                  match d_details d with
                  | None => Err EAssertion            (* set_pool_details: assert isinstance(...) *)
                  | Some x => Ok (put_pool (mkP (p_type p) (p_id p) (Some (d_id d)) (Some node) (p_for p) (Some x)) l)
                  end
              end
          | _ => Ok (put_pool (mkP (p_type p) (p_id p) (Some (d_id d)) (p_on p) (set_add node (p_for p)) (p_details p)) l)
          end
      end
  end.

Fixpoint inc_items (ty : dtype) (node : str) (l : list pool) (items : list deleg) : res (list pool) :=
  match items with
  | [] => Ok l
  | d :: r => bind (inc_one ty node l d) (fun l' => inc_items ty node l' r)
  end.

Definition incorporate (ty : dtype) (l : list pool) (node : str) (ds : delegations) : res (list pool) :=
  if dtype_eqb (ds_type ds) ty then inc_items ty node l (ds_items ds) else Err EPool.

(* ---------------------------------------------------------------------------------------------- *)
(* generate_delegations_by_node_id (lines 534-564)                                                  *)
(* ---------------------------------------------------------------------------------------------- *)
Definition gmap := list (str * delegations).          (* node id -> Delegations *)

Fixpoint replace_at (node : str) (ds : delegations) (g : gmap) : gmap :=
  match g with
  | [] => []
  | (n, x) :: r => if str_eqb n node then (n, ds) :: r else (n, x) :: replace_at node ds r
  end.

(* ds = ret.get(node) or a new Delegations; ds.add_delegations(d) *)
Definition gen_add (ty : dtype) (g : gmap) (node : str) (d : deleg) : res gmap :=
  match lookup node g with
  | None => bind (add_delegation (mkDs ty []) d) (fun ds => Ok (g ++ [(node, ds)]))
  | Some ds => bind (add_delegation ds d) (fun ds' => Ok (replace_at node ds' g))
  end.

(* the delegations one pool contributes: its definition on the defining node, a reference on every node
   of for_ *)
Definition pool_events (ty : dtype) (did : str) (p : pool) : res (list (str * deleg)) :=
  bind (new_deleg ty did FDef (Some (p_id p))) (fun pd0 =>       (* reserved pool name: DelegationException *)
  match p_details p with
  | None => Err EAssertion                            (* set_details: assert caporlab is not None *)
  | Some x =>
      bind (set_details pd0 x) (fun pd =>
      match p_on p with
      | None => Err EUnmodelled                       (* only validated pools are in the index *)
      | Some on => Ok ((on, pd) :: map (fun n => (n, mkD ty did FRef (Some (p_id p)) None)) (p_for p))
      end)
  end).

Fixpoint gen_events (ty : dtype) (g : gmap) (evs : list (str * deleg)) : res gmap :=
  match evs with
  | [] => Ok g
  | (n, d) :: r => bind (gen_add ty g n d) (fun g' => gen_events ty g' r)
  end.

Fixpoint gen_pools (ty : dtype) (did : str) (g : gmap) (ps : list pool) : res gmap :=
  match ps with
  | [] => Ok g
  | p :: r => bind (pool_events ty did p) (fun evs =>
              bind (gen_events ty g evs) (fun g' => gen_pools ty did g' r))
  end.

Fixpoint gen_index (ty : dtype) (g : gmap) (idx : index) : res gmap :=
  match idx with
  | [] => Ok g
  | (did, ps) :: r => bind (gen_pools ty did g ps) (fun g' => gen_index ty g' r)
  end.

Definition generate (ty : dtype) (idx : option index) : res gmap :=
  match idx with
  | None => Ok []                                     (* index not built: empty dictionary *)
  | Some i => gen_index ty [] i
  end.

(* reading a family of per-node delegations back into pools, node after node *)
Fixpoint incorporate_all (ty : dtype) (g : gmap) (l : list pool) : res (list pool) :=
  match g with
  | [] => Ok l
  | (n, ds) :: r => bind (incorporate ty l n ds) (fun l' => incorporate_all ty r l')
  end.

(* pools -> index -> per-node delegations -> pools *)
Definition regroup (ty : dtype) (P : list pool) : res (list pool) :=
  bind (build_index P) (fun idx =>
  bind (generate ty (Some idx)) (fun g => incorporate_all ty g [])).

(* ---------------------------------------------------------------------------------------------- *)
(* annotate_delegations_and_pools / get_delegations (abc_arm.py): node property = encoded doc       *)
(* ---------------------------------------------------------------------------------------------- *)
Definition props := list (str * jdoc).                (* node id -> value of the *Delegations property *)

Fixpoint merge_singles (g : gmap) (dels : gmap) : res gmap :=
  match dels with
  | [] => Ok g
  | (n, ds) :: r => match lookup n g with
                    | Some _ => Err EQuery            (* "already has delegations defined" *)
                    | None => merge_singles (g ++ [(n, ds)]) r
                    end
  end.

Fixpoint encode_all (g : gmap) : res props :=
  match g with
  | [] => Ok []
  | (n, ds) :: r => bind (to_json ds) (fun doc => bind (encode_all r) (fun rest => Ok ((n, doc) :: rest)))
  end.

Definition annotate (ty : dtype) (dels : gmap) (idx : option index) : res props :=
  bind (generate ty idx) (fun g => bind (merge_singles g dels) encode_all).

Section WithValidators.
Variable lab_check : str -> dval -> option exn.

(* get_delegations on every annotated node *)
Fixpoint read_all (ty : dtype) (pr : props) : res gmap :=
  match pr with
  | [] => Ok []
  | (n, doc) :: r => bind (from_json lab_check ty doc) (fun ds =>
                     bind (read_all ty r) (fun rest => Ok ((n, ds) :: rest)))
  end.

(* pools -> graph properties -> pools *)
Definition annotate_readback (ty : dtype) (dels : gmap) (P : list pool) : res (gmap * list pool) :=
  bind (build_index P) (fun idx =>
  bind (annotate ty dels (Some idx)) (fun pr =>
  bind (read_all ty pr) (fun g =>
  bind (incorporate_all ty g []) (fun P' => Ok (g, P'))))).
End WithValidators.

(* ---------------------------------------------------------------------------------------------- *)
(* well-formedness of a pool family (boolean), mirroring validate_pool / the constructor / the       *)
(* exceptions of generate                                                                            *)
(* ---------------------------------------------------------------------------------------------- *)
Definition pool_ok (ty : dtype) (p : pool) : bool :=
  dtype_eqb (p_type p) ty && str_neqb (p_id p) single_pool_name &&
  match p_deleg p, p_on p, p_for p, p_details p with
  | Some _, Some o, _ :: _, Some x =>
      dtype_eqb (det_kind x) ty && str_nodup (p_for p) && negb (str_mem o (p_for p))
  | _, _, _, _ => false
  end.

(* the (node, delegation id) slots a pool occupies: the JSON of a node is keyed by delegation id *)
Definition pair_eqb (a b : str * str) : bool := str_eqb (fst a) (fst b) && str_eqb (snd a) (snd b).
Definition pool_slots (p : pool) : list (str * str) :=
  match p_deleg p, p_on p with
  | Some did, Some o => (o, did) :: map (fun n => (n, did)) (p_for p)
  | _, _ => []
  end.
Fixpoint pair_mem (k : str * str) (l : list (str * str)) : bool :=
  match l with [] => false | x :: r => pair_eqb x k || pair_mem k r end.
Fixpoint pair_nodup (l : list (str * str)) : bool :=
  match l with [] => true | x :: r => negb (pair_mem x r) && pair_nodup r end.

Definition no_conflict (P : list pool) : bool := pair_nodup (flat_map pool_slots P).

Definition pools_wf (ty : dtype) (P : list pool) : bool :=
  forallb (pool_ok ty) P && str_nodup (map p_id P) && no_conflict P.

(* ---------------------------------------------------------------------------------------------- *)
(* vocabulary of the statements                                                                     *)
(* ---------------------------------------------------------------------------------------------- *)
(* all (node, delegation) pairs of a per-node family *)
Definition flatten_g (g : gmap) : list (str * deleg) :=
  flat_map (fun nd => map (pair (fst nd)) (ds_items (snd nd))) g.

(* what the property prescribes for one pool: its definition (delegation id, pool name, details) on the
   defining node, one reference (delegation id, pool name, no details) on every node of for_ *)
Definition pool_evs (ty : dtype) (p : pool) : list (str * deleg) :=
  match p_deleg p, p_on p with
  | Some did, Some on =>
      (on, mkD ty did FDef (Some (p_id p)) (p_details p))
        :: map (fun n => (n, mkD ty did FRef (Some (p_id p)) None)) (p_for p)
  | _, _ => []
  end.
Definition expected_events (ty : dtype) (P : list pool) : list (str * deleg) := flat_map (pool_evs ty) P.

(* the same pool up to the order inside for_ (a set) *)
Definition pool_equiv (a b : pool) : Prop :=
  p_type a = p_type b /\ p_id a = p_id b /\ p_deleg a = p_deleg b /\ p_on a = p_on b /\
  Permutation (p_for a) (p_for b) /\ p_details a = p_details b.

(* the same registry pool_by_id up to the order of the pools: no pool id twice, and every pool id
   resolves to the same pool in both (or to none in both) *)
Definition pools_equiv (A B : list pool) : Prop :=
  NoDup (map p_id A) /\
  forall id, match find_pool id A, find_pool id B with
             | Some a, Some b => pool_equiv a b
             | None, None => True
             | _, _ => False
             end.

(* nodes that take part in some pool *)
Definition pool_nodes (P : list pool) : list str :=
  flat_map (fun p => match p_on p with Some o => o :: p_for p | None => p_for p end) P.

(* pools whose definitions to_json can encode: details built by the constructor with at least one field to
   show *)
Definition pools_encodable (lab_check : str -> dval -> option exn) (P : list pool) : bool :=
  forallb (fun p => match p_details p with Some x => det_ok lab_check x && det_nonempty x | None => false end) P.

(* single-pool delegations on nodes of their own (the `dels` argument of annotate) *)
Definition single_only (ds : delegations) : bool :=
  forallb (fun d => match d_fmt d with FSingle => true | _ => false end) (ds_items ds).

(* the `dels` argument annotate accepts next to the pools P: one well-formed Delegations of the pools'
   type per node, single-pool entries only, on nodes that take part in no pool *)
Definition singles_ok (lab_check : str -> dval -> option exn) (ty : dtype) (P : list pool) (dels : gmap) : bool :=
  str_nodup (map fst dels) &&
  forallb (fun nd => negb (str_mem (fst nd) (pool_nodes P)) && dtype_eqb (ds_type (snd nd)) ty &&
                     ds_wf lab_check (snd nd) && single_only (snd nd)) dels.

(* ---------------------------------------------------------------------------------------------- *)
(* observation encoders / check functions                                                           *)
(* ---------------------------------------------------------------------------------------------- *)
Definition sort_strs (l : list str) : list str := map fst (sort_kv (map (fun s => (s, tt)) l)).

Definition v_pool (p : pool) : val :=
  VL [v_dtype (p_type p); VS (p_id p); VOpt VS (p_deleg p); VOpt VS (p_on p);
      VL (map VS (sort_strs (p_for p))); VOpt v_det (p_details p)].
(* pools sorted by pool id *)
Definition v_pools (l : list pool) : val := VL (map snd (sort_kv (map (fun p => (p_id p, v_pool p)) l))).
(* node -> Delegations, sorted by node id; delegations of one node in dictionary order *)
Definition v_gmap (g : gmap) : val :=
  VL (map (fun kv => VL [VS (fst kv); snd kv]) (sort_kv (map (fun nd => (fst nd, v_delegations (snd nd))) g))).
Definition v_index (i : index) : val :=
  VL (map (fun e => VL [VS (fst e); VL (map (fun p => VS (p_id p)) (snd e))]) i).
Definition v_props (pr : props) : val :=
  VL (map (fun kv => VL [VS (fst kv); snd kv]) (sort_kv (map (fun nd => (fst nd, v_jdoc (snd nd))) pr))).

(* one pool to build: constructor arguments, then setter calls, then add_pool *)
Record pspec := mkPS { ps_ptype : dtype; ps_pid : str; ps_did : option str; ps_on : option str;
                       ps_for : list str; ps_ops : list pool_op }.

Fixpoint pool_apply_all (p : pool) (ops : list pool_op) : pool * list val :=
  match ops with
  | [] => (p, [])
  | o :: r => match pool_apply p o with
              | Ok p' => let '(q, os) := pool_apply_all p' r in (q, VB true :: os)
              | Err e => let '(q, os) := pool_apply_all p r in (q, VErr (exn_name e) :: os)
              end
  end.

Fixpoint build_pools (ty : dtype) (l : list pool) (specs : list pspec) : list pool * list val :=
  match specs with
  | [] => (l, [])
  | s :: r =>
      let '(p, os) := pool_apply_all (new_pool (ps_ptype s) (ps_pid s) (ps_did s) (ps_on s) (ps_for s)) (ps_ops s) in
      match add_pool ty l p with
      | Ok l' => let '(l2, outs) := build_pools ty l' r in (l2, VL (os ++ [VB true]) :: outs)
      | Err e => let '(l2, outs) := build_pools ty l r in (l2, VL (os ++ [VErr (exn_name e)]) :: outs)
      end
  end.

(* stream "pools": build, index, generate, regroup *)
Definition observe_pools (ty : dtype) (specs : list pspec) : val :=
  let '(P, outs) := build_pools ty [] specs in
  let idx := build_index P in
  let g := match idx with Ok i => Some (generate ty (Some i)) | Err _ => None end in
  VL [ VL outs; v_pools P; v_res v_index idx;
       match g with Some r => v_res v_gmap r | None => VNone end;
       match g with Some (Ok gm) => v_res v_pools (incorporate_all ty gm []) | _ => VNone end ].

Definition check_pools (c : (dtype * list pspec) * val) : bool :=
  let '((ty, specs), o) := c in val_eqb (observe_pools ty specs) o.

(* stream "incorporate": per-node documents are decoded (get_delegations) and incorporated in the order
   given; the first exception stops the run *)
Definition observe_inc (t : verdicts) (ty : dtype) (nodes : list (str * dtype * jdoc)) : val :=
  let lc := check_of t in
  let step (acc : res (list pool)) (x : str * dtype * jdoc) : res (list pool) :=
      bind acc (fun l => let '(n, dty, doc) := x in
                         bind (from_json lc dty doc) (fun ds => incorporate ty l n ds)) in
  v_res v_pools (fold_left step nodes (Ok [])).

Definition check_inc (c : (verdicts * dtype * list (str * dtype * jdoc)) * val) : bool :=
  let '((t, ty, nodes), o) := c in val_eqb (observe_inc t ty nodes) o.

(* stream "annotate": pools + single delegations -> node properties -> read back *)
Definition observe_annotate (t : verdicts) (ty : dtype) (specs : list pspec)
           (singles : list (str * dtype * list spec)) : val :=
  let lc := check_of t in
  let '(P, _) := build_pools ty [] specs in
  let dels := map (fun x => let '(n, dty, l) := x in (n, fst (run_specs lc (mkDs dty []) l))) singles in
  let idx := build_index P in
  match idx with
  | Err e => VL [VErr (exn_name e)]
  | Ok i =>
      let pr := annotate ty dels (Some i) in
      VL [ v_res v_props pr;
           match pr with
           | Ok p => let g := read_all lc ty p in
                     VL [ v_res v_gmap g;
                          match g with Ok gm => v_res v_pools (incorporate_all ty gm []) | Err _ => VNone end ]
           | Err _ => VNone
           end ]
  end.

Definition check_annotate (c : (verdicts * dtype * list pspec * list (str * dtype * list spec)) * val) : bool :=
  let '((t, ty, specs, singles), o) := c in val_eqb (observe_annotate t ty specs singles) o.

(* C09 - single-graph state, exceptions, state-and-exception monad, primitive graph operations and the
   read-only queries of fim/graph/networkx_property_graph.py + abc_property_graph.py that the topology
   operations use.  Definitions only.

   One graph of the in-memory store (C04 licenses looking at one graph): a list of nodes
   (NodeID, Class, Name, Type, rest-of-properties token) and a list of undirected edges (a, b, Class).
   Ids, classes, relation names, type names and the `rest` token are interned to N by the harness
   (equality is all the code ever does with them); names are real strings (list of code points)
   because the code derives new names by concatenation and validates them. *)
From Coq Require Import List NArith Bool.
From FIM Require Import Base.Str.
Import ListNotations.
Open Scope N_scope.

(* ---------------------------------------------------------------- exceptions / results *)
Inductive exn :=
| ETopology      (* fim.user.model_element.TopologyException *)
| EQuery         (* PropertyGraphQueryException *)
| EValue         (* ValueError (name regex) *)
| EAssert        (* AssertionError *)
| EAttr          (* AttributeError (unknown property keyword) *)
| ECatalog       (* CatalogException *)
| ERuntime       (* RuntimeError *)
| EType          (* TypeError *)
| EKey           (* KeyError *)
| EOther.        (* anything else, incl. RecursionError / exhausted id supply *)

Definition exn_eqb (a b : exn) : bool :=
  match a, b with
  | ETopology, ETopology | EQuery, EQuery | EValue, EValue | EAssert, EAssert | EAttr, EAttr
  | ECatalog, ECatalog | ERuntime, ERuntime | EType, EType | EKey, EKey | EOther, EOther => true
  | _, _ => false
  end.

Inductive res (A : Type) := Ok (a : A) | Err (e : exn).
Arguments Ok {A} a.
Arguments Err {A} e.

(* ---------------------------------------------------------------- vocabulary (fixed interning) *)
Definition cNN   : N := 1.   (* NetworkNode *)
Definition cComp : N := 2.   (* Component *)
Definition cNS   : N := 3.   (* NetworkService *)
Definition cCP   : N := 4.   (* ConnectionPoint *)
Definition cLink : N := 5.   (* Link *)
Definition cCN   : N := 6.   (* CompositeNode *)
Definition rHas      : N := 1.
Definition rConnects : N := 2.
(* type names the operations look at or write *)
Definition tFacility     : N := 1.
Definition tSubInterface : N := 2.
Definition tSharedPort   : N := 3.
Definition tServicePort  : N := 4.
Definition tDedicatedPort: N := 5.
Definition tL2PTP        : N := 6.
Definition tL2Path       : N := 7.
Definition tPatch        : N := 8.
Definition tFacilityPort : N := 9.

(* ---------------------------------------------------------------- graph *)
Record node := mkNode { nid : N; ncls : N; nname : str; ntype : N; nrest : N }.
Record edge := mkEdge { ea : N; eb : N; erel : N }.
Record graph := mkGraph { gnodes : list node; gedges : list edge }.

Definition find_nodes (g : graph) (id : N) : list node := filter (fun n => nid n =? id) (gnodes g).

(* NetworkXMixin._find_node: exactly one match or PropertyGraphQueryException *)
Definition find_node (g : graph) (id : N) : res node :=
  match find_nodes g id with
  | [n] => Ok n
  | _ => Err EQuery
  end.

Definition has_node (g : graph) (id : N) : bool := existsb (fun n => nid n =? id) (gnodes g).

Definition touches (x : N) (e : edge) : bool := (ea e =? x) || (eb e =? x).
Definition same_pair (a b : N) (e : edge) : bool :=
  ((ea e =? a) && (eb e =? b)) || ((ea e =? b) && (eb e =? a)).

(* NetworkXPropertyGraph.add_node: an existing id (any class) is rejected, else the node is added *)
Definition g_add_node (n : node) (g : graph) : res graph :=
  if has_node g (nid n) then Err EQuery
  else Ok (mkGraph (gnodes g ++ [n]) (gedges g)).

(* add_link: both ends must be found; nx.Graph.add_edge overwrites the attributes of an existing edge *)
Definition g_add_edge (a rel b : N) (g : graph) : res graph :=
  match find_node g a with
  | Err e => Err e
  | Ok _ =>
    match find_node g b with
    | Err e => Err e
    | Ok _ =>
      if existsb (same_pair a b) (gedges g)
      then Ok (mkGraph (gnodes g)
                 (map (fun e => if same_pair a b e then mkEdge (ea e) (eb e) rel else e) (gedges g)))
      else Ok (mkGraph (gnodes g) (gedges g ++ [mkEdge a b rel]))
    end
  end.

(* delete_node: the node must be found; incident edges disappear *)
Definition remove_node_raw (id : N) (g : graph) : graph :=
  mkGraph (filter (fun n => negb (nid n =? id)) (gnodes g))
          (filter (fun e => negb (touches id e)) (gedges g)).

Definition g_delete_node (id : N) (g : graph) : res graph :=
  match find_node g id with
  | Err e => Err e
  | Ok _ => Ok (remove_node_raw id g)
  end.

(* ---------------------------------------------------------------- read-only queries *)
Definition other_end (x : N) (e : edge) : list N :=
  if ea e =? x then [eb e] else if eb e =? x then [ea e] else [].

Definition adj_rel (g : graph) (x rel : N) : list N :=
  flat_map (fun e => if erel e =? rel then other_end x e else []) (gedges g).
Definition adj_any (g : graph) (x : N) : list N := flat_map (other_end x) (gedges g).

Definition cls_of (g : graph) (y : N) : option N :=
  match find_nodes g y with n :: _ => Some (ncls n) | [] => None end.
Definition has_cls (g : graph) (c : N) (y : N) : bool :=
  match cls_of g y with Some c' => c' =? c | None => false end.

(* get_first_neighbor(node_id, rel, node_label) *)
Definition first_neighbor (g : graph) (x rel cls : N) : res (list N) :=
  match find_node g x with
  | Err e => Err e
  | Ok _ => Ok (filter (has_cls g cls) (adj_rel g x rel))
  end.

Fixpoint remove_N (x : N) (l : list N) : list N :=
  match l with [] => [] | y :: r => if y =? x then remove_N x r else y :: remove_N x r end.

(* find_peer_connection_points via get_first_and_second_neighbor(x, connects, Link, connects, ConnectionPoint):
   the second relation filter of the NetworkX backend is ineffective (known finding of C06), so every
   ConnectionPoint adjacent to the Link counts, the start node excluded.  [] stands for Python's None. *)
Definition peer_cps (g : graph) (x : N) : res (list N) :=
  match find_node g x with
  | Err e => Err e
  | Ok _ => Ok (flat_map (fun l => remove_N x (filter (has_cls g cCP) (adj_any g l)))
                         (filter (has_cls g cLink) (adj_rel g x rConnects)))
  end.

(* get_parent: exactly one neighbour of the class over the relation, else (None, None) *)
Definition get_parent (g : graph) (x rel cls : N) : res (option N) :=
  match first_neighbor g x rel cls with
  | Err e => Err e
  | Ok [p] => Ok (Some p)
  | Ok _ => Ok None
  end.

Definition node_type (g : graph) (x : N) : res N :=
  match find_node g x with Err e => Err e | Ok n => Ok (ntype n) end.
Definition node_name (g : graph) (x : N) : res str :=
  match find_node g x with Err e => Err e | Ok n => Ok (nname n) end.
Definition node_cls (g : graph) (x : N) : res N :=
  match find_node g x with Err e => Err e | Ok n => Ok (ncls n) end.

Definition names_of (g : graph) (ids : list N) : list str :=
  flat_map (fun i => match find_nodes g i with n :: _ => [nname n] | [] => [] end) ids.

Definition str_in (s : str) (l : list str) : bool := existsb (str_eqb s) l.

(* check_node_unique(label, name): no node of the class carries the name *)
Definition name_taken (g : graph) (cls : N) (name : str) : bool :=
  existsb (fun n => (ncls n =? cls) && str_eqb (nname n) name) (gnodes g).

(* ---------------------------------------------------------------- the monad: graph + id supply *)
Record st := mkSt { sg : graph; sfresh : list N }.
Definition M (A : Type) := st -> st * res A.

Definition ret {A} (a : A) : M A := fun s => (s, Ok a).
Definition raise {A} (e : exn) : M A := fun s => (s, Err e).
Definition bind {A B} (m : M A) (k : A -> M B) : M B :=
  fun s => match m s with
           | (s', Ok a) => k a s'
           | (s', Err e) => (s', Err e)
           end.
Notation "x <- m ;; k" := (bind m (fun x => k)) (at level 61, m at next level, right associativity).
Notation "m ;;; k" := (bind m (fun _ => k)) (at level 61, right associativity).

Definition guard (ok : bool) (e : exn) : M unit := if ok then ret tt else raise e.
(* a read-only query *)
Definition ask {A} (q : graph -> res A) : M A :=
  fun s => match q (sg s) with Ok a => (s, Ok a) | Err e => (s, Err e) end.
(* a primitive mutation: on failure the graph is what it was *)
Definition mutate (f : graph -> res graph) : M unit :=
  fun s => match f (sg s) with
           | Ok g' => (mkSt g' (sfresh s), Ok tt)
           | Err e => (s, Err e)
           end.
(* str(uuid.uuid4()) : the next id of the supply *)
Definition draw : M N :=
  fun s => match sfresh s with
           | x :: r => (mkSt (sg s) r, Ok x)
           | [] => (s, Err EOther)
           end.
Definition id_or_draw (o : option N) : M N := match o with Some x => ret x | None => draw end.
Definition opt_raise (o : option exn) : M unit := match o with Some e => raise e | None => ret tt end.

(* try: ... except Exception as e: handler(e)   (the handler runs in the state the body left behind) *)
Definition catch_any {A} (m : M A) (h : exn -> M A) : M A :=
  fun s => match m s with
           | (s', Err e) => h e s'
           | r => r
           end.

Fixpoint for_each {A} (l : list A) (f : A -> M unit) : M unit :=
  match l with
  | [] => ret tt
  | x :: r => f x ;;; for_each r f
  end.

Definition m_add_node (n : node) : M unit := mutate (g_add_node n).
Definition m_add_edge (a rel b : N) : M unit := mutate (g_add_edge a rel b).
Definition m_delete_node (id : N) : M unit := mutate (g_delete_node id).

(* ---------------------------------------------------------------- well-formed snapshots *)
Fixpoint nodupN (l : list N) : bool :=
  match l with [] => true | x :: r => negb (existsb (N.eqb x) r) && nodupN r end.

Fixpoint nodup_pairs (l : list edge) : bool :=
  match l with [] => true | e :: r => negb (existsb (same_pair (ea e) (eb e)) r) && nodup_pairs r end.

(* what every snapshot of an nx.Graph satisfies: node ids distinct, every edge joins two nodes of the
   graph, at most one edge per unordered pair *)
Definition wf_graph (g : graph) : bool :=
  nodupN (map nid (gnodes g))
  && forallb (fun e => has_node g (ea e) && has_node g (eb e)) (gedges g)
  && nodup_pairs (gedges g).

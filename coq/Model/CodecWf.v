(* C03: the boolean well-formedness predicates that delimit "values constructible through the public
   constructor / setters" in the theorems of Properties/C03.v.  Definitions only. *)
From Coq Require Import String List NArith ZArith Bool.
From FIM Require Import Base.Str Base.Json Gen.CodecGen Model.CodecField Model.CodecMisc.
Import ListNotations.
Open Scope N_scope.

Definition is_none {A} (o : option A) : bool := match o with None => true | Some _ => false end.

(* values whose sort_keys form is themselves: no dict inside (the documented field types are ints, bools,
   floats, strings and lists of strings) *)
Fixpoint no_obj (v : json) : bool :=
  match v with
  | JObj _ => false
  | JArr l => forallb no_obj l
  | _ => true
  end.

Section Wf.
  Variable V : str -> json -> bool.

  (* a value the class accepts for field k: passes the per-value assertions and, for Labels, the validators *)
  Definition elem_ok (c : jclass) (k : str) (v : json) : bool :=
    is_none (check_value c v) && (negb (jc_validated c) || V k v).

  (* class descriptor sanity (holds for every regenerated class, by computation): distinct, well-formed
     field names; every default is a dict-free JSON scalar and is either removed by the
     encoder or accepted back by the decoder *)
  Definition cls_ok (c : jclass) : bool :=
    nodup_keys (map fst (jc_fields c))
    && forallb (fun kv => str_ok (fst kv) && jwfb (snd kv) && no_obj (snd kv)
                          && (dropped (jc_json_drop c) (snd kv) || elem_ok c (fst kv) (snd kv)))
               (jc_fields c).

  (* a field holds its default (unset), or a value the class accepts that the encoder keeps *)
  Definition field_ok (c : jclass) (k : str) (v : json) : bool :=
    match aget k (jc_fields c) with
    | None => false
    | Some d => json_eqb v d
                || (elem_ok c k v && negb (dropped (jc_json_drop c) v) && jwfb v && no_obj v)
    end.

  Definition wf_obj (c : jclass) (o : obj) : bool :=
    list_eqb str_eqb (map fst o) (map fst (jc_fields c)) && forallb (fun kv => field_ok c (fst kv) (snd kv)) o.

  (* what decoding can produce (and what the constructors can produce beyond wf_obj): a field holds its default or ANY
     value the class accepts -- also one that the encoder will drop (Capacities None/False) *)
  Definition semi_ok (c : jclass) (k : str) (v : json) : bool :=
    match aget k (jc_fields c) with
    | None => false
    | Some d => json_eqb v d || (elem_ok c k v && jwfb v && no_obj v)
    end.
  Definition semi_wf (c : jclass) (o : obj) : bool :=
    list_eqb str_eqb (map fst o) (map fst (jc_fields c)) && forallb (fun kv => semi_ok c (fst kv) (snd kv)) o.

  (* the encoder's drop rule loses nothing: a value the class accepts and the encoder removes is the default
     of every field (checked over the finitely many values a drop rule can remove) *)
  Definition droppable : list json := [JNull; JInt 0%Z; JBool false; JFloat (S"0.0"); JFloat (S"-0.0")].
  Definition lossless_cls (c : jclass) : bool :=
    forallb (fun v => negb (is_none (check_value c v) && dropped (jc_json_drop c) v)
                      || forallb (fun kv => json_eqb v (snd kv)) (jc_fields c)) droppable.
  Definition lossless_cls_but (excl : list json) (c : jclass) : bool :=
    forallb (fun v => existsb (json_eqb v) excl
                      || negb (is_none (check_value c v) && dropped (jc_json_drop c) v)
                      || forallb (fun kv => json_eqb v (snd kv)) (jc_fields c)) droppable.
End Wf.

(* the value that an encode / decode cycle turns o into: fields the encoder drops come back as the default *)
Definition norm_obj (c : jclass) (o : obj) : obj :=
  map (fun kv => (fst kv, if dropped (jc_json_drop c) (snd kv) then fld (fst kv) (jc_fields c) else snd kv)) o.
(* the defaults themselves are dropped (or nothing is): normalising does not change the encoding *)
Definition norm_stable (c : jclass) : bool :=
  match jc_json_drop c with
  | DropNothing => true
  | r => forallb (fun kv => dropped r (snd kv)) (jc_fields c)
  end.
(* a parsed JSON object whose member values contain no nested dict *)
Definition flat_obj (j : json) : bool :=
  match j with JObj d => forallb (fun kv => no_obj (snd kv)) d | _ => false end.

Definition nothing_kept (c : jclass) (o : obj) : bool :=
  match kept (jc_json_drop c) o with [] => true | _ => false end.

(* Tags: every tag passes the pattern *)
Definition tags_wf (VT : str -> bool) (t : list str) : bool := forallb (fun s => VT s && str_ok s) t.

(* PathInfo / ERO as built by the constructor and set(): the type is Path or Graph; a Path-typed value
   carries a Path object or nothing (set() not called yet), a Graph-typed value a graph id (string) or nothing *)
Definition payload_wf (p : payload) : bool :=
  match p with PLRaw j => jwfb j | PLPath a z => jwfb a && jwfb z end.
Definition pinfo_wf (ero : bool) (p : pinfo) : bool :=
  payload_wf (pi_payload p)
  && match pi_type p, pi_payload p with
     | Some PTPath, PLPath _ _ | Some PTPath, PLRaw JNull => true
     | Some PTGraph, PLRaw (JStr _) | Some PTGraph, PLRaw JNull => true
     | _, _ => false
     end
  && (if ero then negb (is_none (pi_strict p)) else is_none (pi_strict p)).
(* "nothing set": set() was never called *)
Definition pinfo_nothing (p : pinfo) : bool := payload_unset (pi_payload p).

(* MaintenanceInfo: node names are well-formed distinct strings, datetimes are non-empty texts that
   fromisoformat accepts *)
Definition iso_ok (VISO : str -> bool) (o : option str) : bool :=
  match o with None => true | Some s => VISO s && str_ok s && negb (Nat.eqb (List.length s) 0) end.
Definition mentry_wf (VISO : str -> bool) (e : mentry) : bool :=
  iso_ok VISO (me_deadline e) && iso_ok VISO (me_end e).
Definition minfo_wf (VISO : str -> bool) (m : minfo) : bool :=
  nodup_keys (map fst (mi_nodes m))
  && forallb (fun ne => str_ok (fst ne) && mentry_wf VISO (snd ne)) (mi_nodes m).

(* typed tuples: the type is in the category's vocabulary; for the partial round trip the value is a
   string without trailing whitespace *)
Definition ttuple_wf (cat : str) (t : ttuple) : bool := existsb (str_eqb (tt_type t)) (types_of cat).
Definition tval_plain (v : tval) : bool :=
  match v with
  | TVInt _ => false
  | TVStr s => match rev s with [] => true | c :: _ => negb (py_space c) end
  end.
(* vocabulary sanity: no type name contains the separator or starts / ends with whitespace *)
Definition type_name_ok (t : str) : bool :=
  negb (existsb (N.eqb sep_char) t)
  && match t with [] => true | c :: _ => negb (py_space c) end
  && negb (Nat.eqb (List.length t) 0).
Definition tuple_vocab_ok : bool :=
  forallb (fun ct => forallb type_name_ok (snd ct)) tuple_types && negb (py_space sep_char)
  && Nat.eqb (List.length tuple_separator) 1.

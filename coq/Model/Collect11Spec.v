(* C11 specification side: what an authorization request MUST name for a slice (required), the direct
   tally of a slice for the accounting summary, and the equivalences of slices under which the
   result must not change.  Definitions only.  These are written directly from the property statement
   and do not mention the collector's folds, NSTYPE_LUT or the service-type set. *)
From Coq Require Import List ZArith NArith Bool String Permutation.
From FIM Require Import Base.Str Gen.CollectGen Model.Collect11.
Import ListNotations.

(* ---- what must be named ---- *)
Definition node_site (n : node) : list aval := match n_site n with Some x => [AS x] | None => [] end.
Definition node_cpu (n : node) : list aval := match n_caps n with Some (c, _, _) => [AI c] | None => [] end.
Definition node_ram (n : node) : list aval := match n_caps n with Some (_, r, _) => [AI r] | None => [] end.
Definition node_disk (n : node) : list aval := match n_caps n with Some (_, _, d) => [AI d] | None => [] end.
Definition node_comps (n : node) : list aval := map AS (n_comps n).
Definition svc_site (v : svc) : list aval := match s_site v with Some x => [AS x] | None => [] end.
Definition svc_bw (v : svc) : list aval := match s_bw v with Some b => [AI b] | None => [] end.

(* the mirrored port of a port-mirror service is outside the slice *)
Definition mirror_outside (ports : list (option str)) (v : svc) : bool := negb (mem_port (s_mirror v) ports).

(* the per-type site attribute a service needs, if any: externally routed services always, port mirrors
   when the mirrored port is outside the slice.  A service without a site counts with "UNKNOWN-SITE". *)
Definition svc_typed_site (ports : list (option str)) (v : svc) : list (N * aval) :=
  if N.eqb (s_type v) ST_FABNetv4Ext then [(A_RESOURCE_FABNETV4_EXT, AS (site_or_unknown v))]
  else if N.eqb (s_type v) ST_FABNetv6Ext then [(A_RESOURCE_FABNETV6_EXT, AS (site_or_unknown v))]
  else if N.eqb (s_type v) ST_PortMirror && mirror_outside ports v then [(A_RESOURCE_MIRROR_SITE, AS (site_or_unknown v))]
  else [].

Definition tag (k : N) (l : list aval) : list (N * aval) := map (fun v => (k, v)) l.

Definition required_node (n : node) : list (N * aval) :=
  tag A_RESOURCE_SITE (node_site n) ++ tag A_RESOURCE_CPU (node_cpu n) ++ tag A_RESOURCE_RAM (node_ram n) ++
  tag A_RESOURCE_DISK (node_disk n) ++ tag A_RESOURCE_COMPONENT (node_comps n).

Definition required_svc (ports : list (option str)) (v : svc) : list (N * aval) :=
  tag A_RESOURCE_SITE (svc_site v) ++ tag A_RESOURCE_BW (svc_bw v) ++ svc_typed_site ports v.

(* every (attribute id, value) pair the request must contain; multiplicities matter for the
   capacity / component / facility attributes (one entry per resource) *)
Definition required (s : slice) : list (N * aval) :=
  flat_map required_node (sl_nodes s) ++ flat_map (required_svc (sl_ports s)) (sl_svcs s) ++
  tag A_RESOURCE_FACILITY_PORT (map AS (sl_facs s)).

Definition required_of (k : N) (s : slice) : list aval :=
  map snd (filter (fun p => N.eqb (fst p) k) (required s)).

(* attributes listed once per distinct value (sets) vs once per resource (multisets) *)
Definition set_keys : list N := [A_RESOURCE_SITE; A_RESOURCE_FABNETV4_EXT; A_RESOURCE_FABNETV6_EXT; A_RESOURCE_MIRROR_SITE].
Definition multi_keys : list N := [A_RESOURCE_CPU; A_RESOURCE_RAM; A_RESOURCE_DISK; A_RESOURCE_BW; A_RESOURCE_COMPONENT; A_RESOURCE_FACILITY_PORT].

Definition has_switch (s : slice) : bool := existsb (fun n => N.eqb (n_kind n) NT_Switch) (sl_nodes s).
Definition resource_type (s : slice) : list aval := [AS (if has_switch s then S"switch-p4" else S"sliver")].

(* ---- slices that are the same slice stored differently ---- *)
Definition same_ports (p p' : list (option str)) : Prop := forall x, In x p <-> In x p'.

(* creation / storage order of nodes, services and facilities permuted *)
Definition slice_perm (s s' : slice) : Prop :=
  Permutation (sl_nodes s) (sl_nodes s') /\ Permutation (sl_svcs s) (sl_svcs s') /\
  Permutation (sl_facs s) (sl_facs s') /\ same_ports (sl_ports s) (sl_ports s').

(* additionally the components of each node listed in another order (what a reload of the serialized model does) *)
Definition node_eqv (n n' : node) : Prop :=
  n_kind n = n_kind n' /\ n_name n = n_name n' /\ n_site n = n_site n' /\ n_caps n = n_caps n' /\
  n_alloc n = n_alloc n' /\ Permutation (n_comps n) (n_comps n').

Definition slice_eqv (s s' : slice) : Prop :=
  (exists l, Permutation (sl_nodes s) l /\ Forall2 node_eqv l (sl_nodes s')) /\
  Permutation (sl_svcs s) (sl_svcs s') /\ Permutation (sl_facs s) (sl_facs s') /\
  same_ports (sl_ports s) (sl_ports s').

(* ---- direct tally for the accounting summary ---- *)
Definition is_vm (n : node) : bool := N.eqb (n_kind n) NT_VM.
Definition is_switch (n : node) : bool := N.eqb (n_kind n) NT_Switch.
Definition is_facility (n : node) : bool := N.eqb (n_kind n) NT_Facility.
Definition countb {A} (f : A -> bool) (l : list A) : Z := Z.of_nat (List.length (filter f l)).
Definition sumZ (l : list Z) : Z := fold_right Z.add 0%Z l.

Definition vm_caps (n : node) : list caps3 :=
  if is_vm n then match eff_caps n with Some c => [c] | None => [] end else [].
Definition core_of (c : caps3) : Z := let '(a, _, _) := c in a.

Definition tally_vms (s : slice) : Z := countb is_vm (sl_nodes s).
Definition tally_cores (s : slice) : Z := sumZ (map core_of (flat_map vm_caps (sl_nodes s))).
Definition tally_switches (s : slice) : Z := countb is_switch (sl_nodes s).
Definition tally_component (c : str) (s : slice) : Z :=
  countb (str_eqb c) (flat_map n_comps (sl_nodes s)).
Definition tally_services (s : slice) : list (str * Z) :=
  map (fun v => (stype_name (s_type v), match s_bw v with Some b => b | None => 0%Z end)) (sl_svcs s).
Definition site_used (s : slice) (x : str) : Prop :=
  (exists n, In n (sl_nodes s) /\ n_site n = Some x) \/ (exists v, In v (sl_svcs s) /\ s_site v = Some x).
Definition facility_used (s : slice) (f : str) : Prop :=
  In f (sl_facs s) \/ (exists n, In n (sl_nodes s) /\ is_facility n = true /\ n_name n = f).

Fixpoint dget (c : str) (d : list (str * Z)) : Z :=
  match d with
  | [] => 0%Z
  | (c', n) :: r => if str_eqb c c' then n else dget c r
  end.

(* ---- PDP request ---- *)
Definition attrs_of_cat (c : N) (p : pdp) : list pdp_attr :=
  flat_map (fun e => if N.eqb (fst e) c then snd e else []) p.

(* ---- the XACML interface the PDP policies are written against (pinned specification):
        attribute id text and data type of every attribute derived from a slice; all belong to the
        resource category ---- *)
Definition xs_string : str := S"http://www.w3.org/2001/XMLSchema#string".
Definition xs_integer : str := S"http://www.w3.org/2001/XMLSchema#integer".
Definition resource_category : str := S"urn:oasis:names:tc:xacml:3.0:attribute-category:resource".
Definition pinned_resource_rows : list (N * (str * str)) :=
  [(A_RESOURCE_TYPE, (S"urn:fabric:xacml:attributes:resource-type", xs_string));
   (A_RESOURCE_CPU, (S"urn:fabric:xacml:attributes:resource-cpu", xs_integer));
   (A_RESOURCE_RAM, (S"urn:fabric:xacml:attributes:resource-ram", xs_integer));
   (A_RESOURCE_DISK, (S"urn:fabric:xacml:attributes:resource-disk", xs_integer));
   (A_RESOURCE_BW, (S"urn:fabric:xacml:attribute:resource-bw", xs_integer));
   (A_RESOURCE_SITE, (S"urn:fabric:xacml:attribute:resource-site", xs_string));
   (A_RESOURCE_COMPONENT, (S"urn:fabric:xacml:attribute:resource-component", xs_string));
   (A_RESOURCE_FABNETV4_EXT, (S"urn:fabric:xacml:attribute:resource-fabnetv4-ext-site", xs_string));
   (A_RESOURCE_FABNETV6_EXT, (S"urn:fabric:xacml:attribute:resource-fabnetv6-ext-site", xs_string));
   (A_RESOURCE_MIRROR_SITE, (S"urn:fabric:xacml:attribute:resource-mirrorsite", xs_string));
   (A_RESOURCE_FACILITY_PORT, (S"urn:fabric:xacml:attribute:resource-facility-port", xs_string))].

(* ---- the same elements enumerated in another order (what distinguishes the graph walked by the ASM path from the
        topology object's listing), components of a node possibly enumerated in another order as well ---- *)
Definition gelem_eqv (a b : gelem) : Prop :=
  match a, b with
  | GNode n, GNode n' => node_eqv n n'
  | GSvc v, GSvc v' => v = v'
  | GFac f, GFac f' => f = f'
  | GPort p, GPort p' => p = p'
  | _, _ => False
  end.

Definition graph_eqv (g g' : agraph) : Prop := exists l, Permutation g l /\ Forall2 gelem_eqv l g'.

(* the elements of a slice in the order the topology object lists them *)
Definition graph_of_slice (s : slice) : agraph :=
  map GNode (sl_nodes s) ++ map GPort (sl_ports s) ++ map GSvc (sl_svcs s) ++ map GFac (sl_facs s).

(* ---- dispatch: a member class handed out by the topology API is routed when both METHOD_LUTs have an entry for it ---- *)
Definition smem_s (x : string) (l : list string) : bool := existsb (String.eqb x) l.
Definition routed (c : string) : bool := smem_s c (map fst method_lut) && smem_s c (map fst log_method_lut).

(* C01 model, node-link JSON at the TEXT level: json.dumps(nx.node_link_data(graph)) and
   nx.node_link_graph(json.loads(text)) (fim/graph/networkx_property_graph.py:376-378, :879-887), as the
   composition of the value-level model (jwrite / jread, Model/Serial1Graph.v) with the JSON printer and
   parser of Base/Json.v (json.dumps / json.loads with default arguments).
   Property names are interned in the graph model; [names] is the interning table name <-> text.
   Definitions only; proofs in Proofs/Serial1JsonText.v. *)
From Coq Require Import String.
From Coq Require Import List NArith ZArith Bool.
From FIM Require Import Base.Str Base.Json Model.Serial1Text Model.Serial1Graph.
Import ListNotations.

Definition names := list (pname * str).
Definition name_text (tbl : names) (k : pname) : option str := lookup k tbl.
Fixpoint name_of_text (tbl : names) (s : str) : option pname :=
  match tbl with
  | [] => None
  | (k, s') :: r => if str_eqb s' s then Some k else name_of_text r s
  end.

Definition json_of_pval (v : pval) : json :=
  match v with PStr s => JStr s | PInt z => JInt z | PBool b => JBool b end.
Definition json_of_jval (v : jval) : json :=
  match v with JP p => json_of_pval p | JK k => JInt (Z.of_N k) end.          (* node keys are the internal ints *)

Definition json_of_obj (tbl : names) (o : jobj) : option json :=
  match opt_list (fun kv => match name_text tbl (fst kv) with
                            | Some s => Some (s, json_of_jval (snd kv)) | None => None end) o with
  | Some m => Some (JObj m)
  | None => None
  end.

(* node_link_data: {"directed": False, "multigraph": False, "graph": {}, "nodes": [...], "edges": [...]} *)
Definition json_of_jdoc (tbl : names) (j : jdoc) : option json :=
  match opt_list (json_of_obj tbl) (j_nodes j), opt_list (json_of_obj tbl) (j_links j) with
  | Some ns, Some es =>
      Some (JObj [(S"directed", JBool false); (S"multigraph", JBool false); (S"graph", JObj []);
                  (S"nodes", JArr ns); (S"edges", JArr es)])
  | _, _ => None
  end.

(* the text serialize_graph(JSON_NODELINK) returns for a graph *)
Definition json_text (tbl : names) (g : nxg) : option str :=
  match json_of_jdoc tbl (jwrite g) with Some v => Some (jprint v) | None => None end.

(* reading: a value under a structural name ("id" in a node object, "source"/"target" in an edge object) is a
   node key, every other value a property value; values other than str / int / bool are outside the model *)
Definition jval_of_json (structural : bool) (v : json) : option jval :=
  match v with
  | JStr s => if structural then None else Some (JP (PStr s))
  | JBool b => if structural then None else Some (JP (PBool b))
  | JInt z => if structural then (if Z.ltb z 0 then None else Some (JK (Z.to_N z))) else Some (JP (PInt z))
  | _ => None
  end.
Definition obj_of_json (tbl : names) (structural : pname -> bool) (v : json) : option jobj :=
  match v with
  | JObj m => opt_list (fun kv => match name_of_text tbl (fst kv) with
                                  | Some k => match jval_of_json (structural k) (snd kv) with
                                              | Some x => Some (k, x) | None => None end
                                  | None => None end) m
  | _ => None
  end.
Definition node_structural (k : pname) : bool := N.eqb k P_id.
Definition edge_structural (k : pname) : bool := N.eqb k P_source || N.eqb k P_target.

(* node_link_graph(data): multigraph and directed must be false for an nx.Graph *)
Definition jdoc_of_json (tbl : names) (v : json) : option jdoc :=
  match v with
  | JObj m =>
      match aget (S"directed") m, aget (S"multigraph") m, aget (S"nodes") m, aget (S"edges") m with
      | Some (JBool false), Some (JBool false), Some (JArr ns), Some (JArr es) =>
          match opt_list (obj_of_json tbl node_structural) ns, opt_list (obj_of_json tbl edge_structural) es with
          | Some a, Some b => Some {| j_nodes := a; j_links := b |}
          | _, _ => None
          end
      | _, _, _, _ => None
      end
  | _ => None
  end.

Definition json_read_text (tbl : names) (s : str) : option nxg :=
  match jparse s with
  | Some v => match jdoc_of_json tbl v with Some j => jread j | None => None end
  | None => None
  end.

(* ---- preconditions ---- *)
Fixpoint nodup_str (l : list str) : bool :=
  match l with [] => true | x :: r => negb (existsb (str_eqb x) r) && nodup_str r end.
(* the interning table: texts pairwise different and free of lone surrogates, the three structural names in
   their places *)
Definition names_ok (tbl : names) : bool :=
  nodup_str (map snd tbl) && forallb (fun e => str_ok (snd e)) tbl
  && opt_eqb str_eqb (name_text tbl P_id) (Some (S"id"))
  && opt_eqb str_eqb (name_text tbl P_source) (Some (S"source"))
  && opt_eqb str_eqb (name_text tbl P_target) (Some (S"target")).
Definition jval_ok (v : pval) : bool := match v with PStr s => str_ok s | _ => true end.
Definition jprops_ok (tbl : names) (ps : props) : bool :=
  nodupN (map fst ps)
  && forallb (fun kv => match name_text tbl (fst kv) with Some _ => true | None => false end && jval_ok (snd kv)) ps.
(* every dict has distinct, interned names and strings without lone surrogates *)
Definition graph_json_text_ok (tbl : names) (g : nxg) : bool :=
  forallb (fun n => jprops_ok tbl (snd n)) (g_nodes g) && forallb (fun e => jprops_ok tbl (snd e)) (g_edges g).

(* example data: the interning table for ex_graph (Model/Serial1Graph.v) *)
Definition ex_names : names :=
  [(P_GraphID, S"GraphID"); (P_NodeID, S"NodeID"); (P_Class, S"Class"); (P_id, S"id"); (P_source, S"source");
   (P_target, S"target"); (10%N, S"Name"); (11%N, S"Détails" ++ [128512%N]); (12%N, S"p"); (13%N, S"q")].

(* example data: a model whose first node carries the opening of the OTHER format in its values *)
Definition ex_confusing : nxg :=
  {| g_nodes := [(1%N, [(10%N, PStr (S"<graphml xmlns=""http://graphml.graphdrawing.org/xmlns"">"));
                        (12%N, PStr (S"<?xml version=""1.0""?>")); (13%N, PStr (S"{""directed"": false, ""nodes"": ["));
                        (P_GraphID, PStr (S"{")); (P_NodeID, PStr (S"<graphml")); (P_Class, PStr (S"NetworkNode"))])];
     g_edges := [] |}.

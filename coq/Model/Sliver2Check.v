(* C02: the functions the correspondence cases are evaluated with (harness/c02.py writes the inputs
   together with what the implementation returned; these compare the model's prediction with it).
   Definitions only. *)
From Coq Require Import List String NArith Bool.
From FIM Require Import Base.Str Model.Sliver2Kinds Gen.PropMap Model.Sliver2Map Model.Sliver2Deep
  Model.Sliver2Graph Model.Sliver2GraphWF Model.Sliver2Store.
Import ListNotations.

(* an implementation result: None = an exception was raised (classes and messages are not compared) *)
Definition agrees {A} (eqb : A -> A -> bool) (model : res A) (impl : option A) : bool :=
  match model, impl with
  | Ok x, Some y => eqb x y
  | Err _, None => true
  | _, _ => false
  end.

(* stream `flat`: one sliver's data attributes; the implementation's properties dictionary (in dict
   order) and the attributes of the sliver rebuilt from that dictionary *)
Definition check_flat (c : kind * attrs * option props * option attrs) : bool :=
  let '(k, a, oprops, oattrs) := c in
  agrees props_eqb (to_props k a) oprops &&
  match oprops with
  | Some p => agrees attrs_eqb (from_props k p) oattrs
  | None => match oattrs with None => true | Some _ => false end
  end.

(* stream `deep`: a sliver tree; the implementation's deep dictionary, and the trees rebuilt through
   the dictionary, through JSON and through a graph on the in-memory backend *)
Definition check_deep (c : tree * option dd * option tree * option tree * option tree * option tree * option tree) : bool :=
  let '(t, odict, via_dict, via_json, via_graph, via_single_rm, via_disjoint_rm) := c in
  agrees dd_eqb (to_dict t) odict &&
  agrees tree_eqb (bind (to_dict t) (from_dict (t_kind t))) via_dict &&
  agrees tree_eqb (bind (sliver_to_json t) (sliver_from_json (t_kind t))) via_json &&
  agrees tree_eqb_unordered (graph_roundtrip t) via_graph &&
  (* the same sliver written into a graph after a removal, on the single store and on the disjoint store *)
  agrees tree_eqb_unordered (roundtrip_after_removal t) via_single_rm &&
  agrees tree_eqb_unordered (roundtrip_after_removal t) via_disjoint_rm.

(* stream `element`: operations on one element of a live topology, starting from the node's
   properties as the backend reports them *)
Inductive op :=
| OSet (p : string) (v : fval)                      (* e.set_property(p, v) *)
| OUnset (p : string)                               (* e.set_property(p, None) *)
| OGet (p : string)                                 (* e.get_property(p) *)
| OSetMany (kvs : list (string * option fval))      (* e.set_properties(p1=v1, ...) *)
| OBadValue (p : string).                           (* the value's own constructor refused (e.g. a JSON blob over
                                                       MAX_SIZE): raised before set_property, nothing happens *)

Inductive opres := RDone | RVal (v : option fval) | RRaise.

Definition opres_eqb (x y : opres) : bool :=
  match x, y with
  | RDone, RDone => true
  | RVal a, RVal b => opt_eqb fval_eqb a b
  | RRaise, RRaise => true
  | _, _ => false
  end.

Definition run_op (k : kind) (d : props) (o : op) : opres * props :=
  match o with
  | OSet p v => match set_property k p (Some v) d with Ok d' => (RDone, d') | Err _ => (RRaise, d) end
  | OUnset p => match set_property k p None d with Ok d' => (RDone, d') | Err _ => (RRaise, d) end
  | OGet p => match get_property k p d with Ok v => (RVal v, d) | Err _ => (RRaise, d) end
  | OSetMany kvs => match set_properties k kvs d with Ok d' => (RDone, d') | Err _ => (RRaise, d) end
  | OBadValue _ => (RRaise, d)
  end.

Fixpoint run_ops (k : kind) (d : props) (ops : list op) : list opres * props :=
  match ops with
  | [] => ([], d)
  | o :: r => let '(x, d1) := run_op k d o in
              let '(xs, d2) := run_ops k d1 r in (x :: xs, d2)
  end.

Definition check_elem (c : kind * props * list op * list opres * props) : bool :=
  let '(k, d0, ops, obs, dfinal) := c in
  let '(xs, d) := run_ops k d0 ops in
  list_eqb opres_eqb xs obs && props_eqb d dfinal.

(* C17 (extension) - Topology.diff (fim/user/topology.py:942-1003) with its helpers
   _generate_set_of_diff_elements, _exclude_parented_elements (:846-911), _generate_list_of_modified_elements (:913-940)
   over a flat view of the two graphs, and the two Cypher queries it relies on
   (Neo4jPropertyGraph.get_graph_diff / get_graph_property_diff, fim/graph/neo4j_property_graph.py:644-714),
   MODELLED NOT VERIFIED (no Neo4j server here; the harness stands in for exactly these two methods with a Python
   evaluation of the same reading of the query text, pinned by a hash of their source):
     * `MATCH (n:..A) WITH n MATCH (n1:..B) WITH collect(DISTINCT n) ..`: a cross product; when either graph has no
       node of the class there is no row to aggregate and both lists come back empty;
     * the property query is a UNION of three one-row results (labels, capacities, user data) and the code reads
       row 0 only (`vd[0]`) - the pairs whose Labels differ.
   Definitions only. *)
From Coq Require Import List NArith Bool.
Import ListNotations.
From FIM Require Import Model.Diff17.

(* a graph node of one class: NodeID, Name, the stored property STRINGS (interned; None = property absent) and the
   NodeID of its parent element as Topology.get_parent_element finds it (None for nodes and top-level services) *)
Record gnode := mkG { g_id : N; g_name : N; g_lab : option N; g_cap : option N; g_ud : option N; g_parent : option N }.

Record topo := mkTopo { t_nodes : list gnode; t_comps : list gnode; t_svcs : list gnode; t_ifs : list gnode }.

Definition gids (l : list gnode) : list N := map g_id l.
Definition memN (x : N) (l : list N) : bool := existsb (N.eqb x) l.

(* get_graph_diff: ([x in A WHERE NOT x.NodeID in BN], [x in B WHERE NOT x.NodeID in AN]); no rows when a side is empty *)
Definition graph_diff (a b : list gnode) : list gnode * list gnode :=
  if isnil a || isnil b then ([], [])
  else (filter (fun x => negb (memN (g_id x) (gids b))) a, filter (fun x => negb (memN (g_id x) (gids a))) b).

(* n.get(PROP) != n1.get(PROP) on str-or-None *)
Definition opt_ne (x y : option N) : bool := negb (optN_eqb x y).
Definition gflags (n n1 : gnode) : flags :=
  mkFlags (opt_ne (g_lab n) (g_lab n1)) (opt_ne (g_cap n) (g_cap n1)) (opt_ne (g_ud n) (g_ud n1)) false.

(* get_graph_property_diff, row 0, zipped; then _generate_list_of_modified_elements *)
Definition graph_modified (a b : list gnode) : list (gnode * flags) :=
  flat_map (fun n => flat_map (fun n1 =>
     if N.eqb (g_id n) (g_id n1) && opt_ne (g_lab n) (g_lab n1) then [(n, gflags n n1)] else []) b) a.

Definition parent_in (x : gnode) (ps : list gnode) : bool :=
  match g_parent x with Some p => memN p (gids ps) | None => false end.

Record quad := mkQuad { q_nodes : list gnode; q_comps : list gnode; q_svcs : list gnode; q_ifs : list gnode }.

(* _exclude_parented_elements(nodes, nss, components, interfaces) *)
Definition exclude_parented (nodes nss comps ifs : list gnode) : quad :=
  let ex_comps := filter (fun c => parent_in c nodes) comps in
  let ex_nss := filter (fun s => parent_in s (nodes ++ ex_comps)) nss in
  let ex_ifs := filter (fun i => parent_in i (nss ++ ex_nss)) ifs in
  mkQuad nodes
         (filter (fun c => negb (parent_in c nodes)) comps)
         (filter (fun s => negb (parent_in s (nodes ++ ex_comps))) nss)
         (filter (fun i => negb (parent_in i (nss ++ ex_nss))) ifs).

Record tdiff := mkTdiff { td_added : quad; td_removed : quad;
                          td_mod_nodes : list (gnode * flags); td_mod_comps : list (gnode * flags);
                          td_mod_svcs : list (gnode * flags); td_mod_ifs : list (gnode * flags) }.

Definition topo_diff (a b : topo) : tdiff :=
  let dn := graph_diff (t_nodes a) (t_nodes b) in
  let ds := graph_diff (t_svcs a) (t_svcs b) in
  let dc := graph_diff (t_comps a) (t_comps b) in
  let di := graph_diff (t_ifs a) (t_ifs b) in
  mkTdiff (exclude_parented (snd dn) (snd ds) (snd dc) (snd di))
          (exclude_parented (fst dn) (fst ds) (fst dc) (fst di))
          (graph_modified (t_nodes a) (t_nodes b)) (graph_modified (t_comps a) (t_comps b))
          (graph_modified (t_svcs a) (t_svcs b)) (graph_modified (t_ifs a) (t_ifs b)).

(* ---------------- specification ---------------- *)
(* added = NodeIDs of the class present in the new graph only; removed = in the old only; elements whose parent is
   itself added (removed) are left to the parent, by the convention documented at _exclude_parented_elements;
   modified = elements in both with a non-empty flag set, exactly LABELS/CAPACITIES/USER_DATA of what differs *)
Definition only_in (a b : list gnode) : list gnode := filter (fun x => negb (memN (g_id x) (gids b))) a.

Definition gfind (k : N) (l : list gnode) : option gnode := find (fun x => N.eqb (g_id x) k) l.
Definition exp_gmod (a b : list gnode) : list (gnode * flags) :=
  flat_map (fun n => match gfind (g_id n) b with
                     | Some n1 => if is_none (gflags n n1) then [] else [(n, gflags n n1)]
                     | None => []
                     end) a.

Definition topo_expected (a b : topo) : tdiff :=
  mkTdiff (exclude_parented (only_in (t_nodes b) (t_nodes a)) (only_in (t_svcs b) (t_svcs a))
                            (only_in (t_comps b) (t_comps a)) (only_in (t_ifs b) (t_ifs a)))
          (exclude_parented (only_in (t_nodes a) (t_nodes b)) (only_in (t_svcs a) (t_svcs b))
                            (only_in (t_comps a) (t_comps b)) (only_in (t_ifs a) (t_ifs b)))
          (exp_gmod (t_nodes a) (t_nodes b)) (exp_gmod (t_comps a) (t_comps b))
          (exp_gmod (t_svcs a) (t_svcs b)) (exp_gmod (t_ifs a) (t_ifs b)).

Definition quad_empty (q : quad) : bool := isnil (q_nodes q) && isnil (q_comps q) && isnil (q_svcs q) && isnil (q_ifs q).
Definition tdiff_empty (d : tdiff) : bool :=
  quad_empty (td_added d) && quad_empty (td_removed d) && isnil (td_mod_nodes d) && isnil (td_mod_comps d)
  && isnil (td_mod_svcs d) && isnil (td_mod_ifs d).

(* NodeIDs are distinct inside one class of one graph *)
Definition wf_class (l : list gnode) : bool := nodupb (gids l).
Definition wf_topo (t : topo) : bool :=
  wf_class (t_nodes t) && wf_class (t_comps t) && wf_class (t_svcs t) && wf_class (t_ifs t).

(* signatures of the two findings (what the partial theorem excludes):
   T1 a class that is empty on exactly one side;  T2 a common element whose capacities or user data differ while
   its labels do not *)
Definition same_emptiness (a b : list gnode) : bool := Bool.eqb (isnil a) (isnil b).
Definition no_silent_change (a b : list gnode) : bool :=
  forallb (fun n => match gfind (g_id n) b with
                    | Some n1 => opt_ne (g_lab n) (g_lab n1) || negb (opt_ne (g_cap n) (g_cap n1) || opt_ne (g_ud n) (g_ud n1))
                    | None => true
                    end) a.
Definition visible_pair (a b : topo) : bool :=
  same_emptiness (t_nodes a) (t_nodes b) && same_emptiness (t_comps a) (t_comps b)
  && same_emptiness (t_svcs a) (t_svcs b) && same_emptiness (t_ifs a) (t_ifs b)
  && no_silent_change (t_nodes a) (t_nodes b) && no_silent_change (t_comps a) (t_comps b)
  && no_silent_change (t_svcs a) (t_svcs b) && no_silent_change (t_ifs a) (t_ifs b).

(* witnesses (replayed on the implementation through the stand-in: harness/c17.py, topo witnesses) *)
Definition wt_node (cap : option N) : gnode := mkG 1 1 None cap None None.
Definition wt1_old : topo := mkTopo [wt_node (Some 5%N)] [] [] [].
Definition wt1_new : topo := mkTopo [wt_node (Some 6%N)] [] [] [].      (* capacities changed, labels not *)
Definition wt_comp : gnode := mkG 2 2 None None None (Some 1%N).
Definition wt2_old : topo := mkTopo [wt_node None] [wt_comp] [] [].
Definition wt2_new : topo := mkTopo [wt_node None] [] [] [].             (* the only component removed *)

(* ---------------- correspondence ---------------- *)
Definition gq (q : quad) : list (list ident) :=
  [map (fun x => (g_name x, g_id x)) (q_nodes q); map (fun x => (g_name x, g_id x)) (q_comps q);
   map (fun x => (g_name x, g_id x)) (q_svcs q); map (fun x => (g_name x, g_id x)) (q_ifs q)].
Definition gm (l : list (gnode * flags)) : list (ident * N) :=
  map (fun p => ((g_name (fst p), g_id (fst p)), flag_val (snd p))) l.
Definition obs_of_tdiff (d : tdiff) : obs :=
  ODiff (gq (td_added d)) (gq (td_removed d))
        [gm (td_mod_nodes d); gm (td_mod_comps d); gm (td_mod_svcs d); gm (td_mod_ifs d)].

(* identifiers of graph nodes are compared sorted by NodeID (names repeat across a topology) *)
Fixpoint ins_by_id (x : ident) (l : list ident) : list ident :=
  match l with
  | [] => [x]
  | y :: r => if N.leb (snd x) (snd y) then x :: l else y :: ins_by_id x r
  end.
Definition sort_by_id (l : list ident) : list ident := fold_right ins_by_id [] l.
Fixpoint ins_f_by_id (x : ident * N) (l : list (ident * N)) : list (ident * N) :=
  match l with
  | [] => [x]
  | y :: r => if N.leb (snd (fst x)) (snd (fst y)) then x :: l else y :: ins_f_by_id x r
  end.
Definition sort_f_by_id (l : list (ident * N)) : list (ident * N) := fold_right ins_f_by_id [] l.

Definition tobs_eqb (x y : obs) : bool :=
  match x, y with
  | ODiff a r m, ODiff a' r' m' =>
      list_eqb (list_eqb ident_eqb) (map sort_by_id a) (map sort_by_id a')
      && list_eqb (list_eqb ident_eqb) (map sort_by_id r) (map sort_by_id r')
      && list_eqb (list_eqb idf_eqb) (map sort_f_by_id m) (map sort_f_by_id m')
  | ORaised a, ORaised b => N.eqb a b
  | _, _ => false
  end.

(* one case: two flat views + what the implementation returned for a.diff(b), b.diff(a), a.diff(copy of a) *)
Definition check_topo (c : (topo * topo) * (obs * obs * obs)) : bool :=
  let '((a, b), (oab, oba, oaa)) := c in
  tobs_eqb (obs_of_tdiff (topo_diff a b)) oab && tobs_eqb (obs_of_tdiff (topo_diff b a)) oba
  && tobs_eqb (obs_of_tdiff (topo_diff a a)) oaa.

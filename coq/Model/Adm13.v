(* C13 model: partitioning an aggregate resource model (ARM) into per-delegation models (ADMs).
   Transcription of
     fim/graph/resources/abc_arm.py      catalog_delegations (63-88), _update_delegations_on_node (90-104),
                                          generate_adms (106-214)
     fim/graph/networkx_property_graph.py get_first_and_second_neighbor (485-545, AS CODED: the rel2 filter
                                          appends n instead of k and is therefore ineffective), get_stitch_nodes
                                          (687-698), clone_graph (352-361), delete_node (547-555),
                                          update_node_property / unset_node_property (151-185)
     fim/slivers/delegations.py           Delegations.return_delegations_for_id (203-213)
     fim/graph/resources/abc_adm.py       rewrite_delegations (46-93)
   over a typed single-graph state.  The two delegation properties are modelled at the value level
   (what Delegations.from_json / to_json carry): per node and per type an optional insertion-ordered
   map delegation-id -> entry (single / pool definition / pool reference); details are opaque tokens.
   The class/relation constants of the three trace calls come from the regenerated Gen/Adm13Gen.v.
   Definitions only; proofs are in Proofs/Adm13*.v. *)
From Coq Require Import List NArith Bool.
From FIM Require Import Gen.Adm13Gen.
Import ListNotations.
Open Scope N_scope.

(* ---------------------------------------------------------------- state *)
Inductive det :=
| DSingle (details : N)                 (* {"pool_id": "_", "capacities"|"labels": details} *)
| DPoolDef (pool : N) (details : N)     (* {"pool_id": pool, "capacities"|"labels": details} *)
| DPoolRef (pool : N).                  (* {"pool": pool} *)

Definition dmap := list (N * det).      (* Delegations.delegations : dict id -> Delegation *)

Record node := mkNode {
  nid : N;                   (* NodeID *)
  ncls : N;                  (* Class (0 = absent) *)
  nstitch : option N;        (* StitchNode property: None = absent, Some 1 = 'true', Some k = other text *)
  nprops : N;                (* every other property, as one opaque token *)
  ldel : option dmap;        (* LabelDelegations (None = property absent) *)
  cdel : option dmap }.      (* CapacityDelegations *)

Record edge := mkEdge { ea : N; eb : N; ecls : N; eprops : N }.   (* undirected; Class; other props *)
Record graph := mkGraph { gnodes : list node; gedges : list edge }.

Inductive exn := EQuery.     (* PropertyGraphQueryException *)
Inductive result (A : Type) := Ok (a : A) | Err (e : exn).
Arguments Ok {A} a.
Arguments Err {A} e.

Definition STITCH_TRUE : N := 1.

(* ---------------------------------------------------------------- small list helpers *)
Definition memb (x : N) (l : list N) : bool := existsb (N.eqb x) l.
Fixpoint nodupb (l : list N) : bool :=
  match l with [] => true | x :: r => negb (memb x r) && nodupb r end.
Definition set_add (x : N) (l : list N) : list N := if memb x l then l else l ++ [x].
Definition set_union (l xs : list N) : list N := fold_left (fun acc x => set_add x acc) xs l.
Definition removeN (x : N) (l : list N) : list N := filter (fun y => negb (y =? x)) l.
Definition is_some {A} (o : option A) : bool := match o with Some _ => true | None => false end.

Fixpoint assoc {V} (k : N) (l : list (N * V)) : option V :=
  match l with
  | [] => None
  | (k', v) :: r => if k' =? k then Some v else assoc k r
  end.

(* ---------------------------------------------------------------- Delegations *)
Definition dkeys (m : dmap) : list N := map fst m.                 (* get_delegation_ids *)
Definition dget (d : N) (m : dmap) : option det := assoc d m.

(* Delegations.return_delegations_for_id: a Delegations limited to this id, or None *)
Definition for_id (d : N) (m : dmap) : option dmap :=
  match dget d m with Some x => Some [(d, x)] | None => None end.

Definition entries (o : option dmap) : dmap := match o with Some m => m | None => [] end.

(* ---------------------------------------------------------------- property-graph primitives *)
Definition node_ids (g : graph) : list N := map nid (gnodes g).      (* list_all_node_ids *)
Definition find_node (g : graph) (id : N) : option node := find (fun n => nid n =? id) (gnodes g).
Definition cls_of (g : graph) (id : N) : option N := option_map ncls (find_node g id).

(* a write to the (unique) node with this NodeID *)
Definition upd_node (g : graph) (id : N) (f : node -> node) : graph :=
  mkGraph (map (fun n => if nid n =? id then f n else n) (gnodes g)) (gedges g).

(* delete_node: the node and its incident edges *)
Definition delete_node (g : graph) (id : N) : graph :=
  mkGraph (filter (fun n => negb (nid n =? id)) (gnodes g))
          (filter (fun e => negb (ea e =? id) && negb (eb e =? id)) (gedges g)).

(* get_all_nodes_by_class *)
Definition nodes_by_class (g : graph) (l : N) : list N :=
  map nid (filter (fun n => ncls n =? l) (gnodes g)).

(* get_stitch_nodes: StitchNode == 'true' *)
Definition is_stitch (n : node) : bool :=
  match nstitch n with Some v => v =? STITCH_TRUE | None => false end.
Definition stitch_nodes (g : graph) : list N := map nid (filter is_stitch (gnodes g)).

(* graph.neighbors(x) with the class of the connecting edge *)
Definition nbrs (g : graph) (x : N) : list (N * N) :=
  flat_map (fun e => if ea e =? x then [(eb e, ecls e)]
                     else if eb e =? x then [(ea e, ecls e)] else []) (gedges g).

(* _filter_nodes_by_label *)
Definition filter_label (g : graph) (l : N) (ids : list N) : list N :=
  filter (fun i => match cls_of g i with Some c => c =? l | None => false end) ids.

(* get_first_and_second_neighbor as coded.  With fsn_rel2_effective = false (line 529 appends n, the
   first neighbour, to the drop list instead of k) the second-hop relation filter only removes n
   itself from its own neighbour set, i.e. nothing in a graph without self loops. *)
Definition second_of (g : graph) (rel2 : N) (n : N) : list N :=
  let nb := nbrs g n in
  if fsn_rel2_effective
  then map fst (filter (fun p => snd p =? rel2) nb)
  else if existsb (fun p => negb (snd p =? rel2)) nb then removeN n (map fst nb) else map fst nb.

Definition fsn (g : graph) (x rel1 l1 rel2 l2 : N) : list (N * N) :=
  let first := map fst (filter (fun p => snd p =? rel1) (nbrs g x)) in
  let first := filter_label g l1 first in
  flat_map (fun n => map (fun i => (n, i)) (removeN x (filter_label g l2 (second_of g rel2 n)))) first.

Definition fsn4 (g : graph) (x : N) (t : N * N * N * N) : list (N * N) :=
  let '(rel1, l1, rel2, l2) := t in fsn g x rel1 l1 rel2 l2.

Definition pair_ids (ps : list (N * N)) : list N := flat_map (fun p => [fst p; snd p]) ps.

(* ---------------------------------------------------------------- catalog_delegations *)
Record catalog := mkCat {
  c_ids : list N;                                     (* unique_delegation_ids *)
  c_keep : list (N * N);                              (* keep_node_sets as a relation (delegation id, node id) *)
  c_by : list (N * (option dmap * option dmap)) }.    (* delegations_by_node: node id -> (LABEL, CAPACITY) *)

Definition cat_type (id : N) (acc : list N * list (N * N)) (o : option dmap) : list N * list (N * N) :=
  match o with
  | None => acc                                       (* ds is None: continue *)
  | Some m => (set_union (fst acc) (dkeys m), snd acc ++ map (fun d => (d, id)) (dkeys m))
  end.

Definition cat_step (c : catalog) (n : node) : catalog :=
  let first := if deleg_label_first then ldel n else cdel n in
  let second := if deleg_label_first then cdel n else ldel n in
  let acc := cat_type (nid n) (cat_type (nid n) (c_ids c, c_keep c) first) second in
  mkCat (fst acc) (snd acc)
        (if is_some (ldel n) || is_some (cdel n) then c_by c ++ [(nid n, (ldel n, cdel n))] else c_by c).

Definition catalog_delegations (g : graph) : catalog := fold_left cat_step (gnodes g) (mkCat [] [] []).

Definition keep_of (c : catalog) (d : N) : list N := map snd (filter (fun p => fst p =? d) (c_keep c)).

(* ---------------------------------------------------------------- generate_adms, one delegation id *)
(* _update_delegations_on_node: None -> unset_node_property (a no-op when absent, since 152c89b),
   Some ds -> update_node_property(ds.to_json()) *)
Definition set_ldel (v : option dmap) (n : node) : node :=
  mkNode (nid n) (ncls n) (nstitch n) (nprops n) v (cdel n).
Definition set_cdel (v : option dmap) (n : node) : node :=
  mkNode (nid n) (ncls n) (nstitch n) (nprops n) (ldel n) v.

Definition for_id_opt (d : N) (o : option dmap) : option dmap :=
  match o with Some m => for_id d m | None => None end.

Definition rewrite_node (by_node : list (N * (option dmap * option dmap))) (d : N) (g : graph) (id : N) : graph :=
  match assoc id by_node with
  | None => g                                          (* delegations_by_node.get(node) is None: continue *)
  | Some (lm, cm) =>
      if deleg_label_first
      then upd_node (upd_node g id (set_ldel (for_id_opt d lm))) id (set_cdel (for_id_opt d cm))
      else upd_node (upd_node g id (set_cdel (for_id_opt d cm))) id (set_ldel (for_id_opt d lm))
  end.

(* keep-set computation; arm is the graph the traces read (self) *)
Definition keep0 (arm : graph) (c : catalog) (stitch : list N) (d : N) : list N := keep_of c d ++ stitch.

Definition keep_cps0 (arm : graph) (k0 : list N) : list N :=
  filter (fun i => memb i (nodes_by_class arm cp_label)) k0.

Definition link_pairs (arm : graph) (cps : list N) : list (N * N) :=
  flat_map (fun cp => fsn4 arm cp trace_link) cps.

Definition owner_pairs (arm : graph) (cps : list N) : list (N * N) :=
  flat_map (fun cp => flat_map (fun t => fsn4 arm cp t) trace_owner) cps.

Definition keepset_from (arm : graph) (k0 : list N) : list N :=
  let cps0 := keep_cps0 arm k0 in
  let lp := link_pairs arm cps0 in
  let k1 := k0 ++ pair_ids lp in
  let cps1 := cps0 ++ map snd lp in
  k1 ++ pair_ids (owner_pairs arm cps1).

Definition keepset (arm : graph) (d : N) : list N :=
  keepset_from arm (keep0 arm (catalog_delegations arm) (stitch_nodes arm) d).

Definition gen_one (arm : graph) (ids : list N) (c : catalog) (stitch : list N) (d : N) : graph :=
  let clone := arm in                                                     (* clone_graph *)
  let g1 := fold_left (rewrite_node (c_by c) d) ids clone in
  let keep := keepset_from arm (keep0 arm c stitch d) in
  let remove := filter (fun i => negb (memb i keep)) ids in
  fold_left delete_node remove g1.

Definition generate_adms (arm : graph) : result (list (N * graph)) :=
  let ids := node_ids arm in
  match ids with
  | [] => Err EQuery                                                       (* "Unable to list nodes of ARM graph" *)
  | _ => let stitch := stitch_nodes arm in
         let c := catalog_delegations arm in
         Ok (map (fun d => (d, gen_one arm ids c stitch d)) (c_ids c))
  end.

(* ---------------------------------------------------------------- the same on a store of graphs *)
(* graph id -> graph; add_graph replaces a graph that is already present under the id *)
Definition store := list (N * graph).
Definition sget (st : store) (gid : N) : option graph := assoc gid st.
Fixpoint sset (st : store) (gid : N) (g : graph) : store :=
  match st with
  | [] => [(gid, g)]
  | (k, v) :: r => if k =? gid then (k, g) :: r else (k, v) :: sset r gid g
  end.
Definition supd (st : store) (gid : N) (f : graph -> graph) : store :=
  map (fun kv => if fst kv =? gid then (fst kv, f (snd kv)) else kv) st.
Definition empty_graph : graph := mkGraph [] [].
Definition sview (st : store) (gid : N) : graph := match sget st gid with Some g => g | None => empty_graph end.

Definition st_gen_one (garm : N) (ids : list N) (c : catalog) (stitch : list N) (st : store) (dg : N * N) : store :=
  let '(d, gid) := dg in
  let st1 := sset st gid (sview st garm) in                                (* clone_graph(new_graph_id) *)
  let st2 := fold_left (fun s id => supd s gid (fun g => rewrite_node (c_by c) d g id)) ids st1 in
  let arm := sview st2 garm in                                             (* the traces read self, now *)
  let keep := keepset_from arm (keep0 arm c stitch d) in
  let remove := filter (fun i => negb (memb i keep)) ids in
  fold_left (fun s id => supd s gid (fun g => delete_node g id)) remove st2.

(* delegation_guids: the caller-supplied dictionary delegation id -> graph id (unique keys); fresh: what
   str(uuid.uuid4()) returns for the delegation ids the caller did not mention.  Since 59579dc the supplied ids
   of the delegation ids present must not name the ARM graph itself and must be pairwise distinct; the test
   happens after catalog_delegations and before any clone, so a rejected call leaves the store as it was. *)
Definition supplied_for (supplied : list (N * N)) (ds : list N) : list N :=
  flat_map (fun d => match assoc d supplied with Some g => [g] | None => [] end) ds.
Definition guids_ok (garm : N) (supplied : list (N * N)) (ds : list N) : bool :=
  negb (memb garm (supplied_for supplied ds)) && nodupb (supplied_for supplied ds).
Definition gid_for (supplied : list (N * N)) (fresh : N -> N) (d : N) : N :=
  match assoc d supplied with Some g => g | None => fresh d end.

Definition st_generate_adms (st : store) (garm : N) (supplied : list (N * N)) (fresh : N -> N)
  : store * result (list (N * N)) :=
  let arm := sview st garm in
  let ids := node_ids arm in
  match ids with
  | [] => (st, Err EQuery)
  | _ => let stitch := stitch_nodes arm in
         let c := catalog_delegations arm in
         if guids_ok garm supplied (c_ids c)
         then let dgs := map (fun d => (d, gid_for supplied fresh d)) (c_ids c) in
              (fold_left (st_gen_one garm ids c stitch) dgs st, Ok dgs)
         else (st, Err EQuery)
  end.

(* what is assumed of uuid4: the ids it hands out (for the delegation ids without a supplied graph id) are not
   the ARM's, not one another and not one of the supplied ones *)
Definition generated_ids (supplied : list (N * N)) (ds : list N) : list N :=
  filter (fun d => negb (is_some (assoc d supplied))) ds.
Definition uuid_fresh (garm : N) (supplied : list (N * N)) (fresh : N -> N) (ds : list N) : Prop :=
  ~ In garm (map fresh (generated_ids supplied ds)) /\ NoDup (map fresh (generated_ids supplied ds)) /\
  forall d, In d (generated_ids supplied ds) -> ~ In (fresh d) (supplied_for supplied ds).

(* ---------------------------------------------------------------- ADM.rewrite_delegations *)
Definition rekey (gid : N) (o : option dmap) : result (option dmap) :=
  match o with
  | None => Ok None
  | Some [(_, x)] => Ok (Some [(gid, x)])
  | Some _ => Err EQuery                               (* "more than one entry" (also: none) *)
  end.

Definition rekey_node (gid : N) (n : node) : result node :=
  match rekey gid (ldel n) with
  | Err e => Err e
  | Ok l => match rekey gid (cdel n) with
            | Err e => Err e
            | Ok c => Ok (set_cdel c (set_ldel l n))
            end
  end.

(* effects on earlier nodes stay when a later node raises *)
Fixpoint rewrite_nodes (gid : N) (todo : list N) (g : graph) : graph * option exn :=
  match todo with
  | [] => (g, None)
  | id :: r => match find_node g id with
               | None => (g, Some EQuery)
               | Some n => match rekey_node gid n with
                           | Err e => (g, Some e)
                           | Ok n' => rewrite_nodes gid r (upd_node g id (fun _ => n'))
                           end
               end
  end.

Definition rewrite_delegations (g : graph) (gid : N) : graph * option exn :=
  match gnodes g with
  | [] => (g, Some EQuery)
  | _ => rewrite_nodes gid (node_ids g) g
  end.

(* rewrite_delegations on the graph stored under gid: every read and write is addressed to that graph id *)
Definition st_rewrite_delegations (st : store) (gid key : N) : store * option exn :=
  match sget st gid with
  | None => (st, Some EQuery)
  | Some g => let r := rewrite_delegations g key in (supd st gid (fun _ => fst r), snd r)
  end.

(* what "changes only the key" means *)
Definition rekey_map (gid : N) (o : option dmap) : option dmap :=
  option_map (map (fun p => (gid, snd p))) o.
Definition rekeyed (gid : N) (n : node) : node := set_cdel (rekey_map gid (cdel n)) (set_ldel (rekey_map gid (ldel n)) n).

(* ---------------------------------------------------------------- well-formedness (boolean) *)

Definition dmap_ok (o : option dmap) : bool := nodupb (dkeys (entries o)).

Definition edge_ok (g : graph) (e : edge) : bool :=
  memb (ea e) (node_ids g) && memb (eb e) (node_ids g) && negb (ea e =? eb e).

Definition same_pair (e f : edge) : bool :=
  ((ea e =? ea f) && (eb e =? eb f)) || ((ea e =? eb f) && (eb e =? ea f)).
Fixpoint edges_distinct (l : list edge) : bool :=
  match l with [] => true | e :: r => negb (existsb (same_pair e) r) && edges_distinct r end.

Definition wfb (g : graph) : bool :=
  nodupb (node_ids g) && forallb (edge_ok g) (gedges g) && edges_distinct (gedges g) &&
  forallb (fun n => dmap_ok (ldel n) && dmap_ok (cdel n)) (gnodes g).

(* ---------------------------------------------------------------- vocabulary of the statements *)
(* node n carries a delegation (of either type) to id d *)
Definition delegated (d : N) (n : node) : Prop :=
  In d (dkeys (entries (ldel n))) \/ In d (dkeys (entries (cdel n))).

(* n' is n with both delegation properties cut down to exactly n's entries for d; nothing else differs *)
Definition restricted (d : N) (n n' : node) : Prop :=
  nid n' = nid n /\ ncls n' = ncls n /\ nstitch n' = nstitch n /\ nprops n' = nprops n /\
  (forall d' x, In (d', x) (entries (ldel n')) <-> d' = d /\ In (d, x) (entries (ldel n))) /\
  (forall d' x, In (d', x) (entries (cdel n')) <-> d' = d /\ In (d, x) (entries (cdel n))).

(* edge e joins x and y (undirected) *)
Definition joins (e : edge) (x y : N) : Prop := (ea e = x /\ eb e = y) \/ (ea e = y /\ eb e = x).

(* ---------------------------------------------------------------- decidable equality for the tie *)
Definition det_eqb (a b : det) : bool :=
  match a, b with
  | DSingle x, DSingle y => x =? y
  | DPoolDef p x, DPoolDef q y => (p =? q) && (x =? y)
  | DPoolRef p, DPoolRef q => p =? q
  | _, _ => false
  end.

Fixpoint list_eqb {A B} (eqb : A -> B -> bool) (a : list A) (b : list B) : bool :=
  match a, b with
  | [], [] => true
  | x :: a', y :: b' => eqb x y && list_eqb eqb a' b'
  | _, _ => false
  end.
Definition opt_eqb {A} (eqb : A -> A -> bool) (a b : option A) : bool :=
  match a, b with None, None => true | Some x, Some y => eqb x y | _, _ => false end.

(* delegation maps are compared as dictionaries: same length and same binding for every key *)
Definition dmap_eqb (a b : dmap) : bool :=
  (N.of_nat (length a) =? N.of_nat (length b)) &&
  forallb (fun kv => opt_eqb det_eqb (dget (fst kv) b) (Some (snd kv))) a.

Definition node_eqb (a b : node) : bool :=
  (nid a =? nid b) && (ncls a =? ncls b) && opt_eqb N.eqb (nstitch a) (nstitch b) && (nprops a =? nprops b) &&
  opt_eqb dmap_eqb (ldel a) (ldel b) && opt_eqb dmap_eqb (cdel a) (cdel b).
Definition edge_eqb (a b : edge) : bool :=
  (ea a =? ea b) && (eb a =? eb b) && (ecls a =? ecls b) && (eprops a =? eprops b).
(* the harness lists nodes by NodeID and edges by endpoint pair; the model preserves the ARM's order *)
Definition graph_eqb (a b : graph) : bool :=
  list_eqb node_eqb (gnodes a) (gnodes b) && list_eqb edge_eqb (gedges a) (gedges b).

(* ---------------------------------------------------------------- correspondence case *)
Fixpoint insert_by {V} (k : N) (v : V) (l : list (N * V)) : list (N * V) :=
  match l with
  | [] => [(k, v)]
  | (k', v') :: r => if k <? k' then (k, v) :: l else (k', v') :: insert_by k v r
  end.
Definition sort_by {V} (l : list (N * V)) : list (N * V) := fold_right (fun kv acc => insert_by (fst kv) (snd kv) acc) [] l.

Record obs13 := mkObs {
  o_adms : result (list (N * N * graph));        (* sorted by delegation id: (id, graph id, snapshot) *)
  o_store_keys : list N;                         (* graph ids in the store afterwards, sorted *)
  o_arm_after : option graph;                    (* None = identical to the snapshot taken before *)
  o_rw : list (N * list (N * (graph * bool)));   (* per delegation id, a sequence of re-keyings of its partition:
                                                    new key, ADM after rewrite_delegations, raised? *)
  o_rw_arm : option (N * list N * (graph * bool)) }.  (* rewrite_delegations on a clone of the ARM itself: new key,
                                                    the store's node order (decides what is already rewritten
                                                    when a node with several ids raises), result, raised? *)

Record case13 := mkCase { k_arm : graph; k_garm : N; k_supplied : list (N * N); k_obs : obs13 }.

Definition eq_rw (r : graph * option exn) (o : graph * bool) : bool :=
  graph_eqb (fst r) (fst o) && Bool.eqb (is_some (snd r)) (snd o).

(* a sequence of rewrite_delegations calls on one graph, each compared with the observation *)
Fixpoint check_rw_steps (g : graph) (steps : list (N * (graph * bool))) : bool :=
  match steps with
  | [] => true
  | (key, ob) :: r => let res := rewrite_delegations g key in eq_rw res ob && check_rw_steps (fst res) r
  end.

Definition check13 (k : case13) : bool :=
  let A := k_arm k in
  let o := k_obs k in
  let st0 := [(k_garm k, A)] in
  let after := match o_arm_after o with Some g => g | None => A end in
  wfb A &&
  match o_adms o with
  | Err _ =>
      (* the implementation raised: the store-level model raises too and, like the code, has touched nothing *)
      match st_generate_adms st0 (k_garm k) (k_supplied k) (fun _ => 0) with
      | (st, Err _) => list_eqb N.eqb (map fst (sort_by st)) (o_store_keys o) && graph_eqb (sview st (k_garm k)) after
      | (_, Ok _) => false
      end
  | Ok OB =>
      (* pure model vs the returned dictionary *)
      match generate_adms A with
      | Ok L => list_eqb (fun x y => (fst x =? fst (fst y)) && graph_eqb (snd x) (snd y)) (sort_by L) OB
      | Err _ => false
      end &&
      (* store-level model vs the store afterwards; uuid4 results as observed *)
      (let fresh := fun d => match assoc d (map fst OB) with Some g => g | None => 0 end in
       match st_generate_adms st0 (k_garm k) (k_supplied k) fresh with
       | (_, Err _) => false
       | (st, Ok dgs) =>
           list_eqb (fun x y => (fst x =? fst (fst y)) && (snd x =? snd (fst y))) (sort_by dgs) OB &&
           list_eqb N.eqb (map fst (sort_by st)) (o_store_keys o) &&
           graph_eqb (sview st (k_garm k)) after &&
           forallb (fun x => graph_eqb (sview st (snd (fst x))) (snd x)) OB
       end) &&
      (* rewrite_delegations on every ADM *)
      list_eqb (fun x y => (fst (fst x) =? fst y) && check_rw_steps (snd x) (snd y)) OB (o_rw o)
  end &&
  match o_rw_arm o with
  | None => true
  | Some r => eq_rw (rewrite_nodes (fst (fst r)) (snd (fst r)) A) (snd r)
  end.

(* a history: partition; change the aggregate model; partition again (same ARM object or a fresh wrapper).  The
   model has no per-object state: every round is checked against the model applied to the graph of that round. *)
Definition check13_hist (l : list case13) : bool := forallb check13 l.

(* several results (of calls on different aggregates in one store), each looked at after the last call: every one
   agrees with the model of its own aggregate, and no graph id is used by two partitions *)
Definition obs_gids (k : case13) : list N :=
  match o_adms (k_obs k) with Ok OB => map (fun x => snd (fst x)) OB | Err _ => [] end.
Definition check13_pair (l : list case13) : bool :=
  forallb check13 l && nodupb (flat_map obs_gids l).

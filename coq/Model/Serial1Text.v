(* C01 model, text layer: what happens to the characters of one text item (a property value, a label
   attribute) between the networkx GraphML writer and the networkx GraphML reader.

   Pipeline in the code (fim/graph/networkx_property_graph.py:363-385, fim/graph/graph_util.py:38-79,
   after fix 10c1448):
     GraphML.nx_generate_graphml : networkx GraphMLWriter text = xml.etree tostring (us-ascii, & < >
                           escaped, non-ASCII as decimal character references)   -- et_escape, then
     .replace('\r', '&#13;')     : a raw CR becomes a character reference           -- cr_ref
     lxml etree.fromstring : characters checked, references decoded               -- xml_unescape      (text_in)
     lxml etree.tostring : & < > escaped, CR and non-ASCII as references          -- lx_escape / lx_attr_escape
     file write / open(..,'r') / expat : end-of-line normalisation, attribute white-space
                           normalisation, references decoded                      -- (text_out, attr_out)
   Python str = list N of code points (Base/Str.v).  Definitions only; proofs in Proofs/Serial1Text.v. *)
From Coq Require Import String.
From Coq Require Import List NArith Bool.
From Coq Require Import Decimal DecimalN.
From FIM Require Import Base.Str.
Import ListNotations.
Open Scope N_scope.

(* XML 1.0 Char production *)
Definition xml_legal_char (c : N) : bool :=
  (c =? 9) || (c =? 10) || (c =? 13) || ((32 <=? c) && (c <=? 55295))
  || ((57344 <=? c) && (c <=? 65533)) || ((65536 <=? c) && (c <=? 1114111)).
Definition xml_legal (s : str) : bool := forallb xml_legal_char s.
Definition no_cr (s : str) : bool := forallb (fun c => negb (c =? 13)) s.

(* ---- decimal text of a code point (character references) ---- *)
Fixpoint uint_to_str (u : Decimal.uint) : str :=
  match u with
  | Nil => []
  | D0 u => 48 :: uint_to_str u | D1 u => 49 :: uint_to_str u | D2 u => 50 :: uint_to_str u
  | D3 u => 51 :: uint_to_str u | D4 u => 52 :: uint_to_str u | D5 u => 53 :: uint_to_str u
  | D6 u => 54 :: uint_to_str u | D7 u => 55 :: uint_to_str u | D8 u => 56 :: uint_to_str u
  | D9 u => 57 :: uint_to_str u
  end.

Definition digit_cons (c : N) (u : Decimal.uint) : option Decimal.uint :=
  if c =? 48 then Some (D0 u) else if c =? 49 then Some (D1 u) else if c =? 50 then Some (D2 u)
  else if c =? 51 then Some (D3 u) else if c =? 52 then Some (D4 u) else if c =? 53 then Some (D5 u)
  else if c =? 54 then Some (D6 u) else if c =? 55 then Some (D7 u) else if c =? 56 then Some (D8 u)
  else if c =? 57 then Some (D9 u) else None.

Fixpoint str_to_uint (s : str) : option Decimal.uint :=
  match s with
  | [] => Some Nil
  | c :: r => match str_to_uint r with Some u => digit_cons c u | None => None end
  end.

Definition dec_of_N (n : N) : str := uint_to_str (N.to_uint n).
Definition N_of_dec (s : str) : option N :=
  match s with [] => None | _ => option_map N.of_uint (str_to_uint s) end.

Definition char_ref (c : N) : str := 38 :: 35 :: dec_of_N c ++ [59].       (* &#NNN; *)

(* ---- writers ---- *)
(* xml.etree: _escape_cdata + encode('us-ascii', 'xmlcharrefreplace') *)
Definition et_escape_char (c : N) : str :=
  if c =? 38 then S"&amp;" else if c =? 60 then S"&lt;" else if c =? 62 then S"&gt;"
  else if 127 <? c then char_ref c else [c].
Definition et_escape (s : str) : str := flat_map et_escape_char s.

(* lxml tostring (ASCII output), text content *)
Definition lx_escape_char (c : N) : str :=
  if c =? 38 then S"&amp;" else if c =? 60 then S"&lt;" else if c =? 62 then S"&gt;"
  else if c =? 13 then char_ref 13
  else if 127 <? c then char_ref c else [c].
Definition lx_escape (s : str) : str := flat_map lx_escape_char s.

(* lxml tostring, attribute value *)
Definition lx_attr_escape_char (c : N) : str :=
  if c =? 38 then S"&amp;" else if c =? 60 then S"&lt;" else if c =? 62 then S"&gt;"
  else if c =? 34 then S"&quot;"
  else if (c =? 9) || (c =? 10) || (c =? 13) then char_ref c
  else if 127 <? c then char_ref c else [c].
Definition lx_attr_escape (s : str) : str := flat_map lx_attr_escape_char s.

(* str.replace('\r', '&#13;') on the written text *)
Definition cr_ref (s : str) : str := flat_map (fun c => if c =? 13 then char_ref 13 else [c]) s.

(* ---- line ends ---- *)
(* The end-of-line normalisation of the XML parser / of open(..,'r') (universal newlines) on a text item:
   CR LF -> LF, CR -> LF.  [cr] = the previous character was a CR. *)
Fixpoint splitjoin_from (cr : bool) (s : str) : str :=
  match s with
  | [] => []
  | c :: r =>
      if c =? 13 then 10 :: splitjoin_from true r
      else if c =? 10 then (if cr then splitjoin_from false r else 10 :: splitjoin_from false r)
      else c :: splitjoin_from false r
  end.
Definition splitjoin (s : str) : str := splitjoin_from false s.
Definition eol_norm (s : str) : str := splitjoin s.      (* the same function, at the value level *)

(* attribute-value normalisation of literal white space (references are not touched) *)
Definition attr_ws (s : str) : str := map (fun c => if (c =? 9) || (c =? 10) || (c =? 13) then 32 else c) s.

(* ---- reader: character check + entity / decimal character references ---- *)
Definition decode_ref (body : str) : option N :=
  if str_eqb body (S"amp") then Some 38
  else if str_eqb body (S"lt") then Some 60
  else if str_eqb body (S"gt") then Some 62
  else if str_eqb body (S"quot") then Some 34
  else if str_eqb body (S"apos") then Some 39
  else match body with
       | 35 :: ds => match N_of_dec ds with
                     | Some c => if xml_legal_char c then Some c else None
                     | None => None            (* hexadecimal references are never written: not modelled *)
                     end
       | _ => None
       end.

(* st = None: in character data; Some acc: inside a reference, acc = its characters so far, reversed.
   None as a result = the parser raises. *)
Fixpoint unesc (st : option str) (s : str) : option str :=
  match s with
  | [] => match st with None => Some [] | Some _ => None end
  | c :: r =>
      match st with
      | None => if c =? 38 then unesc (Some []) r
                else if c =? 60 then None
                else if xml_legal_char c then option_map (cons c) (unesc None r) else None
      | Some acc => if c =? 59
                    then match decode_ref (List.rev acc) with
                         | Some ch => option_map (cons ch) (unesc None r)
                         | None => None
                         end
                    else unesc (Some (c :: acc)) r
      end
  end.
Definition xml_unescape (s : str) : option str := unesc None s.

(* ---- the three journeys of a text item ---- *)
(* value text written by networkx, CR replaced, parsed by lxml (inside networkx_to_neo4j); the parser's own
   end-of-line normalisation has no raw CR left to act on *)
Definition text_in (s : str) : option str := xml_unescape (eol_norm (cr_ref (et_escape s))).
(* element text written by lxml, stored / read back (universal newlines), parsed by expat *)
Definition text_out (s : str) : option str := xml_unescape (eol_norm (lx_escape s)).
(* attribute value written by lxml, read back *)
Definition attr_out (s : str) : option str := xml_unescape (attr_ws (eol_norm (lx_attr_escape s))).
(* a property value's text from writer to reader *)
Definition text_trip (s : str) : option str :=
  match text_in s with Some t => text_out t | None => None end.

(* C01 model, graph layer.  Definitions only (proofs: Proofs/Serial1Graph.v).

   What is modelled (line numbers: fim/graph/networkx_property_graph.py unless said otherwise):
   - property values as Python gives them to networkx: str / int / bool                      (pval)
   - the nx.Graph handed around by the library: node keys, attribute dicts, edges            (nxg)
   - nx.generate_graphml as a STRUCTURED document: key table (id = allocation index, type chosen
     from the Python type of the value: str->string, int->long, bool->boolean), nodes, edges,
     data elements                                                                           (write)
   - the journey of every text item through ElementTree / CR replacement / lxml / file / expat
     (Model/Serial1Text.v)                                                                   (transport)
   - GraphML.networkx_to_neo4j, graph_util.py:38-66: label / labels markup                   (to_neo4j)
   - nx.read_graphml (GraphMLReader.decode_data_elements)                                    (read_graphml)
   - node_link_data / node_link_graph at the value level (json.dumps/loads = identity on values)
   - the store: add_graph :741-763, add_graph_direct :765-781, __del_graph_nl :783-788,
     extract_graph :795-814                                                                  (store)
   - the importer: _read_from_file :904-917 (format sniffing), import_graph_from_string :919-941,
     import_graph_from_string_direct :943-964, import_graph_from_file (abc_property_graph.py:1445),
     import_graph_from_file_direct :966-981, get_graph_id (abc_property_graph.py:1532-1567)
   - serialize_graph :363-385, validate_graph :65-80 *)
From Coq Require Import String.
From Coq Require Import List NArith ZArith Bool.
From FIM Require Import Base.Str Model.Serial1Text.
Import ListNotations.

(* ------------------------------------------------------------------ values, dicts, graphs *)
Inductive pval := PStr (s : str) | PInt (z : Z) | PBool (b : bool).

Definition pval_eqb (a b : pval) : bool :=
  match a, b with
  | PStr x, PStr y => str_eqb x y
  | PInt x, PInt y => Z.eqb x y
  | PBool x, PBool y => Bool.eqb x y
  | _, _ => false
  end.

(* property names are identifiers of a fixed vocabulary; the harness interns them *)
Definition pname := N.
Definition P_GraphID : pname := 0%N.
Definition P_NodeID : pname := 1%N.
Definition P_Class : pname := 2%N.
Definition P_id : pname := 3%N.          (* "id"     : node key in node-link JSON *)
Definition P_source : pname := 4%N.      (* "source" : edge end in node-link JSON *)
Definition P_target : pname := 5%N.      (* "target" *)

Definition props := list (pname * pval).  (* a Python dict: insertion ordered, keys unique *)

Fixpoint pget (k : pname) (ps : props) : option pval :=
  match ps with
  | [] => None
  | (k', v) :: r => if N.eqb k' k then Some v else pget k r
  end.

(* d[k] = v : overwrite in place, else append *)
Fixpoint pset (k : pname) (v : pval) (ps : props) : props :=
  match ps with
  | [] => [(k, v)]
  | (k', v') :: r => if N.eqb k' k then (k', v) :: r else (k', v') :: pset k v r
  end.

Definition nkey := N.                    (* a node key of an nx graph *)
Definition gnode := (nkey * props)%type.
Definition gedge := (nkey * nkey * props)%type.
Record nxg := { g_nodes : list gnode; g_edges : list gedge }.

Fixpoint lookup {V} (k : N) (l : list (N * V)) : option V :=
  match l with
  | [] => None
  | (k', v) :: r => if N.eqb k' k then Some v else lookup k r
  end.

Fixpoint opt_list {A B} (f : A -> option B) (l : list A) : option (list B) :=
  match l with
  | [] => Some []
  | x :: r => match f x, opt_list f r with
              | Some y, Some ys => Some (y :: ys)
              | _, _ => None
              end
  end.

(* ------------------------------------------------------------------ GraphML document *)
Inductive vty := TString | TLong | TBoolean | TOther.   (* TOther: any other attr.type (never written) *)
Inductive scope := ForNode | ForEdge.
Definition kent := (pname * vty * scope)%type.      (* <key attr.name attr.type for>; id = position *)

Definition vty_eqb (a b : vty) : bool :=
  match a, b with TString, TString | TLong, TLong | TBoolean, TBoolean | TOther, TOther => true | _, _ => false end.
Definition scope_eqb (a b : scope) : bool :=
  match a, b with ForNode, ForNode | ForEdge, ForEdge => true | _, _ => false end.
Definition kent_eqb (a b : kent) : bool :=
  let '(n1, t1, s1) := a in let '(n2, t2, s2) := b in N.eqb n1 n2 && vty_eqb t1 t2 && scope_eqb s1 s2.

Record delem := { d_key : nat; d_text : str }.                         (* <data key="dK">text</data> *)
Record dnode := { n_id : nkey; n_labels : option str; n_data : list delem }.
Record dedge := { e_src : nkey; e_tgt : nkey; e_label : option str; e_data : list delem }.
Record doc := { d_keys : list kent; d_nodes : list dnode; d_edges : list dedge }.

(* GraphMLWriter.xml_type / add_data: type(value) -> attr.type; text = str(value) *)
Definition ty_of (v : pval) : vty :=
  match v with PStr _ => TString | PInt _ => TLong | PBool _ => TBoolean end.
Definition text_of (v : pval) : str :=
  match v with
  | PStr s => s
  | PInt z => str_of_Z z
  | PBool b => if b then S"True" else S"False"
  end.

(* GraphMLWriter.get_key: reuse the key of (name, type, scope) or allocate "d{len(keys)}" *)
Fixpoint index_of (k : kent) (tbl : list kent) : option nat :=
  match tbl with
  | [] => None
  | k' :: r => if kent_eqb k' k then Some O
               else match index_of k r with Some i => Some (Datatypes.S i) | None => None end
  end.
Definition get_key (tbl : list kent) (k : kent) : list kent * nat :=
  match index_of k tbl with
  | Some i => (tbl, i)
  | None => (tbl ++ [k], List.length tbl)
  end.

Fixpoint write_data (sc : scope) (tbl : list kent) (ps : props) : list kent * list delem :=
  match ps with
  | [] => (tbl, [])
  | (n, v) :: r =>
      let '(tbl1, i) := get_key tbl (n, ty_of v, sc) in
      let '(tbl2, ds) := write_data sc tbl1 r in
      (tbl2, {| d_key := i; d_text := text_of v |} :: ds)
  end.

Fixpoint write_nodes (tbl : list kent) (ns : list gnode) : list kent * list dnode :=
  match ns with
  | [] => (tbl, [])
  | (k, ps) :: r =>
      let '(tbl1, ds) := write_data ForNode tbl ps in
      let '(tbl2, out) := write_nodes tbl1 r in
      (tbl2, {| n_id := k; n_labels := None; n_data := ds |} :: out)
  end.

Fixpoint write_edges (tbl : list kent) (es : list gedge) : list kent * list dedge :=
  match es with
  | [] => (tbl, [])
  | (u, v, ps) :: r =>
      let '(tbl1, ds) := write_data ForEdge tbl ps in
      let '(tbl2, out) := write_edges tbl1 r in
      (tbl2, {| e_src := u; e_tgt := v; e_label := None; e_data := ds |} :: out)
  end.

(* GraphMLWriter.add_graph_element: node attributes first, then edge attributes *)
Definition write (g : nxg) : doc :=
  let '(t1, ns) := write_nodes [] (g_nodes g) in
  let '(t2, es) := write_edges t1 (g_edges g) in
  {| d_keys := t2; d_nodes := ns; d_edges := es |}.

(* every text item of a document travels through [ftext] (element text) / [fattr] (attribute) *)
Definition tr_delem (f : str -> option str) (d : delem) : option delem :=
  match f (d_text d) with Some t => Some {| d_key := d_key d; d_text := t |} | None => None end.
Definition tr_attr (f : str -> option str) (a : option str) : option (option str) :=
  match a with
  | None => Some None
  | Some s => match f s with Some t => Some (Some t) | None => None end
  end.
Definition tr_node (ft fa : str -> option str) (n : dnode) : option dnode :=
  match tr_attr fa (n_labels n), opt_list (tr_delem ft) (n_data n) with
  | Some l, Some ds => Some {| n_id := n_id n; n_labels := l; n_data := ds |}
  | _, _ => None
  end.
Definition tr_edge (ft fa : str -> option str) (e : dedge) : option dedge :=
  match tr_attr fa (e_label e), opt_list (tr_delem ft) (e_data e) with
  | Some l, Some ds => Some {| e_src := e_src e; e_tgt := e_tgt e; e_label := l; e_data := ds |}
  | _, _ => None
  end.
Definition transport (ft fa : str -> option str) (d : doc) : option doc :=
  match opt_list (tr_node ft fa) (d_nodes d), opt_list (tr_edge ft fa) (d_edges d) with
  | Some ns, Some es => Some {| d_keys := d_keys d; d_nodes := ns; d_edges := es |}
  | _, _ => None
  end.

(* GraphML.networkx_to_neo4j.  The Class key of a scope: the loop over
   ./g:key[@attr.name="Class"] keeps the LAST match in document order; keys are inserted at the
   front of the document, so that is the first one allocated. *)
Fixpoint find_class_key (sc : scope) (tbl : list kent) : option nat :=
  match tbl with
  | [] => None
  | (n, _, s) :: r => if N.eqb n P_Class && scope_eqb s sc then Some O
                      else match find_class_key sc r with Some i => Some (Datatypes.S i) | None => None end
  end.
(* e.find(f"g:data[@key='{key}']") : first data element with that key; with key None nothing matches *)
Definition find_data (k : option nat) (ds : list delem) : option delem :=
  match k with
  | None => None
  | Some i => find (fun d => Nat.eqb (d_key d) i) ds
  end.
Definition attr_present (a : option str) : bool :=           (* `if not e.attrib.get(..)` *)
  match a with Some (_ :: _) => true | _ => false end.
Definition graphnode_prefix : str := S":GraphNode:".

Definition mark_edge (ek : option nat) (e : dedge) : option dedge :=
  if attr_present (e_label e) then Some e
  else match find_data ek (e_data e) with
       | None => None                                  (* AttributeError: None.text *)
       | Some d => match d_text d with
                   | [] => None                        (* TypeError: set('label', None) *)
                   | t => Some {| e_src := e_src e; e_tgt := e_tgt e; e_label := Some t; e_data := e_data e |}
                   end
       end.
Definition mark_node (nk : option nat) (n : dnode) : option dnode :=
  if attr_present (n_labels n) then Some n
  else match find_data nk (n_data n) with
       | None => None
       | Some d => match d_text d with
                   | [] => None                        (* TypeError: str + None *)
                   | t => Some {| n_id := n_id n; n_labels := Some (graphnode_prefix ++ t); n_data := n_data n |}
                   end
       end.
Definition to_neo4j (d : doc) : option doc :=
  let ek := find_class_key ForEdge (d_keys d) in
  let nk := find_class_key ForNode (d_keys d) in
  match opt_list (mark_edge ek) (d_edges d), opt_list (mark_node nk) (d_nodes d) with
  | Some es, Some ns => Some {| d_keys := d_keys d; d_nodes := ns; d_edges := es |}
  | _, _ => None
  end.

(* serialize_graph(GRAPHML) on an extracted graph: the document a reader of the produced text sees.
   None = the call raises (illegal character, node or edge without usable Class). *)
Definition no_attr (s : str) : option str := Some s.
Definition serialize_graphml (g : nxg) : option doc :=
  match transport text_in no_attr (write g) with
  | None => None
  | Some d1 => match to_neo4j d1 with
               | None => None
               | Some d2 => transport text_out attr_out d2
               end
  end.

(* GraphMLReader.decode_data_elements *)
Definition lower_ascii (s : str) : str :=
  map (fun c => if (65 <=? c)%N && (c <=? 90)%N then (c + 32)%N else c) s.
Definition read_value (ty : vty) (t : str) : option pval :=
  match t with
  | [] => Some (PStr [])                       (* element without text: "" whatever the type *)
  | _ => match ty with
         | TString => Some (PStr t)
         | TLong => match Z_of_str t with Some z => Some (PInt z) | None => None end
         | TBoolean => let l := lower_ascii t in
                       if str_eqb l (S"true") || str_eqb l (S"1") then Some (PBool true)
                       else if str_eqb l (S"false") || str_eqb l (S"0") then Some (PBool false)
                       else None               (* KeyError in convert_bool *)
         | TOther => None                      (* not written by the library: not modelled *)
         end
  end.
Definition decode_delem (tbl : list kent) (d : delem) : option (pname * pval) :=
  match nth_error tbl (d_key d) with
  | Some (n, ty, _) => match read_value ty (d_text d) with Some v => Some (n, v) | None => None end
  | None => None                               (* Bad GraphML data: no key *)
  end.
Definition decode_data (tbl : list kent) (ds : list delem) : option props := opt_list (decode_delem tbl) ds.

Definition read_graphml (d : doc) : option nxg :=
  match opt_list (fun n => match decode_data (d_keys d) (n_data n) with
                           | Some ps => Some (n_id n, ps) | None => None end) (d_nodes d),
        opt_list (fun e => match decode_data (d_keys d) (e_data e) with
                           | Some ps => Some (e_src e, e_tgt e, ps) | None => None end) (d_edges d) with
  | Some ns, Some es => Some {| g_nodes := ns; g_edges := es |}
  | _, _ => None
  end.

(* ------------------------------------------------------------------ node-link JSON, value level *)
Inductive jval := JP (v : pval) | JK (k : nkey).
Definition jobj := list (pname * jval).
Record jdoc := { j_nodes : list jobj; j_links : list jobj }.

Fixpoint jset (k : pname) (v : jval) (o : jobj) : jobj :=       (* {**d, k: v} *)
  match o with
  | [] => [(k, v)]
  | (k', v') :: r => if N.eqb k' k then (k', v) :: r else (k', v') :: jset k v r
  end.
Definition jget (k : pname) (o : jobj) : option jval := lookup k o.
Definition jprops (ps : props) : jobj := map (fun kv => (fst kv, JP (snd kv))) ps.

Definition jwrite (g : nxg) : jdoc :=
  {| j_nodes := map (fun n => jset P_id (JK (fst n)) (jprops (snd n))) (g_nodes g);
     j_links := map (fun e => let '(u, v, ps) := e in
                              jset P_target (JK v) (jset P_source (JK u) (jprops ps))) (g_edges g) |}.

(* the attributes of an object: everything except the structural names; a node key under another
   name does not occur in what node_link_data writes (None = not modelled) *)
Fixpoint junprops (skip : pname -> bool) (o : jobj) : option props :=
  match o with
  | [] => Some []
  | (k, v) :: r => if skip k then junprops skip r
                   else match v, junprops skip r with
                        | JP p, Some ps => Some ((k, p) :: ps)
                        | _, _ => None
                        end
  end.
Definition jread (j : jdoc) : option nxg :=
  match opt_list (fun o => match jget P_id o, junprops (N.eqb P_id) o with
                           | Some (JK k), Some ps => Some (k, ps)
                           | _, _ => None end) (j_nodes j),
        opt_list (fun o => match jget P_source o, jget P_target o,
                                 junprops (fun k => N.eqb P_source k || N.eqb P_target k) o with
                           | Some (JK u), Some (JK v), Some ps => Some (u, v, ps)
                           | _, _, _ => None end) (j_links j) with
  | Some ns, Some es => Some {| g_nodes := ns; g_edges := es |}
  | _, _ => None
  end.

(* ------------------------------------------------------------------ the store *)
Record store := { s_nodes : list gnode; s_edges : list gedge; s_next : N }.
Definition empty_store : store := {| s_nodes := []; s_edges := []; s_next := 1%N |}.

Definition node_gid (ps : props) : option str :=
  match pget P_GraphID ps with Some (PStr s) => Some s | _ => None end.
(* nxq.search_nodes(graphs, {'eq': ['GraphID', gid]}) with gid a str *)
Definition has_gid (gid : str) (n : gnode) : bool :=
  match node_gid (snd n) with Some s => str_eqb s gid | None => false end.
Definition memN (k : N) (l : list N) : bool := existsb (N.eqb k) l.

Definition del_graph (s : store) (gid : str) : store :=
  let dead := map fst (filter (has_gid gid) (s_nodes s)) in
  {| s_nodes := filter (fun n => negb (has_gid gid n)) (s_nodes s);
     s_edges := filter (fun e => let '(u, v, _) := e in negb (memN u dead) && negb (memN v dead)) (s_edges s);
     s_next := s_next s |}.

Definition extract (s : store) (gid : str) : option nxg :=
  match filter (has_gid gid) (s_nodes s) with
  | [] => None
  | ns => let ids := map fst ns in
          Some {| g_nodes := ns;
                  g_edges := filter (fun e => let '(u, v, _) := e in memN u ids && memN v ids) (s_edges s) |}
  end.

(* nx.convert_node_labels_to_integers(graph, first_label) *)
Fixpoint numbering (k : N) (ns : list gnode) : list (nkey * N) :=
  match ns with
  | [] => []
  | (key, _) :: r => (key, k) :: numbering (N.succ k) r
  end.
Definition relabel (first : N) (g : nxg) : option nxg :=
  let m := numbering first (g_nodes g) in
  match opt_list (fun n => match lookup (fst n) m with Some i => Some (i, snd n) | None => None end) (g_nodes g),
        opt_list (fun e => let '(u, v, ps) := e in
                           match lookup u m, lookup v m with
                           | Some a, Some b => Some (a, b, ps)
                           | _, _ => None end) (g_edges g) with
  | Some ns, Some es => Some {| g_nodes := ns; g_edges := es |}
  | _, _ => None              (* an edge end that is not a node: not an nx graph *)
  end.

Definition truthy (v : option pval) : bool :=
  match v with
  | None => false
  | Some (PStr []) => false
  | Some (PInt 0%Z) => false
  | Some (PBool false) => false
  | Some _ => true
  end.

Definition stamp (gid : str) (g : nxg) : nxg :=
  {| g_nodes := map (fun n => (fst n, pset P_GraphID (PStr gid) (snd n))) (g_nodes g);
     g_edges := g_edges g |}.

Definition merge (s : store) (g : nxg) : store :=
  {| s_nodes := s_nodes s ++ g_nodes g;
     s_edges := s_edges s ++ g_edges g;
     s_next := (s_next s + N.of_nat (List.length (g_nodes g)))%N |}.

Inductive res := ROk (gid : str) | RErrImport | RUnsupported.

(* storage.add_graph: effects before the raise (the deletion of the old graph) stay *)
Definition add_graph (s : store) (gid : str) (g : nxg) : store * res :=
  let s1 := if existsb (has_gid gid) (s_nodes s) then del_graph s gid else s in
  match relabel (s_next s1) g with
  | None => (s1, RUnsupported)
  | Some t => if forallb (fun n => truthy (pget P_NodeID (snd n))) (g_nodes t)
              then (merge s1 (stamp gid t), ROk gid)
              else (s1, RErrImport)
  end.

Definition add_graph_direct (s : store) (gid : str) (g : nxg) : store * res :=
  let s1 := if existsb (has_gid gid) (s_nodes s) then del_graph s gid else s in
  match relabel (s_next s1) g with
  | None => (s1, RUnsupported)
  | Some t => (merge s1 t, ROk gid)
  end.

(* ------------------------------------------------------------------ the importer *)
(* a serialized graph as text, structured: which of the two formats it is, or neither *)
Inductive gtext := TGraphML (d : doc) | TJson (j : jdoc) | TGarbage.
Inductive fmt := GraphMLFmt | JsonFmt.

(* _read_from_file with READ_FORMATS = [json_nodelink, graphml]: json.loads rejects GraphML text,
   read_graphml rejects JSON text; any exception moves on to the next format; None at the end *)
Definition read_any (t : gtext) : option nxg :=
  match t with
  | TJson j => jread j
  | TGraphML d => read_graphml d
  | TGarbage => None
  end.
Definition nonempty (g : nxg) : bool := match g_nodes g with [] => false | _ => true end.   (* `if graph:` *)

Definition import_string (s : store) (t : gtext) (gid : str) : store * res :=
  match read_any t with
  | Some g => if nonempty g then add_graph s gid g else (s, RErrImport)
  | None => (s, RErrImport)
  end.

(* ABCGraphImporter.get_graph_id: all nodes must carry one and the same GraphID *)
Fixpoint all_same (x : str) (l : list (option pval)) : res :=
  match l with
  | [] => ROk x
  | Some (PStr y) :: r => if str_eqb x y then all_same x r else RErrImport     (* more than one GraphID *)
  | Some _ :: r => RUnsupported                                             (* non-string GraphID *)
  | None :: _ => RErrImport                                                 (* KeyError *)
  end.
Definition get_graph_id (t : gtext) : res :=
  match read_any t with
  | None => RErrImport
  | Some g => match map (fun n => pget P_GraphID (snd n)) (g_nodes g) with
              | [] => RErrImport                                            (* `if not g` *)
              | Some (PStr x) :: r => all_same x r
              | Some _ :: _ => match forallb (fun o => match o with Some _ => true | None => false end)
                                             (map (fun n => pget P_GraphID (snd n)) (g_nodes g)) with
                               | true => RUnsupported | false => RErrImport end
              | None :: _ => RErrImport
              end
  end.

Definition import_string_direct (s : store) (t : gtext) : store * res :=
  match get_graph_id t with
  | ROk gid => match read_any t with
               | Some g => if nonempty g then add_graph_direct s gid g else (s, RErrImport)
               | None => (s, RErrImport)
               end
  | r => (s, r)
  end.

(* Topology.serialize(file_name) / open(file,'r').read(): the text, with universal newlines on the way
   back; the effect on text items is part of text_out, so the structured text is unchanged *)
Definition file_trip (t : gtext) : gtext := t.
Definition import_file (s : store) (t : gtext) (gid : str) : store * res := import_string s (file_trip t) gid.
Definition import_file_direct (s : store) (t : gtext) : store * res := import_string_direct s (file_trip t).

Inductive entry := EString | EStringDirect | EFile | EFileDirect.
Definition import_via (ep : entry) (s : store) (t : gtext) (gid : str) : store * res :=
  match ep with
  | EString => import_string s t gid
  | EStringDirect => import_string_direct s t
  | EFile => import_file s t gid
  | EFileDirect => import_file_direct s t
  end.

(* serialize of a graph value / of a stored graph.  Outer None: graph absent (the call returns None);
   inner None: the call raises *)
Definition serialize (f : fmt) (g : nxg) : option gtext :=
  match f with
  | GraphMLFmt => match serialize_graphml g with Some d => Some (TGraphML d) | None => None end
  | JsonFmt => Some (TJson (jwrite g))
  end.
Definition serialize_graph (s : store) (gid : str) (f : fmt) : option (option gtext) :=
  match extract s gid with
  | None => None
  | Some g => Some (serialize f g)
  end.

(* ------------------------------------------------------------------ observables *)
(* the content of a graph without its internal node keys: attribute dicts, and edges by the NodeID of
   their ends *)
Definition node_id_of (g : nxg) (k : nkey) : option pval :=
  match lookup k (g_nodes g) with Some ps => pget P_NodeID ps | None => None end.
Definition cedge := (option pval * option pval * props)%type.
Definition content (g : nxg) : list props * list cedge :=
  (map snd (g_nodes g),
   map (fun e => let '(u, v, ps) := e in (node_id_of g u, node_id_of g v, ps)) (g_edges g)).

(* the expected content after an import that stamps a new graph id *)
Definition restamp (gid : str) (g : nxg) : nxg := stamp gid g.

(* validate_graph: every JSON-carrying property parses ([jsonok], any predicate) and every node and
   edge has a Class *)
Definition validate (jsonok : pname -> pval -> bool) (g : nxg) : bool :=
  forallb (fun n => forallb (fun kv => jsonok (fst kv) (snd kv)) (snd n)
                    && match pget P_Class (snd n) with Some _ => true | None => false end) (g_nodes g)
  && forallb (fun e => match pget P_Class (snd e) with Some _ => true | None => false end) (g_edges g).

(* ------------------------------------------------------------------ well-formedness *)
Fixpoint nodupN (l : list N) : bool :=
  match l with [] => true | x :: r => negb (memN x r) && nodupN r end.

Definition val_legal (v : pval) : bool := match v with PStr s => xml_legal s | _ => true end.
Definition props_ok (ps : props) : bool :=
  nodupN (map fst ps) && forallb (fun kv => val_legal (snd kv)) ps.
Definition class_ok (ps : props) : bool :=
  match pget P_Class ps with Some (PStr (_ :: _)) => true | _ => false end.
(* every occurrence of Class in the graph is a string (so each scope has one Class key) *)
Definition class_str (ps : props) : bool :=
  forallb (fun kv => negb (N.eqb (fst kv) P_Class) || match snd kv with PStr _ => true | _ => false end) ps.

(* an nx graph the library can hold and serialize to GraphML: node keys distinct, edge ends are nodes,
   dict keys distinct, strings XML-legal, every node and edge has a non-empty string Class *)
Definition graph_wf (g : nxg) : bool :=
  nodupN (map fst (g_nodes g))
  && forallb (fun e => let '(u, v, _) := e in memN u (map fst (g_nodes g)) && memN v (map fst (g_nodes g))) (g_edges g)
  && forallb (fun n => props_ok (snd n) && class_ok (snd n) && class_str (snd n)) (g_nodes g)
  && forallb (fun e => props_ok (snd e) && class_ok (snd e) && class_str (snd e)) (g_edges g).
(* additionally importable through add_graph: every node has a non-empty NodeID *)
Definition graph_ids_ok (g : nxg) : bool :=
  forallb (fun n => truthy (pget P_NodeID (snd n))) (g_nodes g).
(* node-link JSON keeps a dict as it is unless it uses the structural names *)
Definition graph_json_ok (g : nxg) : bool :=
  forallb (fun n => negb (memN P_id (map fst (snd n)))) (g_nodes g)
  && forallb (fun e => negb (memN P_source (map fst (snd e))) && negb (memN P_target (map fst (snd e)))) (g_edges g).

(* the store invariant the allocation of internal ids maintains *)
Definition store_wf (s : store) : bool :=
  nodupN (map fst (s_nodes s))
  && forallb (fun n => N.ltb (fst n) (s_next s)) (s_nodes s)
  && forallb (fun e => let '(u, v, _) := e in memN u (map fst (s_nodes s)) && memN v (map fst (s_nodes s))) (s_edges s).

(* the label markup of a document, checked on the document itself: every node carries
   labels = ":GraphNode:" ++ (text of its Class data), every edge label = (text of its Class data) *)
Definition class_text (tbl : list kent) (ds : list delem) : option str :=
  match find (fun d => match nth_error tbl (d_key d) with
                       | Some (n, _, _) => N.eqb n P_Class | None => false end) ds with
  | Some d => Some (d_text d)
  | None => None
  end.
Definition labels_ok (d : doc) : bool :=
  forallb (fun n => match n_labels n, class_text (d_keys d) (n_data n) with
                    | Some l, Some c => str_eqb l (graphnode_prefix ++ c) | _, _ => false end) (d_nodes d)
  && forallb (fun e => match e_label e, class_text (d_keys d) (e_data e) with
                       | Some l, Some c => str_eqb l c | _, _ => false end) (d_edges d).

(* ------------------------------------------------------------------ vocabulary of the theorems *)
Definition is_direct (ep : entry) : bool :=
  match ep with EStringDirect | EFileDirect => true | EString | EFile => false end.
(* node keys distinct and edge ends are nodes: what every nx graph satisfies *)
Definition graph_shape (g : nxg) : bool :=
  nodupN (map fst (g_nodes g))
  && forallb (fun e => let '(u, v, _) := e in memN u (map fst (g_nodes g)) && memN v (map fst (g_nodes g))) (g_edges g).
(* the precondition of a format *)
Definition fmt_ok (f : fmt) (g : nxg) : bool :=
  match f with GraphMLFmt => graph_wf g | JsonFmt => graph_shape g && graph_json_ok g end.
Definition text_graph (t : gtext) : option nxg := read_any t.       (* the graph a text denotes *)

(* one load into the store (storage.add_graph / storage.add_graph_direct), result dropped *)
Definition load_op (s : store) (x : bool * str * nxg) : store :=
  let '(direct, gid, g) := x in
  fst (if direct then add_graph_direct s gid g else add_graph s gid g).

(* ------------------------------------------------------------------ example data (non-vacuity Examples of Properties/C01.v) *)
Definition ex_graph : nxg :=
  {| g_nodes :=
       [(7%N, [(P_NodeID, PStr (S"n1 <&> ""q"" '")); (P_Class, PStr (S"NetworkNode")); (P_GraphID, PStr (S"g"));
               (10%N, PStr [32; 233; 8232; 128512; 38; 35; 49; 51; 59; 32]%N); (11%N, PStr []);
               (12%N, PInt (-7)); (13%N, PBool true)]);
        (9%N, [(P_GraphID, PStr (S"g")); (P_NodeID, PStr (S"n2")); (P_Class, PStr (S"Component"));
               (10%N, PInt 100000000000000000000); (11%N, PStr [9; 13; 10; 93; 93; 62; 13]%N)])];
     g_edges := [(9%N, 7%N, [(P_Class, PStr (S"has")); (10%N, PStr (S"<!-- -->"))])] |}.
Definition ex_other : nxg :=
  {| g_nodes := [(1%N, [(P_GraphID, PStr (S"other")); (P_NodeID, PStr (S"x")); (P_Class, PStr (S"Link"))])]; g_edges := [] |}.
Definition ex_store : store :=
  fst (add_graph_direct (fst (add_graph_direct empty_store (S"other") ex_other)) (S"g") ex_graph).


(* example data: a store with a cross-graph link (Example C01_cross_link_example) *)
Definition ex_cross_store : store :=
  fst (add_graph_direct empty_store (S"g")
         {| g_nodes := g_nodes ex_graph ++ [(20%N, snd (hd (0%N, []) (g_nodes ex_other)))];
            g_edges := g_edges ex_graph ++ [(7%N, 20%N, [(P_Class, PStr (S"connects"))])] |}).
